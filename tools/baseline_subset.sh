#!/bin/bash
# tools/baseline_subset.sh <repo dir> <pkg...> : run packages' tests (guard off) and compare with BASELINE stable_pass
repo=$1; shift
export PATH=/opt/veriftools/go1.27.0/bin:$PATH GOTOOLCHAIN=local GOFLAGS=-mod=mod GOPROXY=off GOSUMDB=off
cd $repo
go test -json -vet=off -count=1 -timeout 40m -p 4 "$@" > /tmp/baseline_subset.json 2>/dev/null
python3 - <<'P'
import json
fails=set();passes=set();pk=set()
for l in open('/tmp/baseline_subset.json'):
    try: e=json.loads(l)
    except: continue
    if e.get('Package'): pk.add(e['Package'])
    if e.get('Test') and e.get('Action') in('fail','pass'):
        (fails if e['Action']=='fail' else passes).add(e['Package']+'::'+e['Test'])
sp=set(json.load(open('/root/.vp/BASELINE.json'))['stable_pass'])
rel=[t for t in sp if t.split('::')[0] in pk]
print('packages',len(pk),'passes',len(passes),'fails',len(fails))
print('stable_pass tests in these packages:',len(rel),'of which not passed now:',sorted(t for t in rel if t not in passes)[:40])
P
