#!/bin/sh
# tools/integrate.sh <Cnn> : copy a contributor's files from /tmp/vw/<Cnn> into /verif, never overwriting shared
# framework files (differences in those are only listed).
set -e
id=$1
src=/tmp/vw/$id
cd /verif
SHARED="lib/ check setup.sh HOWTO.md DESIGN.md MANIFEST.json properties.jsonl lean/Driver/Stream.lean lean/Driver/Main.lean lean/Obao/Model/Prelude.lean lean/Obao.lean lean/lakefile.toml lean/lake-manifest.json harness/vh/vh.go harness/wb/vault/zz_verif_common_test.go tools/mkmanifest.py tools/gen_driver_main.py tools/integrate.sh .gitignore"
EXC="--exclude .git --exclude .work --exclude replays --exclude lean/.lake --exclude __pycache__ --exclude evidence"
for s in $SHARED; do EXC="$EXC --exclude /$s"; done
echo "== files to copy:"
rsync -rcn --out-format='%n' $EXC $src/ /verif/ | grep -v '/$' || true
echo "== shared files that differ (NOT copied):"
for s in $SHARED; do
  if [ -e "$src/$s" ]; then
    if [ -d "$src/$s" ]; then diff -rq "$src/$s" "/verif/$s" 2>/dev/null | grep -v __pycache__ || true
    else cmp -s "$src/$s" "/verif/$s" || echo "differs: $s"; fi
  fi
done
if [ "$2" = "--apply" ]; then
  rsync -rc $EXC $src/ /verif/
  python3 tools/gen_driver_main.py
  echo applied
fi
