#!/bin/bash
# tools/integrate.sh <Cnn> [--apply]: copy a contributor's files from /tmp/vw/<Cnn> into /verif.
# Skipped: shared framework files (listed when they differ) and files whose content equals SOME committed
# version in /verif's history (= the contributor did not touch them; their copy is merely older).
id=$1
src=/tmp/vw/$id
cd /verif
SHARED="lib/ check setup.sh HOWTO.md DESIGN.md MANIFEST.json properties.jsonl known_findings.json lean/Driver/Stream.lean lean/Driver/Main.lean lean/Obao/Model/Prelude.lean lean/Obao.lean lean/lakefile.toml lean/lake-manifest.json harness/vh/vh.go harness/wb/vault/zz_verif_common_test.go tools/ .gitignore notes/ seeded/"
EXC="--exclude .git --exclude .work --exclude replays --exclude lean/.lake --exclude __pycache__ --exclude evidence --exclude lean/Obao/Gen"
for s in $SHARED; do EXC="$EXC --exclude /$s"; done
files=$(rsync -rcn --out-format='%n' $EXC $src/ /verif/ | grep -v '/$')
copy=""
for f in $files; do
  h=$(git hash-object "$src/$f")
  if git cat-file -e "$h" 2>/dev/null; then echo "stale (skipped): $f"; else copy="$copy $f"; fi
done
echo "== files to copy:"; for f in $copy; do echo "  $f"; done
echo "== shared files that differ (NOT copied):"
for s in $SHARED; do
  if [ -e "$src/$s" ]; then
    if [ -d "$src/$s" ]; then diff -rq "$src/$s" "/verif/$s" 2>/dev/null | grep -v __pycache__ | grep -v "^Only in /verif" || true
    else cmp -s "$src/$s" "/verif/$s" || echo "differs: $s"; fi
  fi
done
if [ "$2" = "--apply" ]; then
  for f in $copy; do mkdir -p "$(dirname "/verif/$f")"; cp "$src/$f" "/verif/$f"; done
  if [ -f REPORT-$id.md ]; then mkdir -p notes/reports; mv REPORT-$id.md notes/reports/; fi
  python3 tools/gen_driver_main.py
  echo applied
fi
