#!/usr/bin/env python3
"""tools/selftest.py [Cnn ...] : run every stored property-breaking change (mutants/<Cnn>/*.patch written while
building the checks, seeded/<Cnn>-<n>/patch.diff written by independent sub-agents) against its check, each in a
scratch git worktree of /repo (VERIF_REPO), and record how it was reported.  Results: notes/selftest.json.
The unchanged tree is expected to exit 0; every change is expected to end in a VIOLATION line."""
import glob, json, os, re, subprocess, sys, time
ROOT = os.path.dirname(os.path.dirname(os.path.abspath(__file__)))
want = set(sys.argv[1:])
res_path = os.path.join(ROOT, "notes", "selftest.json")
results = json.load(open(res_path)) if os.path.exists(res_path) else {}
items = []
for p in sorted(glob.glob(os.path.join(ROOT, "mutants", "C*", "*.patch"))):
    pid = os.path.basename(os.path.dirname(p))
    if os.path.basename(p).startswith("FIX-"):
        continue
    items.append((pid, os.path.relpath(p, ROOT)))
for p in sorted(glob.glob(os.path.join(ROOT, "seeded", "C*", "patch.diff"))):
    pid = os.path.basename(os.path.dirname(p)).split("-")[0]
    items.append((pid, os.path.relpath(p, ROOT)))
for pid, patch in items:
    if want and pid not in want:
        continue
    wt = "/tmp/selftest-%s-%d" % (pid, os.getpid())
    subprocess.run(["git", "-C", "/repo", "worktree", "add", "--detach", wt], capture_output=True)
    try:
        ap = subprocess.run(["git", "-C", wt, "apply", os.path.join(ROOT, patch)], capture_output=True, text=True)
        if ap.returncode != 0:
            results[patch] = {"property": pid, "status": "patch-does-not-apply", "detail": ap.stderr[-300:]}
            continue
        env = dict(os.environ, VERIF_REPO=wt, VERIF_ALLOW_DIRTY="1")
        t0 = time.time()
        r = subprocess.run([os.path.join(ROOT, "check"), pid], cwd=ROOT, env=env, capture_output=True, text=True)
        lines = [l for l in r.stdout.split("\n") if l.startswith("VIOLATION") or l.startswith("KNOWN-FINDING")]
        viol = [l for l in lines if l.startswith("VIOLATION")]
        kind = "missed"
        if viol:
            kind = "no-failing-input-found" if all("no-failing-input-found" in l for l in viol) else "concrete-input"
        what = ""
        m = re.search(r"replay=(\S+)", viol[0]) if viol else None
        if m and os.path.exists(m.group(1)):
            d = json.load(open(m.group(1)))
            what = d.get("what") or ";".join(b.get("name", "") for b in d.get("broken", [])[:3])
        results[patch] = {"property": pid, "status": kind, "exit": r.returncode, "what": what[:300],
                          "wall_s": round(time.time() - t0, 1)}
        print(patch, "->", kind, what[:100], flush=True)
    finally:
        subprocess.run(["git", "-C", "/repo", "worktree", "remove", "--force", wt], capture_output=True)
os.makedirs(os.path.dirname(res_path), exist_ok=True)
json.dump(results, open(res_path, "w"), indent=1, sort_keys=True)
# the Gen files were regenerated from the scratch worktrees: restore them from /repo
subprocess.run(["python3", "-c", "import sys; sys.path.insert(0, %r); from lib import core; core.regenerate()" % ROOT])
