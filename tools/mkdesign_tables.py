#!/usr/bin/env python3
"""Regenerate the generated regions of DESIGN.md: the current findings table (from known_findings.json), the
seeded-changes table (from seeded/*/meta.json + notes/selftest.json) and the per-property status table (from
MANIFEST.json + evidence/*.json)."""
import glob, json, os, re
ROOT = os.path.dirname(os.path.dirname(os.path.abspath(__file__)))
p = os.path.join(ROOT, "DESIGN.md")
s = open(p).read()

def region(name, body):
    global s
    b, e = "<!-- %s:BEGIN -->" % name, "<!-- %s:END -->" % name
    if b not in s:
        raise SystemExit("marker %s missing" % name)
    i, j = s.index(b) + len(b), s.index(e)
    s = s[:i] + "\n" + body.rstrip() + "\n" + s[j:]

kf = json.load(open(os.path.join(ROOT, "known_findings.json")))
def num(i):
    m = re.match(r"F(\d+)", i); return int(m.group(1)) if m else 999
rows = ["| id | prop | signature | what fails |", "|----|------|-----------|------------|"]
for f in sorted(kf["findings"], key=lambda f: num(f["id"])):
    rows.append("| %s | %s | `%s` | %s |" % (f["id"], f["property"], f["signature"], f["what"].replace("|", "\\|")))
rows.append("")
rows.append("Repaired by `fix:` commits in /repo (entries suppress nothing; the predicates stay armed):")
rows.append("")
for f in kf["fixed"]:
    rows.append("* " + f)
region("FINDINGS", "\n".join(rows))

st = {}
pth = os.path.join(ROOT, "notes", "selftest.json")
if os.path.exists(pth):
    st = json.load(open(pth))
rows = ["| seeded change | property | needs, to manifest | how the checks report it |", "|---|---|---|---|"]
for d in sorted(glob.glob(os.path.join(ROOT, "seeded", "C*"))):
    m = json.load(open(os.path.join(d, "meta.json")))
    name = os.path.basename(d)
    notes = open(os.path.join(d, "notes.md")).read().strip().split("\n")
    title = next((l.lstrip("# ").strip() for l in notes if l.startswith("#")), name)
    rep = m.get("detected_by_check", "")
    r = st.get("seeded/%s/patch.diff" % name)
    if r:
        rep += " [selftest: %s%s]" % (r["status"], (": " + r["what"][:90]) if r.get("what") else "")
    rows.append("| `seeded/%s` %s | %s | %s | %s |" % (name, title.replace("|", "/"), m["property"], m["needs_to_manifest"].replace("|", "/"), rep.replace("|", "/")))
region("SEEDED", "\n".join(rows))

man = json.load(open(os.path.join(ROOT, "MANIFEST.json")))
rows = ["| id | theorems (obligations) | streams: evaluations (distinct non-trivial) | known findings hit | quick wall |", "|---|---|---|---|---|"]
for c in man["checks"]:
    pid = c["property_id"]
    ev = os.path.join(ROOT, "evidence", pid + ".json")
    if not os.path.exists(ev):
        rows.append("| %s | - | - | - | - |" % pid); continue
    e = json.load(open(ev)); cv = e["coverage"]
    streams = "; ".join("%s: %d (%d)" % (k, v.get("evaluations", 0), v.get("distinct_nontrivial", 0)) for k, v in cv.get("streams", {}).items())
    rows.append("| %s | %d/%d | %s | %s | %.0f s |" % (pid, cv["discharged"], cv["obligations"], streams, ", ".join(cv.get("known_findings_hit", [])) or "-", e["wall_s"]))
for n in man.get("not_applicable", []):
    rows.append("| %s | not claimed: %s | | | |" % (n["property_id"], n["reason"]))
region("STATUS", "\n".join(rows))
# Appendix C: theorems as built
import importlib, sys
sys.path.insert(0, ROOT)
out = []
for c in man["checks"]:
    pid = c["property_id"]
    try:
        chk = importlib.import_module("props." + pid).CHECK
    except Exception:
        continue
    mods = chk.lean_modules or [pid]
    out.append("### %s" % pid)
    out.append("")
    out.append("*Claim:* " + c["level_claimed"]["text"])
    out.append("")
    out.append("*Streams:* " + "; ".join("`%s` (driver `%s`)" % (st.name, st.driver) for st in chk.streams))
    out.append("")
    for m in mods:
        f = os.path.join(ROOT, "lean", "Obao", "Props", m + ".lean")
        if not os.path.exists(f):
            continue
        txt = open(f).read()
        for mm in re.finditer(r"(/--(.*?)-/\s*)?(?:@\[[^\]]*\]\s*)?theorem\s+([A-Za-z0-9_'.]+)", txt, re.S):
            doc = (mm.group(2) or "").strip().replace("\n", " ")
            doc = re.sub(r"\s+", " ", doc)
            if len(doc) > 260:
                doc = doc[:257] + "..."
            out.append("* `%s.%s` — %s" % (m, mm.group(3), doc or "(see source)"))
    out.append("")
region("THEOREMS", "\n".join(out))
open(p, "w").write(s)
print("DESIGN.md tables regenerated")
