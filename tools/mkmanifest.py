#!/usr/bin/env python3
"""Regenerate /verif/MANIFEST.json from the per-property check modules (props/Cnn.py)."""
import importlib, json, os, sys
ROOT = os.path.dirname(os.path.dirname(os.path.abspath(__file__)))
sys.path.insert(0, ROOT)
ids = [json.loads(l)["id"] for l in open(os.path.join(ROOT, "properties.jsonl"))]
checks, na, served = [], [], []
pending = json.load(open(os.path.join(ROOT, "tools", "pending.json"))) if os.path.exists(os.path.join(ROOT, "tools", "pending.json")) else {}
claimed = set(open(os.path.join(ROOT, "tools", "claimed.txt")).read().split())
for pid in ids:
    if pid not in claimed or not os.path.exists(os.path.join(ROOT, "props", pid + ".py")):
        na.append({"property_id": pid, "reason": pending.get(pid, "check not built yet (the technique applies; see DESIGN.md section 5)")})
        continue
    c = importlib.import_module("props." + pid).CHECK
    served.append(pid)
    checks.append({
        "property_id": pid,
        "quick_cmd": "./check %s --tier quick" % pid,
        "thorough_cmd": "./check %s --tier thorough" % pid,
        "evidence_file": "/verif/evidence/%s.json" % pid,
        "replay_cmd_template": "./check %s --replay {path}" % pid,
        "engine": "lean-proof+correspondence",
        "level_claimed": {"category": "proof", "text": c.level_text, "design_ref": "DESIGN.md section 5, " + pid},
        "level_note": c.level_note,
        "technique": c.technique,
    })
m = {
    "version": 1,
    "setup_cmd": "./setup.sh",
    "hooks": {
        "guard": "verif",
        "enable": "go test -c -tags verif -overlay <.work/overlay-*.json> (harness files live in /verif/harness, carry //go:build verif, and are mapped into the module by the build overlay; nothing is added to /repo)",
        "baseline_off_cmd": "for m in $(cat /w/out/gomods.txt); do MF=$(cd /repo/$m && . /w/out/goenv.sh && gomodflag); (cd /repo/$m && go test $MF -json -vet=off -count=1 -timeout 25m ./...); done",
        "source_commits": json.load(open(os.path.join(ROOT, "tools", "source_commits.json"))) if os.path.exists(os.path.join(ROOT, "tools", "source_commits.json")) else [],
        "add_only": True,
    },
    "engines": [{
        "name": "lean-proof+correspondence", "path": "/verif/check", "serves_properties": served,
        "kind_free_text": "Lean 4 theorems over executable models (lean/Obao, kernel-checked, axiom-audited), tied to /repo on every run by differential line-protocol harnesses (Go, built from the working tree through go build overlays) and regenerated fact tables",
    }],
    "checks": checks,
    "notes": "Approach, per-property models/theorems/ties, trusted base and findings: DESIGN.md. Known findings: known_findings.json.",
    "not_applicable": na,
}
json.dump(m, open(os.path.join(ROOT, "MANIFEST.json"), "w"), indent=1)
print("checks:", served, "not_applicable:", [x["property_id"] for x in na])
