#!/bin/sh
# all 20 quick checks of /verif against /repo itself (refreshes evidence/*.json)
cd /verif
for i in 01 02 03 04 05 06 07 08 09 10 11 12 13 14 15 16 17 18 19 20; do
  ./check C$i ${TIER:+--tier $TIER} > .work/runall-C$i.log 2>&1
  echo "C$i rc=$? $(grep -c '^VIOLATION' .work/runall-C$i.log) $(grep '^\[check\] C' .work/runall-C$i.log | tail -1 | cut -c1-120)"
done
