#!/bin/sh
# seeds sweep: quick tier of every check for several seeds on the unchanged tree. The checks run against a PRIVATE
# worktree of /repo's HEAD (so that work going on in /repo meanwhile does not disturb the sweep); SEEDS / CHECKS / TIER
# override the defaults.
./setup.sh > setup.log 2>&1 || { echo SETUP-FAILED; tail -20 setup.log; exit 1; }
wt=/tmp/sweep-wt-$$
git -C /repo worktree add --detach $wt > /dev/null 2>&1 || { echo WORKTREE-FAILED; exit 1; }
trap "git -C /repo worktree remove --force $wt" EXIT
echo "sweep against $(git -C $wt rev-parse --short HEAD)"
for s in ${SEEDS:-2 3 4 5 6 7}; do
  for i in ${CHECKS:-01 02 03 04 05 06 07 08 09 10 11 12 13 14 15 16 17 18 19 20}; do
    VERIF_REPO=$wt VERIF_SEED=$s ./check C$i ${TIER:+--tier $TIER} > out-$s-C$i.log 2>&1
    echo "seed=$s C$i rc=$? $(grep -c '^VIOLATION' out-$s-C$i.log) $(grep '^VIOLATION' out-$s-C$i.log | head -2 | tr '\n' ' ')"
  done
done
