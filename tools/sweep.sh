#!/bin/sh
# seeds sweep: quick tier of every check for several seeds on the unchanged tree
./setup.sh > setup.log 2>&1 || { echo SETUP-FAILED; tail -20 setup.log; exit 1; }
for s in 2 3 4 5 6 7; do
  for i in 01 02 03 04 05 06 07 08 09 10 11 12 13 14 15 16 17 18 19 20; do
    VERIF_SEED=$s ./check C$i > out-$s-C$i.log 2>&1
    echo "seed=$s C$i rc=$? $(grep -c '^VIOLATION' out-$s-C$i.log) $(grep '^VIOLATION' out-$s-C$i.log | head -2 | tr '\n' ' ')"
  done
done
