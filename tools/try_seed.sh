#!/bin/bash
# tools/try_seed.sh <patch.diff> <Cnn> [more Cnn ...] : run checks against a seeded change in a fresh scratch worktree
patch=$1; shift
wt=/tmp/try-$$
git -C /repo worktree add --detach $wt >/dev/null 2>&1 || exit 2
trap "git -C /repo worktree remove --force $wt" EXIT
git -C $wt apply $patch || { echo PATCH-DOES-NOT-APPLY; exit 1; }
for c in "$@"; do
  VERIF_REPO=$wt VERIF_ALLOW_DIRTY=1 /verif/check $c ${TIER:+--tier $TIER} > /tmp/try-$c-$$.log 2>&1
  echo "== $c rc=$?"
  grep -h "^VIOLATION\|^KNOWN-FINDING\|^\[check\] C" /tmp/try-$c-$$.log | cut -c1-220
  for r in $(grep -o "replay=[^ ]*" /tmp/try-$c-$$.log | cut -d= -f2 | head -2); do
    python3 - $r <<'P'
import json,sys
d=json.load(open(sys.argv[1]))
print("   replay:", d.get("kind"), "|", str(d.get("what"))[:300], "| sig:", d.get("signature"), "| stream:", d.get("stream"))
if d.get("broken"):
    for b in d["broken"][:3]: print("   broken:", b.get("kind"), b.get("stream"), b.get("name"), str(b.get("op"))[:150], "impl=",str(b.get("impl"))[:100], "model=",str(b.get("model"))[:100])
P
  done
done
