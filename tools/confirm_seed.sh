#!/bin/bash
# tools/confirm_seed.sh <seed dir (/tmp/seed/Cnn)> <module dir rel. to worktree ('.' or sdk)> <package> [existing-test -run regex]
# Confirms a seeded change independently, in a FRESH scratch worktree of /repo:
#   1. patch applies and the module builds; 2. the package's existing tests pass with the change;
#   3. the demonstration fails with the change; 4. the demonstration passes without it.
set -u
seed=$1; mod=$2; pkg=$3; runre=${4:-}
export PATH=/opt/veriftools/go1.27.0/bin:$PATH GOTOOLCHAIN=local GOFLAGS=-mod=mod GOPROXY=off GOSUMDB=off
wt=/tmp/confirm-$(basename $seed)-$$
git -C /repo worktree add --detach $wt >/dev/null 2>&1 || exit 2
trap "git -C /repo worktree remove --force $wt" EXIT
cd $wt
git apply $seed/out/patch.diff || { echo "PATCH-DOES-NOT-APPLY"; exit 1; }
(cd $mod && go build ./... ) || { echo "BUILD-FAILS"; exit 1; }
echo "== existing tests with the change"
if [ -n "$runre" ]; then (cd $mod && go test -count=1 -p 4 -run "$runre" $pkg 2>&1 | tail -5); else (cd $mod && go test -count=1 -p 4 $pkg 2>&1 | tail -5); fi
echo "== demo with the change (expected: FAIL)"
sh $seed/out/demo/run.sh $wt 2>&1 | tail -8
echo "demo exit with change: ${PIPESTATUS[0]}"
git checkout -- . 
git status --short | head -5
echo "== demo without the change (expected: PASS)"
sh $seed/out/demo/run.sh $wt 2>&1 | tail -5
echo "demo exit without change: ${PIPESTATUS[0]}"
git checkout -- . 2>/dev/null
