#!/bin/bash
# tools/seed_existing.sh <seed dir> <module dir> <package> [-run regex] : existing tests WITH the seeded change; lists
# failing tests and whether they belong to the baseline's stable_pass set (only those count).
seed=$1; mod=$2; pkg=$3; runre=${4:-}
export PATH=/opt/veriftools/go1.27.0/bin:$PATH GOTOOLCHAIN=local GOFLAGS=-mod=mod GOPROXY=off GOSUMDB=off
wt=/tmp/existing-$(basename $seed)-$$
git -C /repo worktree add --detach $wt >/dev/null 2>&1 || exit 2
trap "git -C /repo worktree remove --force $wt" EXIT
cd $wt && git apply $seed/out/patch.diff || { echo PATCH-DOES-NOT-APPLY; exit 1; }
cd $mod
if [ -n "$runre" ]; then go test -count=1 -p 4 -json -run "$runre" $pkg > /tmp/existing-$$.json 2>/dev/null; else go test -count=1 -p 4 -json $pkg > /tmp/existing-$$.json 2>/dev/null; fi
python3 - /tmp/existing-$$.json <<'P'
import json,sys
fails=set();passes=set()
for l in open(sys.argv[1]):
    try: e=json.loads(l)
    except: continue
    if e.get('Test') and e.get('Action') in('fail','pass'):
        (fails if e['Action']=='fail' else passes).add(e['Package']+'::'+e['Test'])
sp=set(json.load(open('/root/.vp/BASELINE.json'))['stable_pass'])
print('passes',len(passes),'fails',sorted(fails))
print('failing tests that are in stable_pass:',sorted(f for f in fails if f in sp))
P
rm -f /tmp/existing-$$.json
