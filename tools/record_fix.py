#!/usr/bin/env python3
"""tools/record_fix.py <Fnn> <Cnn> <commit> <mutant path or -> <signature> <text...> : record a repaired defect
(known_findings.json "fixed" + tools/source_commits.json). Never called by a check."""
import json, sys
fid, pid, commit, mutant, sig = sys.argv[1:6]
text = " ".join(sys.argv[6:])
p = '/verif/known_findings.json'
d = json.load(open(p))
line = "fixed: property=%s %s %s (%s, signature %s; found by a defect-hunting sub-agent given only the property text, reproduced on the unchanged tree%s)" % (
    pid, commit, text, fid, sig, "; regression mutant " + mutant if mutant != "-" else "")
assert not any((" " + commit + " ") in x for x in d['fixed']), "already recorded"
d['fixed'].append(line)
json.dump(d, open(p, 'w'), indent=1, ensure_ascii=False)
p = '/verif/tools/source_commits.json'
s = json.load(open(p))
if commit not in s:
    s.append(commit)
json.dump(s, open(p, 'w'), indent=1)
print(line)
