#!/bin/bash
# tools/keep_seed.sh <Cnn> <n> '<needs>' '<ran>' '<detected-by>' : store a confirmed seeded change under /verif/seeded/<Cnn>-<n>/
set -e
id=$1; n=$2; needs=$3; ran=$4; det=$5
d=/verif/seeded/$id-$n
mkdir -p $d
cp ${SEEDBASE:-/tmp/seed}/$id/out/patch.diff $d/patch.diff
rm -rf $d/demo; cp -r ${SEEDBASE:-/tmp/seed}/$id/out/demo $d/demo
cp ${SEEDBASE:-/tmp/seed}/$id/out/notes.md $d/notes.md
python3 - "$id" "$needs" "$ran" "$det" "$d" <<'P'
import json,sys
id,needs,ran,det,d=sys.argv[1:]
json.dump({"property":id,"breaks":"see notes.md","needs_to_manifest":needs,"confirmed_by":ran,"detected_by_check":det},open(d+"/meta.json","w"),indent=1)
P
git -C /repo worktree remove --force ${SEEDBASE:-/tmp/seed}/$id/wt 2>/dev/null || true
echo kept $d
