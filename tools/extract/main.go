// Command extract regenerates lean/Obao/Gen/*.lean from /repo's current source (T-gen, DESIGN.md section 1).
// It is a deliberately tiny translator (go/parser + go/ast, standard library only): finite tables and
// straight-line uint8 code. Anything whose shape it does not recognise makes it fail loudly, which the
// check reports as a broken tie.
//
//	extract <repo root> <output dir>
package main

import (
	"fmt"
	"go/ast"
	"go/parser"
	"go/token"
	"os"
	"path/filepath"
	"sort"
	"strconv"
	"strings"
)

func die(format string, a ...any) {
	fmt.Fprintf(os.Stderr, "extract: "+format+"\n", a...)
	os.Exit(1)
}

func parse(path string) (*token.FileSet, *ast.File) {
	fset := token.NewFileSet()
	f, err := parser.ParseFile(fset, path, nil, 0)
	if err != nil {
		die("parse %s: %v", path, err)
	}
	return fset, f
}

func funcDecl(f *ast.File, name string) *ast.FuncDecl {
	for _, d := range f.Decls {
		if fd, ok := d.(*ast.FuncDecl); ok && fd.Name.Name == name && fd.Recv == nil {
			return fd
		}
	}
	die("function %s not found", name)
	return nil
}

// u8 translates a Go uint8 expression into Lean over Nat with explicit wrap-around.
func u8(e ast.Expr) string {
	switch x := e.(type) {
	case *ast.Ident:
		return x.Name
	case *ast.BasicLit:
		v, err := strconv.ParseInt(x.Value, 0, 64)
		if err != nil {
			die("literal %s", x.Value)
		}
		return strconv.FormatInt(v, 10)
	case *ast.ParenExpr:
		return u8(x.X)
	case *ast.UnaryExpr:
		if x.Op == token.SUB {
			return "((256 - " + u8(x.X) + ") % 256)"
		}
	case *ast.BinaryExpr:
		a, b := u8(x.X), u8(x.Y)
		switch x.Op {
		case token.SHR:
			return "(" + a + " >>> " + b + ")"
		case token.AND:
			return "(" + a + " &&& " + b + ")"
		case token.XOR:
			return "(" + a + " ^^^ " + b + ")"
		case token.OR:
			return "(" + a + " ||| " + b + ")"
		case token.ADD:
			return "((" + a + " + " + b + ") % 256)"
		}
	}
	die("unsupported uint8 expression %T", e)
	return ""
}

func write(outDir, name, content string) {
	p := filepath.Join(outDir, name)
	old, err := os.ReadFile(p)
	if err == nil && string(old) == content {
		return // unchanged: keep Lake's trace valid
	}
	if err := os.WriteFile(p, []byte(content), 0o644); err != nil {
		die("write %s: %v", p, err)
	}
}

const header = "-- GENERATED on every check run by tools/extract from /repo's current source. Do not edit.\n"

func genShamir(repo, out string) {
	_, f := parse(filepath.Join(repo, "sdk/helper/shamir/shamir.go"))
	// ---- mult: `var r uint8 = 0; var i uint8 = 8; for i > 0 { i--; r = <expr> }; return r`
	m := funcDecl(f, "mult")
	if len(m.Type.Params.List) != 1 || len(m.Type.Params.List[0].Names) != 2 ||
		m.Type.Params.List[0].Names[0].Name != "a" || m.Type.Params.List[0].Names[1].Name != "b" {
		die("mult: unexpected parameters")
	}
	var rInit, iInit, round string
	sawLoop := false
	for _, st := range m.Body.List {
		switch s := st.(type) {
		case *ast.DeclStmt:
			gd := s.Decl.(*ast.GenDecl)
			for _, sp := range gd.Specs {
				vs := sp.(*ast.ValueSpec)
				if len(vs.Names) != 1 || len(vs.Values) != 1 {
					die("mult: unexpected var decl")
				}
				switch vs.Names[0].Name {
				case "r":
					rInit = u8(vs.Values[0])
				case "i":
					iInit = u8(vs.Values[0])
				default:
					die("mult: unexpected variable %s", vs.Names[0].Name)
				}
			}
		case *ast.ForStmt:
			sawLoop = true
			c, ok := s.Cond.(*ast.BinaryExpr)
			if !ok || s.Init != nil || s.Post != nil || c.Op != token.GTR || u8(c.X) != "i" || u8(c.Y) != "0" {
				die("mult: loop is not `for i > 0`")
			}
			if len(s.Body.List) != 2 {
				die("mult: loop body is not two statements")
			}
			dec, ok := s.Body.List[0].(*ast.IncDecStmt)
			if !ok || dec.Tok != token.DEC || u8(dec.X) != "i" {
				die("mult: first loop statement is not i--")
			}
			as, ok := s.Body.List[1].(*ast.AssignStmt)
			if !ok || as.Tok != token.ASSIGN || len(as.Lhs) != 1 || u8(as.Lhs[0]) != "r" {
				die("mult: second loop statement is not r = …")
			}
			round = u8(as.Rhs[0])
		case *ast.ReturnStmt:
			if len(s.Results) != 1 || u8(s.Results[0]) != "r" {
				die("mult: does not return r")
			}
		default:
			die("mult: unexpected statement %T", st)
		}
	}
	if !sawLoop || rInit == "" || iInit == "" {
		die("mult: shape not recognised")
	}
	// ---- inverse: a chain of `x := mult(p, q)` / `x = mult(p, q)` and `return mult(p, q)`
	inv := funcDecl(f, "inverse")
	var lets []string
	ret := ""
	call := func(e ast.Expr) string {
		c, ok := e.(*ast.CallExpr)
		if !ok || len(c.Args) != 2 {
			die("inverse: not a binary call")
		}
		if id, ok := c.Fun.(*ast.Ident); !ok || id.Name != "mult" {
			die("inverse: call is not mult")
		}
		return "mult " + u8(c.Args[0]) + " " + u8(c.Args[1])
	}
	for _, st := range inv.Body.List {
		switch s := st.(type) {
		case *ast.AssignStmt:
			if len(s.Lhs) != 1 || len(s.Rhs) != 1 {
				die("inverse: unexpected assignment")
			}
			lets = append(lets, "  let "+u8(s.Lhs[0])+" := "+call(s.Rhs[0]))
		case *ast.ReturnStmt:
			ret = "  " + call(s.Results[0])
		default:
			die("inverse: unexpected statement %T", st)
		}
	}
	if ret == "" {
		die("inverse: no return")
	}
	// ---- add
	ad := funcDecl(f, "add")
	addBody := ""
	if len(ad.Body.List) == 1 {
		if r, ok := ad.Body.List[0].(*ast.ReturnStmt); ok && len(r.Results) == 1 {
			addBody = u8(r.Results[0])
		}
	}
	if addBody == "" {
		die("add: shape not recognised")
	}
	var b strings.Builder
	b.WriteString(header)
	b.WriteString("/-! Translation of `mult`, `inverse`, `add` of sdk/helper/shamir/shamir.go (uint8 arithmetic as Nat with explicit wrap). -/\n")
	b.WriteString("namespace Obao.Gen.Shamir\n\n")
	b.WriteString("/-- the assignment inside mult's loop, after `i--` -/\n")
	b.WriteString("def roundGen (a b r i : Nat) : Nat :=\n  " + round + "\n\n")
	b.WriteString("def rInit : Nat := " + rInit + "\n")
	b.WriteString("def iInit : Nat := " + iInit + "\n\n")
	b.WriteString("/-- `for i > 0 { i--; r = round }` -/\n")
	b.WriteString("def multLoop (a b : Nat) : Nat → Nat → Nat\n  | 0, r => r\n  | i + 1, r => multLoop a b i (roundGen a b r i)\n\n")
	b.WriteString("def multGen (a b : Nat) : Nat := multLoop a b iInit rInit\n\n")
	b.WriteString("/-- the multiplication chain of `inverse`, over an abstract `mult` -/\n")
	b.WriteString("def inverseGen (mult : Nat → Nat → Nat) (a : Nat) : Nat :=\n" + strings.Join(lets, "\n") + "\n" + ret + "\n\n")
	b.WriteString("def addGen (a b : Nat) : Nat :=\n  " + addBody + "\n\n")
	b.WriteString("end Obao.Gen.Shamir\n")
	write(out, "Shamir.lean", b.String())
}

// genAclTables: operation → capability switch of AllowOperation and the capability bit constants.
func genAclTables(repo, out string) {
	_, pf := parse(filepath.Join(repo, "internal/vault/policy/policy.go"))
	// capability ints: const block with iota shifts `DenyCapabilityInt uint32 = 1 << iota`
	type capc struct {
		name string
		val  int
	}
	var caps []capc
	for _, d := range pf.Decls {
		gd, ok := d.(*ast.GenDecl)
		if !ok || gd.Tok != token.CONST {
			continue
		}
		isCapBlock := false
		for i, sp := range gd.Specs {
			vs := sp.(*ast.ValueSpec)
			if i == 0 && len(vs.Names) == 1 && strings.HasSuffix(vs.Names[0].Name, "CapabilityInt") {
				be, ok := vs.Values[0].(*ast.BinaryExpr)
				if ok && be.Op == token.SHL {
					if id, ok := be.Y.(*ast.Ident); ok && id.Name == "iota" {
						isCapBlock = true
					}
				}
			}
			if isCapBlock {
				for _, n := range vs.Names {
					caps = append(caps, capc{n.Name, 1 << i})
				}
			}
		}
	}
	if len(caps) == 0 {
		die("capability constants not found in policy.go")
	}
	fset, af := parse(filepath.Join(repo, "internal/vault/policy/acl.go"))
	_ = fset
	type arm struct{ op, cap string }
	var arms []arm
	ast.Inspect(af, func(n ast.Node) bool {
		sw, ok := n.(*ast.SwitchStmt)
		if !ok {
			return true
		}
		tag, ok := sw.Tag.(*ast.Ident)
		if !ok || tag.Name != "op" {
			return true
		}
		var local []arm
		for _, cl := range sw.Body.List {
			cc := cl.(*ast.CaseClause)
			capName := ""
			for _, st := range cc.Body {
				as, ok := st.(*ast.AssignStmt)
				if !ok || len(as.Lhs) != 1 {
					continue
				}
				if id, ok := as.Lhs[0].(*ast.Ident); ok && id.Name == "operationAllowed" {
					// capabilities&XCapabilityInt > 0
					if be, ok := as.Rhs[0].(*ast.BinaryExpr); ok && be.Op == token.GTR {
						if and, ok := be.X.(*ast.BinaryExpr); ok && and.Op == token.AND {
							if id, ok := and.Y.(*ast.Ident); ok {
								capName = id.Name
							}
						}
					}
				}
			}
			for _, e := range cc.List {
				if se, ok := e.(*ast.SelectorExpr); ok {
					local = append(local, arm{se.Sel.Name, capName})
				}
			}
			if cc.List == nil {
				local = append(local, arm{"default", capName})
			}
		}
		hasOpAllowed := false
		for _, a := range local {
			if a.cap != "" {
				hasOpAllowed = true
			}
		}
		if hasOpAllowed && arms == nil {
			arms = local
		}
		return true
	})
	if len(arms) == 0 {
		die("op→capability switch not found in acl.go")
	}
	var b strings.Builder
	b.WriteString(header)
	b.WriteString("namespace Obao.Gen.AclTables\n\n")
	b.WriteString("/-- capability bit constants of internal/vault/policy/policy.go -/\n")
	b.WriteString("def capBits : List (String × Nat) := [\n")
	for i, c := range caps {
		sep := ","
		if i == len(caps)-1 {
			sep = ""
		}
		b.WriteString(fmt.Sprintf("  (%q, %d)%s\n", c.name, c.val, sep))
	}
	b.WriteString("]\n\n/-- arms of the `switch op` in ACL.AllowOperation: operation ↦ capability tested (\"\" = none: denied) -/\n")
	b.WriteString("def opCap : List (String × String) := [\n")
	for i, a := range arms {
		sep := ","
		if i == len(arms)-1 {
			sep = ""
		}
		b.WriteString(fmt.Sprintf("  (%q, %q)%s\n", a.op, a.cap, sep))
	}
	b.WriteString("]\n\nend Obao.Gen.AclTables\n")
	write(out, "AclTables.lean", b.String())
}

// genTokenTables: policy.NonAssignablePolicies.
func genTokenTables(repo, out string) {
	_, f := parse(filepath.Join(repo, "internal/vault/policy/policy_store.go"))
	var vals []string
	found := false
	ast.Inspect(f, func(n ast.Node) bool {
		vs, ok := n.(*ast.ValueSpec)
		if !ok {
			return true
		}
		for i, nm := range vs.Names {
			if nm.Name == "NonAssignablePolicies" && i < len(vs.Values) {
				cl, ok := vs.Values[i].(*ast.CompositeLit)
				if !ok {
					die("NonAssignablePolicies is not a composite literal")
				}
				found = true
				for _, e := range cl.Elts {
					switch x := e.(type) {
					case *ast.BasicLit:
						s, _ := strconv.Unquote(x.Value)
						vals = append(vals, s)
					case *ast.Ident:
						vals = append(vals, "$"+x.Name)
					default:
						die("NonAssignablePolicies: unexpected element %T", e)
					}
				}
			}
		}
		return true
	})
	if !found {
		die("NonAssignablePolicies not found")
	}
	// resolve identifiers to string constants declared in the same file
	consts := map[string]string{}
	ast.Inspect(f, func(n ast.Node) bool {
		vs, ok := n.(*ast.ValueSpec)
		if !ok {
			return true
		}
		for i, nm := range vs.Names {
			if i < len(vs.Values) {
				if bl, ok := vs.Values[i].(*ast.BasicLit); ok && bl.Kind == token.STRING {
					s, _ := strconv.Unquote(bl.Value)
					consts[nm.Name] = s
				}
			}
		}
		return true
	})
	for i, v := range vals {
		if strings.HasPrefix(v, "$") {
			s, ok := consts[v[1:]]
			if !ok {
				die("cannot resolve constant %s", v[1:])
			}
			vals[i] = s
		}
	}
	sort.Strings(vals)
	var b strings.Builder
	b.WriteString(header)
	b.WriteString("namespace Obao.Gen.TokenTables\n\n/-- policy.NonAssignablePolicies (sorted) -/\ndef nonAssignable : List String := [")
	for i, v := range vals {
		if i > 0 {
			b.WriteString(", ")
		}
		b.WriteString(strconv.Quote(v))
	}
	b.WriteString("]\n\nend Obao.Gen.TokenTables\n")
	write(out, "TokenTables.lean", b.String())
}

// ---------------------------------------------------------------------------------------------
// Request pipeline skeletons (C02, C11): for handleRequest / handleLoginRequest, the ordered list of top-level
// statements that matter, each with its tags:
//   CheckToken   the statement calls c.CheckToken
//   UseToken     the statement calls UseToken
//   CtErrGuard   `if ctErr != nil { … return }` (every path through the body returns)
//   AuditGuard   every path through the statement either returns or passes a LogRequest whose error returns
//   Route        the statement calls doRoutingIfApproved / doRouting / router.Route outside a func literal
// plus whether the function contains goto/labels (which would invalidate the straight-line reading).

func callsName(n ast.Node, names ...string) bool {
	found := false
	ast.Inspect(n, func(x ast.Node) bool {
		if _, ok := x.(*ast.FuncLit); ok {
			return false
		}
		if c, ok := x.(*ast.CallExpr); ok {
			var nm string
			switch f := c.Fun.(type) {
			case *ast.SelectorExpr:
				nm = f.Sel.Name
			case *ast.Ident:
				nm = f.Name
			}
			for _, w := range names {
				if nm == w {
					found = true
				}
			}
		}
		return true
	})
	return found
}

func terminates(stmts []ast.Stmt) bool {
	if len(stmts) == 0 {
		return false
	}
	switch s := stmts[len(stmts)-1].(type) {
	case *ast.ReturnStmt:
		return true
	case *ast.BlockStmt:
		return terminates(s.List)
	case *ast.IfStmt:
		if s.Else == nil {
			return false
		}
		eb, ok := s.Else.(*ast.BlockStmt)
		if !ok {
			return terminates([]ast.Stmt{s.Else}) && terminates(s.Body.List)
		}
		return terminates(s.Body.List) && terminates(eb.List)
	}
	return false
}

func isNilCheck(e ast.Expr, name string) bool {
	be, ok := e.(*ast.BinaryExpr)
	if !ok || be.Op != token.NEQ {
		return false
	}
	x, ok1 := be.X.(*ast.Ident)
	y, ok2 := be.Y.(*ast.Ident)
	return ok1 && ok2 && x.Name == name && y.Name == "nil"
}

// auditGuard: every path through s either returns or passes `if err := …LogRequest(…); err != nil { …return }`.
func auditGuard(s ast.Stmt, logName string) bool {
	switch x := s.(type) {
	case *ast.IfStmt:
		if x.Init != nil && x.Else == nil && callsName(x.Init, logName) && isNilCheck(x.Cond, "err") && terminates(x.Body.List) {
			return true
		}
		if x.Else != nil {
			eb, ok := x.Else.(*ast.BlockStmt)
			if ok {
				return (auditGuardBlock(x.Body.List, logName) || terminates(x.Body.List)) &&
					(auditGuardBlock(eb.List, logName) || terminates(eb.List))
			}
		}
		return false
	case *ast.BlockStmt:
		return auditGuardBlock(x.List, logName)
	case *ast.SwitchStmt:
		hasDefault := false
		for _, cl := range x.Body.List {
			cc := cl.(*ast.CaseClause)
			if cc.List == nil {
				hasDefault = true
			}
			if !(auditGuardBlock(cc.Body, logName) || terminates(cc.Body)) {
				return false
			}
		}
		return hasDefault
	}
	return false
}

func auditGuardBlock(stmts []ast.Stmt, logName string) bool {
	for _, s := range stmts {
		if auditGuard(s, logName) {
			return true
		}
	}
	return false
}

// hasGoto reports a goto located BEFORE the first routing statement: only such a jump could bypass the guards
// (Go forbids jumping backwards over declarations or into blocks; later forward gotos cannot reach a point
// before the routing call).
func skeleton(fd *ast.FuncDecl) (rows [][]string, hasGoto bool) {
	firstRoute := token.Pos(-1)
	for _, st := range fd.Body.List {
		if callsName(st, "doRoutingIfApproved", "doRouting", "Route") {
			firstRoute = st.Pos()
			break
		}
	}
	ast.Inspect(fd.Body, func(n ast.Node) bool {
		switch x := n.(type) {
		case *ast.BranchStmt:
			if x.Tok == token.GOTO && (firstRoute < 0 || x.Pos() < firstRoute) {
				hasGoto = true
			}
		case *ast.LabeledStmt:
			if firstRoute < 0 || x.Pos() <= firstRoute {
				hasGoto = true
			}
		}
		return true
	})
	for _, st := range fd.Body.List {
		var tags []string
		if callsName(st, "CheckToken") {
			tags = append(tags, "CheckToken")
		}
		if callsName(st, "UseToken") {
			tags = append(tags, "UseToken")
		}
		if ifs, ok := st.(*ast.IfStmt); ok && isNilCheck(ifs.Cond, "ctErr") && ifs.Else == nil && terminates(ifs.Body.List) {
			tags = append(tags, "CtErrGuard")
		} else if auditGuard(st, "LogRequest") {
			tags = append(tags, "AuditGuard")
		}
		if callsName(st, "doRoutingIfApproved", "doRouting", "Route") {
			tags = append(tags, "Route")
		}
		if len(tags) > 0 {
			rows = append(rows, tags)
		}
	}
	return rows, hasGoto
}

func methodDecl(f *ast.File, name string) *ast.FuncDecl {
	for _, d := range f.Decls {
		if fd, ok := d.(*ast.FuncDecl); ok && fd.Name.Name == name && fd.Recv != nil {
			return fd
		}
	}
	die("method %s not found", name)
	return nil
}

func genRequestSkeleton(repo, out string) {
	_, f := parse(filepath.Join(repo, "internal/vault/request_handling.go"))
	var b strings.Builder
	b.WriteString(header)
	b.WriteString("/-! Ordered tags of the top-level statements of the request pipeline functions (see tools/extract). -/\n")
	b.WriteString("namespace Obao.Gen.RequestSkeleton\n\n")
	for _, fn := range []string{"handleRequest", "handleLoginRequest"} {
		rows, hasGoto := skeleton(methodDecl(f, fn))
		b.WriteString("def " + fn + " : List (List String) := [\n")
		for i, r := range rows {
			q := make([]string, len(r))
			for j, t := range r {
				q[j] = strconv.Quote(t)
			}
			sep := ","
			if i == len(rows)-1 {
				sep = ""
			}
			b.WriteString("  [" + strings.Join(q, ", ") + "]" + sep + "\n")
		}
		b.WriteString("]\n")
		b.WriteString(fmt.Sprintf("def %sGotoBeforeRoute : Bool := %v\n\n", fn, hasGoto))
	}
	// handleCancelableRequest: the response audit guard: `if auditErr := …LogResponse(…); auditErr != nil { … return nil, ErrInternalError }`
	hc := methodDecl(f, "handleCancelableRequest")
	respGuard := false
	respGuardBare := false
	ast.Inspect(hc.Body, func(n ast.Node) bool {
		ifs, ok := n.(*ast.IfStmt)
		if !ok || ifs.Init == nil || !callsName(ifs.Init, "LogResponse") {
			return true
		}
		if terminates(ifs.Body.List) {
			respGuard = true
			ret := ifs.Body.List[len(ifs.Body.List)-1].(*ast.ReturnStmt)
			if len(ret.Results) == 2 {
				a, ok1 := ret.Results[0].(*ast.Ident)
				bb, ok2 := ret.Results[1].(*ast.Ident)
				if ok1 && ok2 && a.Name == "nil" && bb.Name == "ErrInternalError" {
					respGuardBare = true
				}
			}
		}
		return true
	})
	b.WriteString(fmt.Sprintf("/-- handleCancelableRequest: a failing LogResponse returns, and returns the bare (nil, ErrInternalError) -/\ndef logResponseGuardReturns : Bool := %v\ndef logResponseGuardBareError : Bool := %v\n\n", respGuard, respGuardBare))
	b.WriteString("end Obao.Gen.RequestSkeleton\n")
	write(out, "RequestSkeleton.lean", b.String())
}

func main() {
	if len(os.Args) != 3 {
		die("usage: extract <repo> <outdir>")
	}
	repo, out := os.Args[1], os.Args[2]
	if err := os.MkdirAll(out, 0o755); err != nil {
		die("%v", err)
	}
	genShamir(repo, out)
	genAclTables(repo, out)
	genTokenTables(repo, out)
	genRequestSkeleton(repo, out)
	genPolicyStore(repo, out)
}

// strExpr translates the string expression that policy.Store.cacheKey returns into Lean over `uuid name : String`:
// concatenation with +, string literals, `name`, `<x>.UUID`, path.Join / filepath.Join (-> joinClean), and
// fmt.Sprintf with a format made of %s and literal text.
func strExpr(e ast.Expr) string {
	switch x := e.(type) {
	case *ast.ParenExpr:
		return strExpr(x.X)
	case *ast.BasicLit:
		if x.Kind == token.STRING {
			s, err := strconv.Unquote(x.Value)
			if err != nil {
				die("cacheKey: literal %s", x.Value)
			}
			return strconv.Quote(s)
		}
	case *ast.Ident:
		if x.Name == "name" {
			return "name"
		}
	case *ast.SelectorExpr:
		if x.Sel.Name == "UUID" {
			return "uuid"
		}
	case *ast.BinaryExpr:
		if x.Op == token.ADD {
			return "(" + strExpr(x.X) + " ++ " + strExpr(x.Y) + ")"
		}
	case *ast.CallExpr:
		if sel, ok := x.Fun.(*ast.SelectorExpr); ok {
			if pk, ok := sel.X.(*ast.Ident); ok {
				switch {
				case (pk.Name == "path" || pk.Name == "filepath") && sel.Sel.Name == "Join":
					var args []string
					for _, a := range x.Args {
						args = append(args, strExpr(a))
					}
					return "(Obao.PolicyKey.joinClean [" + strings.Join(args, ", ") + "])"
				case pk.Name == "fmt" && sel.Sel.Name == "Sprintf" && len(x.Args) >= 1:
					bl, ok := x.Args[0].(*ast.BasicLit)
					if !ok {
						die("cacheKey: Sprintf format is not a literal")
					}
					f, _ := strconv.Unquote(bl.Value)
					parts := strings.Split(f, "%s")
					if strings.Contains(strings.Join(parts, ""), "%") || len(parts) != len(x.Args) {
						die("cacheKey: unsupported Sprintf format %q", f)
					}
					out := strconv.Quote(parts[0])
					for i, a := range x.Args[1:] {
						out = "((" + out + " ++ " + strExpr(a) + ") ++ " + strconv.Quote(parts[i+1]) + ")"
					}
					return out
				}
			}
		}
	}
	die("cacheKey: unsupported expression %T", e)
	return ""
}

func genPolicyStore(repo, out string) {
	_, f := parse(filepath.Join(repo, "internal/vault/policy/policy_store.go"))
	var fd *ast.FuncDecl
	for _, d := range f.Decls {
		if x, ok := d.(*ast.FuncDecl); ok && x.Name.Name == "cacheKey" && x.Recv != nil {
			fd = x
		}
	}
	if fd == nil {
		die("policy.Store.cacheKey not found")
	}
	var ret *ast.ReturnStmt
	for _, st := range fd.Body.List {
		switch x := st.(type) {
		case *ast.ReturnStmt:
			ret = x
		default:
			die("cacheKey: unexpected statement %T", st)
		}
	}
	if ret == nil || len(ret.Results) != 1 {
		die("cacheKey: expected a single return")
	}
	var b strings.Builder
	b.WriteString(header)
	b.WriteString("import Obao.Model.PolicyKey\n/-! Translation of `(*Store).cacheKey` of internal/vault/policy/policy_store.go. -/\nnamespace Obao.Gen.PolicyStore\n\n")
	b.WriteString("/-- the cache key of policy `name` in the namespace with UUID `uuid` -/\ndef cacheKeyGen (uuid name : String) : String :=\n  " + strExpr(ret.Results[0]) + "\n\nend Obao.Gen.PolicyStore\n")
	write(out, "PolicyStore.lean", b.String())
}
