module extract

go 1.21
