-- Root of the `Obao` library. Property modules are built individually (`lake build Obao.Props.Cnn`);
-- see setup.sh.
import Obao.Model.Prelude
