import Obao.Proofs.KV2Conc
import Obao.Proofs.KV2Cold
/-! C14 — the versioned KV engine is a linearizable versioned register with exact check-and-set.
Property theorems only; helper lemmas are in `Obao/Proofs/KV2*.lean`, the model in `Obao/Model/KV2.lean`.
Histories are lists of `Ev` = request + fault knobs (`tx`, `fault = some k`: the k-th storage operation of a
write/patch fails), so "every history" includes every single-fault position on both kinds of storage. -/
namespace C14
open Obao.KV2

/-! ## versions_consecutive -/

/-- the version numbers handed out by the successful writes/patches on `p` since the key was last (re)created,
    i.e. since the last metadata delete, in order -/
def handedOut (p : String) : State → List Nat → List Ev → List Nat
  | _, acc, [] => acc
  | s, acc, e :: es =>
    let r := stepEv s e
    let acc' :=
      if e.op.writesTo = some p ∧ r.2.isWrote = true then
        match r.2 with
        | .wrote v _ _ => acc ++ [v]
        | _ => acc
      else match e.op with
        | .metaDelete q => if q = p then [] else acc
        | _ => acc
    handedOut p r.1 acc' es

/-- Successful writes receive consecutive version numbers: in EVERY history (any requests on any paths, any single
storage fault inside any write/patch, either storage kind) the successful writes and patches on a path since its
last metadata delete were answered 1, 2, 3, …, n in this order, and n is the current version. -/
theorem versions_consecutive (p : String) (evs : List Ev) :
    handedOut p init [] evs = List.range' 1 (curVer (run init evs) p) := by
  suffices h : ∀ (s : State) (acc : List Nat), acc = List.range' 1 (curVer s p) →
      handedOut p s acc evs = List.range' 1 (curVer (run s evs) p) by
    exact h init [] (by simp [curVer, metaOr, init, emptyPath, freshMeta])
  induction evs with
  | nil => intro s acc h; exact h
  | cons e es ih =>
    intro s acc hacc
    simp only [handedOut, run]
    apply ih
    have hc := stepF_curVer e.tx e.fault s e.op p
    simp only [stepEv]
    by_cases hw : e.op.writesTo = some p ∧ (stepF e.tx e.fault s e.op).2.1.isWrote = true
    · simp only [hw.1, hw.2, and_self, ↓reduceIte] at hc ⊢
      rw [hc]
      cases hr : (stepF e.tx e.fault s e.op).2.1 with
      | wrote v del w =>
        obtain ⟨q, hq, hv⟩ := stepF_wrote e.tx e.fault s e.op v del w hr
        rw [hw.1] at hq; cases hq
        simp only
        rw [hacc, hv, List.range'_concat]
        have : 1 + 1 * curVer s p = curVer s p + 1 := by omega
        rw [this]
      | _ => have := hw.2; rw [hr] at this; simp [Resp.isWrote] at this
    · simp only [hw, ↓reduceIte] at hc ⊢
      rw [hc]
      cases hop : e.op with
      | metaDelete q =>
        simp only
        split
        · simp
        · exact hacc
      | _ => exact hacc

/-- non-vacuity: two writes, a refused cas write, a faulted write and a patch hand out 1, 2, 3 -/
example : handedOut "a" init []
    [⟨.write "a" .absent [("k", "1")], false, none⟩, ⟨.write "a" (.val 1) [("k", "2")], true, none⟩,
     ⟨.write "a" (.val 1) [("k", "3")], true, none⟩, ⟨.write "a" .absent [("k", "4")], false, some 1⟩,
     ⟨.patch "a" (.val 2) [("k", none)], true, some 99⟩] = [1, 2, 3] := by decide

/-! ## cas_exact -/

/-- A check-and-set write succeeds exactly when the supplied number equals the current version (as `uint64`, the
conversion the code applies): on a match it is answered with the successor version, which becomes current; otherwise
it is refused with the mismatch error and the state is unchanged.  No hypothesis on the state. -/
theorem cas_exact (s : State) (p : String) (c : Int) (d : Data) :
    (uint64 c = curVer s p →
      (∃ del, (step s (.write p (.val c) d)).2 = .wrote (curVer s p + 1) del false) ∧
      curVer (step s (.write p (.val c) d)).1 p = curVer s p + 1) ∧
    (uint64 c ≠ curVer s p →
      (step s (.write p (.val c) d)).2 = .err .casMismatch ∧ (step s (.write p (.val c) d)).1 = s) := by
  unfold curVer
  constructor
  · intro hc
    have hcc : casCheck (.val c) s.cfg (metaOr (s.paths p)) = none := by simp [casCheck, hc]
    simp only [step, stepF, writePath, Bool.false_eq_true, false_and, reduceCtorEq, ↓reduceIte, hcc, commitWrite, setPath_same]
    refine ⟨⟨newDel s.cfg (metaOr (s.paths p)), ?_⟩, ?_⟩
    · rw [addVersion_current]
    · rw [metaOr_some _ _ rfl, addVersion_current]
  · intro hc
    have hcc : casCheck (.val c) s.cfg (metaOr (s.paths p)) = some .casMismatch := by simp [casCheck, hc]
    simp only [step, stepF, writePath, Bool.false_eq_true, false_and, reduceCtorEq, ↓reduceIte, hcc]
    exact ⟨trivial, setPath_self s p⟩

/-- for request integers in the `int64` range and fewer than 2^63 versions the `uint64` conversion is the identity:
`cas = current version` literally -/
theorem cas_exact_int64 (c : Int) (n : Nat) (hc : -9223372036854775808 ≤ c ∧ c < 9223372036854775808)
    (hn : n < 9223372036854775808) : uint64 c = n ↔ c = (n : Int) := by
  unfold uint64
  constructor
  · intro h
    have h2 : (c % 18446744073709551616) = (n : Int) := by
      have := Int.toNat_of_nonneg (Int.emod_nonneg c (by decide : (18446744073709551616 : Int) ≠ 0))
      omega
    omega
  · intro h; subst h; omega

/-- without a cas value the write succeeds iff neither the mount nor the key requires one -/
theorem cas_exact_absent (s : State) (p : String) (d : Data) :
    ((s.cfg.casRequired || (metaOr (s.paths p)).casRequired) = true →
      (step s (.write p .absent d)).2 = .err .casRequired ∧ (step s (.write p .absent d)).1 = s) ∧
    ((s.cfg.casRequired || (metaOr (s.paths p)).casRequired) = false →
      ∃ del, (step s (.write p .absent d)).2 = .wrote (curVer s p + 1) del false) := by
  unfold curVer
  constructor
  · intro hc
    have hcc : casCheck .absent s.cfg (metaOr (s.paths p)) = some .casRequired := by simp [casCheck, hc]
    simp only [step, stepF, writePath, Bool.false_eq_true, false_and, reduceCtorEq, ↓reduceIte, hcc]
    exact ⟨trivial, setPath_self s p⟩
  · intro hc
    have hcc : casCheck .absent s.cfg (metaOr (s.paths p)) = none := by simp [casCheck, hc]
    simp only [step, stepF, writePath, Bool.false_eq_true, false_and, reduceCtorEq, ↓reduceIte, hcc, commitWrite]
    exact ⟨newDel s.cfg (metaOr (s.paths p)), by rw [addVersion_current]⟩

/-- the same for patch: a patch that succeeds presented the current version (or none where none is required), and a
patch presenting anything else on an existing key is refused without effect -/
theorem cas_exact_patch (s : State) (p : String) (c : Int) (pd : PatchData) :
    (∀ v del w, (step s (.patch p (.val c) pd)).2 = .wrote v del w → uint64 c = curVer s p ∧ v = curVer s p + 1) ∧
    (uint64 c ≠ curVer s p → (s.paths p).md ≠ none →
      (step s (.patch p (.val c) pd)).2 = .err .casMismatch ∧ (step s (.patch p (.val c) pd)).1 = s) := by
  unfold curVer
  constructor
  · intro v del w h
    simp only [step, stepF] at h
    rcases patchPath_cases s.cfg (s.paths p) (.val c) pd false none with ⟨_, href⟩ | ⟨m, vm, d0, hm, hcas, _, _, _, _, ho⟩
    · rw [h] at href; exact absurd href (by simp [Resp.refusal])
    · rw [metaOr_some _ m hm]
      constructor
      · simp only [casCheck] at hcas
        split at hcas
        · cases hcas
        · rename_i hne; simpa using hne
      · rcases ho with ⟨w', hr, _⟩ | ⟨hr, _⟩
        · rw [h] at hr; cases hr; rfl
        · rw [h] at hr; cases hr
  · intro hc hmd
    obtain ⟨m, hm⟩ := Option.ne_none_iff_exists'.mp hmd
    rw [metaOr_some _ m hm] at hc
    have hcc : casCheck (.val c) s.cfg m = some .casMismatch := by simp [casCheck, hc]
    simp only [step, stepF, patchPath, patchBody, Bool.false_eq_true, false_and, reduceCtorEq, ↓reduceIte, hm, hcc]
    exact ⟨trivial, setPath_self s p⟩

/-- non-vacuity: after two writes cas 2 succeeds (version 3), cas 1 is refused -/
example : (step (run init [⟨.write "a" .absent [], false, none⟩, ⟨.write "a" .absent [], false, none⟩])
    (.write "a" (.val 2) [("k", "v")])).2 = .wrote 3 .none false := by decide
example : (step (run init [⟨.write "a" .absent [], false, none⟩, ⟨.write "a" .absent [], false, none⟩])
    (.write "a" (.val 1) [("k", "v")])).2 = .err .casMismatch := by decide

/-! ## prune_exact -/

/-- is version `x` of path `p` listed in the key's metadata -/
def present (s : State) (p : String) (x : Nat) : Prop :=
  ∃ m vm, (s.paths p).md = some m ∧ m.versions x = some vm

/-- Pruning removes exactly the versions that fall out of the window: after a successful write (any fault position,
any storage kind) answered with version `v`, in any reachable state, a version `x` is listed iff it is the new one or
was listed before, and `v < x + max` where `max` is the effective max-versions (`max(key, mount)`, or 10 when both are
0); every surviving older version keeps its flags and its data. -/
theorem prune_exact (evs : List Ev) (p : String) (cas : Cas) (d : Data) (tx : Bool) (fault : Option Nat)
    (v : Nat) (del : Del) (w : Bool)
    (h : (stepF tx fault (run init evs) (.write p cas d)).2.1 = .wrote v del w) :
    let s := run init evs
    let s' := (stepF tx fault s (.write p cas d)).1
    let mx := effMax (metaOr (s.paths p)).maxVersions s.cfg.maxVersions
    (∀ x, present s' p x ↔ (x = v ∨ present s p x) ∧ v < x + mx) ∧
    (∀ x m m' vm', x ≠ v → (s.paths p).md = some m → (s'.paths p).md = some m' → m'.versions x = some vm' →
        m.versions x = some vm' ∧ (s'.paths p).blobs x = (s.paths p).blobs x) := by
  intro s s' mx
  have hwf : PathWF (s.paths p) := run_wf init evs init_wf p
  have hs' : s'.paths p = (writePath s.cfg (s.paths p) cas d tx fault).1 := by simp [s', stepF]
  have hr : (writePath s.cfg (s.paths p) cas d tx fault).2.1 = .wrote v del w := by simpa [stepF] using h
  rcases writePath_cases s.cfg (s.paths p) cas d tx fault with ⟨_, e, he⟩ | ⟨_, ho⟩
  · rw [hr] at he; cases he
  have hok : ∃ w', (writePath s.cfg (s.paths p) cas d tx fault).2.1 =
        .wrote ((metaOr (s.paths p)).current + 1) (newDel s.cfg (metaOr (s.paths p))) w' ∧
      (writePath s.cfg (s.paths p) cas d tx fault).1.md =
        some (addVersion (metaOr (s.paths p)) (newDel s.cfg (metaOr (s.paths p))) s.cfg.maxVersions).1 ∧
      ∀ x, (addVersion (metaOr (s.paths p)) (newDel s.cfg (metaOr (s.paths p))) s.cfg.maxVersions).2 < x →
        x ≠ (metaOr (s.paths p)).current + 1 →
        (writePath s.cfg (s.paths p) cas d tx fault).1.blobs x = (s.paths p).blobs x := by
    rcases ho with ⟨w', hr', hmd, _, hrest⟩ | ⟨hr', _⟩
    · exact ⟨w', hr', hmd, hrest⟩
    · rw [hr] at hr'; cases hr'
  obtain ⟨w', hr', hmd, hrest⟩ := hok
  rw [hr] at hr'; cases hr'
  have mwf := metaOr_wf _ hwf
  have hpres : ∀ x, present s p x ↔ ((metaOr (s.paths p)).versions x).isSome = true := by
    intro x
    constructor
    · rintro ⟨m, vm, hm, hv⟩; rw [metaOr_some _ m hm, hv]; rfl
    · intro hx
      obtain ⟨vm, hv⟩ := Option.isSome_iff_exists.mp hx
      obtain ⟨m, hm, hv'⟩ := metaOr_versions _ x vm hv
      exact ⟨m, vm, hm, hv'⟩
  constructor
  · intro x
    have key := addVersion_present (metaOr (s.paths p)) (newDel s.cfg (metaOr (s.paths p))) s.cfg.maxVersions mwf x
    rw [hpres x, ← key]
    constructor
    · rintro ⟨m', vm', hm', hv'⟩
      rw [hs', hmd] at hm'; cases hm'; rw [hv']; rfl
    · intro hx
      obtain ⟨vm', hv'⟩ := Option.isSome_iff_exists.mp hx
      exact ⟨_, vm', by rw [hs', hmd], hv'⟩
  · intro x m m' vm' hxv hm hm' hv'
    rw [hs', hmd] at hm'; cases hm'
    have awf := addVersion_wf (metaOr (s.paths p)) (newDel s.cfg (metaOr (s.paths p))) s.cfg.maxVersions mwf
    have hbnd := awf.bound x vm' hv'
    rw [addVersion_versions] at hv'
    by_cases hpr : pruned (metaOr (s.paths p)) s.cfg.maxVersions x
    · simp [hpr] at hv'
    · simp only [hpr, ↓reduceIte, hxv] at hv'
      rw [metaOr_some _ m hm] at hv'
      refine ⟨hv', ?_⟩
      rw [hs']
      apply hrest x _ hxv
      rcases addVersion_vtd (metaOr (s.paths p)) (newDel s.cfg (metaOr (s.paths p))) s.cfg.maxVersions with h0 | h1 <;> omega

/-- the window really moves: with max_versions = 2 the third write drops version 1 and keeps 2 and 3 -/
example :
    let s := run init [⟨.metaWrite "a" ⟨some 2, none, none, none, none⟩, false, none⟩, ⟨.write "a" .absent [("k", "1")], false, none⟩,
      ⟨.write "a" .absent [("k", "2")], true, none⟩, ⟨.write "a" .absent [("k", "3")], false, none⟩]
    metaRead (s.paths "a") = .metaInfo 3 2 2 false false 1 [(2, ⟨.none, false⟩), (3, ⟨.none, false⟩)] [] ∧
    readPath (s.paths "a") 1 = .nil ∧ readPath (s.paths "a") 2 = .data 2 [("k", "2")] .none := by decide

/-! ## read_version_exact -/

/-- the data most recently stored as version `ver` of path `p` by a successful write or patch of the history
    (`storedData`: a write stores its request data, a patch the merge of its patch into what a read of the current
    version returned just before) -/
def lastWritten (p : String) (ver : Nat) : State → Option Data → List Ev → Option Data
  | _, acc, [] => acc
  | s, acc, e :: es =>
    let r := stepEv s e
    let acc' := if e.op.writesTo = some p ∧ wroteVersion r.2 = some ver then storedData s e.op else acc
    lastWritten p ver r.1 acc' es

/-- Reading version v returns exactly the data stored by the successful write that was answered with version v: after
EVERY history (all requests, all single faults, both storage kinds) a read that returns data returns the data of the
last successful write/patch that produced that version number of that path, and the version it reports is the one
asked for (`?version=n`) or the current one. -/
theorem read_version_exact (evs : List Ev) (p : String) (v : Int) (ver : Nat) (d : Data) (del : Del)
    (h : readPath ((run init evs).paths p) v = .data ver d del) :
    lastWritten p ver init none evs = some d ∧
    ver = (if v > 0 then v.toNat else curVer (run init evs) p) := by
  have hr := readPath_data _ v ver d del h
  refine ⟨?_, hr.2⟩
  suffices inv : ∀ (s : State) (acc : Option Data), WF s → (∀ d, live (s.paths p) ver d → acc = some d) →
      ∀ d, live ((run s evs).paths p) ver d → lastWritten p ver s acc evs = some d from
    inv init none init_wf (by
      intro d hl
      obtain ⟨m, _, hm, _⟩ := hl
      simp [init, emptyPath] at hm) d hr.1
  clear h hr
  induction evs with
  | nil => intro s acc _ hacc d hl; exact hacc d hl
  | cons e es ih =>
    intro s acc hwf hacc d hl
    simp only [lastWritten, run] at hl ⊢
    apply ih _ _ (stepEv_wf s e hwf) _ d hl
    intro d' hl'
    simp only [stepEv] at hl' ⊢
    rcases stepF_live e.tx e.fault s e.op p ver d' hwf hl' with hold | ⟨hw, hv, hsd⟩
    · -- the data was there before: this request did not write version `ver` of `p` (it is ≤ current)
      have hle := live_bound _ (hwf p) ver d' hold
      have hnot : ¬ (e.op.writesTo = some p ∧ wroteVersion (stepF e.tx e.fault s e.op).2.1 = some ver) := by
        rintro ⟨hw, hv⟩
        cases hresp : (stepF e.tx e.fault s e.op).2.1 with
        | wrote v' del' w' =>
          rw [hresp] at hv
          simp only [wroteVersion, Option.some.injEq] at hv
          obtain ⟨q, hq, hv'⟩ := stepF_wrote e.tx e.fault s e.op v' del' w' hresp
          rw [hw] at hq; cases hq
          unfold curVer at hv'
          omega
        | _ => rw [hresp] at hv; simp [wroteVersion] at hv
      simp only [hnot, ↓reduceIte]
      exact hacc d' hold
    · simp only [hw, hv, and_self, ↓reduceIte]
      exact hsd

/-- a read never finds the blob of a listed, live version missing (so "unless deleted or destroyed" is exhaustive):
in every reachable state a read returns nothing (version not listed), the 404 of a deleted/destroyed version, or data -/
theorem read_never_missing (evs : List Ev) (p : String) (v : Int) :
    readPath ((run init evs).paths p) v ≠ .err .missingBlob := by
  have hwf : PathWF ((run init evs).paths p) := run_wf init evs init_wf p
  unfold readPath
  split
  · simp
  · rename_i m hm
    simp only
    split
    · simp
    · rename_i vm hv
      split
      · simp
      · split
        · simp
        · rename_i hds
          have := hwf.blob m _ vm hm hv (by simpa using hds)
          split
          · rename_i hb; rw [hb] at this; cases this
          · simp

/-- non-vacuity: version 2 written by a patch reads back merged; version 1 stays readable -/
example :
    let evs : List Ev := [⟨.write "a" .absent [("k", "1"), ("l", "x")], false, none⟩, ⟨.patch "a" (.val 1) [("k", none), ("m", some "y")], true, none⟩]
    readPath ((run init evs).paths "a") 0 = .data 2 [("l", "x"), ("m", "y")] .none ∧
    lastWritten "a" 2 init none evs = some [("l", "x"), ("m", "y")] ∧
    readPath ((run init evs).paths "a") 1 = .data 1 [("k", "1"), ("l", "x")] .none := by decide

/-! ## ops_local -/

/-- the metadata entry of version `x` of path `p` -/
def entry (s : State) (p : String) (x : Nat) : Option Ver := ((s.paths p).md).bind (·.versions x)

/-- the settings and counters of a key (everything in the metadata but the version entries) -/
def settings (s : State) (p : String) : Option (Nat × Nat × Nat × Bool × Bool × Nat) :=
  ((s.paths p).md).map fun m => (m.current, m.oldest, m.maxVersions, m.casRequired, m.dva, m.metaVersion)

/-- A request touches no path but its own, only a config write touches the mount configuration (any fault, either
storage kind). -/
theorem ops_local_paths (tx : Bool) (fault : Option Nat) (s : State) (op : Op) :
    (∀ q, op.path? ≠ some q → (stepF tx fault s op).1.paths q = s.paths q) ∧
    ((∀ mx cr dva, op ≠ .confWrite mx cr dva) → (stepF tx fault s op).1.cfg = s.cfg) := by
  constructor
  · intro q hq
    cases op <;> simp only [stepF, Op.path?, ne_eq, Option.some.injEq] at hq ⊢
    all_goals first
      | rfl
      | exact setPath_other _ _ _ _ (fun e => hq e.symm)
      | (split
         · rfl
         · exact setPath_other _ _ _ _ (fun e => hq e.symm))
  · intro hc
    cases op <;> simp only [stepF, setPath_cfg]
    all_goals first
      | rfl
      | (split <;> rfl)
      | exact absurd rfl (hc _ _ _)

/-- Delete, undelete and destroy of a version list affect only the versions they name: any other version number keeps
its metadata entry and its data, and the key's counters and settings are unchanged. -/
theorem ops_local (s : State) (p : String) (vs : List Int) (x : Nat) (hx : ∀ v ∈ vs, uint64 v ≠ x) (op : Op)
    (hop : op = .deleteV p vs ∨ op = .undelete p vs ∨ op = .destroy p vs) :
    entry (step s op).1 p x = entry s p x ∧
    ((step s op).1.paths p).blobs x = (s.paths p).blobs x ∧
    settings (step s op).1 p = settings s p := by
  have flag : ∀ (m m' : Meta) (blobs' : Nat → Option Data), (s.paths p).md = some m → FlagStep m m' → m'.versions x = m.versions x →
      blobs' x = (s.paths p).blobs x →
      entry (setPath s p { md := some m', blobs := blobs' }) p x = entry s p x ∧
      ((setPath s p { md := some m', blobs := blobs' }).paths p).blobs x = (s.paths p).blobs x ∧
      settings (setPath s p { md := some m', blobs := blobs' }) p = settings s p := by
    intro m m' blobs' hm fs hv hb
    simp only [entry, settings, setPath_same, hm, Option.bind_some, Option.map_some, hv, hb, fs.cur, fs.old, fs.mx, fs.cr,
      fs.dva, fs.mv, and_self]
  have same : entry (setPath s p (s.paths p)) p x = entry s p x ∧
      ((setPath s p (s.paths p)).paths p).blobs x = (s.paths p).blobs x ∧
      settings (setPath s p (s.paths p)) p = settings s p := by rw [setPath_self]; exact ⟨rfl, rfl, rfl⟩
  rcases hop with rfl | rfl | rfl
  · simp only [step, stepF]
    split
    · exact ⟨rfl, rfl, rfl⟩
    · unfold deleteVersions
      split
      · exact same
      · rename_i m hm
        exact flag m _ _ hm (foldl_flagStep _ markDeleted_flagStep vs m) (foldl_mark_other _ markDeleted_other vs m x hx) rfl
  · simp only [step, stepF]
    split
    · exact ⟨rfl, rfl, rfl⟩
    · unfold undeleteVersions
      split
      · exact same
      · rename_i m hm
        exact flag m _ _ hm (foldl_flagStep _ (markUndeleted_flagStep s.cfg) vs m)
          (foldl_mark_other _ (markUndeleted_other s.cfg) vs m x hx) rfl
  · simp only [step, stepF]
    split
    · exact ⟨rfl, rfl, rfl⟩
    · unfold destroyVersions
      split
      · exact same
      · rename_i m hm
        refine flag m _ _ hm (foldl_flagStep _ markDestroyed_flagStep vs m) (foldl_mark_other _ markDestroyed_other vs m x hx) ?_
        have : (vs.any fun v => decide (uint64 v = x)) = false := by
          apply Bool.eq_false_iff.mpr
          intro hany
          obtain ⟨v, hvm, hve⟩ := List.any_eq_true.mp hany
          exact hx v hvm (by simpa using hve)
        simp [this]

/-- Deleting the latest version affects only the current version's entry; a metadata update — PUT or PATCH — affects
no version entry, no data and not the current version number; reads change nothing at all. -/
theorem ops_local_other (s : State) (p : String) (x : Nat) :
    (x ≠ curVer s p → entry (step s (.delete p)).1 p x = entry s p x) ∧
    (∀ y, ((step s (.delete p)).1.paths p).blobs y = (s.paths p).blobs y) ∧
    (∀ op, ((∃ a, op = Op.metaWrite p a) ∨ (∃ a, op = Op.metaPatch p a)) →
      ((s.paths p).md ≠ none → entry (step s op).1 p x = entry s p x) ∧
      (∀ y, ((step s op).1.paths p).blobs y = (s.paths p).blobs y) ∧ curVer (step s op).1 p = curVer s p) ∧
    (∀ v, (step s (.read p v)).1 = s) ∧ (step s (.metaRead p)).1 = s ∧ (step s .confRead).1 = s := by
  refine ⟨?_, ?_, ?_, fun _ => rfl, rfl, rfl⟩
  · intro hx
    simp only [step, stepF, entry, setPath_same]
    unfold deleteLatest
    split
    · rfl
    · rename_i m hm
      split
      · rfl
      · split
        · rfl
        · split
          · rfl
          · simp only [hm, Option.bind_some]
            unfold curVer at hx
            rw [metaOr_some _ m hm] at hx
            exact setVer_other m _ x _ (fun e => hx e.symm)
  · intro y
    simp only [step, stepF, setPath_same]
    unfold deleteLatest
    repeat' split
    all_goals rfl
  · -- both handlers have the same shape: the path is untouched, or its metadata is replaced by one with the same versions
    have shape : ∀ (ps' : PathSt) (r : Resp), SettingsShape (s.paths p) ps' r →
        ((s.paths p).md ≠ none → entry (setPath s p ps') p x = entry s p x) ∧
        (∀ y, ((setPath s p ps').paths p).blobs y = (s.paths p).blobs y) ∧ curVer (setPath s p ps') p = curVer s p := by
      intro ps' r sh
      rcases sh with e | ⟨m', e, sv, _⟩
      · rw [e, setPath_self]; exact ⟨fun _ => rfl, fun _ => rfl, rfl⟩
      · rw [e]
        refine ⟨?_, fun _ => by rw [setPath_same], ?_⟩
        · intro hmd
          obtain ⟨m, hm⟩ := Option.ne_none_iff_exists'.mp hmd
          simp only [entry, setPath_same, Option.bind_some, hm, sv.vers, metaOr_some _ m hm]
        · unfold curVer; rw [setPath_same, metaOr_some _ m' rfl, sv.cur]
    intro op hop
    rcases hop with ⟨a, rfl⟩ | ⟨a, rfl⟩
    · exact shape _ _ (metaWrite_shape s.cfg (s.paths p) a)
    · exact shape _ _ (metaPatch_shape s.cfg (s.paths p) a)

/-- non-vacuity: destroying version 2 leaves versions 1 and 3 readable with their own data -/
example :
    let s := run init [⟨.write "a" .absent [("k", "1")], false, none⟩, ⟨.write "a" .absent [("k", "2")], false, none⟩,
      ⟨.write "a" .absent [("k", "3")], false, none⟩, ⟨.destroy "a" [2], false, none⟩]
    readPath (s.paths "a") 1 = .data 1 [("k", "1")] .none ∧ readPath (s.paths "a") 2 = .gone 2 .none true ∧
    readPath (s.paths "a") 3 = .data 3 [("k", "3")] .none := by decide

/-! ## failed_write_no_change -/

/-- A request that fails leaves data and metadata unchanged — for EVERY fault position of a write or patch (and every
other way a request can be refused), on transactional and non-transactional storage, after every history: whatever
sequence of requests follows, it is answered exactly as if the failed request had never been made.  (On
non-transactional storage a failed write can leave the blob of version current+1 behind; the statement says no later
request can tell.) -/
theorem failed_write_no_change (evs : List Ev) (e : Ev) (err : Err)
    (h : (stepEv (run init evs) e).2 = .err err) (later : List Op) :
    (seqRun (stepEv (run init evs) e).1 later).2 = (seqRun (run init evs) later).2 := by
  have hwf := run_wf init evs init_wf
  have heq := stepF_err_obsEq e.tx e.fault (run init evs) e.op hwf err h
  exact (seqRun_obsEq later _ _ heq hwf).symm

/-- in particular the metadata and every version read are unchanged -/
theorem failed_write_no_change_reads (evs : List Ev) (e : Ev) (err : Err)
    (h : (stepEv (run init evs) e).2 = .err err) (p : String) (v : Int) :
    metaRead ((stepEv (run init evs) e).1.paths p) = metaRead ((run init evs).paths p) ∧
    readPath ((stepEv (run init evs) e).1.paths p) v = readPath ((run init evs).paths p) v := by
  have hwf := run_wf init evs init_wf
  have heq := stepF_err_obsEq e.tx e.fault (run init evs) e.op hwf err h
  exact ⟨(metaRead_obsEq _ _ (heq.2 p)).symm, (readPath_obsEq _ _ (heq.2 p) v).symm⟩

/-- and a write/patch that reports success although a storage operation failed (a fault inside the clean-up of old
versions is only a warning) did exactly what the fault-free write does, as far as any later request can tell -/
theorem faulted_write_success_same (evs : List Ev) (e : Ev) (v : Nat) (del : Del) (w : Bool)
    (h : (stepEv (run init evs) e).2 = .wrote v del w) (later : List Op) :
    (step (run init evs) e.op).2 = .wrote v del false ∧
    (seqRun (stepEv (run init evs) e).1 later).2 = (seqRun (step (run init evs) e.op).1 later).2 := by
  have hwf := run_wf init evs init_wf
  have := stepF_ok_obsEq e.tx e.fault (run init evs) e.op hwf v del w h
  exact ⟨this.1, seqRun_obsEq later _ _ this.2 (stepEv_wf _ e hwf)⟩

/-- non-vacuity: on non-transactional storage the failing metadata Put (operation 2) of a write leaves the orphan blob
of version 2 behind, the request errors, and the next write is answered with version 2 and reads back its own data -/
example :
    let s := run init [⟨.write "a" .absent [("k", "1")], false, none⟩]
    let f := stepEv s ⟨.write "a" .absent [("k", "lost")], false, some 2⟩
    f.2 = .err .storage ∧ (f.1.paths "a").blobs 2 = some [("k", "lost")] ∧
    (seqRun f.1 [.write "a" (.val 1) [("k", "2")], .read "a" 2, .metaRead "a"]).2 =
      [.wrote 2 .none false, .data 2 [("k", "2")] .none, .metaInfo 2 0 0 false false 0 [(1, ⟨.none, false⟩), (2, ⟨.none, false⟩)] []] := by
  decide

/-! ## kv_linearizable, cas_one_winner — every schedule of the per-key-lock model

`cinit s0 ops` starts one thread per request; `crun sched` follows an arbitrary schedule (a list of thread ids; a
blocked or finished thread's turn is skipped).  Locked requests take four micro-steps: acquire the key lock, Get the
path's storage into a local copy, compute and Put, release; other threads run in between.  `log` is the ghost
linearization order: a thread's entry is appended by one of its OWN steps (its Put, resp. the single step of a
read), i.e. between its invocation and its answer. -/

/-- Every concurrent history is linearizable w.r.t. the sequential specification `step`: for EVERY schedule, any
number of threads, any requests on any paths, any reachable or unreachable start state — the ghost log lists each
thread at most once, with its own request; the shared storage equals the result of executing the logged requests
sequentially in log order; and every thread that has its answer got exactly the answer sequential execution gives at
its position in the log. -/
theorem kv_linearizable (s0 : State) (ops : List Op) (sched : List Nat) :
    let c := crun sched (cinit s0 ops)
    let lin := c.log.map (·.2)
    (c.log.map (·.1)).Nodup ∧
    (∀ t o, (t, o) ∈ c.log → ops[t]? = some o) ∧
    c.st = (seqRun s0 lin).1 ∧
    (∀ (t : Nat) (th : Thread) (r : Resp), c.threads[t]? = some th → (th.pc = .done r ∨ th.pc = .unlocking r) →
      ∃ i : Nat, c.log[i]? = some (t, th.op) ∧ (seqRun s0 lin).2[i]? = some r) := by
  intro c lin
  have inv : CInv s0 ops c := crun_inv s0 ops sched _ (cinit_inv s0 ops)
  refine ⟨inv.nodup, ?_, inv.st.symm, ?_⟩
  · intro t o hmem
    obtain ⟨i, hi⟩ := List.getElem?_of_mem hmem
    obtain ⟨th, r, hth, ho, _, _⟩ := inv.resp i t o hi
    rw [← inv.ops_eq, List.getElem?_map, hth, ← ho]; rfl
  · intro t th r hth hpc
    have ha : answered th.pc r := hpc.symm
    obtain ⟨o, hmem⟩ := inv.complete t th r hth ha
    obtain ⟨i, hi⟩ := List.getElem?_of_mem hmem
    obtain ⟨th', r', hth', ho, ha', hr⟩ := inv.resp i t o hi
    rw [hth] at hth'; cases hth'
    rw [answered_unique _ _ _ ha ha']
    exact ⟨i, by rw [hi, ho], hr⟩

/-- The linearization respects real time: a request that had finished before another one took its first step precedes
it in the log (for every way of cutting every schedule in two). -/
theorem kv_linearizable_realtime (s0 : State) (ops : List Op) (sched1 sched2 : List Nat) (a b : Nat)
    (tha thb : Thread) (r : Resp) :
    let c1 := crun sched1 (cinit s0 ops)
    let c2 := crun (sched1 ++ sched2) (cinit s0 ops)
    c1.threads[a]? = some tha → tha.pc = .done r →          -- a has finished after sched1
    c1.threads[b]? = some thb → thb.pc = .idle →            -- b has not started after sched1
    ∀ (i j : Nat) (oa ob : Op), c2.log[i]? = some (a, oa) → c2.log[j]? = some (b, ob) → i < j := by
  intro c1 c2 hta hpa htb hpb i j oa ob hi hj
  have inv1 : CInv s0 ops c1 := crun_inv s0 ops sched1 _ (cinit_inv s0 ops)
  have inv2 : CInv s0 ops c2 := crun_inv s0 ops _ _ (cinit_inv s0 ops)
  have hc2 : c2 = crun sched2 c1 := crun_append sched1 sched2 _
  obtain ⟨ext, hext⟩ := crun_log_prefix sched2 c1
  rw [← hc2] at hext
  -- a is in the log after sched1, at some position i0
  obtain ⟨o, hmem⟩ := inv1.complete a tha r hta (Or.inr hpa)
  obtain ⟨i0, hi0⟩ := List.getElem?_of_mem hmem
  have hi0lt : i0 < c1.log.length := (List.getElem?_eq_some_iff.mp hi0).1
  have hi0' : c2.log[i0]? = some (a, o) := by rw [hext, List.getElem?_append_left hi0lt]; exact hi0
  -- positions of a thread in the log are unique
  have huniq : ∀ (x y t : Nat) (o1 o2 : Op), c2.log[x]? = some (t, o1) → c2.log[y]? = some (t, o2) → x = y := by
    intro x y t o1 o2 hx hy
    have hx' : (c2.log.map (·.1))[x]? = some t := by rw [List.getElem?_map, hx]; rfl
    have hy' : (c2.log.map (·.1))[y]? = some t := by rw [List.getElem?_map, hy]; rfl
    exact (List.getElem?_inj (List.getElem?_eq_some_iff.mp hx').1 inv2.nodup).mp (hx'.trans hy'.symm)
  have hii0 : i = i0 := huniq i i0 a oa o hi hi0'
  -- b is not in the log after sched1
  have hjge : c1.log.length ≤ j := by
    rcases Nat.lt_or_ge j c1.log.length with hlt | hge
    · exfalso
      have : c1.log[j]? = some (b, ob) := by rw [hext, List.getElem?_append_left hlt] at hj; exact hj
      obtain ⟨th', r', hth', _, ha', _⟩ := inv1.resp j b ob this
      rw [htb] at hth'; cases hth'
      rw [hpb] at ha'
      rcases ha' with h | h <;> cases h
    · exact hge
  omega

/-- Among concurrent writers presenting the same version at most one succeeds: for EVERY schedule and any number of
threads — writers on `p` all presenting the cas value `c`, plus arbitrary other requests on any paths except a
metadata delete of `p` itself (which restarts the numbering) — two threads whose cas writes were both answered with
success are the same thread. -/
theorem cas_one_winner (s0 : State) (ops : List Op) (p : String) (c : Int)
    (hnd : ∀ o ∈ ops, o ≠ .metaDelete p) (sched : List Nat)
    (t1 t2 : Nat) (th1 th2 : Thread) (v1 v2 : Nat) (d1 d2 : Del) (w1 w2 : Bool) :
    let cf := crun sched (cinit s0 ops)
    cf.threads[t1]? = some th1 → cf.threads[t2]? = some th2 →
    isCasWrite p c th1.op → isCasWrite p c th2.op →
    (th1.pc = .done (.wrote v1 d1 w1) ∨ th1.pc = .unlocking (.wrote v1 d1 w1)) →
    (th2.pc = .done (.wrote v2 d2 w2) ∨ th2.pc = .unlocking (.wrote v2 d2 w2)) → t1 = t2 := by
  intro cf h1 h2 hc1 hc2 hp1 hp2
  obtain ⟨_, hops, _, hresp⟩ := kv_linearizable s0 ops sched
  obtain ⟨i1, hl1, hr1⟩ := hresp t1 th1 _ h1 hp1
  obtain ⟨i2, hl2, hr2⟩ := hresp t2 th2 _ h2 hp2
  have hlin : ∀ o ∈ cf.log.map (·.2), o ≠ .metaDelete p := by
    intro o ho
    obtain ⟨⟨t, o'⟩, hmem, rfl⟩ := List.mem_map.mp ho
    exact hnd o' (List.mem_of_getElem? (hops t o' hmem))
  have ho1 : (cf.log.map (·.2))[i1]? = some th1.op := by rw [List.getElem?_map, hl1]; rfl
  have ho2 : (cf.log.map (·.2))[i2]? = some th2.op := by rw [List.getElem?_map, hl2]; rfl
  have hi : i1 = i2 := by
    rcases Nat.lt_trichotomy i1 i2 with hlt | heq | hgt
    · exact absurd hr2 (seq_at_most_one p c _ hlin s0 i1 i2 hlt _ _ v1 v2 d1 d2 w1 w2 ho1 hc1 hr1 ho2 hc2)
    · exact heq
    · exact absurd hr1 (seq_at_most_one p c _ hlin s0 i2 i1 hgt _ _ v2 v1 d2 d1 w2 w1 ho2 hc2 hr2 ho1 hc1)
  subst hi
  rw [hl1] at hl2
  simp only [Option.some.injEq, Prod.mk.injEq] at hl2
  exact hl2.1

/-- non-vacuity with a metadata PATCH thread: thread 1 (PATCH max_versions) takes the key lock and its local copy first,
the writer (thread 0) is blocked until the PATCH has stored and released; no acknowledged version is lost -/
example :
    let s0 := (step init (.write "a" .absent [("k", "0")])).1
    let cf := crun [1, 1, 0, 0, 1, 0, 1, 0, 0, 0, 0] (cinit s0 [.write "a" (.val 1) [("k", "x")], .metaPatch "a" ⟨some 5, none, none, none, none⟩])
    cf.threads.map (fun th => match th.pc with | .done r => some r | _ => none) = [some (.wrote 2 .none false), some .nil] ∧
    cf.log.map (·.1) = [1, 0] ∧
    metaRead (cf.st.paths "a") = .metaInfo 2 0 5 false false 1 [(1, ⟨.none, false⟩), (2, ⟨.none, false⟩)] [] := by decide

/-- … and exactly one when they present the current version: any number n ≥ 1 of writers all presenting
`cas = current version`, every schedule in which all of them have finished — some thread was answered with success
(version current+1); by `cas_one_winner` it is the only one. -/
theorem cas_one_winner_exists (s0 : State) (p : String) (c : Int) (datas : List Data) (hne : datas ≠ [])
    (hc : uint64 c = curVer s0 p) (sched : List Nat) :
    let cf := crun sched (cinit s0 (datas.map fun d => Op.write p (.val c) d))
    (∀ (t : Nat) (th : Thread), cf.threads[t]? = some th → ∃ r, th.pc = .done r) →
    ∃ (t : Nat) (th : Thread) (del : Del), cf.threads[t]? = some th ∧ th.pc = .done (.wrote (curVer s0 p + 1) del false) := by
  intro cf hall
  have inv : CInv s0 _ cf := crun_inv s0 _ sched _ (cinit_inv s0 _)
  -- there is a thread 0, it is finished, hence the log is not empty
  obtain ⟨d0, rest, hd⟩ := List.exists_cons_of_ne_nil hne
  have hlen : cf.threads.length = datas.length := by
    have := congrArg List.length inv.ops_eq
    simpa using this
  have h0 : 0 < cf.threads.length := by rw [hlen, hd]; simp
  obtain ⟨r0, hr0⟩ := hall 0 cf.threads[0] (List.getElem?_eq_getElem h0)
  obtain ⟨o0, hmem0⟩ := inv.complete 0 _ r0 (List.getElem?_eq_getElem h0) (Or.inr hr0)
  have hlog : cf.log ≠ [] := fun e => by rw [e] at hmem0; cases hmem0
  obtain ⟨⟨t, o⟩, lrest, hl⟩ := List.exists_cons_of_ne_nil hlog
  have hfirst : cf.log[0]? = some (t, o) := by rw [hl]; rfl
  obtain ⟨th, r, hth, ho, ha, hr⟩ := inv.resp 0 t o hfirst
  -- the first logged request is one of the writers; sequentially it runs in s0, where cas = current version
  have hop : ∃ d, o = Op.write p (.val c) d := by
    have : (datas.map fun d => Op.write p (.val c) d)[t]? = some o := by
      rw [← inv.ops_eq, List.getElem?_map, hth, ← ho]; rfl
    rw [List.getElem?_map] at this
    cases hdt : datas[t]? with
    | none => rw [hdt] at this; cases this
    | some d => rw [hdt] at this; cases this; exact ⟨d, rfl⟩
  obtain ⟨d, rfl⟩ := hop
  have hseq : (seqRun s0 (cf.log.map (·.2))).2[0]? = some (step s0 (Op.write p (.val c) d)).2 := by
    rw [hl]; rfl
  rw [hseq] at hr
  cases hr
  obtain ⟨del, hw⟩ := ((cas_exact s0 p c d).1 hc).1
  obtain ⟨r', hr'⟩ := hall t th hth
  have : r' = (step s0 (Op.write p (.val c) d)).2 := answered_unique _ _ _ (Or.inr hr') ha
  exact ⟨t, th, del, hth, by rw [hr', this, hw]⟩

/-- non-vacuity: three writers with cas 1 after one write; a schedule that interleaves them (thread 1 gets the lock
first; threads 0 and 2 try in between and are blocked) ends with exactly thread 1 successful -/
example :
    let s0 := (step init (.write "a" .absent [("k", "0")])).1
    let cf := crun [1, 0, 1, 2, 1, 0, 1, 0, 0, 2, 0, 0, 2, 2, 2, 2]
      (cinit s0 [.write "a" (.val 1) [("k", "x")], .write "a" (.val 1) [("k", "y")], .write "a" (.val 1) [("k", "z")]])
    cf.threads.map (fun th => match th.pc with | .done r => some r | _ => none) =
      [some (.err .casMismatch), some (.wrote 2 .none false), some (.err .casMismatch)] ∧
    cf.log.map (·.1) = [1, 0, 2] := by decide

/-! ## cold start (mount-level caches): the config cache (finding F28, repaired: full theorem) and the salt cache
(finding F29: the unchanged code violates "a request that fails leaves data and metadata unchanged" — full statement,
what holds, counterexample; reproduced on the real code by stream `kv2-cold`) -/

/-- A config write that fails leaves the configuration unchanged — the one the backend applies and the stored one —
for EVERY fault position (BeginTx, Get, Put, Commit), transactional and non-transactional storage, config cache cold
or warm.  (Full since the repair of finding F28: `config()` hands out a copy on the cache-miss path, too; the only
trace a failed request can leave is a cache filled with the stored value.) -/
theorem failed_config_write_no_change (c : Cold) (mx : Option Int) (cr : Option Bool) (dva : Option DvaArg)
    (tx : Bool) (fault : Option Nat) (h : (confWriteF c mx cr dva tx fault).2.1 = true) :
    (confWriteF c mx cr dva tx fault).1.effective = c.effective ∧
    (confWriteF c mx cr dva tx fault).1.cfgStored = c.cfgStored ∧
    (confWriteF c mx cr dva tx fault).1.restart = c.restart := by
  revert h
  unfold confWriteF
  cases hc : c.cfgCache with
  | some cfg =>
    simp only
    repeat' split
    all_goals (intro h; first | exact ⟨rfl, rfl, rfl⟩ | cases h)
  | none =>
    simp only
    repeat' split
    all_goals (intro h; first | exact ⟨rfl, rfl, rfl⟩ | (simp [Cold.effective, Cold.restart, hc]; done) | cases h)

/-- … and a config write that succeeds is applied and stored alike -/
theorem config_write_success_published (c : Cold) (mx : Option Int) (cr : Option Bool) (dva : Option DvaArg)
    (tx : Bool) (fault : Option Nat) (h : (confWriteF c mx cr dva tx fault).2.1 = false)
    (hargs : ¬ (mx.isNone ∧ cr.isNone ∧ dva.isNone)) :
    (confWriteF c mx cr dva tx fault).1.effective = (confWriteF c mx cr dva tx fault).1.cfgStored ∧
    (confWriteF c mx cr dva tx fault).1.cfgStored = confWrite c.effective mx cr dva := by
  revert h
  unfold confWriteF
  cases hc : c.cfgCache with
  | some cfg =>
    simp only
    repeat' split
    all_goals (intro h; first | exact absurd ‹_› hargs | (simp [Cold.effective, hc]; done) | cases h)
  | none =>
    simp only
    repeat' split
    all_goals (intro h; first | exact absurd ‹_› hargs | (simp [Cold.effective, hc]; done) | cases h)

/-- non-vacuity: cold cache, non-transactional storage, `config cas_required=true` whose Put (operation 1) fails:
the request errors and the backend keeps applying cas_required=false -/
example :
    let r := confWriteF coldInit none (some true) none false (some 1)
    r.2.1 = true ∧ r.1.effective = initCfg ∧ r.1.cfgCache = some initCfg := by decide

/-- full statement: whatever happens to a write (any fault position, either storage kind), the salt the backend keeps
using is the persisted one — the invariant behind "data written successfully can be read after a restart" -/
def failed_write_salt_persisted_full : Prop :=
  ∀ (c : Cold) (tx : Bool) (fault : Option Nat), SaltOK c → SaltOK (coldWrite c tx fault).1

/-- with that invariant, whatever a write stores is found again after a restart -/
theorem salt_ok_readable (c : Cold) (tx : Bool) (fault : Option Nat) (id : Nat)
    (hok : SaltOK (coldWrite c tx fault).1) (h : (coldWrite c tx fault).2.1 = some id) :
    readableAfterRestart (coldWrite c tx fault).1 id = true := by
  -- the write succeeded, so the cached salt afterwards is the one the blob was stored under
  have saltc : ∀ (c' : Cold) (n : Nat), (coldSalt c' tx fault n).2.1 = some id →
      (coldSalt c' tx fault n).1.saltCache = some id := by
    intro c' n
    unfold coldSalt
    split
    · rename_i i hi
      rcases coldWriteTail_cases c' i false tx fault n with ⟨h1, _⟩ | ⟨h1, h2⟩
      · intro h; rw [h1] at h; cases h
      · intro h; rw [h1] at h; cases h; rw [h2]; exact hi
    · split
      · intro h; cases h
      · split
        · rename_i i hi
          rcases coldWriteTail_cases _ i false tx fault (n + 1) with ⟨h1, _⟩ | ⟨h1, h2⟩
          · intro h; rw [h1] at h; cases h
          · intro h; rw [h1] at h; cases h; rw [h2]
        · split
          · intro h; cases h
          · rcases coldWriteTail_cases _ c'.nextSalt tx tx fault (n + 2) with ⟨h1, _⟩ | ⟨h1, h2⟩
            · intro h; rw [h1] at h; cases h
            · intro h; rw [h1] at h; cases h; rw [h2]
  have key : (coldWrite c tx fault).1.saltCache = some id := by
    unfold coldWrite at h ⊢
    split at h
    · cases h
    · rename_i c' n hp
      exact saltc c' n h
  have := hok id key
  show ((coldWrite c tx fault).1.saltStored == some id) = true
  rw [this]; exact beq_self_eq_true _

/-- it holds on non-transactional storage and once a salt has been persisted -/
theorem failed_write_salt_persisted_partial (c : Cold) (tx : Bool) (fault : Option Nat) (hinv : SaltOK c)
    (hp : tx = false ∨ c.saltStored ≠ none) : SaltOK (coldWrite c tx fault).1 := by
  have hpre := coldPrelude_salt c tx fault
  have tailOK : ∀ (c0 : Cold) (i : Nat) (pend : Bool) (n : Nat), SaltOK c0 → (pend = true → c0.saltCache = some i) →
      SaltOK (coldWriteTail c0 i pend tx fault n).1 := by
    intro c0 i pend n h0 hpend
    rcases coldWriteTail_cases c0 i pend tx fault n with ⟨_, h2⟩ | ⟨_, h2⟩
    · rw [h2]; exact h0
    · rw [h2]
      intro id hid
      simp only at hid ⊢
      cases pend with
      | false => exact h0 id hid
      | true => simp only [↓reduceIte]; rw [hpend rfl] at hid; exact hid.symm ▸ rfl
  unfold coldWrite
  split
  · rename_i c' hpc
    have : c' = (coldPrelude c tx fault).1 := by rw [hpc]
    intro id hid
    rw [this, hpre.1] at hid
    rw [this, hpre.2]
    exact hinv id hid
  · rename_i c' n hpc
    have hc' : c' = (coldPrelude c tx fault).1 := by rw [hpc]
    have hinv' : SaltOK c' := by
      intro id hid
      rw [hc', hpre.1] at hid
      rw [hc', hpre.2]
      exact hinv id hid
    unfold coldSalt
    split
    · exact tailOK _ _ _ _ hinv' (by intro h; cases h)
    · rename_i hnone
      split
      · exact hinv'
      · split
        · rename_i i hi
          exact tailOK _ _ _ _ (by intro id hid; simp only at hid ⊢; cases hid; exact hi) (by intro h; cases h)
        · rename_i hns
          split
          · intro id hid; simp only at hid; rw [hnone] at hid; cases hid
          · -- a new salt was generated: only reachable without a persisted salt, i.e. (by hp) on non-transactional storage
            have htx : tx = false := by
              rcases hp with hp | hp
              · exact hp
              · exfalso; apply hp; rw [← hpre.2, ← hc']; exact hns
            subst htx
            exact tailOK _ _ _ _ (by intro id hid; simp only at hid ⊢; cases hid; rfl) (by intro h; cases h)

/-- … and fails for the first write on transactional storage: its Put of the version blob (storage operation 6 of
[Get config, BeginTx, Get policy, Get metadata, Get salt, Put salt, Put blob, Put metadata, Commit]) fails, the
transaction with the new salt is rolled back, the salt stays cached; the next write succeeds under that salt and
cannot be read after a restart -/
theorem failed_write_salt_persisted_cex : ¬ failed_write_salt_persisted_full := by
  intro h
  have := h coldInit true (some 6) (by decide)
  revert this
  decide

example :
    let c1 := (coldWrite coldInit true (some 6)).1
    (coldWrite coldInit true (some 6)).2.1 = none ∧ (coldWrite c1 true none).2.1 = some 1 ∧
    readableAfterRestart (coldWrite c1 true none).1 1 = false := by decide

/-! ### secret names -/

/-- **A name that is not in cleaned form touches nothing**: the request is refused and data and metadata of every
secret are as they were — in particular those of the secret whose cleaned name it shares. -/
theorem noncanonical_name_refused (s : State) (op : Op) (p : String) (hp : op.path? = some p)
    (hc : canonicalName p = false) : stepC s op = (s, .err .badPath) := by
  unfold stepC
  simp [hp, hc]

/-- requests under names in cleaned form are the register specification (`step`) unchanged -/
theorem canonical_name_served (s : State) (op : Op) (p : String) (hp : op.path? = some p)
    (hc : canonicalName p = true) : stepC s op = step s op := by
  unfold stepC
  simp [hp, hc]

/-- **Two served names never share a cleaned form**: metadata (stored under the cleaned name) and version blobs (stored
under the name as given) of served names are keyed alike. -/
theorem served_names_do_not_alias (p q : String) (hp : canonicalName p = true) (hq : canonicalName q = true)
    (h : cleanName p = cleanName q) : p = q := by
  unfold canonicalName at hp hq
  simp only [beq_iff_eq] at hp hq
  rw [← hp, ← hq, h]

/-- **Finding F68 (repaired)**: the names the backend used to serve as well — `app/`, `/app`, `team//db` — have the
cleaned form of another secret's name and are not in cleaned form themselves. -/
theorem noncanonical_alias_cex :
    cleanName "app/" = cleanName "app" ∧ cleanName "/app" = cleanName "app" ∧ cleanName "team//db" = cleanName "team/db" ∧
    canonicalName "app/" = false ∧ canonicalName "/app" = false ∧ canonicalName "team//db" = false ∧
    canonicalName "app" = true ∧ canonicalName "team/db" = true := by decide

end C14
