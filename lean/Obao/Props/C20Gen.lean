import Obao.Proofs.GF256Gen
/-! C20 — regenerated tie (T-gen): the Go source of `mult`, `inverse`, `add`, translated on every run, equals the model. -/
namespace C20Gen
open Obao.GF256 Obao.Gen.Shamir

/-- the translated loop of `mult` computes the model's `mult` on every byte pair -/
theorem gen_mult_eq_model (a b : Nat) (ha : a < 256) : multGen a b = mult a b :=
  Obao.GF256Gen.multGen_eq a b ha

/-- the translated multiplication chain of `inverse` is the model's chain -/
theorem gen_inverse_eq_model (a : Nat) : inverseGen mult a = inverse a := rfl

theorem gen_add_eq_model (a b : Nat) : addGen a b = add a b := rfl

end C20Gen
