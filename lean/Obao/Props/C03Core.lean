import Obao.Model.RequestAuthz
import Obao.Model.ControlGroup
import Obao.Proofs.AuthzNamespace
/-!
C03 (last clause, at the level of `Core.Capabilities`): "the capability list reported for a path agrees with the
operations actually permitted on it" — for a token of one namespace used in ANOTHER (a parent-namespace token
acting in a child namespace). The token's ACL stores its rules under absolute paths; requests are decided at
`reqNs ++ path`; `Core.Capabilities` must ask the ACL about that same absolute path (`coreCapabilities`).
The ACL-level statements (priority, union, deny, parameters) are in `Obao/Props/C03.lean`; the model of the
request pipeline used here is the one of C02 (`Obao/Model/RequestAuthz.lean`).
-/
namespace C03Core
open Obao Obao.RequestAuthz

theorem trimSlash_of_not_endsSlash (p : Path) (h : endsSlash p = false) : trimSlash p = p := by
  unfold trimSlash
  have h' : List.isPrefixOf ['/'] p.reverse = false := by simpa [endsSlash, List.isSuffixOf, cs] using h
  split
  · rename_i r hr; rw [hr] at h'; simp [List.isPrefixOf] at h'
  · rfl

/-- off trailing-slash paths every path operation is decided by the rule a LIST of the path selects (the rule
`Capabilities` reports) -/
theorem selectPerms_eq_list (rules : List Rule) (op : Op) (path : Path)
    (h : endsSlash (stripLeadingSlashes path) = false) :
    selectPerms rules op path = selectPerms rules .list path := by
  unfold selectPerms
  simp only [trimSlash_of_not_endsSlash _ h, h, Bool.and_false]
  cases hm : mergedAt rules false (stripLeadingSlashes path) <;> simp
  all_goals (cases hp : prefixPerms rules (stripLeadingSlashes path) <;> simp)
  all_goals (split <;> simp_all)

/-- what `parsePaths` establishes: a rule naming `deny` carries nothing else -/
def Normal (c : Caps) : Prop := c.deny = true → c = Caps.denyOnly
def NormalRules (rules : List Rule) : Prop := ∀ r ∈ rules, Normal r.caps

theorem parse_normal (raw : Path) (caps : Caps) : Normal (Rule.parse raw caps).caps := by
  have hn : Normal caps.normalize := by
    unfold Normal Caps.normalize; split <;> simp_all [Caps.denyOnly]
  have key : ∀ p : Path, Normal (match p.reverse with
      | '*' :: r => ({ path := r.reverse, isPrefix := true, caps := caps.normalize } : Rule)
      | _ => { path := p, isPrefix := false, caps := caps.normalize }).caps := by
    intro p; split <;> exact hn
  unfold Rule.parse
  split <;> exact key _

theorem merge_normal (a b : Caps) (ha : Normal a) (_hb : Normal b) : Normal (a.merge b) := by
  unfold Caps.merge
  split
  · exact ha
  · split
    · intro _; rfl
    · intro h; simp_all [Caps.union]

theorem mergedAt_normal (rules : List Rule) (hr : NormalRules rules) (isP : Bool) (k : Path) (c : Caps)
    (h : mergedAt rules isP k = some c) : Normal c := by
  unfold mergedAt at h
  have key : ∀ (rs : List Rule) (acc : Option Caps), (∀ r ∈ rs, Normal r.caps) → (∀ a, acc = some a → Normal a) →
      ∀ c, rs.foldl (fun acc r =>
        if r.isPrefix == isP && r.path == k then
          match acc with
          | Option.none => some r.caps
          | some e => some (e.merge r.caps)
        else acc) acc = some c → Normal c := by
    intro rs
    induction rs with
    | nil => intro acc _ hacc c hc; exact hacc c hc
    | cons r rs ih =>
      intro acc hrs hacc c hc
      simp only [List.foldl_cons] at hc
      refine ih _ (fun r' hr' => hrs r' (List.mem_cons_of_mem _ hr')) ?_ c hc
      intro a ha
      split at ha
      · cases acc with
        | none => simp at ha; rw [← ha]; exact hrs r (List.mem_cons_self ..)
        | some e => simp at ha; rw [← ha]; exact merge_normal _ _ (hacc e rfl) (hrs r (List.mem_cons_self ..))
      · exact hacc a ha
  exact key rules Option.none hr (by intro a ha; cases ha) c h

theorem selectPerms_normal (rules : List Rule) (hr : NormalRules rules) (op : Op) (path : Path) (c : Caps)
    (h : selectPerms rules op path = some c) : Normal c := by
  have hp : ∀ p c, prefixPerms rules p = some c → Normal c := by
    intro p c h
    unfold prefixPerms at h
    split at h
    · cases h
    · exact mergedAt_normal rules hr _ _ c h
  unfold selectPerms at h
  simp only at h
  split at h
  · rename_i c' hc'; cases h; exact mergedAt_normal rules hr _ _ _ hc'
  · split at h
    · rename_i c' hc'; cases h
      split at hc'
      · exact mergedAt_normal rules hr _ _ _ hc'
      · cases hc'
    · split at h
      · rename_i c' hc'; cases h; exact hp _ _ hc'
      · split at h
        · exact hp _ _ h
        · cases h

/-- **core_permitted_is_reported.** Whatever the namespace of the token and the namespace of the request: an
operation the token's ACL permits at `reqNs ++ path` (the path its requests are decided at) has its capability in
the list `Core.Capabilities` reports for `path` in that request namespace (paths without a trailing slash; on those
the LIST fallback makes the report one of another rule — finding F20, ACL level). -/
theorem core_permitted_is_reported (rules : List Rule) (hr : NormalRules rules) (reqNs tokNs path : Path) (op : Op) (name : String)
    (hn : op.capName = some name) (hs : endsSlash (stripLeadingSlashes (reqNs ++ path)) = false)
    (ha : (aclAllowOperation rules op (reqNs ++ path)).allowed = true) :
    name ∈ coreCapabilities false rules reqNs tokNs path := by
  unfold coreCapabilities capabilityList
  have hop : op ≠ .help := by intro h; rw [h] at hn; simp [Op.capName] at hn
  unfold aclAllowOperation at ha
  simp only [beq_iff_eq, hop, ↓reduceIte] at ha
  rw [selectPerms_eq_list rules op _ hs] at ha
  simp only [Bool.false_eq_true, ↓reduceIte]
  cases hsel : selectPerms rules .list (reqNs ++ path) with
  | none => rw [hsel] at ha; simp at ha
  | some c =>
    rw [hsel] at ha
    simp only at ha
    have hN := selectPerms_normal rules hr _ _ c hsel
    have hd : c.deny = false := by
      cases hd : c.deny with
      | false => rfl
      | true => rw [hN hd] at ha; cases op <;> simp [Caps.allows, Caps.denyOnly, Caps.none] at ha
    simp only [hd, Bool.false_eq_true, ↓reduceIte]
    cases op <;> simp [Op.capName] at hn <;> subst hn <;> simp [Caps.allows] at ha <;> simp [ha]

/-- **core_deny_reported_nothing_permitted.** When `Core.Capabilities` reports `deny` for a path in the request's
namespace, no path operation of that token is permitted there. -/
theorem core_deny_reported_nothing_permitted (rules : List Rule) (hr : NormalRules rules) (reqNs tokNs path : Path)
    (op : Op) (name : String) (hn : op.capName = some name)
    (hs : endsSlash (stripLeadingSlashes (reqNs ++ path)) = false)
    (hd : coreCapabilities false rules reqNs tokNs path = ["deny"]) :
    (aclAllowOperation rules op (reqNs ++ path)).allowed = false := by
  cases ha : (aclAllowOperation rules op (reqNs ++ path)).allowed with
  | false => rfl
  | true =>
    have := core_permitted_is_reported rules hr reqNs tokNs path op name hn hs ha
    rw [hd] at this
    cases op <;> simp [Op.capName] at hn <;> subst hn <;> simp at this

/-- the hypotheses are met by parsed rules, and the statement is live: a root-namespace token whose policy names
`team/secret/*` acts in the child namespace `team/`: `read secret/a` is permitted there and reported there -/
example : NormalRules [Rule.parse (cs "team/secret/*") { Caps.none with read := true, list := true }] := by
  intro r hr; simp only [List.mem_singleton] at hr; rw [hr]; exact parse_normal _ _
example : (aclAllowOperation [Rule.parse (cs "team/secret/*") { Caps.none with read := true, list := true }]
            .read (cs "team/" ++ cs "secret/a")).allowed = true
        ∧ coreCapabilities false [Rule.parse (cs "team/secret/*") { Caps.none with read := true, list := true }]
            (cs "team/") [] (cs "secret/a") = ["list", "read"] := by decide

/-- **seeded change C03-4 is a violation**: evaluated in the TOKEN's namespace (the root namespace here) the same
token's report for `secret/a`, asked in `team/`, is `deny` although `read secret/a` is permitted in `team/`. -/
theorem core_capabilities_token_ns_cex :
    ∃ (rules : List Rule) (reqNs tokNs path : Path), NormalRules rules ∧
      endsSlash (stripLeadingSlashes (reqNs ++ path)) = false ∧
      (aclAllowOperation rules .read (reqNs ++ path)).allowed = true ∧
      coreCapabilitiesInTokenNs false rules reqNs tokNs path = ["deny"] :=
  ⟨[Rule.parse (cs "team/secret/*") { Caps.none with read := true, list := true }], cs "team/", [], cs "secret/a",
   by intro r hr; simp only [List.mem_singleton] at hr; rw [hr]; exact parse_normal _ _,
   by decide, by decide, by decide⟩

/-- **capabilities_namespace_invariant.** The capability report inside a namespace is the report the un-prefixed
rules give for the namespace-relative path (same hypotheses as `C02.authorisation_namespace_invariant`). -/
theorem capabilities_namespace_invariant (ns : Path) (rules : List Rule) (p : Path)
    (hns : ns ≠ []) (hns0 : ns.head? ≠ some '/') (hp : p ≠ []) (hp0 : p.head? ≠ some '/') :
    capabilityList false (rules.map (Rule.inNs ns)) (ns ++ p) = capabilityList false rules p := by
  unfold capabilityList
  rw [selectPerms_inNs ns rules .list p hns hns0 hp hp0]

/-- **root_policy_decides_on_qualified_path.** The root policy of a namespace decides on the namespace-QUALIFIED path,
like every other rule: however a path below the namespace is addressed — in the namespace with the relative path, or
from an ancestor with the qualified one — the answer (a request's decision and the capability report alike, both go
through this test) is the same. -/
theorem root_policy_decides_on_qualified_path (rootNs ns1 p1 ns2 p2 : Path) (h : ns1 ++ p1 = ns2 ++ p2) :
    rootAclAllows rootNs ns1 p1 = rootAclAllows rootNs ns2 p2 := by
  have key : ∀ ns p, rootAclAllows rootNs ns p = rootNs.isPrefixOf (ns ++ p) := by
    intro ns p
    unfold rootAclAllows
    cases hp : rootNs.isPrefixOf ns with
    | false => simp
    | true =>
      simp only [Bool.true_or]
      rw [List.isPrefixOf_iff_prefix] at hp
      symm
      rw [List.isPrefixOf_iff_prefix]
      exact List.IsPrefix.trans hp (List.prefix_append ns p)
  rw [key, key, h]

/-- **finding F101 (repaired)**: with the context's namespace alone deciding, the root token of `team/` is refused
(and reported `deny`) for `team/secret/a` asked from the root namespace while the same path asked inside `team/` is
granted. -/
theorem root_policy_ctx_only_cex :
    ∃ (rootNs ns1 p1 ns2 p2 : Path), ns1 ++ p1 = ns2 ++ p2 ∧
      rootAclAllowsCtxOnly rootNs ns1 p1 ≠ rootAclAllowsCtxOnly rootNs ns2 p2 :=
  ⟨cs "team/", cs "team/", cs "secret/a", [], cs "team/secret/a", by decide, by decide⟩

/-! ### "the decision is independent of the order in which policies are attached": the control group of a pattern -/
section CGOrder
open Obao.ControlGroup

theorem ttlMerge_comm (a b : Nat) : ttlMerge a b = ttlMerge b a := by
  unfold ttlMerge
  split <;> split <;> omega

/-- **cg_merge_order_independent.** Whether a request on the pattern is deferred for approval, for how long, whether
the requester may approve it, and WHICH factors have to be satisfied do not depend on the order in which two stanzas
of the pattern are merged. -/
theorem cg_merge_order_independent (a b : Option CG) :
    (cgMerge a b).isSome = (cgMerge b a).isSome ∧
    (∀ x y, cgMerge a b = some x → cgMerge b a = some y →
      x.ttl = y.ttl ∧ x.self = y.self ∧ ∀ f, f ∈ x.factors ↔ f ∈ y.factors) := by
  cases a with
  | none => cases b <;> simp [cgMerge]
  | some a =>
    cases b with
    | none => simp [cgMerge]
    | some b =>
      refine ⟨by simp [cgMerge], ?_⟩
      intro x y hx hy
      simp only [cgMerge, Option.some.injEq] at hx hy
      subst hx; subst hy
      refine ⟨ttlMerge_comm _ _, Bool.and_comm _ _, ?_⟩
      intro f
      simp only [CG.merge, List.mem_append, List.mem_filter, Bool.not_eq_true', List.contains_eq_mem,
        decide_eq_false_iff_not]
      constructor
      · rintro (h | ⟨h, _⟩)
        · by_cases hb : f ∈ b.factors
          · exact Or.inl hb
          · exact Or.inr ⟨h, hb⟩
        · exact Or.inl h
      · rintro (h | ⟨h, _⟩)
        · by_cases ha : f ∈ a.factors
          · exact Or.inl ha
          · exact Or.inr ⟨h, ha⟩
        · exact Or.inl h

/-- a control group named by ANY stanza of the pattern is enforced -/
theorem cg_required_if_any (a b : Option CG) : (cgMerge a b).isSome = (a.isSome || b.isSome) := by
  cases a <;> cases b <;> simp [cgMerge]

/-- **finding F97 (repaired)**: with "the stanza inserted first decides" the approval requirement of policy `zzz` is
dropped for every token that also holds a policy with a stanza for the same pattern whose name sorts first. -/
theorem cg_first_only_order_cex :
    ∃ a b : Option CG, (cgOfFirstOnly [a, b]).isSome ≠ (cgOfFirstOnly [b, a]).isSome ∧
      (cgOf [a, b]).isSome = (cgOf [b, a]).isSome :=
  ⟨some ⟨15, false, ["admin-approval"]⟩, none, by decide, by decide⟩

end CGOrder

end C03Core
