import Obao.Proofs.RequestAuthz
import Obao.Proofs.AuthzNamespace
/-!
C02 — "No backend effect or data without a live token and an allowing policy".

All theorems are about the pipeline model `Obao.RequestAuthz.State.handle` (tied to `internal/vault` by the differential
stream `authz`) and hold for EVERY state (every mount table with arbitrary unauthenticated/root tables, every policy set,
every set of tokens in any status), every request (any token form, operation, path, remote address) and — where a
history appears — every sequence of commands.
-/
namespace C02
open Obao.RequestAuthz

/-- A request reaches a backend (routing event, handler invocation or storage write in its trace) only if its path is
declared unauthenticated by the mounted backend or it carries a live token whose current policies allow it. -/
theorem route_requires_authz (s : State) (r : Request) (e : Ev)
    (he : e ∈ (s.handle r).2.2) (heff : e.isEffect = true) :
    s.loginPath r.path = true ∨ Authorized s r := by
  rcases handle_cases s r with ⟨c, -, hc⟩ | ⟨hlog, -⟩ | ⟨-, hc⟩
  · rw [hc] at he; simp at he
  · exact Or.inl hlog
  · right
    rw [hc] at he
    unfold State.handleAuthed at he
    split at he
    · simp at he
    · rename_i t hf
      split at he
      · have := useToken_events s t e he
        simp [this] at heff
      · rename_i hck
        exact (authorized_iff_fetch_check s r).2 ⟨t, hf, by simpa using hck⟩

/-- The same for the response: anything other than an error is returned only under the same condition. -/
theorem ok_requires_authz (s : State) (r : Request) (h : (s.handle r).2.1 = .ok) :
    s.loginPath r.path = true ∨ Authorized s r := by
  rcases handle_cases s r with ⟨c, hne, hc⟩ | ⟨hlog, -⟩ | ⟨-, hc⟩
  · rw [hc] at h; exact absurd h hne
  · exact Or.inl hlog
  · right
    rw [hc] at h
    unfold State.handleAuthed at h
    split at h
    · simp at h
    · rename_i t hf
      split at h
      · simp at h
      · rename_i hck
        exact (authorized_iff_fetch_check s r).2 ⟨t, hf, by simpa using hck⟩

/-- Any other request is refused: the answer is an error, no backend is routed to, no handler runs, no backend storage
changes, mounts/policies/entities are untouched, and the only state change possible is the use count of the presented
token (`UseToken` runs even when the check failed). -/
theorem denied_no_effect (s : State) (r : Request)
    (hl : s.loginPath r.path = false) (hn : ¬ Authorized s r) :
    (s.handle r).2.1 ≠ .ok ∧
    (∀ e ∈ (s.handle r).2.2, e.isEffect = false) ∧
    (s.handle r).1.store = s.store ∧ (s.handle r).1.mounts = s.mounts ∧
    (s.handle r).1.policies = s.policies ∧ (s.handle r).1.disabled = s.disabled ∧
    ((s.handle r).1 = s ∨ ∃ t, s.fetch r false = some t ∧ (s.handle r).1 = (s.useToken t).1) := by
  refine ⟨fun hok => hn ?_, fun e he => ?_, ?_⟩
  · rcases ok_requires_authz s r hok with h | h
    · rw [hl] at h; contradiction
    · exact h
  · cases heff : e.isEffect
    · rfl
    · rcases route_requires_authz s r e he heff with h | h
      · rw [hl] at h; contradiction
      · exact absurd h hn
  · rcases handle_cases s r with ⟨c, -, hc⟩ | ⟨hlog, -⟩ | ⟨-, hc⟩
    · rw [hc]; simp
    · rw [hl] at hlog; contradiction
    · rw [hc]
      unfold State.handleAuthed
      split
      · simp
      · rename_i t hf
        split
        · have hp := useToken_preserves s t
          exact ⟨hp.2.2.2, hp.1, hp.2.1, hp.2.2.1, Or.inr ⟨t, hf, rfl⟩⟩
        · rename_i hck
          exact absurd ((authorized_iff_fetch_check s r).2 ⟨t, hf, by simpa using hck⟩) hn

/-- A root-protected path is served only to the root policy or to a token whose policies grant `sudo` on it (`help`
excepted, as in `performPolicyChecks`); declaring a path unauthenticated does not open a root-protected path. -/
theorem rootPath_requires_sudo (s : State) (r : Request) (e : Ev)
    (he : e ∈ (s.handle r).2.2) (heff : e.isEffect = true) (hroot : s.rootPath r.path = true) :
    ∃ t, Live s r t ∧ (t.policies = ["root"] ∨ effOp r.op = .help ∨
      (aclAllowOperation (s.rulesOf t) (effOp r.op) (s.existAdjust r.op r.path)).rootPrivs = true) := by
  have key : s.loginPath r.path = true → False := by
    intro hlog
    rcases handle_cases s r with ⟨c, -, hc⟩ | ⟨-, hc⟩ | ⟨hl, -⟩
    · rw [hc] at he; simp at he
    · rw [hc, handleLogin_root s r hroot] at he; simp at he
    · rw [hl] at hlog; contradiction
  rcases route_requires_authz s r e he heff with h | ⟨t, hlive, hp⟩
  · exact (key h).elim
  · refine ⟨t, hlive, ?_⟩
    rcases hp with hp | ⟨_, hp⟩
    · exact Or.inl hp
    · by_cases hh : effOp r.op = .help
      · exact Or.inr (Or.inl hh)
      · exact Or.inr (Or.inr (hp hroot hh))

/-- Requests with `.`/`..` path segments never get past the first stage. -/
theorem relpath_refused (s : State) (r : Request) (h : isRelativePath r.path = true) :
    s.handle r = (s, .relpath, []) := by
  simp [State.handle, h]

/-! ### policy and token changes are honoured by the very next request -/

/-- The decision after any history `h` followed by a mutation `m` is the decision computed from the mutated state:
nothing of the pre-mutation state is consulted (the model has no cache; the differential stream checks that the code's
policy LRU and lease-time cache behave the same, by repeating the previous request right after every mutation). -/
theorem fresh_policy_and_token_state (s0 : State) (h : List Cmd) (m : Cmd) (r : Request) :
    (s0.run (h ++ [m])).handle r =
      (match (s0.run h).step m with
       | some (s', _, _) => s'
       | none => s0.run h).handle r := by
  congr 1
  induction h generalizing s0 with
  | nil => simp only [List.nil_append, State.run]; split <;> simp_all
  | cons c cs ih =>
    simp only [List.cons_append, State.run]
    split <;> exact ih _

/-- Deleting a policy takes effect immediately: in the state after `polDel n` the policy contributes no rule. -/
theorem policy_delete_immediate (s : State) (n : String) (s' : State) (c : Class) (evs : List Ev)
    (h : s.step (.polDel n) = some (s', c, evs)) : s'.policies.lookup n = none := by
  simp only [State.step, Option.some.injEq, Prod.mk.injEq] at h
  obtain ⟨rfl, -, -⟩ := h
  simp only
  induction s.policies with
  | nil => simp
  | cons p ps ih =>
    by_cases hp : p.1 = n
    · simp [List.filter, hp, ih]
    · have : (p.1 != n) = true := by simpa using hp
      have hn : (n == p.1) = false := by simpa using fun h => hp h.symm
      simp [List.filter, this, List.lookup, hn, ih]

/-- …so a token all of whose policies were deleted (or never existed) is refused everything but `help` on every
authenticated path, whatever it was allowed before. -/
theorem no_policy_no_access (s : State) (r : Request) (t : Token)
    (hlive : Live s r t) (hnoroot : t.policies ≠ ["root"])
    (hpol : ∀ n ∈ t.policies, s.policies.lookup n = none)
    (hop : effOp r.op ≠ .help) (hl : s.loginPath r.path = false) :
    (s.handle r).2.1 ≠ .ok ∧ ∀ e ∈ (s.handle r).2.2, e.isEffect = false := by
  have hrules : s.rulesOf t = [] := by
    unfold State.rulesOf
    rw [List.flatMap_eq_nil_iff]
    intro n hn
    simp [hpol n hn]
  have hn : ¬ Authorized s r := by
    rintro ⟨t', hl', hp'⟩
    have h1 : s.fetch r false = some t := fetch_false_of_live hlive
    have h2 : s.fetch r false = some t' := fetch_false_of_live hl'
    have : t' = t := by rw [h1] at h2; exact (Option.some.inj h2).symm
    subst this
    rcases hp' with hp' | ⟨hp', -⟩
    · exact hnoroot hp'
    · rw [hrules] at hp'
      simp [aclAllowOperation, hop, selectPerms, mergedAt, prefixPerms, longestPrefix] at hp'
  have := denied_no_effect s r hl hn
  exact ⟨this.1, this.2.1⟩

/-- Revocation is honoured by the very next request and by every later one: once the entry of token `l` is revoked, no
history of further commands makes a request presenting `l` authorized again. -/
theorem revoked_never_again (s : State) (l : String) (h : List Cmd) (r : Request)
    (hrev : ∃ t, s.findToken l = some t ∧ t.revoked = true) (hr : r.tok = .valid l) :
    ¬ Authorized (s.run h) r := by
  have inv : ∃ t, (s.run h).findToken l = some t ∧ t.revoked = true := run_keeps_revoked s l h hrev
  rintro ⟨t, hlive, -⟩
  obtain ⟨t', hf, hrv⟩ := inv
  have hl : t.label = l := by
    have := hlive.presented
    rw [hr] at this
    exact (TokForm.valid.inj this).symm
  have := hlive.stored
  rw [hl, hf] at this
  cases this
  rw [hlive.notRevoked] at hrv
  contradiction

/-- Use counts: on an authenticated path a request that gets as far as the token check consumes one use of a
limited-use token EVEN WHEN IT IS THEN DENIED, and the last use leaves the entry in the revocation-pending state, which
`lookupInternal` refuses. -/
theorem use_counted_even_when_denied (s : State) (r : Request) (t : Token)
    (hrel : isRelativePath r.path = false) (hsl : (endsSlash r.path && r.op.isWrite) = false)
    (hext : r.op.external = true) (hl : s.loginPath r.path = false)
    (hf : s.fetch r false = some t) (hn : t.numUses ≠ 0) :
    ∃ t', (s.handle r).1.findToken t.label = some t' ∧
      t'.numUses = (if t.numUses = 1 then -3 else t.numUses - 1) ∧ t'.revoked = t.revoked := by
  obtain ⟨hpres, hstored, -, -⟩ := fetch_false_some hf
  have hpop : s.populate r.tok false = none := by
    simp [State.populate, hpres, hstored]
  have hh : (s.handle r).1.tokens = (s.useToken t).1.tokens := by
    unfold State.handle
    simp only [hrel, hsl, hext, hl, hpop, Bool.false_eq_true, ↓reduceIte, Bool.not_true]
    unfold State.handleAuthed
    simp only [hf]
    split
    · rfl
    · exact route_tokens _ _ _
  unfold State.findToken
  rw [hh]
  exact useToken_findToken s t hstored hn

/-- …for good: once the stored use count of token `l` is negative (its last use was consumed), no history of further
commands makes a request presenting `l` authorized again (with `use_counted_even_when_denied`: a token created with
`num_uses = n` authenticates at most `n` requests, denied ones included). -/
theorem exhausted_never_again (s : State) (l : String) (h : List Cmd) (r : Request)
    (hex : ∃ t, s.findToken l = some t ∧ t.numUses < 0) (hr : r.tok = .valid l) :
    ¬ Authorized (s.run h) r := by
  obtain ⟨t', hf, hneg⟩ := run_keeps_exhausted s l h hex
  rintro ⟨t, hlive, -⟩
  have hl : t.label = l := by
    have := hlive.presented
    rw [hr] at this
    exact (TokForm.valid.inj this).symm
  have := hlive.stored
  rw [hl, hf] at this
  cases this
  have := hlive.withinUses
  omega

/-! ### mount-boundary form -/

/-- `routeCommon`'s retry: a path equal to a mount name without its slash is routed to that mount with the empty
relative path, while `MatchingMount`/`LoginPath`/`RootPath` (and, except for create/update, the ACL) saw the path as
sent. -/
theorem route_slash_retry (s : State) (op : Op) (p : Path) (m : Mount)
    (h1 : s.mountOf p = none) (h2 : endsSlash p = false) (h3 : s.mountOf (p ++ cs "/") = some m)
    (h4 : m.path = p ++ cs "/") :
    Ev.route m.path op [] ∈ (s.route op p).2.2 ∧ s.loginPath p = false ∧ s.rootPath p = false := by
  refine ⟨?_, by simp [State.loginPath, h1], by simp [State.rootPath, h1]⟩
  unfold State.route
  simp [h1, h2, h3, h4]

/-! ### `Router.RootPath` / `Router.LoginPath` special-path matching -/

def rootPath_impl_eq_decl_full : Prop :=
  ∀ (t : SpecialTable) (remain : Path), t.matches remain = true ↔ declMatches t remain

/-- the radix matching (longest stored key that is a prefix of the path, then THAT entry's exact/prefix flag) agrees
with "some declared pattern matches" for every table in which no exact entry extends a prefix entry -/
theorem rootPath_impl_eq_decl_partial (t : SpecialTable) (hu : Unshadowed t) (remain : Path) :
    t.matches remain = true ↔ declMatches t remain :=
  matches_iff_decl t hu remain

/-- …and not in general: with `["a/*", "a/b"]` the exact entry shadows the prefix entry for `a/bc`, which the
implementation then treats as NOT special (for a root table: sudo would not be required). -/
theorem rootPath_shadow_cex : ¬ rootPath_impl_eq_decl_full := by
  intro h
  have := (h (SpecialTable.parse [cs "a/*", cs "a/b"]) (cs "a/bc")).2
    ⟨(cs "a/", true), by decide, Or.inl ⟨rfl, by decide⟩⟩
  revert this
  decide

/-- the matching can only err towards "not special": whenever the implementation says special, a declared pattern matches
(for `LoginPath` this means shadowing can only make a path MORE restricted) -/
theorem loginPath_impl_sound (t : SpecialTable) (remain : Path) (h : t.matches remain = true) :
    declMatches t remain :=
  matches_sound t remain h

/-! ### non-vacuity -/

/-- an allowed read reaches the handler and consumes a use … -/
example : (exState.handle (exReq (.valid "t1") .read "rec/data/a")).2 =
    (.ok, [Ev.useToken "t1", Ev.route (cs "rec/") .read (cs "data/a"), Ev.handler (cs "rec/") .read (cs "data/a")]) := by
  decide
/-- … a denied one is refused but still consumes a use (hypotheses of `use_counted_even_when_denied` are satisfiable) … -/
example : (exState.handle (exReq (.valid "t1") .update "rec/data/a")).2 = (.denied, [Ev.useToken "t1"]) := by decide
/-- … the root-protected path needs the sudo rule (hypotheses of `rootPath_requires_sudo`) … -/
example : exState.rootPath (cs "rec/root/x") = true ∧
    (exState.handle (exReq (.valid "t1") .read "rec/root/x")).2.1 = .ok := by decide
/-- … CIDR mismatch, absent token, mutated signature are refused without effect (hypotheses of `denied_no_effect`) … -/
example : (exState.handle (exReq (.valid "t2") .read "rec/data/a" .outCidr)) = (exState, .denied, []) := by decide
example : (exState.handle (exReq .none .read "rec/data/a")) = (exState, .denied, []) := by decide
example : (exState.handle (exReq (.mutsig "t1") .read "rec/data/a")) = (exState, .denied, []) := by decide
/-- … and the unauthenticated path is served to anyone. -/
example : (exState.handle (exReq .none .read "rec/unauth/x")).2.1 = .ok := by decide
/-- after deleting the policy the very next request is refused (`policy_delete_immediate`, `no_policy_no_access`) -/
example : ((exState.run [.polDel "p1"]).handle (exReq (.valid "t2") .read "rec/data/a")).2 = (.denied, []) := by decide
/-- after revoking the token the very next request is refused (`revoked_never_again`) -/
example : ((exState.run [.tokRevoke "t2"]).handle (exReq (.valid "t2") .read "rec/data/a")).2 = (.denied, []) := by decide
/-- the tables of the recording backend (and the shape of every builtin table: prefixes and unrelated exact entries)
satisfy `Unshadowed` -/
example : Unshadowed (SpecialTable.parse [cs "unauth/*", cs "login", cs "root/*"]) := by
  intro p e hp he
  simp [SpecialTable.parse, cs] at hp he
  rcases hp with rfl | rfl <;> subst he <;> decide
/-- mount-boundary form: `rec` is routed to `rec/` with the empty relative path -/
example : (exState.route .read (cs "rec")).2.2 = [Ev.route (cs "rec/") .read []] := by decide

/-! ### namespaces: "…whose policies allow that operation on that NAMESPACE-QUALIFIED path" -/

/-- **authorisation_namespace_invariant.** A policy of namespace `ns` stores its rules under `ns ++ path`, a request
made in `ns` is decided at `ns ++ path`. For every rule list, operation and namespace-relative request path (non-empty,
no leading slash) and every namespace path (non-empty, no leading slash — `"team/"`, `"team/sub/"`), the policy check
is the one the un-prefixed rules give on the un-prefixed path: the pipeline theorems above, stated for the root
namespace, hold verbatim inside every namespace; the correspondence runs every third script inside a child namespace
(and every third with the policies in the root namespace naming the child's paths) against the SAME model. -/
theorem authorisation_namespace_invariant (ns : Path) (rules : List Rule) (op : Op) (p : Path) (rootPrivs : Bool)
    (hns : ns ≠ []) (hns0 : ns.head? ≠ some '/') (hp : p ≠ []) (hp0 : p.head? ≠ some '/') :
    policyChecks false (rules.map (Rule.inNs ns)) op (ns ++ p) rootPrivs = policyChecks false rules op p rootPrivs := by
  unfold policyChecks aclAllowOperation
  rw [selectPerms_inNs ns rules op p hns hns0 hp hp0]

/-- live: in `team/` the rule `team/secret/*` decides `secret/a` exactly as `secret/*` decides it at the root; a rule of
ANOTHER namespace (`other/secret/*`) grants nothing there -/
example : policyChecks false ([Rule.parse (cs "secret/*") { Caps.none with read := true }].map (Rule.inNs (cs "team/")))
            .read (cs "team/" ++ cs "secret/a") false = true
        ∧ policyChecks false [Rule.parse (cs "other/secret/*") { Caps.none with read := true }]
            .read (cs "team/" ++ cs "secret/a") false = false := by decide

/-- the leading-slash hypothesis is necessary (what the correspondence compares only up to refusal class, `reqns`):
at the root `/secret/a` is stripped to `secret/a` and allowed, in `team/` the ACL sees `team//secret/a` -/
example : policyChecks false [Rule.parse (cs "secret/*") { Caps.none with read := true }] .read (cs "/secret/a") false = true
        ∧ policyChecks false ([Rule.parse (cs "secret/*") { Caps.none with read := true }].map (Rule.inNs (cs "team/")))
            .read (cs "team/" ++ cs "/secret/a") false = false := by decide

end C02
