import Obao.Proofs.TxnMerge4
/-!
C13 — all storage backends and layers implement one key/value and listing contract.

Specification: `Obao/Model/SortedKV.lean` (`children`, `listPage`, `kvGet/kvPut/kvDel`). Implementation-shaped
models: `Obao/Model/Listing.lean` (`inmemList`, `raftList`, `raftTxnList`, `fileList`, the cache machine, the layer
stack). Every theorem below quantifies over ALL key lists / stores, prefixes, `after` strings, limits and
operation sequences; the only standing hypothesis is that the ordered container presents its keys in strictly
ascending bytewise order (`Sorted`), which `kv_keys_sorted` shows every reachable store satisfies.

History: until the repair of the raft seek (`filepath.Join(prefix, after)` → `prefix + after`; findings F4, F9, F40)
the raft statements carried a side condition on the cursor start and had counterexample theorems; they are full now.
The one remaining defect of the current tree (F41, the empty child of a pending Put) keeps
`rafttxn_list_pending_eq_spec_partial` partial, with `rafttxn_pending_empty_child_cex` as its witness.
-/
namespace C13
open Obao.KV Obao.Listing

/-! ### the specification is well defined -/

/-- the specified child list is strictly ascending (hence duplicate-free), for any key list in any order -/
theorem children_sorted (keys : List Key) (p : Key) : Sorted (children keys p) := children_sorted' keys p

/-- … and contains exactly the immediate children: first segments (sub-prefixes with their slash) of the keys under `p` -/
theorem children_mem_iff (keys : List Key) (p c : Key) :
    c ∈ children keys p ↔ ∃ k ∈ keys, hasPrefix p k = true ∧ child p k = c := children_mem'

/-- these two facts determine the list: any strictly ascending list with those members IS `children keys p` -/
theorem children_unique (keys : List Key) (p : Key) (l : List Key) (hs : Sorted l)
    (hm : ∀ c, c ∈ l ↔ ∃ k ∈ keys, hasPrefix p k = true ∧ child p k = c) : l = children keys p :=
  sorted_ext hs (children_sorted' keys p) (fun c => by rw [hm c, children_mem'])

/-! ### key/value map -/

/-- get returns the last value put, nothing after delete, and is unaffected by operations on other keys -/
theorem kv_refines_map (s : Store) (k k' : Key) (v : Val) :
    kvGet (kvPut s k v) k' = (if k' = k then some v else kvGet s k') ∧
    kvGet (kvDel s k) k' = (if k' = k then none else kvGet s k') ∧
    kvGet ([] : Store) k' = none :=
  ⟨kvGet_kvPut s k k' v, kvGet_kvDel s k k', rfl⟩

/-- the key set follows the map, and stays strictly sorted: every reachable store satisfies `Sorted (keys s)` -/
theorem kv_keys_sorted (s : Store) (k : Key) (v : Val) (hs : Sorted (keys s)) :
    Sorted (keys (kvPut s k v)) ∧ Sorted (keys (kvDel s k)) ∧
    (∀ k', k' ∈ keys (kvPut s k v) ↔ k' = k ∨ k' ∈ keys s) ∧
    (∀ k', k' ∈ keys (kvDel s k) ↔ k' ≠ k ∧ k' ∈ keys s) :=
  ⟨sorted_keys_kvPut k v hs, sorted_keys_kvDel k hs, fun _ => mem_keys_kvPut, fun _ => mem_keys_kvDel⟩

example : Sorted (keys (kvPut (kvPut [] [98] [1]) [97, 47, 99] [2])) := by decide

/-! ### listings equal the specification -/

/-- inmem `listPaginatedInternal` (radix walk, `seen` set, `trimmed <= after` skip, limit) = specification,
for every sorted key list, prefix, `after` and `limit` -/
theorem inmem_list_eq_spec (keys : List Key) (hs : Sorted keys) (p after : Key) (limit : Int) :
    inmemList keys p after limit = listPage keys p after limit :=
  inmemList_eq_listPage keys hs p after limit

/-- file backend `ListPageInternal` (sorted names, `sort.SearchStrings`, slice) = specification -/
theorem file_list_eq_spec (keys : List Key) (p after : Key) (limit : Int) :
    fileList (children keys p) after limit = listPage keys p after limit :=
  fileList_eq_listPage keys p after limit

/-- raft `listPageInner` (bbolt cursor from `prefix + after`, collapse against the last emitted key, `<= after` skip,
limit) = specification, for every sorted key list, prefix, `after` and `limit`. FULL since the repair of F4/F9/F40:
before it the cursor started at `filepath.Join(prefix, after)` and the statement needed `seek ≤ prefix ++ after`. -/
theorem fsm_list_eq_spec (keys : List Key) (hs : Sorted keys) (p after : Key) (limit : Int) :
    raftList keys p after limit = listPage keys p after limit :=
  raftListFrom_eq_listPage keys hs _ p after limit (raftSeek_safe p after)

/-- `RaftTransaction.ListPage` without pending writes = specification, for every input (FULL since the repair) -/
theorem rafttxn_list_eq_spec (keys : List Key) (hs : Sorted keys) (p after : Key) (limit : Int) :
    raftTxnList keys [] p after limit = listPage keys p after limit :=
  raftTxnList_nil_eq_listPage keys hs p after limit (raftSeek_safe p after)

/-- the inputs that witnessed F9, F40 and F4 on the old seek now list what the specification says -/
example : raftList [[102,111,111,47,97],[102,111,111,47,98],[102,111,111,47,122]] [102,111,111,47] [97,47,46,46,47,109] (-1)
    = [[98],[122]] := by decide
example : raftList [[102,111,111,45,120],[102,111,111,46],[102,111,111,47,121]] [102,111,111] [45] (-1)
    = [[45,120],[46],[47]] := by decide
example : raftTxnList [[97],[102,111,111,47,97],[102,111,111,47,98],[102,111,111,47,122],[122,122]] [] [102,111,111,47] [46,46] (-1)
    = [[97],[98],[122]] := by decide

/-- F41: a pending Put of the key `foo/` is not listed as the empty child of `foo/` inside the transaction,
although the store the transaction will commit has it -/
theorem rafttxn_pending_empty_child_cex :
    raftTxnList [[102,111,111,47,97]] [([102,111,111,47], some [1])] [102,111,111,47] [] (-1) = [[97]] ∧
    listPage (keys (overlay [([102,111,111,47,97], [0])] [([102,111,111,47], some [1])])) [102,111,111,47] [] (-1) = [[], [97]] := by
  decide

/-! ### listings inside a raft transaction WITH pending writes -/

/-- the pending-write table of a transaction holds at most one record per key: true initially and kept by every
Put / Delete (`updSet`) -/
theorem rafttxn_updates_wf (u : Updates) (h : UpdWF u) (k : Key) (r : Option Val) : UpdWF [] ∧ UpdWF (updSet u k r) :=
  ⟨updWF_nil, updWF_updSet h k r⟩

/-- `RaftTransaction.ListPage` with ANY pending puts and deletes (the merge of `updates`, the hiding of
`deletions`, folder collapsing, the limit with its final trim) lists exactly the store the transaction presents —
the committed store overlaid with the pending writes — for every committed store, pending-write table, prefix,
`after` and `limit`, provided no pending Put writes the key that equals the listed prefix (F41; the only remaining
side condition since the repair of the seek) -/
theorem rafttxn_list_pending_eq_spec_partial (s : Store) (hs : Sorted (keys s)) (u : Updates) (hu : UpdWF u)
    (p after : Key) (limit : Int) (hne : ∀ k v, (k, some v) ∈ u → k ≠ p) :
    raftTxnList (keys s) u p after limit = listPage (keys (overlay s u)) p after limit :=
  raftTxnList_eq_listPage s hs u hu p after limit (raftSeek_safe p after) hne

/-- the store a transaction presents is the map one expects: pending puts win, pending deletes hide, the rest shows -/
theorem rafttxn_overlay_keys (s : Store) (u : Updates) (k : Key) :
    k ∈ keys (overlay s u) ↔ (∃ v, updGet u k = some (some v)) ∨ (updGet u k = none ∧ k ∈ keys s) :=
  mem_keys_overlay s u k

/-- non-vacuity: disk foo/a foo/b foo/d/x, pending put foo/c, put foo/d/y, delete foo/b; list foo/ after "a" limit 2 -/
example :
    raftTxnList (keys [([102,111,111,47,97],[1]), ([102,111,111,47,98],[2]), ([102,111,111,47,100,47,120],[3])])
      (updSet (updSet (updSet [] [102,111,111,47,99] (some [9])) [102,111,111,47,100,47,121] (some [8])) [102,111,111,47,98] none)
      [102,111,111,47] [97] 2 = [[99],[100,47]] := by decide


/-! ### read cache -/

/-- the write-through cache with negative entries never changes an observation: for every operation sequence,
with evictions interleaved anywhere, a `Get` through the cache returns what the bare backend returns -/
theorem cache_coherent (backend : Store) (ops : List CacheOp) :
    cacheRun { backend := backend, lru := [] } ops = plainRun backend ops :=
  cacheRun_eq_plainRun _ (by intro k r h; simp [updGet] at h) ops

/-- one step from any coherent state (not only the empty cache) keeps coherence -/
theorem cache_step_coherent (c : CacheSt) (op : CacheOp) (h : Coherent c) : Coherent (cacheStep c op).1 :=
  (coherent_step c op h).1

example : cacheRun { backend := [], lru := [] } [.get [1], .put [1] [7], .evict [1], .get [1], .del [1], .get [1]]
    = [some none, none, none, some (some [7]), none, some none] := by decide

/-! ### views -/

/-- a key accepted by a stack of views is mapped below the concatenated view prefix — nothing else is reachable -/
theorem view_confined (write : Bool) (layers : List Layer) (k bk : Key) (h : xlate write layers k = some (.ok bk)) :
    bk = viewPrefix layers ++ k := xlate_prefix write layers k bk h

/-- hence a Put or Delete through the stack leaves every key outside the view prefix untouched -/
theorem view_write_outside_unchanged (layers : List Layer) (k bk k' : Key) (v : Val) (s : Store)
    (h : xlate true layers k = some (.ok bk)) (hout : hasPrefix (viewPrefix layers) k' = false) :
    kvGet (kvPut s bk v) k' = kvGet s k' ∧ kvGet (kvDel s bk) k' = kvGet s k' := by
  have hb := xlate_prefix true layers k bk h
  have hne : k' ≠ bk := by
    intro e
    rw [e, hb, hasPrefix_append] at hout
    exact absurd hout (by simp)
  rw [kvGet_kvPut, kvGet_kvDel]
  simp [hne]

example : xlate true [.lview [98, 47], .cache, .pview [97, 47]] [120] = some (.ok [97, 47, 98, 47, 120]) := by rfl

/-- the entry a Get returns through any stack of views, caches and encoding layers carries the key that was asked
for (F42, repaired: `physical.View.Get` used to truncate the key in place on the cache's own object, so this held
only for the first read of a key) -/
theorem view_get_key_roundtrip (write : Bool) (layers : List Layer) (k bk : Key)
    (h : xlate write layers k = some (.ok bk)) : keyBack layers bk = k := keyBack_xlate write layers k bk h

/-- hence every successful model Get reports the requested key -/
theorem get_reports_requested_key (st : St) (k : Key) (v : Val) (k' : Key) (h : doGet st k = .got v k') : k' = k := by
  unfold doGet at h
  split at h
  · exact absurd h (by simp)
  · exact absurd h (by simp)
  · rename_i bk hx
    have hk := keyBack_xlate false _ k bk hx
    have aux : ∀ r, entryRes st bk r = .got v k' → k' = k := by
      intro r hr
      unfold entryRes at hr
      split at hr
      · exact absurd hr (by simp)
      · cases hr; exact hk
    repeat' (first | exact aux _ h | exact absurd h (by simp) | split at h)

example : keyBack [.pview [102,111,111,47], .cache] [102,111,111,47,102,111,111,47,98] = [102,111,111,47,98] := by decide

/-! ### well-formed continuation tokens, paging, scanning -/

/-- paging: asking for the page after the last entry received, until a page comes back empty, yields exactly the
full child list — for every page size ≥ 1, provided no child is the empty string (a key equal to the listed
prefix; see `empty_child_corner`) -/
theorem paged_concat_eq_full (keys : List Key) (p : Key) (limit : Int) (hl : limit ≥ 1)
    (hne : ([] : Key) ∉ children keys p) :
    ∃ fuel, pageAll (fun after => listPage keys p after limit) fuel [] = some (children keys p) := by
  refine ⟨(children keys p).length + 1, ?_⟩
  have := pageAll_spec keys p limit hl hne ((children keys p).length + 1) [] (by rw [spec0_nil]; omega)
  rw [spec0_nil] at this; exact this

/-- the corner excluded above: with the key `foo/` stored, page size 1 returns the empty child for ever
(`after = ""` means "from the start"); fuel runs out at every bound -/
theorem empty_child_corner (fuel : Nat) :
    pageAll (fun after => listPage [[102,111,111,47]] [102,111,111,47] after 1) fuel [] = none := by
  induction fuel with
  | zero => rfl
  | succ f ih =>
    unfold pageAll
    have : listPage [[102,111,111,47]] [102,111,111,47] [] 1 = [[]] := by decide
    simp only [this]
    simp [ih]

/-- `scanViewPaginated` over the specified listing: for every key list and every page size ≥ 2 it terminates and
its callback sequence contains every key exactly once and nothing else -/
theorem scan_visits_exactly (ks : List Key) (pageSize : Int) (hps : pageSize ≥ 2) :
    ∃ fuel l, scanView (specLister ks) pageSize fuel = some (.ok l) ∧ l.Nodup ∧ ∀ k, k ∈ l ↔ k ∈ ks :=
  scanView_visits_exactly ks pageSize hps

/-- the same over the inmem backend's own listing -/
theorem scan_inmem_visits_exactly (ks : List Key) (hs : Sorted ks) (pageSize : Int) (hps : pageSize ≥ 2) :
    ∃ fuel l, scanView (fun p after limit => .ok (inmemList ks p after limit)) pageSize fuel = some (.ok l) ∧
      l.Nodup ∧ ∀ k, k ∈ l ↔ k ∈ ks := by
  rw [inmem_lister_eq ks hs]; exact scanView_visits_exactly ks pageSize hps

/-- … and over both raft listings (plain, and inside a read-only transaction as `ScanViewPaginated` does on a logical
view): a consequence of `fsm_list_eq_spec` / `rafttxn_list_eq_spec`; false before the repair (F4 and F40 broke it) -/
theorem scan_raft_visits_exactly (ks : List Key) (hs : Sorted ks) (pageSize : Int) (hps : pageSize ≥ 2) :
    (∃ fuel l, scanView (fun p after limit => .ok (raftList ks p after limit)) pageSize fuel = some (.ok l) ∧
      l.Nodup ∧ ∀ k, k ∈ l ↔ k ∈ ks) ∧
    (∃ fuel l, scanView (fun p after limit => .ok (raftTxnList ks [] p after limit)) pageSize fuel = some (.ok l) ∧
      l.Nodup ∧ ∀ k, k ∈ l ↔ k ∈ ks) := by
  obtain ⟨h1, h2⟩ := raft_lister_eq ks hs
  rw [h1, h2]
  exact ⟨scanView_visits_exactly ks pageSize hps, scanView_visits_exactly ks pageSize hps⟩

example : scanView (specLister [[97],[98,47],[98,47,99],[98,47,100,47,101]]) 2 20
    = some (.ok [[97],[98,47],[98,47,99],[98,47,100,47,101]]) := by rfl


end C13
