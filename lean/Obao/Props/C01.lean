import Obao.Proofs.Barrier
import Obao.Proofs.BarrierConf
import Obao.Proofs.RawAccess
import Obao.Model.BarrierAllow
import Obao.Gen.PhysicalWriters
/-! C01 — Barrier: stored data is confidential, authenticated and bound to its key.

All theorems are about `Obao.Barrier` (Model/Barrier.lean): the real barrier's `encrypt`/`decrypt`/
`lockSwitchedGet`/`putWithBackend`/`Rotate` transliterated, with AES-GCM as a free constructor, and an adversary that
rewrites the physical store between operations (`Op.advRaw` places ANY raw bytes, `Op.advRec` ANY header in front of any body
the barrier ever produced, under any key; flip/trunc/extend/transplant/hswap/replay are the concrete byte-level
tampers the correspondence harness performs on the real store). `after ops = run ops init` is the state after an
arbitrary history. Histories are arbitrary lists of operations — no
bound on length, number of keys, rotations or tamper steps. `direct_writers_allowed` is about the writer table
regenerated from the Go source on every run. -/
namespace C01
open Obao.Barrier

/-! ### what the barrier hands to the physical layer -/

/-- A `put` writes exactly one physical value, at the requested key: the 5-byte header (active term, current version
byte) in front of a body sealed under the ACTIVE term's key, with the storage key as AAD (version 2; none for version 1
or the empty path) and a nonce never used before; nothing else in the store changes. With an unknown version byte
nothing is written at all (the Go code panics in `encrypt`). -/
theorem put_writes_only_sealed (ops : List Op) (k : String) (v : Bytes) :
    let s := after ops
    let s' := (step s (.put k v)).1
    (∃ kid, termKey s.keys s.active = some kid ∧
      ((verOk s.ver = true ∧
          sget s'.store k = some (.Rec s.active s.ver ⟨kid, aadFor s.ver k, s.nextNonce, .user v⟩) ∧
          (∀ w ∈ s.written, w.body.nonce ≠ s.nextNonce) ∧
          (step s (.put k v)).2 = .wrote [⟨k, s.active, s.ver, ⟨kid, aadFor s.ver k, s.nextNonce, .user v⟩⟩]) ∨
       (verOk s.ver = false ∧ s' = s))) ∧
    ∀ k', k' ≠ k → sget s'.store k' = sget s.store k' := by
  intro s s'
  have hi : Inv s := inv_run ops inv_init
  obtain ⟨kid, hkid⟩ := hi.activeKey
  refine ⟨⟨kid, hkid, ?_⟩, ?_⟩
  · by_cases hv : verOk s.ver = true
    · refine Or.inl ⟨hv, ?_, ?_, ?_⟩
      · show sget (step s (.put k v)).1.store k = _
        simp only [step, hkid, hv, if_true, sget_sput_eq, WRec.pval, sealFor]
      · intro w hw h; have := hi.nonceLt w hw; omega
      · simp only [step, hkid, hv, if_true, sealFor]
    · simp only [Bool.not_eq_true] at hv
      refine Or.inr ⟨hv, ?_⟩
      show (step s (.put k v)).1 = s
      simp only [step, hkid, hv]; rfl
  · intro k' hk'
    show sget (step s (.put k v)).1.store k' = _
    simp only [step, hkid]
    split
    · simp only [sget_sput_ne _ _ _ _ hk']
    · rfl

/-- Everything any BARRIER operation (put, get, delete, rotate, version switch) newly makes visible in the physical
store is a record the barrier sealed in that very step: header = (its term, the current version byte), AAD = the
AAD the version prescribes for its storage key, fresh nonce. In particular `Rotate` persists the keyring and the root
key only as sealed records. -/
theorem barrier_ops_write_only_sealed (ops : List Op) (o : Op) (ho : o.isBarrier = true) (k : String) (pv : PVal)
    (h : sget (step (after ops) o).1.store k = some pv) :
    sget (after ops).store k = some pv ∨
    ∃ w ∈ (step (after ops) o).1.written, pv = w.pval ∧ w.key = k ∧ w.ver = (after ops).ver ∧
      w.body.aad = aadFor w.ver k ∧ (after ops).nextNonce ≤ w.body.nonce := by
  generalize after ops = s at h ⊢
  cases o with
  | put k0 v =>
    simp only [step] at h ⊢
    split at h
    · exact Or.inl h
    · rename_i kid hkid
      try simp only [hkid]
      split at h
      · rename_i hv
        try simp only [hv, if_true]
        simp only [sget_sput] at h
        split at h
        · rename_i e
          cases h
          exact Or.inr ⟨_, List.mem_cons_self, rfl, e.symm, rfl, by rw [e]; rfl, Nat.le_refl _⟩
        · exact Or.inl h
      · exact Or.inl h
  | get k0 => simp only [step] at h; split at h <;> exact Or.inl h
  | dec k0 => simp only [step] at h; split at h <;> exact Or.inl h
  | delete k0 =>
    simp only [step, sget_sdel] at h
    split at h
    · cases h
    · exact Or.inl h
  | rotate =>
    simp only [step] at h ⊢
    split at h
    · rename_i hv
      simp only [hv, if_true]
      simp only [sget_sdel, sget_sput] at h
      split at h
      · cases h
      · split at h
        · rename_i e
          cases h
          exact Or.inr ⟨_, List.mem_cons_self, rfl, e.symm, rfl, by rw [e]; rfl, by simp [sealFor]⟩
        · split at h
          · rename_i e
            cases h
            exact Or.inr ⟨_, List.mem_cons_of_mem _ List.mem_cons_self, rfl, e.symm, rfl, by rw [e]; rfl,
              by simp [sealFor]⟩
          · exact Or.inl h
    · exact Or.inl h
  | setver v => simp only [step] at h; split at h <;> exact Or.inl h
  | advRaw _ _ _ => cases ho
  | advRec _ _ _ _ => cases ho
  | advDel _ => cases ho
  | flip _ _ _ => cases ho
  | trunc _ _ => cases ho
  | extend _ _ => cases ho
  | transplant _ _ => cases ho
  | hswap _ _ => cases ho
  | replay _ _ => cases ho

/-- **Confidentiality as non-interference, over whole histories.** `shapeOp` keeps of a `put` only its key and the
LENGTH of its value; `shapeStore` blanks the content of sealed caller plaintexts in the physical store (everything
else — keys, headers, AADs, nonces, lengths, raw bytes — stays). For any two histories with the same shape, however
long and with any adversary steps (the adversary names bodies by nonce, it cannot read them), the physical stores are
equal up to sealed content: nothing an observer of the physical backend sees depends on a value that was put. -/
theorem put_confidential (ops ops' : List Op) (h : ops.map shapeOp = ops'.map shapeOp) :
    shapeStore (after ops).store = shapeStore (after ops').store := by
  have h1 := run_shape ops init
  have h2 := run_shape ops' init
  rw [h, h2] at h1
  exact (congrArg St.store h1).symm

/-- GCM needs it: the barrier never seals two records with the same nonce (symbolically: nonces are fresh) -/
theorem nonce_never_reused (ops : List Op) (w1 w2 : WRec) (h1 : w1 ∈ (after ops).written)
    (h2 : w2 ∈ (after ops).written) (hn : w1.body.nonce = w2.body.nonce) : w1 = w2 :=
  (inv_run ops inv_init).nonceInj w1 h1 w2 h2 hn

/-! ### authenticity and key binding of reads, against every adversarial store -/

/-- Core fact: whatever the adversary did, a read that returns a value has found at that key a record whose body the
barrier itself sealed (`w`), under the header term it was written with, and whose AAD matches what the header's
version prescribes for the REQUESTED key. -/
theorem get_ok_origin (ops : List Op) (k : String) (p : Plain) (h : readKey (after ops) k = .ok p) :
    ∃ t v, ∃ w ∈ (after ops).written,
      sget (after ops).store k = some (.Rec t v w.body) ∧ p = w.body.plain ∧ t = w.term ∧
      ((v = 1 ∧ aadFor w.ver w.key = none) ∨ (v = 2 ∧ aadFor w.ver w.key = aadFor 2 k)) := by
  have hi : Inv (after ops) := inv_run ops inv_init
  generalize after ops = s at h hi ⊢
  unfold readKey at h
  split at h
  · cases h
  · rename_i pv hpv
    cases pv with
    | Raw hd l => obtain ⟨e, he⟩ := getPV_raw_err s.keys k hd l; rw [he] at h; cases h
    | Rec t v b =>
      obtain ⟨hk, hp, hv⟩ := getPV_rec_ok h
      obtain ⟨w, hw, hwb⟩ := hi.storeSeen k _ b hpv rfl
      obtain ⟨_, haad, hor⟩ := hi.origin w hw
      subst hwb
      refine ⟨t, v, w, hw, hpv, hp, ?_, ?_⟩
      · rcases hor with ⟨hroot, _, _⟩ | hterm
        · -- sealed under the root key: no term key equals it
          have := (hi.keysBound t _ hk).2.1
          rw [hroot] at this; simp [rootKeyId] at this
        · exact hi.keysInj t w.term _ hk hterm
      · rw [← haad]; exact hv

/-- **Key binding, current format.** For every history and every adversarial store: if the record found under a
non-empty key `k` carries the version-2 header and the read returns the caller value `v`, then `put k v` — under that
very key — is in the history, and the stored record is exactly (header and body) the one that put wrote. -/
theorem get_authentic_v2 (ops : List Op) (k : String) (hk : k ≠ "") (t : Nat) (b : Sealed) (v : Bytes)
    (hrec : sget (after ops).store k = some (.Rec t 2 b)) (hget : readKey (after ops) k = .ok (.user v)) :
    Op.put k v ∈ ops ∧ ∃ w ∈ (after ops).written, w.key = k ∧ w.ver = 2 ∧ w.term = t ∧ w.body = b := by
  obtain ⟨t', v', w, hw, hst, hp, ht, hv⟩ := get_ok_origin ops k _ hget
  rw [hrec] at hst
  simp only [Option.some.injEq, PVal.Rec.injEq] at hst
  obtain ⟨rfl, rfl, rfl⟩ := hst
  rcases hv with ⟨h1, _⟩ | ⟨_, haad⟩
  · cases h1
  · rw [aadFor_two k] at haad
    simp only [hk, if_false] at haad
    obtain ⟨hver, hkey, _⟩ := aadFor_eq_some haad
    refine ⟨?_, w, hw, hkey, hver, ht.symm, rfl⟩
    rcases written_run ops hw with h0 | ⟨x, hx, hpx⟩ | ⟨_, hnu⟩
    · exact absurd hp.symm (init_written_not_user h0 v)
    · rw [← hp] at hpx; cases hpx; rw [← hkey]; exact hx
    · exact absurd hp.symm (hnu v)

/-- **Legacy format: authenticated but relocatable.** If the record found under `k` carries the version-1 header and
the read returns `v`, then `v` was put under SOME key in the history, with the body written in the legacy format
(or under the empty path, where version 2 binds no AAD either), and under the header term it still carries. -/
theorem get_authentic_v1 (ops : List Op) (k : String) (t : Nat) (b : Sealed) (v : Bytes)
    (hrec : sget (after ops).store k = some (.Rec t 1 b)) (hget : readKey (after ops) k = .ok (.user v)) :
    ∃ k', Op.put k' v ∈ ops ∧ ∃ w ∈ (after ops).written, w.key = k' ∧ w.term = t ∧ w.body = b ∧
      (w.ver = 1 ∨ k' = "") := by
  obtain ⟨t', v', w, hw, hst, hp, ht, hv⟩ := get_ok_origin ops k _ hget
  have hi : Inv (after ops) := inv_run ops inv_init
  rw [hrec] at hst
  simp only [Option.some.injEq, PVal.Rec.injEq] at hst
  obtain ⟨rfl, rfl, rfl⟩ := hst
  rcases hv with ⟨_, haad⟩ | ⟨h2, _⟩
  · have hvk : w.ver = 1 ∨ w.key = "" := by
      rcases aadFor_eq_none haad with h | h
      · rcases (hi.origin w hw).1 with h1 | h2
        · exact Or.inl h1
        · exact absurd h2 h
      · exact Or.inr h
    refine ⟨w.key, ?_, w, hw, rfl, ht.symm, rfl, hvk⟩
    rcases written_run ops hw with h0 | ⟨x, hx, hpx⟩ | ⟨_, hnu⟩
    · exact absurd hp.symm (init_written_not_user h0 v)
    · rw [← hp] at hpx; cases hpx; exact hx
    · exact absurd hp.symm (hnu v)
  · cases h2

/-- Authenticity without any assumption on formats or keys: a read never returns a caller value that was not put
(under some key) earlier in the history — no forgery, whatever the adversary writes. -/
theorem get_authentic (ops : List Op) (k : String) (v : Bytes) (hget : readKey (after ops) k = .ok (.user v)) :
    ∃ k', Op.put k' v ∈ ops := by
  obtain ⟨t', v', w, hw, _, hp, _, _⟩ := get_ok_origin ops k _ hget
  rcases written_run ops hw with h0 | ⟨x, hx, hpx⟩ | ⟨_, hnu⟩
  · exact absurd hp.symm (init_written_not_user h0 v)
  · rw [← hp] at hpx; cases hpx; exact ⟨_, hx⟩
  · exact absurd hp.symm (hnu v)

/-- **Key binding for a deployment that only ever wrote the current format** (no switch of the version byte) and
never wrote the empty storage key: for EVERY key, a read returns only values that were put under that same key — and
the stored record is byte-for-byte (header, body) one the barrier wrote under that key: every altered, re-headed or
transplanted record is refused. The adversary is unrestricted (it may still forge version-1 headers). -/
theorem get_key_bound (ops : List Op) (hnv : ∀ n, Op.setver n ∉ ops) (hne : ∀ x, Op.put "" x ∉ ops)
    (k : String) (v : Bytes) (hget : readKey (after ops) k = .ok (.user v)) :
    Op.put k v ∈ ops ∧ ∃ w ∈ (after ops).written, w.key = k ∧ sget (after ops).store k = some w.pval := by
  obtain ⟨t, ver, w, hw, hst, hp, ht, hv⟩ := get_ok_origin ops k _ hget
  have hinit : ∀ w ∈ init.written, w.ver = 2 := by
    intro w hw
    simp only [init, List.mem_cons, List.mem_nil_iff, or_false] at hw
    rcases hw with rfl | rfl <;> rfl
  have hw2 : w.ver = 2 := (ver_run ops hnv rfl hinit).2 w hw
  have hput : Op.put w.key v ∈ ops := by
    rcases written_run ops hw with h0 | ⟨x, hx, hpx⟩ | ⟨_, hnu⟩
    · exact absurd hp.symm (init_written_not_user h0 v)
    · rw [← hp] at hpx; cases hpx; exact hx
    · exact absurd hp.symm (hnu v)
  have hwk : w.key ≠ "" := fun e => hne v (by rw [← e]; exact hput)
  rw [hw2] at hv
  rcases hv with ⟨_, haad⟩ | ⟨h2, haad⟩
  · rw [aadFor_two] at haad; simp [hwk] at haad
  · have hkey : w.key = k := aadFor_two_inj haad
    refine ⟨by rw [← hkey]; exact hput, w, hw, hkey, ?_⟩
    rw [hst, WRec.pval, h2, hw2, ht]

/-- The in-memory entry point `Decrypt(key, bytes)` applied to the bytes stored under `key` returns a value exactly
when the stored read does, and the same one — so every statement about reads in this file holds for `Decrypt` too
(its only extra branch is the `empty ciphertext` error). -/
theorem decrypt_agrees_with_read (ops : List Op) (k : String) (p : Plain) :
    (step (after ops) (.dec k)).2 = .got (.ok p) ↔ readKey (after ops) k = .ok p := by
  generalize after ops = s
  simp only [step, readKey]
  cases sget s.store k with
  | none => simp
  | some pv =>
    simp only [Out.got.injEq]
    cases pv with
    | Rec t v b => simp [decPV]
    | Raw hd l =>
      obtain ⟨e, he⟩ := getPV_raw_err s.keys k hd l
      cases l with
      | zero => simp [decPV, he]
      | succ n => simp [decPV]

/-! ### every tamper class of the property is refused -/

/-- anything that is not header + a body the barrier produced (a flipped, truncated, extended body, attacker bytes)
reads as an error, under every key and keyring -/
theorem get_raw_fails (ops : List Op) (k : String) (hd : List Nat) (l : Nat)
    (hrec : sget (after ops).store k = some (.Raw hd l)) : ∃ e, readKey (after ops) k = .err e := by
  unfold readKey; rw [hrec]; exact getPV_raw_err _ _ _ _

/-- **Tampered records fail.** Let `w` be a record the barrier wrote (storage key `w.key`, header `w.term`/`w.ver`)
and let the adversary place its body under key `k` behind a header `(t, v)`. The read is an ERROR — never a value —
whenever
* the header term differs from the one it was written with, or
* the version byte differs (neither the written nor the reading path being the empty one), or is not 1 or 2, or
* it was written in the current format under a different storage key (transplant), read as version 2 — or as
  version 1 unless its own key was the empty path. -/
theorem get_tampered_fails (ops : List Op) (k : String) (t v : Nat) (w : WRec) (hw : w ∈ (after ops).written)
    (hrec : sget (after ops).store k = some (.Rec t v w.body))
    (htam : t ≠ w.term ∨ (v ≠ 1 ∧ v ≠ 2) ∨ (v ≠ w.ver ∧ w.key ≠ "" ∧ k ≠ "") ∨
            (w.ver = 2 ∧ w.key ≠ k ∧ (v = 2 ∨ w.key ≠ ""))) :
    ∃ e, readKey (after ops) k = .err e := by
  have hi : Inv (after ops) := inv_run ops inv_init
  generalize after ops = s at hw hrec hi ⊢
  unfold readKey; rw [hrec]
  apply getPV_rec_err_of_not
  rintro ⟨hk, hv⟩
  obtain ⟨hver, haad, hor⟩ := hi.origin w hw
  rcases htam with h | h | ⟨h1, h2, h3⟩ | ⟨h1, h2, h3⟩
  · -- term: the key of another term is another key
    rcases hor with ⟨hroot, _, _⟩ | hterm
    · have := (hi.keysBound t _ hk).2.1
      rw [hroot] at this; simp [rootKeyId] at this
    · exact h (hi.keysInj t w.term _ hk hterm)
  · rcases hv with ⟨e, _⟩ | ⟨e, _⟩
    · exact h.1 e
    · exact h.2 e
  · rcases hv with ⟨e, ha⟩ | ⟨e, ha⟩
    · -- read as v1 (no AAD) but written as v2 under a non-empty key
      subst e
      rw [haad] at ha
      rcases aadFor_eq_none ha with hx | hx
      · rcases hver with h' | h'
        · exact h1 h'.symm
        · exact hx h'
      · exact h2 hx
    · -- read as v2 (AAD = k ≠ "") but written as v1 (no AAD)
      subst e
      have hw1 : w.ver = 1 := by
        rcases hver with h' | h'
        · exact h'
        · exact absurd h'.symm h1
      rw [haad, hw1, aadFor_one, aadFor_two] at ha
      simp [h3] at ha
  · rw [haad, h1] at hv
    rcases hv with ⟨e, ha⟩ | ⟨e, ha⟩
    · rcases h3 with h3 | h3
      · omega
      · rw [aadFor_two] at ha; simp [h3] at ha
    · exact h2 (aadFor_two_inj ha)

/-- The boundary of key binding, stated rather than hidden: version 2 binds NO additional data for the empty storage
path (`if path != ""` in `encrypt`/`decrypt`), so a record written under `""` and re-headed as version 1 reads back
under any key. (No server code path writes the empty key; the correspondence stream pins this behaviour.) -/
theorem empty_path_relocatable :
    let ops := [Op.put "" [7], Op.transplant "" "elsewhere", Op.flip "elsewhere" 4 3]
    readKey (after ops) "elsewhere" = .ok (.user [7]) := by decide

/-! ### functional correctness without an adversary, across rotations -/

/-- Without adversary steps the barrier is a map: a read returns the last value put under that key (none after a
delete or before any put), for every interleaving of puts, deletes, reads, version switches and any number of key
rotations — records written under older terms stay readable. -/
theorem get_last_written (ops : List Op) (hb : ∀ o ∈ ops, o.isBarrier = true) (k : String) (hk : ¬ metaPath k) :
    readKey (after ops) k =
      match sget (specRun ops specInit).m k with
      | some x => .ok (.user x)
      | none => .none := by
  have hi : Inv (after ops) := inv_run ops inv_init
  have hs := sim_run ops inv_init sim_init hb
  rcases hs.2 k hk with ⟨h1, h2⟩ | ⟨w, hw, h1, h2, h3, x, h4, h5⟩
  · unfold readKey; rw [h1, h2]
  · unfold readKey
    rw [show sget (after ops).store k = some w.pval from h1, h5]
    obtain ⟨hver, haad, _⟩ := hi.origin w hw
    simp only [WRec.pval]
    rw [getPV_rec_ok_of h3, h4]
    rcases hver with e | e
    · exact Or.inl ⟨e, by rw [haad, e, aadFor_one]⟩
    · exact Or.inr ⟨e, by rw [haad, e, h2]⟩

/-- **Rotation preserves reads**, in every reachable state — adversarial stores included: a key rotation changes
the result of no read outside the barrier's own keyring paths (a value is returned after the rotation iff it was
returned before; in particular a header forged to point at the not-yet-existing next term does not become readable
when that term is created, because its body was sealed under another key). -/
theorem rotate_preserves_reads (ops : List Op) (k : String) (hk : ¬ metaPath k) (p : Plain) :
    readKey (step (after ops) .rotate).1 k = .ok p ↔ readKey (after ops) k = .ok p := by
  have hi : Inv (after ops) := inv_run ops inv_init
  generalize after ops = s at hi ⊢
  simp only [step]
  split
  · have hk' := hk
    simp only [metaPath, not_or] at hk'
    unfold readKey
    simp only [sget_sdel, sget_sput, hk'.1, hk'.2.1, hk'.2.2, if_false]
    cases hst : sget s.store k with
    | none => simp
    | some pv =>
      simp only
      cases pv with
      | Raw hd l =>
        obtain ⟨e1, he1⟩ := getPV_raw_err ((s.active + 1, s.nextKey) :: s.keys) k hd l
        obtain ⟨e2, he2⟩ := getPV_raw_err s.keys k hd l
        rw [he1, he2]; simp
      | Rec t v b =>
        constructor
        · intro h
          obtain ⟨h1, h2, h3⟩ := getPV_rec_ok h
          rw [h2]
          apply getPV_rec_ok_of _ h3
          rw [termKey_cons] at h1
          split at h1
          · -- the new term's key is fresh: no body was sealed under it
            obtain ⟨w, hw, hwb⟩ := hi.storeSeen k _ b hst rfl
            obtain ⟨_, _, hor⟩ := hi.origin w hw
            have hkey : b.key = s.nextKey := (Option.some.inj h1).symm
            rw [← hwb] at hkey
            rcases hor with ⟨hroot, _, _⟩ | hterm
            · have := hi.nextKeyPos; rw [hroot] at hkey; simp [rootKeyId] at hkey; omega
            · have := (hi.keysBound _ _ hterm).2.2; omega
          · exact h1
        · intro h
          obtain ⟨h1, h2, h3⟩ := getPV_rec_ok h
          rw [h2]
          apply getPV_rec_ok_of _ h3
          have := (hi.keysBound _ _ h1).1
          rw [termKey_new (by omega)]; exact h1
  · exact Iff.rfl

/-! ### which requests get the unencrypted direct access: `sys/raw` storage selection (`storageByPath`) -/

section RawAccess
open Obao.RawAccess

/-- **Direct access only for the fixed set.** For every request path and every set of live namespaces: `storageByPath`
selects the direct (unencrypted, unauthenticated) physical access only when the FULL path — the physical key every
handler then uses — is EXACTLY `core/seal-config` or `core/recovery-config`: no prefix, suffix or sub-path of them, and
no `namespaces/<uuid>/` spelling in front (root UUID, unknown UUID or live child alike). -/
theorem raw_direct_only_for_fixed_set_full (known : List Path) (path : Path) (w : Bool)
    (h : storageByPath known path = .direct w) : path ∈ fixedKeys := by
  obtain ⟨hk, he, _⟩ := direct_cases h
  rw [← he]; exact hk

/-- … and then the namespace resolved from the path is the root namespace with writes allowed (an unknown namespace can
no longer reach the direct access at all: its paths always carry the prefix). A live child namespace never gets it. -/
theorem raw_direct_only_for_fixed_set (known : List Path) (path : Path) (w : Bool)
    (h : storageByPath known path = .direct w) :
    path ∈ fixedKeys ∧ (nsByStoragePath known path).1 = .root ∧ w = true := by
  obtain ⟨hk, he, hn⟩ := direct_cases h
  refine ⟨by rw [← he]; exact hk, ?_⟩
  rcases hn with hn | ⟨hu, _⟩
  · exact hn
  · -- the unknown namespace arises only after a prefix was stripped, and then rest ≠ path
    exfalso
    unfold nsByStoragePath at hu he
    cases hp : cutPrefix nsPrefix path with
    | none => simp [hp] at hu
    | some r0 =>
      simp only [hp] at hu he
      by_cases hr : r0 = []
      · simp [hr] at hu
      · simp only [hr, if_false] at hu he
        cases hc : cutSlash r0 with
        | none => simp [hc] at hu
        | some ab =>
          obtain ⟨uuid, rest⟩ := ab
          simp only [hc] at he
          exact stripped_ne (known := known) hp hc he

/-- The statement a prefix match in place of the equality test breaks (`core/seal-config.bak` would get direct access):
for a path that is not of the form `namespaces/…`, direct access is selected only for the two bootstrap keys themselves.
(A corollary of the full statement; kept because it names the seeded change it caught.) -/
theorem raw_plain_path_direct_only_fixed (known : List Path) (path : Path) (w : Bool)
    (_hp : cutPrefix nsPrefix path = none) (h : storageByPath known path = .direct w) : path ∈ fixedKeys :=
  raw_direct_only_for_fixed_set_full known path w h

/-- The UUID spellings that selected the direct access before the F47 repair now go through the root barrier: with
writes for the root UUID, without for a UUID that no longer exists. -/
theorem raw_uuid_alias_behind_barrier :
    storageByPath [] (nsPrefix ++ rootUUID ++ '/' :: sealConfigPath) = .barrier .rootBarrier true ∧
    storageByPath [] (nsPrefix ++ rootUUID ++ '/' :: recoveryConfigPath) = .barrier .rootBarrier true ∧
    storageByPath [] (nsPrefix ++ ['u', '/'] ++ sealConfigPath) = .barrier .rootBarrier false := by decide

/-- protected paths are refused whatever the namespace -/
theorem raw_protected_denied (known : List Path) (path : Path)
    (h : protectedPaths.any (fun p => p.isPrefixOf (nsByStoragePath known path).2) = true) :
    storageByPath known path = .denied := by
  unfold storageByPath
  generalize nsByStoragePath known path = r at h ⊢
  obtain ⟨ns, rest⟩ := r
  simp only at h ⊢
  simp [h]

/-- non-vacuity: the exact key gets direct access, its extensions and neighbours get the barrier -/
example : storageByPath [] sealConfigPath = .direct true ∧
    storageByPath [] (sealConfigPath ++ ['.', 'b', 'a', 'k']) = .barrier .rootBarrier true ∧
    storageByPath [] (sealConfigPath ++ ['/', 'x']) = .barrier .rootBarrier true ∧
    storageByPath [] (Obao.RawAccess.keyringPath ++ ['X']) = .denied ∧
    storageByPath [['u']] (nsPrefix ++ ['u', '/'] ++ sealConfigPath) = .barrier (.parentBarrier ['u']) true ∧
    storageByPath [] recoveryConfigPath = .direct true := by decide

end RawAccess

/-! ### every direct physical writer in the server is accounted for (regenerated from the Go source) -/

/-- Every call site in `internal/vault/**` (non-test, outside the barrier package) that writes to a
`physical.Backend`/`physical.Transaction` directly — the table is regenerated from go/types on every run — is in the
hand-written allow-list: the property's fixed set of bootstrap records, scoped-out operator tooling, or a documented
exception (reported as a finding on every run). A new raw writer is in no class and this stops checking. -/
theorem direct_writers_allowed :
    ∀ w ∈ Obao.Gen.PhysicalWriters.writers, Obao.BarrierAllow.allowed w = true := by decide

/-! ### non-vacuity -/

/-- the hypotheses of `get_authentic_v2` / `get_key_bound` are met by a real history with rotations, and the value
comes back -/
example :
    let ops := [Op.put "a" [1, 2], Op.rotate, Op.put "b" [3], Op.rotate, Op.get "a"]
    readKey (after ops) "a" = .ok (.user [1, 2]) ∧ sget (after ops).store "a" = some (.Rec 1 2 ⟨1, some "a", 2, .user [1, 2]⟩) := by
  decide

/-- the hypotheses of `get_tampered_fails` are met: a version-2 record transplanted to another key errors -/
example :
    let ops := [Op.put "a" [1, 2], Op.transplant "a" "b"]
    readKey (after ops) "b" = .err .auth ∧ readKey (after ops) "a" = .ok (.user [1, 2]) := by decide

/-- header rewrites: another installed term ⇒ authentication failure; unknown term ⇒ no key; unknown version -/
example :
    let ops := [Op.put "a" [9], Op.rotate, Op.flip "a" 3 3]
    readKey (after ops) "a" = .err .auth := by decide
example :
    let ops := [Op.put "a" [9], Op.flip "a" 3 2]
    readKey (after ops) "a" = .err .noterm := by decide
example :
    let ops := [Op.put "a" [9], Op.flip "a" 4 1]
    readKey (after ops) "a" = .err .version := by decide

/-- legacy records are relocatable (the exception the property names), and replay of an OLDER record of the same key
is accepted — an AEAD cannot prevent rollback; `get_key_bound` says exactly "a value put under that key" -/
example :
    let ops := [Op.setver 1, Op.put "a" [5], Op.setver 2, Op.transplant "a" "b"]
    readKey (after ops) "b" = .ok (.user [5]) := by decide
example :
    let ops := [Op.put "a" [1], Op.put "a" [2], Op.replay "a" 2]
    readKey (after ops) "a" = .ok (.user [1]) := by decide

/-- `put_confidential` is not vacuous: two histories that differ in every value put (same lengths), with a rotation
and adversary steps, have the same shape — and their physical stores do differ before blanking -/
example :
    let ops := [Op.put "a" [1, 2], Op.rotate, Op.put "b" [3], Op.transplant "a" "c", Op.flip "b" 7 1]
    let ops' := [Op.put "a" [9, 9], Op.rotate, Op.put "b" [4], Op.transplant "a" "c", Op.flip "b" 7 1]
    ops.map shapeOp = ops'.map shapeOp ∧ (after ops).store ≠ (after ops').store := by decide

/-- `get_last_written` is not vacuous: a barrier-only history with a rotation, a delete and an overwrite -/
example :
    let ops := [Op.put "a" [1], Op.rotate, Op.put "a" [2], Op.put "b" [3], Op.delete "b", Op.rotate]
    (∀ o ∈ ops, o.isBarrier = true) ∧ readKey (after ops) "a" = .ok (.user [2]) ∧ readKey (after ops) "b" = .none := by decide

/-- the allow-list does reject: a raw writer nobody classified is not allowed -/
example : Obao.BarrierAllow.allowed ("internal/vault/core.go", "Core.newLeak", "Put") = false := by decide

/-! ### the barrier's own reader of the keyring record (`Unseal`, `ReloadKeyring`) -/

/-- **Unsealing accepts only an authentic keyring record.**  Whatever the physical backend holds under `core/keyring` —
nothing, raw bytes of any length (in particular fewer than 4, the length of the term prefix), any header in front of any
body — `Unseal` either fails with an error or the stored value is a record with term 1 and a known version whose body was
sealed under the ROOT key with the keyring path as additional data (current format) and holds a keyring. There is no
other outcome: no panic, no acceptance of bytes the barrier did not write under that key for that path. -/
theorem unseal_accepts_only_authentic_keyring (v : Option PVal) (ts : List Nat) (h : unsealKeyring v = .ok ts) :
    ∃ ver body, v = some (.Rec 1 ver body) ∧ (ver = 1 ∨ ver = 2) ∧ body.key = rootKeyId ∧
      body.aad = aadFor ver keyringPath ∧ body.plain = .keyring ts := by
  unfold unsealKeyring at h
  split at h
  · cases h
  · rename_i hdr len
    split at h
    · cases h
    · split at h
      · split at h
        · cases h
        · split at h
          · cases h
          · split at h
            · split at h <;> cases h
            · cases h
      · cases h
  · rename_i t ver b
    split at h
    · cases h
    · rename_i ht
      split at h
      · rename_i hv
        split at h
        · rename_i ts' ho
          simp only [UnsealOut.ok.injEq] at h
          subst h
          unfold openSealed at ho
          split at ho
          · rename_i hk
            simp only [Option.some.injEq] at ho
            refine ⟨ver, b, ?_, hv, hk.1, hk.2, ho⟩
            have : t = 1 := by simpa using ht
            rw [this]
          · cases ho
        · cases h
        · cases h
      · cases h

/-- every truncation of the record to fewer than 4 bytes is answered with an error (`short`), as are the other
header-level tamperings — non-vacuity of the cases the real `Unseal` is driven through by stream `barrier` (op
`reunseal`) -/
example : unsealKeyring (some (.Raw [] 0)) = .short ∧ unsealKeyring (some (.Raw [0, 0, 0] 3)) = .short ∧
    unsealKeyring (some (.Raw [0, 0, 0, 1] 4)) = .len ∧ unsealKeyring (some (.Raw [0, 0, 0, 2, 2] 40)) = .termMismatch ∧
    unsealKeyring (some (.Raw [0, 0, 0, 1, 7] 40)) = .version ∧ unsealKeyring (some (.Raw [0, 0, 0, 1, 2] 40)) = .invalidKey ∧
    unsealKeyring none = .notInit ∧ unsealKeyring (some initKeyringRec.pval) = .ok [1] ∧
    unsealKeyring (some initRootKeyRec.pval) = .invalidKey := by decide

end C01
