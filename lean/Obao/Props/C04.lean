import Obao.Model.Revoke
import Obao.Proofs.RevokeAll
/-! C04 — token revocation is final and cascades (property theorems; lemmas live in `Obao/Proofs`). -/
namespace C04
open Obao.Revoke

/-! ### sequential histories (fault-free): FULL -/

/-- a marked (revocation-pending) entry is never handed out by a non-tainted lookup, whatever else is stored -/
theorem marked_lookup_hidden (f t : Nat) (s : St) (e : TokEntry) (h : s.ids t = some e) (hm : e.marked = true) :
    (run (lookup (f+1) t false) s).1 = .ok none := by
  simp [lookup, getTok, getKey, run, exec, St.getKey, h, hm, bind, Prog.bind, pure]

/-- FULL. For every history of create / renew / cubbyhole write / leased read / lookup / revoke (by token, self,
accessor, lease) / revoke-orphan requests and expiration-worker steps, in any order, over any forest (depth,
fan-out, orphans unbounded; the root token is never a revocation target), with any recursion budget that covers
the tokens the history can create: when a cascading revocation of `t` then reports success, `t` and every
non-orphaned descendant `x` of `t` is dead — no entry, no own lease, no accessor entry, no cubbyhole key, every
lease issued under it gone or queued for immediate revocation — and requests made with it are refused. -/
theorem revoke_cascade_seq (h : List HStep) (f : Nat) (hrf : HistOK f h St.init)
    (hF : 2 * (h.length + 1) + 8 ≤ f) (q : Req) (t : Nat) (hq : q.cascadeTarget = some t) (ht0 : t ≠ 0)
    (hok : okB (run (q.prog f) (runHist f h St.init)).1 = true) :
    ∀ x, Desc (runHist f h St.init) t x →
      Dead (run (q.prog f) (runHist f h St.init)).2 x ∧
      (usable f x (run (q.prog f) (runHist f h St.init)).2).1 = false := by
  intro x hx
  obtain ⟨hI, hn, _, _⟩ := inv_hist h St.init f inv_init hrf (by simp [St.init]; omega)
  have hn' : (runHist f h St.init).next ≤ h.length + 1 := by simpa [St.init, Nat.add_comm] using hn
  have hd := cascade_dead hI f (by omega) q t hq ht0 hok x hx
  refine ⟨hd, ?_⟩
  have hI' := cascade_inv hI f (by omega) q t hq ht0
  obtain ⟨g, rfl⟩ : ∃ g, f = g + 1 := ⟨f - 1, by omega⟩
  exact hI'.unusable g x hd.noEntry

/-- FULL. `destroy_clears_routed_key`: for every token entry `TokenStore.create` can write — generated id,
caller-chosen id, root or child namespace: `cubId = createCubId nsRoot pfx` — the storage prefix that
`destroyCubbyhole` clears on revocation (`destroyKey`) is the prefix the router stores that token's cubbyhole
requests under (`routerKey`), and both are defined. The cubbyhole clause of `revoke_cascade_seq` is proved from
this (`purge1_noCub`): the routed prefix is cleared, and no other prefix ever held data of the token
(`FInv.cubOwn`). -/
theorem destroy_clears_routed_key (t : Nat) (e : TokEntry) (hwf : e.cubId = createCubId e.nsRoot e.pfx) :
    destroyKey t e = routerKey t e ∧ (routerKey t e).isSome := by
  have := destroyKey_eq_routerKey t e hwf
  exact ⟨this.1, by rw [this.2]; rfl⟩

/-- the three kinds: a generated id (service prefix), a caller-chosen id in the root namespace (no prefix, no
CubbyholeID: the doubly salted token id is the prefix), a namespaced token -/
example : routerKey 7 { parent := none, marked := false, cubId := true, pfx := true, nsRoot := true } = some (.cid 7)
    ∧ routerKey 7 { parent := none, marked := false, cubId := false, pfx := false, nsRoot := true } = some (.salted 7)
    ∧ routerKey 7 { parent := none, marked := false, cubId := true, pfx := true, nsRoot := false } = some (.cid 7)
    ∧ destroyKey 7 { parent := none, marked := false, cubId := false, pfx := false, nsRoot := true } = some (.salted 7) := by
  decide

/-- witness for caller-chosen ids: #2 is created by the root with a chosen id, writes a cubbyhole key (stored
under the doubly salted token id), is revoked, and a token with the SAME id is created again: its cubbyhole is
empty (nothing under either prefix of identity #2) — the re-created token reads nothing of its namesake -/
example :
    let s := runHist 50 [.req (.create 0 false 5), .req (.createId 0 2 7), .req (.cubby 2 0), .req (.revoke 0 2),
      .req (.createId 0 2 7)] St.init
    (s.ids 2).isSome = true ∧ s.cub (.salted 2) 0 = false ∧ s.cub (.cid 2) 0 = false ∧
    (runHist 50 [.req (.create 0 false 5), .req (.createId 0 2 7), .req (.cubby 2 0)] St.init).cub (.salted 2) 0 = true := by
  decide +kernel

/-- FULL. Revocation is final: a token that has been allocated and has no entry after a history `h1` is dead and
refused after every continuation `h2` that does not create a token with that very id again (only a token with a
caller-chosen id can be named again, by a request that names it: `Req.createId`); generated ids are never
reused and no request writes an entry it did not read. -/
theorem revoked_stays_revoked (h1 h2 : List HStep) (f : Nat) (hok : HistOK f (h1 ++ h2) St.init)
    (hF : 2 * (h1.length + h2.length + 1) + 8 ≤ f) (x : Nat)
    (hx : x < (runHist f h1 St.init).next) (hgone : (runHist f h1 St.init).ids x = none)
    (hnew : ∀ st ∈ h2, st.recreates ≠ some x) :
    Dead (runHist f (h1 ++ h2) St.init) x ∧ (usable f x (runHist f (h1 ++ h2) St.init)).1 = false := by
  obtain ⟨hok1, hok2⟩ := (histOK_append f h1 h2 St.init).mp hok
  obtain ⟨hI1, hn1, _, _⟩ := inv_hist h1 St.init f inv_init hok1 (by simp [St.init]; omega)
  have hn1' : (runHist f h1 St.init).next ≤ h1.length + 1 := by simpa [St.init, Nat.add_comm] using hn1
  obtain ⟨hI2, _, _, hkeep⟩ := inv_hist h2 (runHist f h1 St.init) f hI1 hok2 (by omega)
  rw [runHist_append]
  have hnone := hkeep x hx hgone hnew
  refine ⟨hI2.deadClean x hnone, ?_⟩
  obtain ⟨g, rfl⟩ : ∃ g, f = g + 1 := ⟨f - 1, by omega⟩
  exact hI2.unusable g x hnone

/-- non-vacuity of `revoke_cascade_seq`: parent #1 with child #2 (cubbyhole key, lease); revoking #1 by the root
succeeds and #2 is a descendant of #1 -/
example : okB (run ((Req.revoke 0 1).prog 50) (runHist 50
    [.req (.create 0 false 5), .req (.create 1 false 3), .req (.cubby 2 0), .req (.lease 2 7)] St.init)).1 = true
    ∧ ((runHist 50 [.req (.create 0 false 5), .req (.create 1 false 3), .req (.cubby 2 0), .req (.lease 2 7)]
        St.init).ids 2).map (·.parent) = some (some 1) := by decide +kernel

/-- FULL. `revoke-orphan` of `t` that reports success kills exactly `t` (dead, refused); every child keeps its
entry, now with no parent — so it is no longer a descendant of anything and later cascades do not reach it. -/
theorem revoke_orphan_seq (h : List HStep) (f : Nat) (hrf : HistOK f h St.init)
    (hF : 2 * (h.length + 1) + 8 ≤ f) (r t : Nat)
    (hok : okB (run ((Req.revokeOrphan r t).prog f) (runHist f h St.init)).1 = true) :
    Dead (run ((Req.revokeOrphan r t).prog f) (runHist f h St.init)).2 t ∧
    (∀ c ec, (runHist f h St.init).ids c = some ec → ec.parent = some t →
      (run ((Req.revokeOrphan r t).prog f) (runHist f h St.init)).2.ids c = some { ec with parent := none }) := by
  obtain ⟨hI, hn, _, _⟩ := inv_hist h St.init f inv_init hrf (by simp [St.init]; omega)
  have hn' : (runHist f h St.init).next ≤ h.length + 1 := by simpa [St.init, Nat.add_comm] using hn
  exact orphan_outcome hI f (by omega) r t hok

/-! ### restarts -/

/-- FULL (what holds across restarts). Take any state `s`, any cascading revocation `q` and ANY crash point `k`
(the process stops right after the `k`-th storage write of the request; the store survives, the
pending-deletion map is lost, the lease cache is rebuilt). (1) Every token whose entry was marked or gone
before — in particular every token whose marker write happened before the crash: take `s` := the state at that
write — is still marked or gone after the restart and is refused. (2) When the revocation ran to completion and
reported success (crash after its last write) from a state of a fault-free history, the target and all its
non-orphaned descendants are dead after the restart and refused. -/
theorem revoke_restart (f : Nat) (q : Req) (t : Nat) (hq : q.cascadeTarget = some t) :
    (∀ (s : St) (k x : Nat), ParentGone x s →
        ParentGone x (runCrash k (q.prog f) s).restart ∧
        (usable (f+1) x (runCrash k (q.prog f) s).restart).1 = false) ∧
    (∀ (h : List HStep), HistOK f h St.init → 2 * (h.length + 1) + 8 ≤ f → t ≠ 0 →
        okB (run (q.prog f) (runHist f h St.init)).1 = true →
        ∃ K, ∀ k, K ≤ k → ∀ x, Desc (runHist f h St.init) t x →
          Dead (runCrash k (q.prog f) (runHist f h St.init)).restart x ∧
          (usable f x (runCrash k (q.prog f) (runHist f h St.init)).restart).1 = false) := by
  constructor
  · intro s k x hs
    have h1 := runCrash_keeps (al_cascade x f q t hq) k hs
    exact ⟨restart_keeps h1, gone_unusable f x (restart_keeps h1)⟩
  · intro h hrf hF ht0 hok
    obtain ⟨K, hK⟩ := runCrash_full (q.prog f) (runHist f h St.init)
    refine ⟨K, fun k hk x hx => ?_⟩
    rw [hK k hk]
    obtain ⟨hI, hn, _, _⟩ := inv_hist h St.init f inv_init hrf (by simp [St.init]; omega)
    have hn' : (runHist f h St.init).next ≤ h.length + 1 := by simpa [St.init, Nat.add_comm] using hn
    have hd := cascade_dead hI f (by omega) q t hq ht0 hok x hx
    have hI' := inv_restart (cascade_inv hI f (by omega) q t hq ht0)
    refine ⟨dead_restart hd, ?_⟩
    obtain ⟨g, rfl⟩ : ∃ g, f = g + 1 := ⟨f - 1, by omega⟩
    exact hI'.unusable g x hd.noEntry

/-- non-vacuity of `revoke_restart` (1): a crash after the first write of `revoke #1` (the marker of the child
#2) leaves #2 marked -/
example : (((runCrash 1 ((Req.revoke 0 1).prog 50) (runHist 50
    [.req (.create 0 false 5), .req (.create 1 false 3)] St.init)).restart.ids 2).map (·.marked)) = some true := by
  decide +kernel

/-! ### fault + retry -/

/-- FULL statement (false on the current tree, F37): whatever single storage operation of a cascading revocation
fails, once the retried request reports success the target and all its non-orphaned descendants are dead. -/
def revoke_fault_retry_full : Prop :=
  ∀ (f : Nat) (h : List HStep) (q : Req) (t k : Nat), q.cascadeTarget = some t →
    okB (run (q.prog f) (runFault k (q.prog f) (runHist f h St.init)).2.settle).1 = true →
    ∀ x, Desc (runHist f h St.init) t x →
      Dead (run (q.prog f) (runFault k (q.prog f) (runHist f h St.init)).2.settle).2 x

/-- parent #1 under the root, child #2 under #1 -/
def histTwo : List HStep := [.req (.create 0 false 5), .req (.create 1 false 3)]

/-- F2 (repaired by commit 17ec2c3), the former witness: the marker write of the child (storage operation 8 of
`auth/token/revoke` of the parent by the root) fails. The failed attempt resets `tokensPendingDeletion` under the
salted id (`some false`, nothing under the raw id), so the retry re-enters the revocation: it reports success and
neither the child nor the parent is left. (`revoke_fault_retry_cex` held here before the repair.) -/
theorem revoke_fault_retry_marker_write_recovers :
    let s1 := (runFault 8 ((Req.revoke 0 1).prog 50) (runHist 50 histTwo St.init)).2.settle
    s1.pend (.salted 2) = some false ∧ s1.pend (.raw 2) = none ∧
    okB (run ((Req.revoke 0 1).prog 50) s1).1 = true ∧
    (run ((Req.revoke 0 1).prog 50) s1).2.ids 2 = none ∧ (run ((Req.revoke 0 1).prog 50) s1).2.ids 1 = none ∧
    (usable 50 2 (run ((Req.revoke 0 1).prog 50) s1).2).1 = false := by
  decide +kernel

/-- F36 (repaired by commit 17ec2c3), the former witness: the entry read inside `revokeInternal` (storage
operation 7) fails; the map is reset, the retry re-enters and completes. -/
theorem revoke_fault_retry_entry_read_recovers :
    let s1 := (runFault 7 ((Req.revoke 0 1).prog 50) (runHist 50 histTwo St.init)).2.settle
    s1.pend (.salted 2) = some false ∧
    okB (run ((Req.revoke 0 1).prog 50) s1).1 = true ∧
    (run ((Req.revoke 0 1).prog 50) s1).2.ids 2 = none ∧ (run ((Req.revoke 0 1).prog 50) s1).2.ids 1 = none := by
  decide +kernel

/-- token #1 under the root with a cubbyhole key and a lease -/
def histOne : List HStep := [.req (.create 0 false 5), .req (.cubby 1 0), .req (.lease 1 9)]

/-- F37: a failure after the marker write (operation 8 = the first cubbyhole listing); the retry through
`auth/token/revoke` reports success without doing anything: the lease issued under the token stays live. -/
theorem revoke_fault_retry_cex_pending : ¬ revoke_fault_retry_full := by
  intro hfull
  have h := hfull 50 histOne (.revoke 0 1) 1 8 rfl (by decide +kernel) 1 .self
  have h2 := h.leases 0 false
  revert h2
  decide +kernel

/-- PARTIAL (what holds on the current tree; the only excluded positions are failures PAST a marker write, F37).
Take any cascading revocation `q`, any fault position `k` (the `k`-th storage operation of the request fails
once) and the retry. (1) Finality survives faults, from ANY state: every token whose entry is marked or gone
stays marked or gone through the failed attempt and the retry, and is refused afterwards. (2) If the failed
attempt left the STORE (and the lease cache) as it was and no `true` entry in `tokensPendingDeletion` — since
commit 17ec2c3 this is every position up to and including the first marker write: authentication, the lease
loads, the DFS listings, `revokeInternal`'s own entry read (F36) and the marker write itself (F2) — then from a
state of a fault-free history the retry does the whole job: when it reports success the target and all its
non-orphaned descendants are dead. (Positions between two complete leaf revocations:
`revoke_fault_retry_partial_purged`.) -/
theorem revoke_fault_retry_partial (f : Nat) (q : Req) (t : Nat) (hq : q.cascadeTarget = some t) :
    (∀ (s : St) (k x : Nat), ParentGone x s →
        ParentGone x (run (q.prog f) (runFault k (q.prog f) s).2).2 ∧
        (usable (f+1) x (run (q.prog f) (runFault k (q.prog f) s).2).2).1 = false) ∧
    (∀ (h : List HStep) (k : Nat), HistOK f h St.init → 2 * (h.length + 1) + 8 ≤ f → t ≠ 0 →
        SameButPend (runHist f h St.init) (runFault k (q.prog f) (runHist f h St.init)).2 →
        (∀ key, (runFault k (q.prog f) (runHist f h St.init)).2.pend key ≠ some true) →
        okB (run (q.prog f) (runFault k (q.prog f) (runHist f h St.init)).2).1 = true →
        ∀ x, Desc (runHist f h St.init) t x →
          Dead (run (q.prog f) (runFault k (q.prog f) (runHist f h St.init)).2).2 x) := by
  constructor
  · intro s k x hs
    have h1 := runFault_keeps (al_cascade x f q t hq) k hs
    have h2 := run_keeps (al_cascade x f q t hq) h1
    exact ⟨h2, gone_unusable f x h2⟩
  · intro h k hrf hF ht0 hsame hpend hok x hx
    obtain ⟨hI, hn, _, _⟩ := inv_hist h St.init f inv_init hrf (by simp [St.init]; omega)
    have hn' : (runHist f h St.init).next ≤ h.length + 1 := by simpa [St.init, Nat.add_comm] using hn
    have hIσ := inv_sameButPend hI hsame hpend
    exact cascade_dead hIσ f (by rw [hsame.next]; omega) q t hq ht0 hok x (desc_sameButPend hsame hx)

/-- PARTIAL, second part: fault positions BETWEEN two complete leaf revocations (the DFS listings, the final
lease delete, ...). If the failed attempt left a state `σ` that is the pre-state `s` with some tokens completely
purged, children before parents (`Shrink`, `closed`), and that is clean again (`Inv`), then a retry that reports
success kills the target and every non-orphaned descendant it had in `s`. -/
theorem revoke_fault_retry_partial_purged (h : List HStep) (f k : Nat) (hrf : HistOK f h St.init)
    (hF : 2 * (h.length + 1) + 8 ≤ f) (q : Req) (t : Nat) (hq : q.cascadeTarget = some t) (ht0 : t ≠ 0)
    (hIσ : Inv (runFault k (q.prog f) (runHist f h St.init)).2)
    (hs : Shrink (runHist f h St.init) (runFault k (q.prog f) (runHist f h St.init)).2)
    (hclosed : ∀ y, ((runHist f h St.init).ids y).isSome →
      (runFault k (q.prog f) (runHist f h St.init)).2.ids y = none →
      ∀ c, (runHist f h St.init).par y c = true → (runFault k (q.prog f) (runHist f h St.init)).2.ids c = none)
    (hok : okB (run (q.prog f) (runFault k (q.prog f) (runHist f h St.init)).2).1 = true) :
    ∀ x, Desc (runHist f h St.init) t x →
      Dead (run (q.prog f) (runFault k (q.prog f) (runHist f h St.init)).2).2 x := by
  obtain ⟨hI, hn, _, _⟩ := inv_hist h St.init f inv_init hrf (by simp [St.init]; omega)
  have hn' : (runHist f h St.init).next ≤ h.length + 1 := by simpa [St.init, Nat.add_comm] using hn
  exact cascade_after_partial hI hIσ hs hclosed f (by rw [hs.next]; omega) q t hq ht0 hok

/-- illustration of `revoke_fault_retry_partial_purged`: #1 with children #2 and #3; the failure of storage
operation 17 of `revoke #1` (the listing of #2's children, after #3 has been revoked completely) leaves #3 purged,
#1 and #2 untouched, the pending map empty; the retry succeeds and nothing of the tree is left. (The instance
`σ = s` — every failure before the first `revokeInternal` — meets the hypotheses by `Shrink.refl`.) -/
example :
    let s := runHist 50 [.req (.create 0 false 5), .req (.create 1 false 3), .req (.create 1 false 4)] St.init
    let σ := (runFault 17 ((Req.revoke 0 1).prog 50) s).2
    (σ.ids 3 = none ∧ (σ.ids 1).isSome ∧ (σ.ids 2).isSome ∧ σ.pend (.salted 3) = none ∧ σ.par 1 3 = false) ∧
    okB (run ((Req.revoke 0 1).prog 50) σ).1 = true ∧
    ((run ((Req.revoke 0 1).prog 50) σ).2.ids 1 = none ∧ (run ((Req.revoke 0 1).prog 50) σ).2.ids 2 = none) := by
  decide +kernel

/-- non-vacuity of (2): a failure of the lease read (operation 2) of `revoke #1` leaves the store as it was and
the retry succeeds (the two `…_recovers` theorems above are the instances at the entry read and the marker write) -/
example : okB (run ((Req.revoke 0 1).prog 50) (runFault 2 ((Req.revoke 0 1).prog 50)
    (runHist 50 histTwo St.init)).2).1 = true := by decide +kernel

/-! ### revocation racing a child creation -/

/-- FULL statement (false on the current tree): for every schedule of a cascading revocation of `t` and a
creation of a child under a descendant `p` of `t`, once the revocation has succeeded and both have finished, a
child that exists and is not an orphan is rejected. -/
def revoke_vs_create_race_full : Prop :=
  ∀ (f : Nat) (h : List HStep) (q : Req) (t p sk : Nat) (sched : List Bool), q.cascadeTarget = some t →
    Desc (runHist f h St.init) t p →
    ((Conc.start (q.prog f) ((Req.create p false sk).prog f) (runHist f h St.init)).run sched).a.okDone = true →
    ((Conc.start (q.prog f) ((Req.create p false sk).prog f) (runHist f h St.init)).run sched).b.done = true →
    ∀ e, ((Conc.start (q.prog f) ((Req.create p false sk).prog f) (runHist f h St.init)).run sched).st.ids
            (runHist f h St.init).next = some e → e.parent = some p →
      (usable f (runHist f h St.init).next
        ((Conc.start (q.prog f) ((Req.create p false sk).prog f) (runHist f h St.init)).run sched).st).1 = false

/-- the creator (B) runs up to its parent-index write, the revocation (A) runs to the end, the creator finishes -/
def schedF3 : List Bool := List.replicate 5 true ++ List.replicate 20 false ++ List.replicate 5 true

/-- F3 on the explicit schedule `schedF3`: the child #2 is created under #1 while #1 is revoked; it is stored
with parent #1 and requests made with it are accepted. -/
theorem revoke_vs_create_race_cex : ¬ revoke_vs_create_race_full := by
  intro hfull
  have h := hfull 50 [.req (.create 0 false 5)] (.revoke 0 1) 1 1 3 schedF3 rfl .self
    (by decide +kernel) (by decide +kernel) { parent := some 1, marked := false } (by decide +kernel) rfl
  revert h
  decide +kernel

/-- the creator (B) has written its parent-index entry but not its own entry while the revocation (A) runs to
the end -/
def schedF3b : List Bool := List.replicate 6 true ++ List.replicate 30 false ++ List.replicate 5 true

/-- F3b: on `schedF3b` the revocation's `revokeInternal` runs on the child's salted id before the child's entry
exists and leaves `tokensPendingDeletion[salted #2] = true`; the child is then written; a later explicit
`auth/token/revoke` of the child reports success while its entry stays stored, not even marked (only its lease
is removed, so lookups then refuse it; its cubbyhole and index entries stay). -/
theorem race_survivor_not_revocable_cex :
    okB (run ((Req.revoke 0 2).prog 50)
      ((Conc.start ((Req.revoke 0 1).prog 50) ((Req.create 1 false 3).prog 50)
        (runHist 50 [.req (.create 0 false 5)] St.init)).run schedF3b).st).1 = true ∧
    ((run ((Req.revoke 0 2).prog 50)
      ((Conc.start ((Req.revoke 0 1).prog 50) ((Req.create 1 false 3).prog 50)
        (runHist 50 [.req (.create 0 false 5)] St.init)).run schedF3b).st).2.ids 2).map (·.marked)
      = some false := by
  decide +kernel

/-- the revocation (A) of #2 lists #2's children, is parked at the marker write of the existing child #3; the
whole creation (B) of a new child #4 under #2 runs; the revocation continues -/
def schedSibling : List Bool := List.replicate 8 false ++ List.replicate 8 true ++ List.replicate 60 false

/-- What the second parent-index listing of `revokeTreeInternal` is for (witness on `schedSibling`): a child
created under #2 while the revocation of #2 is tearing down #2's existing child #3 is found when the revocation
returns to #2 and is revoked with the rest — both requests report success and nothing of the tree is left.
(A revocation that skips the second listing leaves #4 stored, accepted and non-orphaned; the `revoke-race` stream
has this schedule as a directed case and classifies such a survivor as a fresh violation, not as F3.) -/
theorem race_child_during_sibling_teardown_revoked :
    let c := (Conc.start ((Req.revoke 0 2).prog 50) ((Req.create 2 false 9).prog 50)
      (runHist 50 [.req (.create 0 false 5), .req (.create 1 false 3), .req (.create 2 false 4)] St.init)).run
        schedSibling
    c.a.okDone = true ∧ c.b.okDone = true ∧
    c.st.ids 2 = none ∧ c.st.ids 3 = none ∧ c.st.ids 4 = none ∧ c.st.next = 5 := by
  decide +kernel

/-- PARTIAL (what holds on the current tree): take any cascading revocation `q` started in any state `s0`, and a
creator that is parked at `storeCommon`'s parent lookup for parent `p` (ordinal `n` for the child). Release the
revocation alone `k` times; if by then the entry of `p` is marked or gone (its marker write has happened), then
under EVERY continuation schedule the creator either is still parked or has failed with "parent token not found"
without writing anything, and `p` stays marked or gone. (F3 needs the lookup to precede the marker write.) -/
theorem revoke_vs_create_race_partial (f g p n t k : Nat) (q : Req) (hq : q.cascadeTarget = some t) (s0 : St)
    (sched : List Bool)
    (hmark : ParentGone p ((Conc.start (q.prog f) (storeAndRegister (g+1) p n false) s0).run (List.replicate k false)).st) :
    let c := ((Conc.start (q.prog f) (storeAndRegister (g+1) p n false) s0).run (List.replicate k false)).run sched
    (c.b = storeAndRegister (g+1) p n false ∨ c.b = .ret (.error .invalid)) ∧ ParentGone p c.st := by
  intro c
  have hB : (advance (storeAndRegister (g+1) p n false) (advance (q.prog f) s0).2) =
      (storeAndRegister (g+1) p n false, (advance (q.prog f) s0).2) := by
    unfold storeAndRegister lookup getTok getKey
    simp [bind_eq, Prog.bind, advance, Op.isGate]
  have hA := ((al_cascade p f q t hq).advance s0)
  have h1 := Always.runA (B := storeAndRegister (g+1) p n false) hA (advance (q.prog f) s0).2 k
  have hstart : Conc.start (q.prog f) (storeAndRegister (g+1) p n false) s0 =
      ⟨(advance (q.prog f) s0).1, storeAndRegister (g+1) p n false, (advance (q.prog f) s0).2⟩ := by
    simp only [Conc.start, hB]
  have hc : c = Conc.run (Conc.run ⟨(advance (q.prog f) s0).1, storeAndRegister (g+1) p n false,
      (advance (q.prog f) s0).2⟩ (List.replicate k false)) sched := by
    show Conc.run (Conc.run (Conc.start _ _ s0) _) sched = _
    rw [hstart]
  rw [hstart] at hmark
  rw [hc]
  generalize Conc.run ⟨(advance (q.prog f) s0).1, storeAndRegister (g+1) p n false,
      (advance (q.prog f) s0).2⟩ (List.replicate k false) = C1 at h1 hmark
  obtain ⟨a1, b1, st1⟩ := C1
  obtain ⟨h1a, h1b⟩ := h1
  simp only at h1a h1b hmark
  subst h1b
  exact race_core (p := p) g n h1a hmark sched

/-- non-vacuity: token #1 under the root; after 8 storage operations of `auth/token/revoke` of #1 its marker is
written (`ParentGone 1` holds) while a creator of a child of #1 is parked at its parent lookup -/
example : (((Conc.start ((Req.revoke 0 1).prog 50) (storeAndRegister 50 1 2 false)
      (runHist 50 [.req (.create 0 false 5)] St.init)).run (List.replicate 8 false)).st.ids 1).map (·.marked)
        = some true := by decide +kernel

end C04
