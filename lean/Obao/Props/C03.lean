import Obao.Proofs.ACLProps
/-!
C03 — ACL decisions equal the documented policy semantics.

Model: `Obao/Model/ACL.lean` (transliteration of `parsePaths`, `NewACL`, `AllowOperation`,
`CheckAllowedFromNonExactPaths`, `Capabilities`); semantics: `Obao/Model/ACLSpec.lean` (a function of the multiset of
stanzas). All theorems quantify over every list of attached policies (with `nil` entries), every request path,
operation, parameter map and wrap TTL; no size bounds.

`WF` (`wfRules`) = `deny` stands alone; parameter maps have distinct keys; wrapping-TTL bounds are not negative.
Since the repairs of F19 (negative bounds refused) and F21 (names equal up to case refused) ALL of it is established
by `parsePaths` (`parsed_stanza_wf`, no hypothesis), so for policies that come from the parser the refinement and
order independence hold without side conditions (`acl_impl_eq_spec_parsed`, `order_independent_parsed`). `NewACL`
itself is unchanged: fed a hand-built `*Policy` value with a negative bound (no parser involved) it is still order
dependent — `order_independent_cex` / `acl_impl_eq_spec_cex` are kept as statements about such values only.
-/
namespace C03
open Obao.ACL Obao.ACLSpec Obao.ACLProofs

/-! ### refinement: implementation model = documented semantics -/

/-- the full statement: for every attachable policy list the implementation computes the documented decision -/
def acl_impl_eq_spec_full : Prop :=
  ∀ (now : Int) (ps : List (Option Policy)) (a : ACL) (req : Req) (cc : Bool),
    newACL now ps = .ok a → allowOperation a req cc = specAllow now ps req cc

/-- **refinement.** For well-formed stanzas (see above), `AllowOperation (NewACL ps) req` is the documented decision
`specAllow now ps req`: default deny, exact over glob/wildcard, the five-criteria priority, per-pattern union with deny
winning, parameter/TTL/pagination restrictions; the same with `capCheckOnly`. -/
theorem acl_impl_eq_spec_partial (now : Int) (ps : List (Option Policy)) (a : ACL) (req : Req) (cc : Bool)
    (h : newACL now ps = .ok a) (hwf : wfRules (rulesOf now ps) = true) :
    allowOperation a req cc = specAllow now ps req cc :=
  acl_refines_spec now ps a h hwf req cc

/-- `NewACL` fails exactly when `root` is attached together with anything else (nil entries count) -/
theorem newacl_ok_iff_attachable (now : Int) (ps : List (Option Policy)) :
    (∃ a, newACL now ps = .ok a) ↔ attachable ps = true := by
  rw [newACL_eq]
  cases attachable ps <;> simp

/-- the reported capability list is the documented one as well -/
theorem capabilities_eq_spec (now : Int) (ps : List (Option Policy)) (a : ACL) (path : Path)
    (h : newACL now ps = .ok a) (hwf : wfRules (rulesOf now ps) = true) :
    capabilities a path = specCapabilities now ps path := by
  unfold capabilities specCapabilities
  rw [acl_refines_spec now ps a h hwf]

/-- **what `parsePaths` accepts is well-formed** — no side condition (F19 and F21 repaired): `deny` stands alone, the
parameter names are distinct, the wrapping-TTL bounds are not negative -/
theorem parsed_stanza_wf (r : SrcRule) (pr : PathRule) (h : parseRule r = .ok pr) : wfPerms pr.perms = true :=
  (wfPerms_iff _).mpr (parseRule_wf r pr h)

/-- hence every list of policies produced by the parser satisfies the hypothesis of the theorems below -/
theorem parsed_policies_wf (now : Int) (ps : List (Option Policy)) (h : ∀ p, some p ∈ ps → Parsed p) :
    wfRules (rulesOf now ps) = true :=
  wfRules_of_parsed now ps h

/-- **refinement for parsed policies, no side condition**: whatever policy texts are attached, `AllowOperation`
computes the documented decision -/
theorem acl_impl_eq_spec_parsed (now : Int) (ps : List (Option Policy)) (a : ACL) (req : Req) (cc : Bool)
    (hparsed : ∀ p, some p ∈ ps → Parsed p) (h : newACL now ps = .ok a) :
    allowOperation a req cc = specAllow now ps req cc :=
  acl_refines_spec now ps a h (wfRules_of_parsed now ps hparsed) req cc

/-- **the parse does not depend on Go's map iteration order** (full since the repair of F21). `parsePaths` ranges over
the decoded `allowed_parameters` / `denied_parameters` objects (Go maps) while lower-casing the names. For every
stanza and every other enumeration order of those objects the result is the same: the same error, or the same
pattern, flags, capabilities, bounds, required list and pagination limit and the same value list for every
parameter name (`ruleEquiv`: maps compared by lookup, as Go maps are). -/
theorem parse_params_order_independent (r r' : SrcRule) (h : Reordered r r') :
    exceptRel ruleEquiv (parseRule r) (parseRule r') :=
  parseRule_reordered r r' h

/-- the executable form used by the `reparse` op of the correspondence stream: no policy text has an unstable parse -/
theorem parse_stable (rs : List SrcRule) : parseStable rs = true := parseStable_true rs

/-- the F21 witness is refused now -/
example : parseRule { path := bs "x", caps := ["update"], allowed := some [("k", [.str "a"]), ("K", [.str "b"])] }
    = .error .dupParam := by rfl
/-- and a negative wrapping-TTL bound (F19) as well, but not on a `deny` stanza, which ignores the fine-grained fields -/
example : parseRule { path := bs "x", caps := ["read"], maxTTL := some (-1) } = .error .negTTL := by rfl
example : (parseRule { path := bs "x", caps := ["deny"], maxTTL := some (-1) }).toOption.map (·.perms)
    = some { caps := denyBits } := by decide

/-! ### order independence -/

def order_independent_full : Prop :=
  ∀ (now : Int) (ps ps' : List (Option Policy)) (a a' : ACL) (req : Req) (cc : Bool),
    ps.Perm ps' → newACL now ps = .ok a → newACL now ps' = .ok a' → allowOperation a req cc = allowOperation a' req cc

/-- **order independence.** For every permutation of the attached policies the decision (allowed, root privileges,
capability bitmap, effective `limit`) is the same. -/
theorem order_independent_partial (now : Int) (ps ps' : List (Option Policy)) (a a' : ACL) (req : Req) (cc : Bool)
    (hp : ps.Perm ps') (hwf : wfRules (rulesOf now ps) = true) (h : newACL now ps = .ok a) (h' : newACL now ps' = .ok a') :
    allowOperation a req cc = allowOperation a' req cc := by
  have hwf' : wfRules (rulesOf now ps') = true := by rw [← wfRules_perm (rulesOf_perm now hp)]; exact hwf
  rw [acl_refines_spec now ps a h hwf, acl_refines_spec now ps' a' h' hwf']
  unfold specAllow
  rw [hasRoot_perm hp, specDecide_perm (rulesOf_perm now hp)]

/-- **order independence for parsed policies, no side condition** -/
theorem order_independent_parsed (now : Int) (ps ps' : List (Option Policy)) (a a' : ACL) (req : Req) (cc : Bool)
    (hp : ps.Perm ps') (hparsed : ∀ p, some p ∈ ps → Parsed p) (h : newACL now ps = .ok a) (h' : newACL now ps' = .ok a') :
    allowOperation a req cc = allowOperation a' req cc :=
  order_independent_partial now ps ps' a a' req cc hp (wfRules_of_parsed now ps hparsed) h h'

/-- stronger: the decision depends only on the multiset of stanzas — also invariant under reordering the paths
inside a policy and under moving stanzas between (non-root) policies -/
theorem order_independent_stanzas (now : Int) (ps ps' : List (Option Policy)) (a a' : ACL) (req : Req) (cc : Bool)
    (hp : (rulesOf now ps).Perm (rulesOf now ps')) (hr : hasRoot ps = hasRoot ps') (hwf : wfRules (rulesOf now ps) = true)
    (h : newACL now ps = .ok a) (h' : newACL now ps' = .ok a') :
    allowOperation a req cc = allowOperation a' req cc := by
  have hwf' : wfRules (rulesOf now ps') = true := by rw [← wfRules_perm hp]; exact hwf
  rw [acl_refines_spec now ps a h hwf, acl_refines_spec now ps' a' h' hwf']
  unfold specAllow
  rw [hr, specDecide_perm hp]

/-- whether the policies can be attached at all does not depend on the order either (no hypothesis) -/
theorem attach_order_independent (now : Int) (ps ps' : List (Option Policy)) (hp : ps.Perm ps') :
    (∃ a, newACL now ps = .ok a) ↔ (∃ a', newACL now ps' = .ok a') := by
  rw [newacl_ok_iff_attachable, newacl_ok_iff_attachable, attachable_perm hp]

/-- the capability list is order independent -/
theorem capabilities_order_independent (now : Int) (ps ps' : List (Option Policy)) (a a' : ACL) (path : Path)
    (hp : ps.Perm ps') (hwf : wfRules (rulesOf now ps) = true) (h : newACL now ps = .ok a) (h' : newACL now ps' = .ok a') :
    capabilities a path = capabilities a' path := by
  unfold capabilities
  rw [order_independent_partial now ps ps' a a' _ true hp hwf h h']

/-- hand-built policy values (NOT parser output any more: `parsePaths` refuses the negative bound since the repair of
F19) for the same path, one with `MaxWrappingTTL = -1`, the other `= 5` -/
def ruleNeg : PathRule := { path := bs "x", isPrefix := false, hasSW := false, perms := { caps := 4, maxTTL := -1 } }
def ruleFive : PathRule := { path := bs "x", isPrefix := false, hasSW := false, perms := { caps := 4, maxTTL := 5 } }
def polNeg : Policy := { name := "a", paths := [ruleNeg] }
def polFive : Policy := { name := "b", paths := [ruleFive] }
def aclNegFive : ACL := { exact := [(bs "x", { caps := 4, maxTTL := -1 })] }
def aclFiveNeg : ACL := { exact := [(bs "x", { caps := 4, maxTTL := 5 })] }

/-- `NewACL`/`AllowOperation` on their own (their code is unchanged) are still order dependent on hand-built `*Policy`
values with a negative wrapping-TTL bound: the first stanza stored for a pattern keeps the negative bound verbatim and
it then blocks the merge of the positive bound. No policy text reaches this any more (`order_independent_parsed`);
the statement is kept because callers inside the Go code base can construct `Policy` values without the parser. -/
theorem order_independent_cex : ¬ order_independent_full := by
  intro h
  have := h 0 [some polNeg, some polFive] [some polFive, some polNeg] aclNegFive aclFiveNeg
    { path := bs "x", op := .read } false (List.Perm.swap _ _ _) (by rfl) (by rfl)
  exact absurd this (by decide)

theorem acl_impl_eq_spec_cex : ¬ acl_impl_eq_spec_full := by
  intro h
  have := h 0 [some polNeg, some polFive] aclNegFive { path := bs "x", op := .read } false (by rfl)
  exact absurd this (by decide)

/-! ### stanza expiration

Policies are parsed once and cached; `parsePaths` only drops stanzas that are already expired at parse time. What
enforces a stanza's `expiration` afterwards is the test `NewACL` makes for every stanza each time an ACL is built.
All theorems of this file quantify over the instant `now` at which the ACL is built. -/

/-- **an expired stanza grants (and denies) nothing.** For every policy list and every instant `now`: removing all
stanzas that are expired at `now` from the policies changes nothing — `NewACL` builds the same ACL, hence every
decision and capability list is the same. No well-formedness hypothesis. -/
theorem expired_stanza_grants_nothing (now : Int) (ps : List (Option Policy)) :
    newACL now (ps.map (dropExpired now)) = newACL now ps :=
  newACL_dropExpired now ps

/-- the same on the side of the semantics -/
theorem expired_stanza_grants_nothing_spec (now : Int) (ps : List (Option Policy)) (req : Req) (cc : Bool) :
    specAllow now (ps.map (dropExpired now)) req cc = specAllow now ps req cc := by
  unfold specAllow
  rw [hasRoot_dropExpired, rulesOf_dropExpired]

/-- a stanza counts exactly when it has no expiration or `now` is not after it (`time.Now().After(exp)` is strict) -/
theorem stanza_counts_iff (now : Int) (r : PathRule) :
    liveAt now r = true ↔ r.expiration = none ∨ ∃ t, r.expiration = some t ∧ now ≤ t := by
  unfold liveAt expiredAt
  cases r.expiration with
  | none => simp
  | some t => simp

/-- as time passes the set of stanzas that count only shrinks -/
theorem live_stanzas_shrink (now now' : Int) (h : now ≤ now') (ps : List (Option Policy)) (r : PathRule)
    (hr : r ∈ rulesOf now' ps) : r ∈ rulesOf now ps :=
  mem_rulesOf_mono now now' h ps r hr

def expiry_monotone_full : Prop :=
  ∀ (now now' : Int) (ps : List (Option Policy)) (a a' : ACL) (req : Req), now ≤ now' →
    newACL now ps = .ok a → newACL now' ps = .ok a' →
    (allowOperation a' req false).allowed = true → (allowOperation a req false).allowed = true

/-- `secret/* = read` for ever, `secret/x = deny` until the instant 10 -/
def polExpiringDeny : Policy := { name := "t", paths := [
  { path := bs "secret/", isPrefix := true, hasSW := false, perms := { caps := 4 } },
  { path := bs "secret/x", isPrefix := false, hasSW := false, perms := { caps := denyBits }, expiration := some 10 }] }

/-- **"a later instant never turns a deny into an allow" is false**, by design of the semantics: when the stanza that
expires is a `deny` (or any more specific, more restrictive stanza) the request falls through to a lower-priority
pattern that allows it. Expiry removes stanzas, it does not remove permissions. -/
theorem expiry_monotone_cex : ¬ expiry_monotone_full := by
  intro h
  have := h 5 11 [some polExpiringDeny]
    { exact := [(bs "secret/x", { caps := denyBits })], pref := [(bs "secret/", { caps := 4 })] }
    { pref := [(bs "secret/", { caps := 4 })] }
    { path := bs "secret/x", op := .read } (by decide) (by rfl) (by rfl) (by decide)
  exact absurd this (by decide)

/-- a granting stanza stops granting at the first instant after its expiration, and grants up to and including it -/
def polExpiringGrant : Policy := { name := "g", paths := [
  { path := bs "kv/a", isPrefix := false, hasSW := false, perms := { caps := 4 + 64 }, expiration := some 10 }] }
example : (specAllow 10 [some polExpiringGrant] { path := bs "kv/a", op := .read } false).allowed = true := by decide
example : (specAllow 11 [some polExpiringGrant] { path := bs "kv/a", op := .read } false) = { } := by decide
example : rulesOf 11 [some polExpiringGrant] = [] := by decide
/-- `parsePaths` skips a stanza that is expired at parse time before looking at anything else in it -/
example : parseRules 100 [{ path := bs "a/+*", caps := ["bogus"], expiration := some 99 },
    { path := bs "b", caps := ["read"], expiration := some 100 }] =
    .ok [{ path := bs "b", isPrefix := false, hasSW := false, perms := { caps := 4 }, expiration := some 100 }] := by rfl

/-! ### corollaries named in the property -/

/-- **default deny.** If no stanza of the attached policies applies to the request (matches its path, or — for
list/scan — the path without its trailing slash), nothing is granted: not allowed, no root privileges, empty
capability bitmap. No well-formedness hypothesis. -/
theorem default_deny (now : Int) (ps : List (Option Policy)) (a : ACL) (req : Req) (cc : Bool) (h : newACL now ps = .ok a)
    (hroot : hasRoot ps = false) (hhelp : req.op ≠ .help)
    (hnone : ∀ r ∈ rulesOf now ps, stanzaApplies (dropSlashes req.path) req.op r = false) :
    allowOperation a req cc = { limit := limitOf req.data } := by
  rw [newACL_eq] at h
  split at h
  · simp only [Except.ok.injEq] at h
    subst h
    unfold allowOperation
    have hb := built_foldl (rulesOf now ps) (hasRoot ps)
    rw [findPerms_eq hb, specFind_none_of_none_applies _ _ _ hnone]
    simp [setRoot, hroot, hhelp]
  · exact absurd h (by simp)

/-- **exact beats glob/wildcard.** If some stanza is written for exactly the request path, only the stanzas for
that exact pattern decide, whatever globs and wildcards also match. -/
theorem exact_beats_glob (now : Int) (ps : List (Option Policy)) (a : ACL) (req : Req) (cc : Bool) (h : newACL now ps = .ok a)
    (hwf : wfRules (rulesOf now ps) = true) (hroot : hasRoot ps = false) (hhelp : req.op ≠ .help)
    (hex : hasExact (rulesOf now ps) (dropSlashes req.path) = true) :
    allowOperation a req cc = specCheck (permsFor (rulesOf now ps) .exact (dropSlashes req.path)) req cc := by
  rw [acl_refines_spec now ps a h hwf]
  unfold specAllow specDecide specFind
  simp [hroot, hhelp, hex]

/-- **deny wins within a pattern.** If any stanza for the deciding pattern says `deny`, no operation is allowed,
with any parameters, and the capability bitmap is exactly `deny`. -/
theorem deny_wins_within_pattern (now : Int) (ps : List (Option Policy)) (a : ACL) (req : Req) (kind : Kind) (k : Path)
    (h : newACL now ps = .ok a) (hwf : wfRules (rulesOf now ps) = true) (hroot : hasRoot ps = false) (hhelp : req.op ≠ .help)
    (hfind : specFind (rulesOf now ps) (dropSlashes req.path) req.op = some (kind, k))
    (hdeny : anyDeny (permsFor (rulesOf now ps) kind k) = true) :
    (allowOperation a req false).allowed = false ∧ (allowOperation a req true).caps = denyBits := by
  rw [acl_refines_spec now ps a h hwf, acl_refines_spec now ps a h hwf]
  unfold specAllow specDecide
  simp only [hroot, Bool.false_eq_true, if_false, hhelp, hfind]
  have hc : specCaps (permsFor (rulesOf now ps) kind k) = denyBits := by unfold specCaps; simp [hdeny]
  unfold specCheck
  rw [hc]
  constructor
  · unfold checkCore
    simp only [Bool.false_eq_true, if_false]
    cases hop : opCap req.op with
    | none => rfl
    | some i => simp [denyBits_testBit_opCap req.op i hop]
  · simp [checkCore]

/-- **capabilities are unioned within a pattern.** Without a `deny` stanza the deciding pattern carries capability
`i` iff some stanza written for that pattern (in any attached policy) grants it. -/
theorem caps_union_within_pattern (now : Int) (ps : List (Option Policy)) (a : ACL) (req : Req) (kind : Kind) (k : Path) (i : Nat)
    (h : newACL now ps = .ok a) (hwf : wfRules (rulesOf now ps) = true) (hroot : hasRoot ps = false) (hhelp : req.op ≠ .help)
    (hfind : specFind (rulesOf now ps) (dropSlashes req.path) req.op = some (kind, k))
    (hdeny : anyDeny (permsFor (rulesOf now ps) kind k) = false) :
    (allowOperation a req true).caps.testBit i = (permsFor (rulesOf now ps) kind k).any fun p => p.caps.testBit i := by
  rw [acl_refines_spec now ps a h hwf]
  unfold specAllow specDecide
  simp only [hroot, Bool.false_eq_true, if_false, hhelp, hfind]
  unfold specCheck checkCore
  simp only [if_true]
  unfold specCaps
  simp only [hdeny, Bool.false_eq_true, if_false]
  exact testBit_unionCaps _ i

/-- **constraints only restrict.** Removing every allowed/denied/required parameter list, wrapping-TTL bound and
pagination limit from all stanzas never turns an allowed request into a denied one; equivalently, adding such
constraints never turns a deny into an allow. -/
theorem params_restrict_only (now : Int) (ps : List (Option Policy)) (a a0 : ACL) (req : Req)
    (h : newACL now ps = .ok a) (h0 : newACL now (ps.map stripPolicy) = .ok a0) (hwf : wfRules (rulesOf now ps) = true)
    (hal : (allowOperation a req false).allowed = true) : (allowOperation a0 req false).allowed = true := by
  have hwf0 : wfRules (rulesOf now (ps.map stripPolicy)) = true := by rw [rulesOf_strip]; exact wfRules_strip _ hwf
  rw [acl_refines_spec now ps a h hwf] at hal
  rw [acl_refines_spec now _ a0 h0 hwf0]
  unfold specAllow at hal ⊢
  rw [hasRoot_strip, rulesOf_strip]
  cases hr : hasRoot ps with
  | true => simp
  | false =>
    rw [hr] at hal
    by_cases hh : req.op = .help
    · simp [hh]
    · simp only [Bool.false_eq_true, if_false, hh] at hal ⊢
      exact specDecide_strip_mono _ req hal

/-- the stripped policies are attachable whenever the original ones are (so `a0` above exists) -/
theorem strip_attachable (now : Int) (ps : List (Option Policy)) (a : ACL) (h : newACL now ps = .ok a) :
    ∃ a0, newACL now (ps.map stripPolicy) = .ok a0 := by
  rw [newacl_ok_iff_attachable, attachable_strip, ← newacl_ok_iff_attachable]
  exact ⟨a, h⟩

/-! ### the priority order -/

/-- **priority order.** The comparator of `CheckAllowedFromNonExactPaths` is the documented five-level order:
(1) first wildcard/glob position, (2) trailing `*` loses, (3) more `+` segments lose, (4) shorter loses,
(5) lexicographically smaller loses — and nothing else. -/
theorem priority_order (a b : Descr) :
    less a b = true ↔
      a.firstWC < b.firstWC ∨ (a.firstWC = b.firstWC ∧ (pr a < pr b ∨ (pr a = pr b ∧
        (b.wildcards < a.wildcards ∨ (a.wildcards = b.wildcards ∧ (a.wcPath.length < b.wcPath.length ∨
          (a.wcPath.length = b.wcPath.length ∧ lexLt a.wcPath b.wcPath = true))))))) := by
  rw [less_iff]
  unfold lessNum eqNum
  constructor
  · rintro (h | ⟨h, hl⟩)
    · omega
    · exact Or.inr ⟨h.1, Or.inr ⟨h.2.1, Or.inr ⟨h.2.2.1, Or.inr ⟨h.2.2.2, hl⟩⟩⟩⟩
  · intro h
    by_cases hl : lexLt a.wcPath b.wcPath = true
    · simp only [hl, and_true] at h ⊢
      by_cases hn : a.firstWC = b.firstWC ∧ pr a = pr b ∧ a.wildcards = b.wildcards ∧ a.wcPath.length = b.wcPath.length
      · exact Or.inr hn
      · left; omega
    · have hl' : lexLt a.wcPath b.wcPath = false := by simpa using hl
      rw [hl'] at h ⊢
      left
      rcases h with h | ⟨h1, h | ⟨h2, h | ⟨h3, h | ⟨_, h5⟩⟩⟩⟩
      · omega
      · omega
      · omega
      · omega
      · exact absurd h5 (by decide)

/-- **only the highest-priority matching pattern decides.** The glob/wildcard pattern the semantics (hence, by
`acl_impl_eq_spec_partial`, the implementation) selects for a path is written in some attached stanza, matches the
path, and no matching pattern of any stanza has higher priority. -/
theorem highest_priority_decides (rules : List PathRule) (path : Path) (kind : Kind) (k : Path)
    (h : specNonExact rules path = some (kind, k)) :
    ∃ d, candOf path kind k = some d ∧ (∃ r ∈ rules, kindOf r = kind ∧ r.path = k) ∧
      ∀ r' ∈ rules, ∀ d', candOf path (kindOf r') r'.path = some d' → less d d' = false := by
  unfold specNonExact at h
  rw [Option.map_eq_some_iff] at h
  obtain ⟨c, hc, hck⟩ := h
  rw [pickBest_eq_foldMax] at hc
  rcases foldMax_spec (fun (b c : Descr × Kind × Path) => less b.1 c.1) (fun a => less_irrefl a.1)
    (fun a b c => less_trans) (rules.filterMap (candidate path)) with ⟨_, hn⟩ | ⟨x, hx, hxm, hxmax⟩
  · rw [hn] at hc; exact absurd hc (by simp)
  · rw [hx] at hc
    simp only [Option.some.injEq] at hc
    subst hc
    obtain ⟨r, hr, hd, hpat⟩ := (mem_specCands (rules := rules)).mp hxm
    rw [hpat] at hck
    simp only [Prod.mk.injEq] at hck
    refine ⟨x.1, ?_, ⟨r, hr, hck.1, hck.2⟩, ?_⟩
    · rw [← hck.1, ← hck.2]; exact hd
    · intro r' hr' d' hd'
      have hm : (d', kindOf r', r'.path) ∈ specCands rules path :=
        mem_specCands.mpr ⟨r', hr', hd', rfl⟩
      exact hxmax _ hm

/-- and a pattern is selected whenever some glob/wildcard stanza matches -/
theorem some_match_some_decider (rules : List PathRule) (path : Path) (r : PathRule) (d : Descr) (hr : r ∈ rules)
    (hd : candOf path (kindOf r) r.path = some d) : ∃ pat, specNonExact rules path = some pat := by
  cases h : specNonExact rules path with
  | some pat => exact ⟨pat, rfl⟩
  | none =>
    unfold specNonExact at h
    rw [Option.map_eq_none_iff, pickBest_eq_none_iff, List.filterMap_eq_nil_iff] at h
    have := h r hr
    unfold candidate at this
    rw [hd] at this
    simp at this

/-- `less` is a strict order whose incomparable descriptors denote the same pattern: "sort by `less` and take the
last" is well defined, whatever order Go's map iteration and `sort.Slice` produce -/
theorem less_strict_total :
    (∀ a : Descr, less a a = false) ∧
    (∀ a b c : Descr, less a b = true → less b c = true → less a c = true) ∧
    (∀ a b : Descr, less a b = false → less b a = false →
      a.firstWC = b.firstWC ∧ a.isPrefix = b.isPrefix ∧ a.wildcards = b.wildcards ∧ a.wcPath = b.wcPath) :=
  ⟨less_irrefl, fun _ _ _ => less_trans, fun _ _ => less_incomparable⟩

/-- two different matching patterns never tie: a descriptor determines its pattern -/
theorem descriptor_identifies_pattern (path : Path) (kind kind' : Kind) (k k' : Path) (d d' : Descr)
    (h : candOf path kind k = some d) (h' : candOf path kind' k' = some d')
    (hk : d.firstWC = d'.firstWC ∧ d.isPrefix = d'.isPrefix ∧ d.wildcards = d'.wildcards ∧ d.wcPath = d'.wcPath) :
    kind = kind' ∧ k = k' :=
  candOf_injective path kind kind' k k' d d' h h' hk

/-! ### the capability list -/

def capabilities_agree_full : Prop :=
  ∀ (now : Int) (ps : List (Option Policy)) (a : ACL) (req : Req) (i : Nat), newACL now ps = .ok a → wfRules (rulesOf now ps) = true →
    hasRoot ps = false → opCap req.op = some i → (allowOperation a req false).allowed = true →
    capName i ∈ capabilities a req.path

/-- **capabilities agree.** For a request path without a trailing slash: whenever an operation is permitted (with any
parameters and wrap TTL), the capability for that operation is in the list `Capabilities` reports for the path. -/
theorem capabilities_agree_partial (now : Int) (ps : List (Option Policy)) (a : ACL) (req : Req) (i : Nat)
    (h : newACL now ps = .ok a) (hwf : wfRules (rulesOf now ps) = true) (hroot : hasRoot ps = false)
    (hns : ¬ (dropSlashes req.path).getLast? = some slash) (hop : opCap req.op = some i)
    (hal : (allowOperation a req false).allowed = true) : capName i ∈ capabilities a req.path := by
  have hhelp : req.op ≠ .help := by intro hc; rw [hc] at hop; simp [opCap] at hop
  rw [acl_refines_spec now ps a h hwf] at hal
  unfold capabilities
  rw [acl_refines_spec now ps a h hwf]
  unfold specAllow at hal ⊢
  simp only [hroot, Bool.false_eq_true, if_false, hhelp] at hal
  have hl : ¬ (Op.list = Op.help) := by decide
  simp only [hroot, Bool.false_eq_true, if_false, hl]
  exact spec_caps_agree _ req i hns hop hal

/-- consequently: `deny` reported ⇒ nothing is permitted on that path -/
theorem deny_reported_nothing_permitted (now : Int) (ps : List (Option Policy)) (a : ACL) (req : Req) (i : Nat)
    (h : newACL now ps = .ok a) (hwf : wfRules (rulesOf now ps) = true) (hroot : hasRoot ps = false)
    (hns : ¬ (dropSlashes req.path).getLast? = some slash) (hop : opCap req.op = some i)
    (hdeny : capabilities a req.path = ["deny"]) : (allowOperation a req false).allowed = false := by
  cases hal : (allowOperation a req false).allowed with
  | false => rfl
  | true =>
    have := capabilities_agree_partial now ps a req i h hwf hroot hns hop hal
    rw [hdeny] at this
    simp only [List.mem_singleton] at this
    cases hr : req.op <;> rw [hr] at hop <;> simp [opCap] at hop <;> subst hop <;> exact absurd this (by decide)

/-- `root` is reported iff the root policy is attached, and then everything is permitted -/
theorem root_reported_iff (now : Int) (ps : List (Option Policy)) (a : ACL) (req : Req) (h : newACL now ps = .ok a) :
    (capabilities a req.path = ["root"] ↔ hasRoot ps = true) ∧
    (hasRoot ps = true → (allowOperation a req false).allowed = true ∧ (allowOperation a req false).rootPrivs = true) := by
  rw [newACL_eq] at h
  split at h
  · simp only [Except.ok.injEq] at h
    subst h
    cases hr : hasRoot ps with
    | true => simp [capabilities, allowOperation, setRoot, capList]
    | false =>
      simp only [Bool.false_eq_true, false_implies, and_true, iff_false]
      unfold capabilities capList allowOperation
      simp only [setRoot, Bool.false_eq_true, if_false]
      have hl : ¬ (Op.list = Op.help) := by decide
      simp only [hl, if_false]
      have hnr : ∀ (l : List String), (∀ s ∈ l, s ≠ "root") → l ≠ ["root"] := by
        intro l hl hc; exact hl "root" (by simp [hc]) rfl
      cases findPerms _ _ _ with
      | none => simp
      | some p =>
        simp only [checkPerms, checkCore, if_true, Bool.false_eq_true, if_false]
        split
        · decide
        · apply hnr
          intro s hs
          simp only [List.mem_filterMap, List.mem_cons, List.not_mem_nil, or_false] at hs
          obtain ⟨j, hj, hjs⟩ := hs
          split at hjs
          · simp only [Option.some.injEq] at hjs
            subst hjs
            rcases hj with rfl | rfl | rfl | rfl | rfl | rfl | rfl | rfl <;> decide
          · simp at hjs
  · exact absurd h (by simp)

/-- the witness of finding F20: `foo = deny`, `foo/* = read` -/
def polCaps : Policy := { name := "q", paths := [
  { path := bs "foo", isPrefix := false, hasSW := false, perms := { caps := denyBits } },
  { path := bs "foo/", isPrefix := true, hasSW := false, perms := { caps := 4 } }] }
def aclCaps : ACL := { exact := [(bs "foo", { caps := denyBits })], pref := [(bs "foo/", { caps := 4 })] }

/-- **the unchanged code violates capability agreement on paths with a trailing slash**: `Capabilities("foo/")`
evaluates a LIST request, takes the list fallback to the exact pattern `foo` and reports `[deny]`, while `read foo/`
is decided by `foo/*` and permitted -/
theorem capabilities_agree_cex : ¬ capabilities_agree_full := by
  intro h
  have := h 0 [some polCaps] aclCaps { path := bs "foo/", op := .read } readI (by rfl) (by decide) (by decide)
    (by decide) (by decide)
  exact absurd this (by decide)

/-! ### non-vacuity -/

/-- the documented example policy (policies.mdx, "Policy syntax"), parsed by the model's `parsePaths` -/
def docRules : List SrcRule := [
  { path := bs "secret/*", caps := ["create", "read", "update", "delete", "list"] },
  { path := bs "secret/super-secret", caps := ["deny"] },
  { path := bs "secret/foo", caps := ["read"] },
  { path := bs "secret/+/teamb", caps := ["read"] },
  { path := bs "secret/restricted", caps := ["create"],
    allowed := some [("foo", []), ("bar", [.str "zip", .str "zap"])] }]

def docPolicy : Policy := match parsePolicy 0 "doc" docRules with | .ok p => p | .error _ => { name := "", paths := [] }

def docACL : ACL := match newACL 0 [some docPolicy] with | .ok a => a | .error _ => {}

example : newACL 0 [some docPolicy] = .ok docACL := by rfl
example : wfRules (rulesOf 0 [some docPolicy]) = true := by decide
example : hasRoot [some docPolicy] = false := by decide
/-- "Even though we allowed secret/*, this line explicitly denies secret/super-secret" (exact beats glob, deny) -/
example : (allowOperation docACL { path := bs "secret/super-secret", op := .read } false).allowed = false := by decide
example : hasExact (rulesOf 0 [some docPolicy]) (bs "secret/super-secret") = true := by decide
example : (allowOperation docACL { path := bs "secret/anything", op := .update } false).allowed = true := by decide
/-- default deny applies to a path nothing matches -/
example : ∀ r ∈ rulesOf 0 [some docPolicy], stanzaApplies (bs "sys/mounts") .read r = false := by decide
example : (allowOperation docACL { path := bs "sys/mounts", op := .read } false).allowed = false := by decide
/-- the exact stanza `secret/foo = [read]` hides the glob's `update` -/
example : (allowOperation docACL { path := bs "secret/foo", op := .update } false).allowed = false := by decide
/-- parameter constraints: `bar` must be `zip` or `zap`, other keys are refused -/
example : (allowOperation docACL { path := bs "secret/restricted", op := .create, data := [("bar", .str "zip")] } false).allowed
    = true := by decide
example : (allowOperation docACL { path := bs "secret/restricted", op := .create, data := [("bar", .str "no")] } false).allowed
    = false := by decide
example : (allowOperation docACL { path := bs "secret/restricted", op := .create, data := [("baz", .str "zip")] } false).allowed
    = false := by decide
example : capabilities docACL (bs "secret/foo") = ["read"] := by decide
/-- the hypotheses of `order_independent_partial` are met by two policies that really merge -/
def permsOne : Perms := { caps := 4, maxTTL := 10, allowed := [("k", [.str "a"])] }
def permsTwo : Perms := { caps := 8, maxTTL := 5, allowed := [("k", [.str "b"])] }
def polOne : Policy := { name := "one", paths := [{ path := bs "x", isPrefix := false, hasSW := false, perms := permsOne }] }
def polTwo : Policy := { name := "two", paths := [{ path := bs "x", isPrefix := false, hasSW := false, perms := permsTwo }] }
example : wfRules (rulesOf 0 [some polOne, some polTwo]) = true := by decide
example : (∃ a, newACL 0 [some polOne, some polTwo] = .ok a) ∧ ∃ a, newACL 0 [some polTwo, some polOne] = .ok a :=
  ⟨⟨_, rfl⟩, ⟨_, rfl⟩⟩
example : specAllow 0 [some polOne, some polTwo] { path := bs "x", op := .update, data := [("k", .str "a")], wrapTTL := some 5 } false
    = { allowed := true } := by decide
example : (specAllow 0 [some polOne, some polTwo] { path := bs "x", op := .update, data := [("k", .str "a")], wrapTTL := some 6 }
    false).allowed = false := by decide

end C03
