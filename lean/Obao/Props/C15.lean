import Obao.Model.PKIIssue
import Obao.Proofs.PKIHost
import Obao.Proofs.PKIValidityLemmas
import Obao.Proofs.PKIIssueLemmas
/-!
C15 — issued certificates respect issuer, role and lifetime constraints.  Property theorems over the models
`Obao.PKI` (names), `Obao.PKIValidity` (lifetimes), `Obao.PKIIssue` (the request pipeline); helper lemmas
are in `Obao/Proofs/PKI*.lean`.  Where the unchanged code does not meet the full statement the full statement
is kept as a `def …_full : Prop`, the strongest true form is proved as `…_partial` and the negation as `…_cex`
(none left for C15 after the repairs of findings F13, F14, F15).
-/
namespace C15
open Obao.PKI Obao.PKIValidity Obao.PKIIssue

/-! ## names -/

/-- For every role and every string: a name the string implementation accepts is allowed by the label-level
reading of the role (`"." ++ domain` suffix test ⇒ proper label suffix; bare / glob / display-name / localhost
rules; a wildcard over localhost needs `allow_subdomains` — repair of finding F14). -/
theorem names_impl_sound (r : NameRole) (n : Str)
    (hdn : r.allowTokenDisplayName = true → r.displayName ≠ []) (h : validateName r n = true) :
    nameAllowed r n :=
  validateName_sound r n hdn h

def exRole : NameRole :=
  { allowedDomains := [str "ex.com"], allowBare := true, allowSub := true, allowGlob := false, allowWildcard := true,
    allowLocalhost := false, allowAnyName := false, enforceHostnames := true, allowTokenDisplayName := false,
    displayName := [], cnValidations := [] }

/-- non-vacuity: a subdomain accepted through the suffix test, and `evil-ex.com` refused for `ex.com` -/
example : validateName exRole (str "a.ex.com") = true := by decide
example : validateName exRole (str "evil-ex.com") = false := by decide

def cexRole : NameRole :=
  { allowedDomains := [], allowBare := false, allowSub := false, allowGlob := false, allowWildcard := true,
    allowLocalhost := true, allowAnyName := false, enforceHostnames := true, allowTokenDisplayName := false,
    displayName := [], cnValidations := [] }

/-- the shape of finding F14: `*.localhost` under `allow_localhost` is refused without `allow_subdomains` and
accepted with it; `localhost` itself and `user@localhost` are accepted either way -/
example : validateName cexRole (str "*.localhost") = false := by decide
example : validateName { cexRole with allowSub := true } (str "*.localhost") = true := by decide
example : validateName cexRole (str "localhost") = true := by decide
example : validateName { cexRole with enforceHostnames := false } (str "user@localhost") = true := by decide

/-- When `validateNames` reports no bad name, every name of the list passed `validateName` — and none of them is
empty: an empty name is refused with the non-empty marker `""` (repair of finding F13; before it, a refused
empty name was reported as the empty string, which the callers read as "all names pass"). -/
theorem all_sans_validated (r : NameRole) (names : List Str) (h : validateNames r names = []) :
    ∀ n ∈ names, validateName r n = true ∧ n ≠ [] := by
  intro n hn
  have hv := validateNames_nil_all h n hn
  exact ⟨hv, (validateName_body hv).1⟩

example : validateNames exRole [str "a.ex.com", str "ex.com"] = [] := by decide
example : validateNames exRole [str "a.ex.com", str "evil.org"] = str "evil.org" := by decide
/-- the shape that used to slip through: an empty entry in front is now itself reported -/
example : validateNames exRole [[], str "evil.org"] = emptyMarker := by decide
example : validateNames { exRole with allowAnyName := true, enforceHostnames := false } [[]] ≠ [] := by decide

/-- A name whose host part carries a `*` is accepted only by a role with `allow_wildcard_certificates`, and
only in RFC 6125 shape: one `*`, in the leftmost label. (Holds also under `allow_any_name`.) -/
theorem wildcard_needs_permission (r : NameRole) (n : Str) (hat : containsCh n '@' = false)
    (hs : containsCh n '*' = true) (h0 : validateName r n = true) :
    r.allowWildcard = true ∧ wildcardHost n := by
  have h := (validateName_body h0).2
  unfold validateNameBody at h
  have hes : emailSplit n = some (n, n, false) := by simp [emailSplit, hat]
  rw [hes] at h
  simp only [hs, if_true] at h
  split at h
  · simp at h
  · rename_i w reduced hw
    split at hw
    · simp at hw
    · rename_i haw
      exact ⟨by simpa using haw, (wildcard_spec hs hw).2.1⟩

example : validateName { cexRole with allowWildcard := false, allowAnyName := true } (str "*.ex.com") = false := by decide
example : validateName { cexRole with allowAnyName := true } (str "*.ex.com") = true := by decide

/-- An e-mail form whose domain carries a `*` is refused by every role, `allow_any_name` included. -/
theorem email_wildcard_refused (r : NameRole) (loc host : Str) (hl : containsCh loc '@' = false)
    (hh : containsCh host '@' = false) (hs : containsCh host '*' = true) :
    validateName r (loc ++ '@' :: host) = false := by
  have hes : emailSplit (loc ++ '@' :: host) = some (host, host, true) := by
    unfold emailSplit
    have : containsCh (loc ++ '@' :: host) '@' = true := by rw [containsCh_append, containsCh_cons]; simp
    rw [this, splitOn_append, splitOn_of_not_contains hl, splitOn_of_not_contains hh]
    rfl
  have hb : validateNameBody r (loc ++ '@' :: host) = false := by
    unfold validateNameBody
    rw [hes]
    simp only [hs, if_true]
    split
    · rfl
    · simp
  simp [validateName, hb]

example : validateName { cexRole with allowAnyName := true } (str "user@*.ex.com") = false := by decide

/-- `enforce_hostnames` still applies under `allow_any_name` (and under every other switch): the host part of
every accepted name is made of LDH labels, the leftmost one possibly carrying the wildcard — no exception
(an empty e-mail domain `user@` and a wildcard label followed by a bare dot `*.` are refused: repair of
finding F15). -/
theorem anyname_still_enforces_hostnames (r : NameRole) (n : Str) (he : r.enforceHostnames = true)
    (h0 : validateName r n = true) : ∃ sh, shapeOf n sh ∧ hostShape sh.host := by
  have h := (validateName_body h0).2
  unfold validateNameBody at h
  split at h
  · simp at h
  · rename_i r0 ed isEmail hes
    obtain ⟨_, hshape⟩ := emailSplit_spec hes
    refine ⟨_, hshape, ?_⟩
    simp only at h
    split at h
    · simp at h
    · rename_i w reduced hwild
      split at h
      · simp at h
      · rename_i hew
        have hnm : containsCh r0 '*' = true → n = r0 := by
          intro hc
          rcases hshape with ⟨_, hh, _⟩ | ⟨hem, _⟩
          · exact hh.symm
          · simp at hem
            simp [hem, hc] at hew
        split at h
        · simp at h
        · rename_i hok
          simp only [he, Bool.true_and, Bool.not_eq_true', Bool.not_eq_false] at hok
          have hok' : hostnameOK n reduced w (containsCh r0 '*') = true := by
            cases hq : hostnameOK n reduced w (containsCh r0 '*') with
            | true => rfl
            | false => simp [hq] at hok
          cases hc : containsCh r0 '*' with
          | false =>
            rw [hc] at hwild hok'
            simp at hwild
            exact hostnameOK_shape (Or.inl ⟨rfl, hwild.2.symm⟩) hc.symm (by intro hh; simp at hh)
              (by intro hh; simp at hh) hok'
          | true =>
            rw [hc] at hwild hok'
            simp at hwild
            obtain ⟨f1, _, _, f4⟩ := wildcard_spec hc hwild.2
            have hrs : containsCh reduced '*' = false := by
              have hv := hwild.2
              unfold validateWildcardDomain at hv
              split at hv
              · simp at hv
              · split at hv
                · simp at hv; rw [hv.2]; rfl
                · split at hv
                  · simp at hv
                  · rename_i hrest
                    simp at hv
                    rw [← hv.2]
                    simpa using hrest
            exact hostnameOK_shape f1 hc.symm (fun _ => ⟨f4, hrs⟩) (fun _ => hnm hc) hok'

example : validateName { cexRole with allowAnyName := true } (str "user@") = false := by decide
example : validateName { cexRole with allowAnyName := true } (str "*.") = false := by decide
example : validateName { cexRole with allowAnyName := true } (str "*") = true := by decide
example : validateName { cexRole with allowAnyName := true } (str "a_b.ex.com") = false := by decide
example : validateName { cexRole with allowAnyName := true, enforceHostnames := false } (str "a_b.ex.com") = true := by decide

/-! ## lifetimes -/

/-- `notAfter ≤ issuer.notAfter` unless the issuer's behaviour is `permit`. -/
theorem validity_within_issuer (i : VIn) (caNA : Int) (beh : LNAB) (na : Int)
    (hi : i.issuer = some (caNA, beh)) (hb : beh ≠ .permit) (h : getNotAfter i = .ok na) : na ≤ caNA := by
  obtain ⟨alt, parsed, _, _, _, hcap, _⟩ := getNotAfter_ok h
  exact (capAtIssuer_ok hcap).1 caNA beh hi hb

/-- When that value lies beyond the issuer's notAfter, an accepted issuance means the behaviour is `truncate`
(and the result is exactly the issuer's notAfter) or `permit` (and nothing was cut): behaviour `err` refuses
instead of truncating. -/
theorem truncate_only_when_configured (i : VIn) (caNA : Int) (beh : LNAB) (na : Int)
    (hi : i.issuer = some (caNA, beh)) (h : getNotAfter i = .ok na) (hover : requestedNotAfter i > caNA) :
    (beh = .truncate ∧ na = caNA) ∨ (beh = .permit ∧ na = requestedNotAfter i) := by
  obtain ⟨alt, parsed, hsel, _, _, hcap, _⟩ := getNotAfter_ok h
  have halt := (selectNotAfter_ok hsel).2.2.1
  have hreq : altOr alt (i.now + effTTL i) = requestedNotAfter i := by
    unfold requestedNotAfter
    rw [halt]
    cases i.roleNotAfter <;> cases i.reqNotAfter <;> rfl
  rw [hreq] at hcap
  exact (capAtIssuer_ok hcap).2.2 caNA beh hi hover

/-- The TTL the engine uses never exceeds the role maximum (mount maximum when the role has none). -/
theorem effTTL_le_max (i : VIn) : effTTL i ≤ effMax i := by
  unfold effTTL; simp only; split <;> omega

/-- No `not_after` in role or request ⇒ `notAfter ≤ now + maximum`. -/
theorem validity_bounded (i : VIn) (na : Int) (hr : i.roleNotAfter = none) (hq : i.reqNotAfter = none)
    (h : getNotAfter i = .ok na) : na ≤ i.now + effMax i := by
  have hm := effTTL_le_max i
  obtain ⟨alt, parsed, hsel, _, _, hcap, _⟩ := getNotAfter_ok h
  have halt := (selectNotAfter_ok hsel).1 hr hq
  subst halt
  simp only [altOr] at hcap
  rcases (capAtIssuer_ok hcap).2.1 with h1 | ⟨c, _, h2, h3⟩ <;> omega

/-- `not_after_bound = ttl-limited` ⇒ the same bound also for a requested `not_after`. -/
theorem validity_bounded_ttl_limited (i : VIn) (na : Int) (hr : i.roleNotAfter = none) (hb : i.nab = .ttlLimited)
    (h : getNotAfter i = .ok na) : na ≤ i.now + effMax i := by
  have hm := effTTL_le_max i
  obtain ⟨alt, parsed, hsel, _, hlim, hcap, _⟩ := getNotAfter_ok h
  have hp := (selectNotAfter_ok hsel).2.1 hr
  subst hp
  have hna0 : altOr parsed (i.now + effTTL i) ≤ i.now + effMax i := by
    cases parsed with
    | none => simp only [altOr]; omega
    | some t =>
      simp only [altOr]
      have : ¬ (parsedAfter (some t) (i.now + effTTL i) = true) := fun hh => hlim ⟨hb, hh⟩
      simp [parsedAfter] at this
      omega
  rcases (capAtIssuer_ok hcap).2.1 with h1 | ⟨c, _, h2, h3⟩ <;> omega

/-- `not_after_bound = forbid` ⇒ a requested `not_after` is refused. -/
theorem not_after_forbidden (i : VIn) (t : Int) (hr : i.roleNotAfter = none) (hq : i.reqNotAfter = some t)
    (hb : i.nab = .forbid) : getNotAfter i = .error .naForbid := by
  unfold getNotAfter selectNotAfter
  simp [hr, hq, hb]

/-- `not_after_bound = <timestamp>` ⇒ `notAfter ≤ timestamp`. -/
theorem validity_bounded_timestamp (i : VIn) (ts na : Int) (hb : i.nab = .timestamp ts)
    (h : getNotAfter i = .ok na) : na ≤ ts := by
  obtain ⟨_, _, _, _, _, _, hts⟩ := getNotAfter_ok h
  exact hts ts hb

/-- `ttl` together with a `not_after` (from the role, or from the request) is refused. -/
theorem ttl_and_not_after_refused (i : VIn) (ht : i.reqTTL > 0)
    (hn : i.roleNotAfter.isSome = true ∨ i.reqNotAfter.isSome = true) : ∀ na, getNotAfter i ≠ .ok na := by
  intro na h
  obtain ⟨alt, parsed, hsel, hboth, _, _, _⟩ := getNotAfter_ok h
  have halt := (selectNotAfter_ok hsel).2.2.1
  apply hboth
  refine ⟨ht, ?_⟩
  rw [halt]
  cases hr : i.roleNotAfter <;> cases hq : i.reqNotAfter <;> simp_all

def vinBase : VIn :=
  { now := 1000, reqTTL := 500, reqNotAfter := none, roleNotAfter := none, nab := .permit, roleTTL := 0,
    roleMaxTTL := 100, mountDefault := 50, mountMax := 2000, issuer := some (5000, .err),
    reqNotBefore := none, roleNotBefore := none, nbb := .permit, nbd := 30 }

/-- Under `permit`/unset bound a requested `not_after` is NOT bounded by the role maximum (this is the
"where the role bounds it" clause of the property made explicit): witness. -/
theorem requested_not_after_unbounded_under_permit :
    ∃ i na, i.nab = .permit ∧ getNotAfter i = .ok na ∧ na > i.now + effMax i :=
  ⟨{ vinBase with reqTTL := 0, reqNotAfter := some 4000 }, 4000, rfl, by rfl, by decide⟩

/-- Issue path: the validity is never empty or inverted. -/
theorem issue_validity_ordered (unit : Int) (i : VIn) (nb na : Int) (h : issueValidity unit i = .ok (nb, na)) :
    nb < na := by
  unfold issueValidity at h
  repeat' (split at h)
  all_goals first
    | contradiction
    | (simp only at h
       repeat' (split at h)
       all_goals first
         | contradiction
         | (injection h with h; injection h with h1 h2; omega))

/-- Sign path (sign/<role>, sign-verbatim): the validity is never empty or inverted either, and a start instant fixed
by the role or accepted from the request is the certificate's NotBefore — the sign path computes the validity exactly
as the issue path does. -/
theorem sign_validity_ordered (unit : Int) (i : VIn) (nb na : Int) (h : signValidity unit i = .ok (nb, na)) :
    nb < na := issue_validity_ordered unit i nb na h

/-- a role-pinned `not_before` is the NotBefore of every certificate the role issues OR signs -/
theorem role_not_before_honoured (unit : Int) (i : VIn) (t nb na : Int) (hr : i.roleNotBefore = some t)
    (h : signValidity unit i = .ok (nb, na) ∨ issueValidity unit i = .ok (nb, na)) : nb = t := by
  have h' : issueValidity unit i = .ok (nb, na) := by
    rcases h with h | h
    · exact h
    · exact h
  unfold issueValidity getNotBefore at h'
  simp only [hr] at h'
  split at h'
  · contradiction
  · split at h'
    · contradiction
    · split at h'
      · contradiction
      · injection h' with h'; injection h' with h1 _; exact h1.symm

/-- **Finding F74 (repaired)**: the sign path as it was — the explicit NotBefore computed and dropped, no order check:
a role pinning the start 12 h ahead signs a certificate valid from 30 s ago, and a validity can end before it starts. -/
theorem sign_ignored_not_before_cex :
    (∃ i nb na, i.roleNotBefore = some 44200 ∧ signValidityIgnoringNotBefore 1 i = .ok (nb, na) ∧ nb = 970) ∧
    (∃ i nb na, signValidityIgnoringNotBefore 1 i = .ok (nb, na) ∧ na < nb) :=
  ⟨⟨{ vinBase with roleNotBefore := some 44200, roleMaxTTL := 0, mountMax := 200000, issuer := some (500000, .err), reqTTL := 90000 }, 970, 91000, rfl, by rfl, rfl⟩,
   ⟨{ vinBase with reqTTL := 0, reqNotAfter := some 900 }, 970, 900, by rfl, by decide⟩⟩

/-- **CEL roles respect the issuer as well**: whatever NotAfter the role's program computes, the certificate's NotAfter
is no later than the issuer's unless the issuer's `leaf_not_after_behavior` is `permit`; under `err` a later one is
refused, not shortened. -/
theorem cel_not_after_within_issuer (now na caNA out : Int) (beh : LNAB) (h : celNotAfter now na caNA beh = .ok out) :
    (beh ≠ .permit → out ≤ caNA) ∧ (beh = .err → out = na) := by
  unfold celNotAfter capAtIssuer at h
  simp only at h
  split at h
  · cases beh <;> simp at h
    · split at h
      · cases h
      · injection h with h; subst h; exact ⟨fun _ => Int.le_refl _, fun hb => by cases hb⟩
    · subst h; exact ⟨fun hb => absurd rfl hb, fun hb => by cases hb⟩
  · injection h with h; subst h
    exact ⟨fun _ => by omega, fun _ => rfl⟩

/-- **Finding F75 (repaired)**: what `cel/issue` did — the program's NotAfter taken as is — is the `permit` behaviour
whatever the issuer says: a 100 h leaf under an issuer that expires in 2 h and demands `err`. -/
theorem cel_ignoring_issuer_cex :
    celNotAfter 0 360000 7200 .permit = .ok 360000 ∧ celNotAfter 0 360000 7200 .err = .error .naBeyondCA ∧
    celNotAfter 0 360000 7200 .truncate = .ok 7200 := ⟨by rfl, by rfl, by rfl⟩

/-- non-vacuity for the lifetime theorems: a capped, a truncated and a refused issuance -/
example : getNotAfter vinBase = .ok 1100 := by rfl
example : getNotAfter { vinBase with roleMaxTTL := 0, issuer := some (1200, .truncate) } = .ok 1200 := by rfl
example : getNotAfter { vinBase with roleMaxTTL := 0, issuer := some (1200, .err) } = .error .naBeyondCA := by rfl

/-! ## leaf unless CA endpoint -/

/-- the BasicConstraints extension of a CSR never reaches the certificate -/
theorem copied_exts_no_basic_constraints (v : Bool) (c : CSR) :
    CsrExt.basicConstraintsCA ∉ copiedExts v c := by
  unfold copiedExts
  split
  · intro hm
    have := (List.mem_filter.mp hm).2
    simp at this
  · simp

/-- Every certificate the three leaf endpoints (issue, sign, sign-verbatim) produce is a non-CA certificate,
for every role, request and CSR — including CSRs that carry a BasicConstraints `cA = TRUE` extension. -/
theorem leaf_unless_ca_endpoint (e : Env) (role : Role) (req : Req) (c : Cert)
    (h : process e role req = .ok c) : c.isCA = false := by
  have key : ∀ (role' : Role) key n ips uris v, (finish e role' req key n ips uris v).isCA = false := by
    intro role' key n ips uris v
    unfold finish certIsCA
    simp only
    have : endpointIsCA req.ep = false := by cases req.ep <;> rfl
    rw [this]
    cases req.csr with
    | none => simp
    | some cs => simpa using copied_exts_no_basic_constraints _ cs
  unfold process at h
  simp only at h
  repeat' (split at h)
  all_goals first
    | contradiction
    | (simp only [Res.ok.injEq] at h; rw [← h]; exact key _ _ _ _ _ _)

/-! ## end to end: the names in an issued certificate -/

/-- Every DNS and e-mail SAN of a certificate from issue/<role> or sign/<role> is allowed by the label-level
reading of the role — for
every role, request and CSR, CSRs with empty SAN entries included (those are refused since the repair of F13). -/
theorem issued_names_allowed (e : Env) (role : Role) (req : Req) (c : Cert) (hep : req.ep ≠ .verbatim)
    (hdn : role.names.allowTokenDisplayName = true → role.names.displayName ≠ [])
    (h : process e role req = .ok c) :
    ∀ n, n ∈ c.dns ∨ n ∈ c.emails → nameAllowed role.names n := by
  have hv : (req.ep == Endpoint.verbatim) = false := by
    cases hq : req.ep <;> simp_all
  have key : ∀ (nm : Names) key ips uris v, buildNames role req = .ok nm →
      ∀ n, n ∈ (finish e role req key nm ips uris v).dns ∨ n ∈ (finish e role req key nm ips uris v).emails →
        nameAllowed role.names n := by
    intro nm key ips uris v hb n hn
    obtain ⟨hd, hem, _, _⟩ := buildNames_ok hb
    unfold finish at hn
    simp only [hv] at hn
    rcases hn with hn | hn
    · have h1 := mem_dedupStable _ _ (mem_sortBy _ _ _ hn)
      exact validateName_sound _ _ hdn (validateNames_nil_all hd n h1)
    · have h1 := mem_dedupStable _ _ (mem_sortBy _ _ _ hn)
      exact validateName_sound _ _ hdn (validateNames_nil_all hem n h1)
  unfold process at h
  simp only [hv] at h
  repeat' (split at h)
  all_goals first
    | contradiction
    | (simp only [Res.ok.injEq] at h; rw [← h]; apply key; assumption)

/-- **The Subject serialNumber is one the role permits.**  Every certificate from issue/<role> or sign/<role> carries
either no Subject serialNumber or one that an entry of the role's `allowed_serial_numbers` permits — whether it came in
through the `serial_number` parameter or through the Subject of the CSR (a role with an empty list permits none). -/
theorem issued_subject_serial_allowed (e : Env) (role : Role) (req : Req) (c : Cert) (hep : req.ep ≠ .verbatim)
    (h : process e role req = .ok c) :
    c.subjSerial = chosenSerial req ∧ (c.subjSerial ≠ [] → serialAllowed role c.subjSerial = true) := by
  have hv : (req.ep == Endpoint.verbatim) = false := by
    cases hq : req.ep <;> simp_all
  have key : ∀ (nm : Names) key ips uris v, buildNames role req = .ok nm →
      (finish e role req key nm ips uris v).subjSerial = chosenSerial req ∧
      ((finish e role req key nm ips uris v).subjSerial ≠ [] →
        serialAllowed role (finish e role req key nm ips uris v).subjSerial = true) := by
    intro nm key ips uris v hb
    obtain ⟨_, _, hs1, hs2⟩ := buildNames_ok hb
    have hf : (finish e role req key nm ips uris v).subjSerial = nm.serial := by
      unfold finish
      simp only [hv]
      rfl
    rw [hf]
    exact ⟨hs1, hs2⟩
  unfold process at h
  simp only [hv] at h
  repeat' (split at h)
  all_goals first
    | contradiction
    | (simp only [Res.ok.injEq] at h; rw [← h]; apply key; assumption)

/-- a serial taken from the CSR without the role's check (the seeded change C15-4): the witness role permits `dev-*`
only and the CSR asks for `prod-1` -/
theorem csr_serial_unchecked_cex :
    serialAllowedIn [str "dev-*", str "ops-42"] (str "prod-1") = false ∧
    serialAllowedIn [str "dev-*", str "ops-42"] (str "dev-7") = true ∧
    serialAllowedIn [] (str "x") = false := by decide

/-- **IP SANs stay inside the role's networks.**  Every IP SAN of a certificate from issue/<role> or sign/<role>
(API `ip_sans` or the CSR's addresses under `use_csr_sans`) is permitted by `allow_ip_sans`, and — when the role lists
`allowed_ip_sans_cidr` — lies inside at least one of those networks: EVERY address, wherever it stands in the request
(the test is made afresh for each address). -/
theorem issued_ips_allowed (e : Env) (role : Role) (req : Req) (c : Cert) (hep : req.ep ≠ .verbatim)
    (h : process e role req = .ok c) :
    (c.ips ≠ [] → role.allowIPSANs = true) ∧
    (role.allowedIPCIDRs ≠ [] → ∀ ip ∈ c.ips, ipAllowed role.allowedIPCIDRs ip = true) := by
  have hv : (req.ep == Endpoint.verbatim) = false := by
    cases hq : req.ep <;> simp_all
  have key : ∀ (nm : Names) key ips uris v, buildIPs role req = .ok ips →
      ((finish e role req key nm ips uris v).ips ≠ [] → role.allowIPSANs = true) ∧
      (role.allowedIPCIDRs ≠ [] → ∀ ip ∈ (finish e role req key nm ips uris v).ips, ipAllowed role.allowedIPCIDRs ip = true) := by
    intro nm key ips uris v hb
    have hfin : ∀ ip, ip ∈ (finish e role req key nm ips uris v).ips → ip ∈ ips := by
      intro ip hip
      unfold finish at hip
      simp only [hv] at hip
      exact mem_sortBy _ _ _ hip
    obtain ⟨h1, h2⟩ := buildIPs_ok hb
    refine ⟨fun hne => h1 ?_, fun hc ip hip => h2 hc ip (hfin ip hip)⟩
    intro he
    apply hne
    cases hfi : (finish e role req key nm ips uris v).ips with
    | nil => rfl
    | cons a t =>
      have := hfin a (by rw [hfi]; exact List.mem_cons_self)
      rw [he] at this; cases this
  unfold process at h
  simp only [hv] at h
  repeat' (split at h)
  all_goals first
    | contradiction
    | (simp only [Res.ok.injEq] at h; rw [← h]; apply key; assumption)

/-- the variant that keeps ONE "allowed" flag across the addresses of a request (NOT the code; seeded change C15-3)
lets an address outside every network through once an earlier address was inside one -/
theorem ip_flag_carried_over_cex :
    let cidrs : List CIDR := [{ v4 := true, base := 0x0a000000, plen := 8 }]
    let sticky (ips : List String) : Bool :=      -- true = all "allowed" under the carried-over flag
      (ips.foldl (fun (st : Bool × Bool) ip => let f := st.1 || ipAllowed cidrs ip; (f, st.2 && f)) (false, true)).2
    sticky ["10.0.0.1", "1.2.3.4"] = true ∧ ipAllowed cidrs "1.2.3.4" = false := by
  decide

def cxNames : NameRole :=
  { cexRole with allowedDomains := [str "ex.com"], allowSub := true, allowLocalhost := false }
def cxRole : Role :=
  { names := cxNames, allowIPSANs := false, allowedURISANs := [], keyType := "ec", keyBits := 256, keyUsage := [],
    extKeyUsage := [], serverFlag := true, clientFlag := true, codeSigningFlag := false, emailProtectionFlag := false,
    useCSRCN := true, useCSRSANs := true, requireCN := true, bcValidForNonCA := false, ttl := 0, maxTTL := 0, nbd := 30,
    notBefore := none, notAfter := none, nbb := .permit, nab := .permit }
def cxCSR : CSR :=
  { cn := str "a.ex.com", dns := [[], str "evil.org"], emails := [], ips := [], uris := [], exts := [],
    keyType := "ec", keyBits := 256 }
def cxReq : Req :=
  { ep := .sign, cn := [], altNames := [], ipSans := [], uriSans := [], excludeCN := false, keyType := none,
    keyBits := none, ttl := 0, notBefore := none, notAfter := none, keyUsage := [], extKeyUsage := [],
    bcValidForNonCA := none, noRole := false, csr := some cxCSR }
def cxEnv : Env := { now := 0, unit := 1, mountDefault := 100, mountMax := 1000, issuerNotAfter := 5000, lnab := .err }

def cxReqVerbatim : Req :=
  { cxReq with
    ep := .verbatim,
    csr := some { cxCSR with dns := [str "evil.org"], exts := [.basicConstraintsCA, .subjectAltName] } }

/-- non-vacuity of `issued_names_allowed`: a well-formed CSR for a subdomain is accepted … -/
example : ∃ c, process cxEnv cxRole { cxReq with csr := some { cxCSR with dns := [str "b.ex.com"] } } = .ok c ∧
    c.dns = [str "a.ex.com", str "b.ex.com"] ∧ c.isCA = false := ⟨_, rfl, by decide, by decide⟩
/-- … the same CSR with `evil.org` instead is refused … -/
example : ∃ x, process cxEnv cxRole { cxReq with csr := some { cxCSR with dns := [str "evil.org"] } } = .err x :=
  ⟨_, rfl⟩
/-- … and (non-vacuity of `leaf_unless_ca_endpoint`) sign-verbatim of a CSR that carries BasicConstraints
`cA = TRUE` is accepted and yields a non-CA certificate with the CSR's names. -/
example : ∃ c, process cxEnv cxRole cxReqVerbatim = .ok c ∧ c.isCA = false ∧ c.dns = [str "evil.org"] :=
  ⟨_, rfl, by decide, by decide⟩

/-- the request that exposed finding F13 — sign/<role> under `allowed_domains = ex.com, allow_subdomains` with a
CSR whose DNS SANs are `["", "evil.org"]` — is refused as a bad subject alternate name -/
example : ∃ x, process cxEnv cxRole cxReq = .err x ∧ x = "san" := ⟨_, rfl, rfl⟩

/-- non-vacuity of `issued_ips_allowed`: with `allowed_ip_sans_cidr = 10.0.0.0/8` the address 10.0.0.1 is issued,
10.0.0.1 followed by 1.2.3.4 is refused (and so is the other order), and an IPv6 address is outside an IPv4 network -/
example :
    let role := { cxRole with allowIPSANs := true, useCSRSANs := false, allowedIPCIDRs := [{ v4 := true, base := 0x0a000000, plen := 8 }] }
    let req (ips : List String) : Req := { cxReq with cn := str "a.ex.com", ipSans := ips, csr := some { cxCSR with dns := [] } }
    (∃ c, process cxEnv role (req ["10.0.0.1"]) = .ok c ∧ c.ips = ["10.0.0.1"]) ∧
    process cxEnv role (req ["10.0.0.1", "1.2.3.4"]) = .err "ip-cidr" ∧
    process cxEnv role (req ["1.2.3.4", "10.0.0.1"]) = .err "ip-cidr" ∧
    process cxEnv role (req ["::1"]) = .err "ip-cidr" := by
  refine ⟨⟨_, rfl, by decide⟩, rfl, rfl, rfl⟩

end C15
