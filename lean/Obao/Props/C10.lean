import Obao.Proofs.SealKeysCrash
import Obao.Proofs.SealCoreInv
/-! C10 — Seal state and key rotation never lose or expose data.  Theorems over the symbolic model
`Obao/Model/SealKeys.lean` (tied to `internal/vault/barrier` and `internal/vault` by the streams `sealkeys` and
`sealcore`).  A history is any list of (barrier, operation) pairs where barrier `false` is the active node and
`true` a standby over the same store; `ValidHist` only demands that the standby never persists a keyring
(`Rotate` / `RotateRootKey` / the bookkeeping tick / `SetRotationConfig` are the active node's; the harness-only
counter poke `heat` is not an operation).  `supplied hist` are the root keys the operator passed in. -/
namespace C10
open Obao.SealKeys

/-- operations a sealed barrier must refuse -/
def serves : Op → Bool
  | .put _ _ | .get _ | .del _ | .list | .rotate | .rotroot _ | .setroot _ | .mkupgrade _ | .chkupgrade
  | .keyinfo | .verifyroot _ | .reloadroot => true
  | .rmupgrade t => t != 0
  | _ => false

/-- While sealed, every read / write / list / delete / rotation / key operation returns the sealed error, writes
nothing and changes nothing — for every store, every barrier state, every argument. -/
theorem sealed_serves_nothing (ns : Bool) (p : Phys) (b : Barrier) (fk : Key) (op : Op)
    (hs : b.sealed = true) (hop : serves op = true) :
    ((step ns p b fk op).res = .sealed ∨ (step ns p b fk op).res = .nsSealed) ∧
    (step ns p b fk op).writes = [] ∧ (step ns p b fk op).bar = b := by
  cases op with
  | verifyroot k => cases ns <;> simp [step, hs]
  | rmupgrade t => have : t ≠ 0 := by simpa [serves] using hop
                   simp [step, hs, this]
  | init _ _ => simp [serves] at hop
  | unsealB _ => simp [serves] at hop
  | sealB => simp [serves] at hop
  | reloadkr => simp [serves] at hop
  | tick => simp [serves] at hop
  | setrot _ => simp [serves] at hop
  | heat => simp [serves] at hop
  | _ => simp [step, hs]

/-- ... and holds no key material: after EVERY history, on both barriers, sealed ⇔ no keyring in memory. -/
theorem sealed_holds_no_keys (ns : Bool) (hist : List (Bool × Op)) (hv : ValidHist hist) :
    let w := ({ ns := ns } : World).run hist
    (w.a.sealed = true ↔ w.a.keyring = none) ∧ (w.b.sealed = true ↔ w.b.keyring = none) := by
  intro w
  have hinv : Inv ([] ++ supplied hist) w := inv_run (inv_init ns) hist hv
  clear_value w
  cases hinv with
  | uninit _ ha hb _ => rw [ha, hb]; simp
  | live _ _ _ _ _ sa sb _ _ _ => exact ⟨sa, sb⟩

example : serves (.put "d/x" "00") = true ∧ serves .rotate = true ∧ serves (.get .rootKey) = true := by decide

/-- non-vacuity of the history hypothesis: a history with rotations on the active node and a standby that unseals,
reads, walks upgrades and reloads is valid; one in which the standby rotates is not -/
example : ValidHist [(false, .init ⟨0, 1, 32⟩ none), (false, .unsealB ⟨0, 1, 32⟩), (false, .rotate), (false, .rotroot ⟨0, 2, 32⟩),
    (true, .unsealB ⟨0, 2, 32⟩), (true, .get (.data "d/x")), (true, .chkupgrade), (true, .reloadroot), (true, .reloadkr)] := by
  simp [ValidHist, ValidStep]
example : ¬ ValidHist [(true, .rotate)] := by simp [ValidHist, ValidStep]

/-- Unsealing with anything but the key the stored keyring is encrypted under (a wrong key, a truncated key, no
keyring at all) fails, writes nothing and leaves the barrier exactly as it was (sealed, no keyring). -/
theorem unseal_wrong_key_stays_sealed (ns : Bool) (p : Phys) (b : Barrier) (fk k : Key) (hs : b.sealed = true)
    (hk : ∀ t aad pl, p.get .keyring ≠ some (.enc t k aad pl)) :
    (step ns p b fk (.unsealB k)).res ≠ .ok ∧ (step ns p b fk (.unsealB k)).bar = b ∧
    (step ns p b fk (.unsealB k)).writes = [] := by
  simp only [step]
  by_cases hok : k.aesOK = true
  · cases hg : p.get .keyring with
    | none => simp [hs, hok]
    | some e =>
      cases e with
      | enc t ek aad pl =>
        by_cases ht : t = 1
        · by_cases hek : ek = k ∧ aad = .keyring
          · exact absurd (by rw [hg, hek.1]) (hk t aad pl)
          · simp [hs, hok, ht, hek]
        · simp [hs, hok, ht]
      | stored _ _ => simp [hs, hok]
      | sealcfg _ _ => simp [hs, hok]
  · simp [hs, hok]

/-- non-vacuity: the store after `init R1`, `unseal R1`, `put`, with the wrong key `R2` and the truncated key `R1/16` -/
example :
    let r1 : Key := ⟨0, 1, 32⟩
    let w := ({} : World).run [(false, .init r1 none), (false, .unsealB r1), (false, .put "d/x" "00"), (false, .sealB)]
    (step false w.phys w.a (termKeyN 9) (.unsealB ⟨0, 2, 32⟩)).res = .invalidKey ∧
    (step false w.phys w.a (termKeyN 9) (.unsealB ⟨0, 1, 16⟩)).res = .invalidKey ∧
    (step false w.phys w.a (termKeyN 9) (.unsealB ⟨0, 1, 31⟩)).res = .cipher ∧
    (step false w.phys w.a (termKeyN 9) (.unsealB r1)).res = .ok := by decide

/-- **Every history keeps every earlier entry readable.**  After ANY history of init / put / delete / rotate /
rotate-root / set-root / seal / unseal / reload / upgrade operations on the active node and a standby, if the
store is initialised then there is a root key THE OPERATOR SUPPLIED with which any sealed barrier over the store
unseals and reads back, for every key, exactly the last value written (`shadow`) — and reports absent for deleted
or never-written keys. -/
theorem rotation_history_readable (ns : Bool) (hist : List (Bool × Op)) (hv : ValidHist hist) :
    let w := ({ ns := ns } : World).run hist
    w.phys.get .keyring ≠ none → ∃ rk, rk ∈ supplied hist ∧ Readable ns w.phys w.shadow rk := by
  intro w hinit
  have hinv : Inv ([] ++ supplied hist) w := inv_run (inv_init ns) hist hv
  clear_value w
  cases hinv with
  | uninit hp _ _ _ => exact absurd (by rw [hp]; rfl) hinit
  | live rk KR h _ hrk _ _ _ _ _ => exact ⟨rk, by simpa using hrk, readable_of_pinv h ns⟩

/-- non-vacuity: a history with two rotations, a root-key rotation, a delete and a standby following; the entries
written under terms 1, 2 and 3 are all read back after a re-unseal with the rotated root key -/
example :
    let r1 : Key := ⟨0, 1, 32⟩
    let r2 : Key := ⟨0, 2, 32⟩
    let hist : List (Bool × Op) := [(false, .init r1 none), (false, .unsealB r1), (false, .put "d/x" "01"), (false, .rotate),
      (false, .mkupgrade 2), (true, .unsealB r1), (false, .put "d/y" "02"), (false, .rotroot r2), (false, .rotate),
      (false, .put "d/z" "03"), (false, .del "d/y"), (true, .chkupgrade), (false, .sealB)]
    let w := ({} : World).run hist
    (step false w.phys w.a (termKeyN 9) (.unsealB r2)).res = .ok ∧
    (step false w.phys (step false w.phys w.a (termKeyN 9) (.unsealB r2)).bar (termKeyN 9) (.get (.data "d/x"))).res
      = .okPayload (.val (.bytes "01")) ∧
    (step false w.phys (step false w.phys w.a (termKeyN 9) (.unsealB r2)).bar (termKeyN 9) (.get (.data "d/z"))).res
      = .okPayload (.val (.bytes "03")) ∧
    (step false w.phys (step false w.phys w.a (termKeyN 9) (.unsealB r2)).bar (termKeyN 9) (.get (.data "d/y"))).res
      = .absent ∧ w.shadow.lookup "d/x" = some "01" := by decide

/-- **The bookkeeping tick does not touch the key hierarchy in memory**: `CheckBarrierAutoRotate` (and the
`persistEncryptions` it runs) leaves the keyring and the seal state of the barrier exactly as they were, for every
store and every barrier state; what it may do is re-persist the SAME keyring (covered, like every other operation,
by `rotation_history_readable`: `tick` and `setrot` are ordinary steps of a valid history on the active node). -/
theorem tick_keeps_memory (ns : Bool) (p : Phys) (b : Barrier) (fk : Key) :
    (step ns p b fk .tick).bar.keyring = b.keyring ∧ (step ns p b fk .tick).bar.sealed = b.sealed := by
  simp only [step]
  repeat' split
  all_goals exact ⟨rfl, rfl⟩

/-- non-vacuity: ticks after traffic re-persist the keyring (3 writes), a tick without traffic writes nothing, a
rotation-configuration change persists; the history is valid and everything is read back after a re-unseal -/
example :
    let r1 : Key := ⟨0, 1, 32⟩
    let hist : List (Bool × Op) := [(false, .init r1 none), (false, .unsealB r1), (false, .put "d/x" "01"), (false, .tick),
      (false, .tick), (false, .setrot 2), (false, .rotate), (false, .put "d/y" "02"), (false, .tick), (false, .sealB)]
    let w := ({} : World).run hist
    ValidHist hist ∧
    ((({} : World).run (hist.take 3)).exec false .tick).1.writes.length = 3 ∧
    ((({} : World).run (hist.take 4)).exec false .tick).1.writes.length = 0 ∧
    (step false w.phys w.a (termKeyN 9) (.unsealB r1)).res = .ok ∧
    (step false w.phys (step false w.phys w.a (termKeyN 9) (.unsealB r1)).bar (termKeyN 9) (.get (.data "d/x"))).res
      = .okPayload (.val (.bytes "01")) ∧
    (step false w.phys (step false w.phys w.a (termKeyN 9) (.unsealB r1)).bar (termKeyN 9) .keyinfo).res = .okTerm 2 := by
  refine ⟨by simp [ValidHist, ValidStep], ?_⟩
  decide

/-- **New writes use the newest key term.**  After any history, a successful put on the active node stores a
record whose header term is the active term of the STORED keyring, encrypted under that term's key, and no stored
term is newer. -/
theorem new_writes_use_newest_term (ns : Bool) (hist : List (Bool × Op)) (hv : ValidHist hist) (s v : String) :
    let w := ({ ns := ns } : World).run hist
    (w.exec false (.put s v)).2 = .ok →
    ∃ rk KR t key, (w.exec false (.put s v)).1.phys.get .keyring = some (.enc 1 rk .keyring (.keyring KR)) ∧
      (w.exec false (.put s v)).1.phys.get (.data s) = some (.enc t key (.data s) (.val (.bytes v))) ∧
      t = KR.active ∧ KR.termKey t = some key ∧ ∀ t' k', KR.termKey t' = some k' → t' ≤ t := by
  intro w hok
  have hinv : Inv ([] ++ supplied hist) w := inv_run (inv_init ns) hist hv
  clear_value w
  cases hinv with
  | uninit _ ha _ _ =>
    simp [World.exec, ha, step] at hok
  | live rk KR h _ _ sa _ suba sya _ =>
    by_cases hs : w.a.sealed = true
    · simp [World.exec, step, hs] at hok
    · obtain ⟨kr, hkr⟩ := unsealed_has_keyring sa hs
      obtain ⟨h1, _, ⟨ak, h3⟩, _⟩ := suba kr hkr
      obtain ⟨_, hact⟩ := sya kr hkr
      have hak : ak.aesOK = true := (h.wf.2 _ _ (h1 _ _ h3)).1
      refine ⟨rk, KR, kr.active, ak, ?_, ?_, hact, h1 _ _ h3, fun t' k' hk' => by rw [hact]; exact (h.wf.2 _ _ hk').2.1⟩
      · simp [World.exec, step, hs, hkr, h3, hak, applyWrites, applyWrite]
        rw [get_put_other _ _ _ _ (by simp)]; exact h.kr
      · simp [World.exec, step, hs, hkr, h3, hak, applyWrites, applyWrite]
        exact get_put_same _ _ _

example :
    let r1 : Key := ⟨0, 1, 32⟩
    let w := ({} : World).run [(false, .init r1 none), (false, .unsealB r1), (false, .rotate), (false, .rotate)]
    (w.exec false (.put "d/x" "00")).2 = .ok ∧
    (w.exec false (.put "d/x" "00")).1.phys.get (.data "d/x") = some (.enc 3 (termKeyN 3) (.data "d/x") (.val (.bytes "00"))) := by
  decide

/-- **`Rotate` is crash-safe.**  After any history, for EVERY prefix `k` of the physical writes of a `Rotate` on the
active node, the store opens with a root key the operator supplied and every earlier entry reads back; and when
the active node's in-memory root key is the stored one (no pending `SetRootKey`) the root-key entry names that
key, so the upgrade walk of a new leader succeeds too (`follow_full`). -/
theorem rotate_crash_safe (ns : Bool) (hist : List (Bool × Op)) (hv : ValidHist hist) (k : Nat) :
    let w := ({ ns := ns } : World).run hist
    let p' := applyWrites w.phys ((step w.ns w.phys w.a (termKeyN w.nextT) .rotate).writes.take k)
    w.phys.get .keyring ≠ none →
    ∃ rk, rk ∈ supplied hist ∧ Readable ns p' w.shadow rk := by
  intro w p' hinit
  have hinv : Inv ([] ++ supplied hist) w := inv_run (inv_init ns) hist hv
  clear_value w
  cases hinv with
  | uninit hp _ _ _ => exact absurd (by rw [hp]; rfl) hinit
  | live rk KR h hc hrk sa _ suba sya _ =>
    obtain ⟨rk', KR', g1, g2, _⟩ := rotate_prefix w.ns (termKeyN w.nextT) w.a h hc hrk sa suba sya (termKeyN_aesOK _) k
    exact ⟨rk', by simpa using g1, readable_of_pinv g2 ns⟩

/-- **`RotateRootKey` is crash-safe for reading**: after every prefix of its writes the store opens with the old
root key (before the first write) or the new one (after it) — both held by the operator — and every earlier
entry reads back. -/
theorem rotate_root_crash_safe (ns : Bool) (hist : List (Bool × Op)) (hv : ValidHist hist) (nk : Key) (k : Nat) :
    let w := ({ ns := ns } : World).run hist
    let p' := applyWrites w.phys ((step w.ns w.phys w.a (termKeyN w.nextT) (.rotroot nk)).writes.take k)
    w.phys.get .keyring ≠ none →
    ∃ rk, rk ∈ supplied hist ++ [nk] ∧ Readable ns p' w.shadow rk := by
  intro w p' hinit
  have hinv : Inv ([] ++ supplied hist) w := inv_run (inv_init ns) hist hv
  clear_value w
  cases hinv with
  | uninit hp _ _ _ => exact absurd (by rw [hp]; rfl) hinit
  | live rk KR h hc hrk sa _ suba sya _ =>
    obtain ⟨rk', KR', g1, g2, _⟩ := rotroot_prefix w.ns (termKeyN w.nextT) w.a h hc hrk sa suba sya nk k
    refine ⟨rk', ?_, readable_of_pinv g2 ns⟩
    rcases g1 with g1 | g1
    · subst g1; exact List.mem_append_left _ (by simpa using hrk)
    · subst g1; simp

/-- non-vacuity: all four crash prefixes of a `Rotate` (and of a `RotateRootKey R2`) after real traffic: the crash
report of the model (fresh barrier, unseal, read every key back, upgrade walk) — the rotation prefixes are all
fine; the root rotation is fine for reading at every prefix, with the key that changes after the first write -/
example :
    let r1 : Key := ⟨0, 1, 32⟩
    let w := ({} : World).run [(false, .init r1 none), (false, .unsealB r1), (false, .put "d/x" "01"), (false, .rotate),
      (false, .put "d/y" "02")]
    let wr := (w.exec false .rotate).1
    let wk := (w.exec false (.rotroot ⟨0, 2, 32⟩)).1
    wr.writes.length = 3 ∧
    (List.range 4).map (fun k => ((wr.crash k r1).unsealRes, (wr.crash k r1).followRes)) =
      List.replicate 4 (.ok, [.okUp false 0, .ok, .ok]) ∧
    (List.range 4).map (fun k => (wr.crash k r1).reads.map (·.2)) =
      List.replicate 4 [.okPayload (.val (.bytes "01")), .okPayload (.val (.bytes "02"))] ∧
    (List.range 4).map (fun k => ((wk.crash k r1).unsealRes, (wk.crash k ⟨0, 2, 32⟩).unsealRes)) =
      [(.ok, .invalidKey), (.invalidKey, .ok), (.invalidKey, .ok), (.invalidKey, .ok)] := by decide

/-- the full crash statement for `RotateRootKey` INCLUDING the upgrade walk of a new leader (`performKeyUpgrades`:
CheckUpgrade*, ReloadRootKey, ReloadKeyring) on the crashed store -/
def rotate_root_crash_follow_full : Prop :=
  ∀ (hist : List (Bool × Op)), ValidHist hist → ∀ (nk : Key) (k : Nat),
    let w := ({} : World).run hist
    let w' := (w.exec false (.rotroot nk)).1
    (w.exec false (.rotroot nk)).2 = .ok → k ≤ w'.writes.length →
    ∃ key, key ∈ supplied hist ++ [nk] ∧ (w'.crash k key).unsealRes = .ok ∧ ∀ r ∈ (w'.crash k key).followRes, r = .ok ∨ r = .okUp false 0

/-- F46: a crash between the keyring write and the root-key write of `RotateRootKey` leaves a root-key entry that
still names the PREVIOUS root key; the new leader's `ReloadRootKey` installs it and `ReloadKeyring` fails. -/
theorem rotate_root_crash_follow_cex : ¬ rotate_root_crash_follow_full := by
  intro hfull
  let r1 : Key := ⟨0, 1, 32⟩
  let r2 : Key := ⟨0, 2, 32⟩
  have := hfull [(false, .init r1 none), (false, .unsealB r1), (false, .put "d/x" "00")] (by simp [ValidHist, ValidStep]) r2 1
    (by decide) (by decide)
  obtain ⟨key, hk, hu, hf⟩ := this
  simp [supplied, opKeys] at hk
  rcases hk with rfl | rfl
  · revert hu; decide
  · revert hf; decide

/-- ... and that is the only bad prefix: for every history, before the first write and from the second write on,
the root-key entry names the key the store opens with (so `follow_full` gives `[ok:false, ok, ok]`). -/
theorem rotate_root_crash_follow_partial (ns : Bool) (hist : List (Bool × Op)) (hv : ValidHist hist) (nk : Key) (k : Nat)
    (hk : k ≠ 1) :
    let w := ({ ns := ns } : World).run hist
    let p' := applyWrites w.phys ((step w.ns w.phys w.a (termKeyN w.nextT) (.rotroot nk)).writes.take k)
    w.phys.get .keyring ≠ none →
    ∃ rk KR, rk ∈ supplied hist ++ [nk] ∧ PInv p' w.shadow rk KR ∧
      ∀ n (b : Barrier), b.sealed = false → b.keyring = some KR →
        (follow p' (n + 1) b).2 = [.okUp false 0, .ok, .ok] ∧ (follow p' (n + 1) b).1.keyring = some KR := by
  intro w p' hinit
  have hinv : Inv ([] ++ supplied hist) w := inv_run (inv_init ns) hist hv
  clear_value w
  cases hinv with
  | uninit hp _ _ _ => exact absurd (by rw [hp]; rfl) hinit
  | live rk KR h hc hrk sa _ suba sya _ =>
    obtain ⟨rk', KR', g1, g2, g3, _⟩ := rotroot_prefix w.ns (termKeyN w.nextT) w.a h hc hrk sa suba sya nk k
    refine ⟨rk', KR', ?_, g2, fun n b hs hkr => (follow_full g2 rk' (g3 hk) n b hs hkr).1 rfl⟩
    rcases g1 with g1 | g1
    · subst g1; exact List.mem_append_left _ (by simpa using hrk)
    · subst g1; simp

/-- **`CreateUpgrade(t)` publishes the key of the REQUESTED term**: whatever the active term is at the time of the
call (it may run late, after further rotations — `SealManager.RotateBarrierKey` holds only a read lock between
`Rotate` and `CreateUpgrade`), the entry written at `upgrade/(t-1)` is the key of term `t`, encrypted under the key
of term `t-1`, and nothing else is written. -/
theorem create_upgrade_publishes_requested_term (ns : Bool) (p : Phys) (b : Barrier) (fk : Key) (kr : Keyring)
    (t : Nat) (tk pk : Key) (hs : b.sealed = false) (hkr : b.keyring = some kr) (ht : t ≠ 0)
    (htk : kr.termKey t = some tk) (hpk : kr.termKey (t - 1) = some pk) (hok : pk.aesOK = true) :
    (step ns p b fk (.mkupgrade t)).writes =
      [.put (.upgrade (t - 1)) (.enc (t - 1) pk (.upgrade (t - 1)) (.val (.keyrec t tk)))] ∧
    (step ns p b fk (.mkupgrade t)).res = .ok := by
  simp [step, hs, hkr, ht, htk, hpk, hok]

/-- ... hence, after EVERY history, every stored upgrade entry `upgrade/t` holds the stored keyring's key of term
`t+1`, encrypted under its key of term `t` (no matter when it was created). -/
theorem upgrade_entries_hold_their_term (ns : Bool) (hist : List (Bool × Op)) (hv : ValidHist hist) (t : Nat) (e : PEntry) :
    let w := ({ ns := ns } : World).run hist
    w.phys.get (.upgrade t) = some e →
    ∃ rk KR k k', w.phys.get .keyring = some (.enc 1 rk .keyring (.keyring KR)) ∧
      e = .enc t k (.upgrade t) (.val (.keyrec (t + 1) k')) ∧ KR.termKey t = some k ∧ KR.termKey (t + 1) = some k' := by
  intro w he
  have hinv : Inv ([] ++ supplied hist) w := inv_run (inv_init ns) hist hv
  clear_value w
  cases hinv with
  | uninit hp _ _ _ => rw [hp] at he; cases he
  | live rk KR h _ _ _ _ _ _ _ =>
    obtain ⟨k, k', he', hk'⟩ := h.ups t e he
    obtain ⟨t2, k2, pl2, he2, hk2⟩ := h.dec _ _ (by simp) (by simp) (by simp) he
    rw [he'] at he2; cases he2
    exact ⟨rk, KR, k, k', h.kr, he', hk2, hk'⟩

/-- **The `CheckUpgrade` walk alone (no reload) gives the standby every term it was missing, with the right key.**
After any history, a standby whose active term is `s` and which finds an upgrade entry for every term from `s` to
the stored active term ends the walk at the stored active term, keeps every key it had, and for EVERY term `t` with
`s ≤ t ≤ active` holds exactly the stored keyring's key — so every entry written under any of those terms (also
the intermediate ones) decrypts on the standby. -/
theorem standby_walk_gains_every_term (ns : Bool) (hist : List (Bool × Op)) (hv : ValidHist hist) (kr : Keyring) :
    let w := ({ ns := ns } : World).run hist
    w.b.keyring = some kr →
    ∀ rk KR, w.phys.get .keyring = some (.enc 1 rk .keyring (.keyring KR)) →
    (∀ t, kr.active ≤ t → t < KR.active → w.phys.get (.upgrade t) ≠ none) →
    ∀ n, KR.active - kr.active ≤ n →
      ∃ b' kr', chkLoop w.phys (n + 1) w.b = (b', .okUp false 0) ∧ b'.keyring = some kr' ∧ kr'.active = KR.active ∧
        (∀ t k, kr.termKey t = some k → kr'.termKey t = some k) ∧
        (∀ t, kr.active ≤ t → t ≤ KR.active → kr'.termKey t = KR.termKey t) := by
  intro w hb rk KR hkr hup n hn
  have hinv : Inv ([] ++ supplied hist) w := inv_run (inv_init ns) hist hv
  clear_value w
  cases hinv with
  | uninit hp _ _ _ => rw [hp] at hkr; cases hkr
  | live rk0 KR0 h hc hrk sa sb suba sya subb =>
    have := h.kr; rw [hkr] at this; cases this
    exact chkLoop_gain h hc hrk _ w.b kr (keyring_unsealed sb hb) hb sb subb rfl hup n hn

/-- non-vacuity, the late-creation interleaving: Rotate(→2), Rotate(→3), CreateUpgrade(2), CreateUpgrade(3), with a
write under each term; the standby (at term 1) walks to term 3 and reads all three entries WITHOUT reloading -/
example :
    let r1 : Key := ⟨0, 1, 32⟩
    let hist : List (Bool × Op) := [(false, .init r1 none), (false, .unsealB r1), (true, .unsealB r1), (false, .put "d/a" "01"),
      (false, .rotate), (false, .put "d/b" "02"), (false, .rotate), (false, .put "d/c" "03"),
      (false, .mkupgrade 2), (false, .mkupgrade 3), (true, .chkupgrade), (true, .chkupgrade), (true, .chkupgrade)]
    let w := ({} : World).run hist
    w.phys.get (.upgrade 1) = some (.enc 1 (termKeyN 1) (.upgrade 1) (.val (.keyrec 2 (termKeyN 2)))) ∧
    w.b.keyring.map (·.keys) = w.a.keyring.map (·.keys) ∧
    (step false w.phys w.b (termKeyN 9) (.get (.data "d/a"))).res = .okPayload (.val (.bytes "01")) ∧
    (step false w.phys w.b (termKeyN 9) (.get (.data "d/b"))).res = .okPayload (.val (.bytes "02")) ∧
    (step false w.phys w.b (termKeyN 9) (.get (.data "d/c"))).res = .okPayload (.val (.bytes "03")) := by decide

/-- **A standby following the upgrade path converges.**  After any history, a standby that is unsealed and finds
every upgrade entry between its own active term and the stored one ends `performKeyUpgrades` (CheckUpgrade until
none, ReloadRootKey, ReloadKeyring) without error holding exactly the stored keyring — which is the active node's
keyring whenever the active node is unsealed with the stored root key and rotation configuration (a pending
in-memory `SetRootKey`, or a `SetRotationConfig` whose persist failed, are the only ways to differ). -/
theorem standby_upgrade_converges (ns : Bool) (hist : List (Bool × Op)) (hv : ValidHist hist) (kr : Keyring) :
    let w := ({ ns := ns } : World).run hist
    w.b.keyring = some kr →
    ∀ rk KR, w.phys.get .keyring = some (.enc 1 rk .keyring (.keyring KR)) →
    (∀ t, kr.active ≤ t → t < KR.active → w.phys.get (.upgrade t) ≠ none) →
    ∀ n, KR.active - kr.active ≤ n →
      (follow w.phys (n + 1) w.b).2 = [.okUp false 0, .ok, .ok] ∧ (follow w.phys (n + 1) w.b).1.keyring = some KR ∧
      (∀ ka, w.a.keyring = some ka → ka.root = rk → ka.rot = KR.rot →
        (follow w.phys (n + 1) w.b).1.keyring = w.a.keyring) := by
  intro w hb rk KR hkr hup n hn
  have hinv : Inv ([] ++ supplied hist) w := inv_run (inv_init ns) hist hv
  clear_value w
  cases hinv with
  | uninit hp _ _ _ => rw [hp] at hkr; cases hkr
  | live rk0 KR0 h hc hrk sa sb suba sya subb =>
    have := h.kr; rw [hkr] at this; cases this
    have hs : w.b.sealed = false := keyring_unsealed sb hb
    obtain ⟨g1, g2, _⟩ := standby_walk h hc hrk w.b kr hs hb sb subb hup n hn
    refine ⟨g1, g2, ?_⟩
    intro ka hka hroot hrot
    rw [g2, hka]
    obtain ⟨e1, e2⟩ := sya ka hka
    have := h.root
    cases ka; cases KR; simp_all

/-- non-vacuity: the active node rotates twice with upgrade entries; the standby (unsealed at term 1) walks them -/
example :
    let r1 : Key := ⟨0, 1, 32⟩
    let hist : List (Bool × Op) := [(false, .init r1 none), (false, .unsealB r1), (true, .unsealB r1), (false, .rotate),
      (false, .mkupgrade 2), (false, .rotate), (false, .mkupgrade 3), (false, .put "d/x" "01")]
    let w := ({} : World).run hist
    (w.b.keyring.map (·.active)) = some 1 ∧ (follow w.phys 3 w.b).2 = [.okUp false 0, .ok, .ok] ∧
    (follow w.phys 3 w.b).1.keyring = w.a.keyring ∧ (w.a.keyring.map (·.active)) = some 3 := by decide

/-! ### core level: Shamir shares, stored keys, rekey, keyless root-key rotation -/

/-- the full crash statement for rekey: after every prefix of the physical writes of a successful rekey a share set
the operator holds unseals the restarted core and reads every earlier entry back -/
def rekey_crash_safe_full : Prop :=
  ∀ (ops : List CoreOp) (n t k : Nat),
    let c' := ((({} : CoreSt).run ops).exec (.rekey n t)).1
    (∃ m, ((({} : CoreSt).run ops).exec (.rekey n t)).2 = .okN m) → k ≤ c'.writes.length → c'.heldRecovers k = true

/-- F6: the statement is FALSE on the current code: after the first write of `performBarrierRekey` (stored keys
under the new seal key) — and after the 2nd … 5th — neither share set the operator holds unseals. -/
theorem rekey_crash_cex : ¬ rekey_crash_safe_full := by
  intro h
  have := h [.boot 3 3, .put "d/a" "00"] 1 1 1 ⟨6, by decide⟩ (by decide)
  revert this; decide

/-- the witness in detail: a (3,3) → (5,3) rekey; prefixes 1–5 are unsealable with the old shares; the new shares
(which the operator does not have yet) would work from prefix 2 on; prefix 0 and the complete rekey are fine -/
example :
    let c' := ((({} : CoreSt).run [.boot 3 3, .put "d/a" "00"]).exec (.rekey 5 3)).1
    c'.writes.length = 6 ∧
    (List.range 7).map (fun k => (c'.crash k false).1) =
      [.unsealed, .invalid, .invalid, .invalid, .invalid, .invalid, .invalid] ∧
    (List.range 7).map (fun k => (c'.crash k true).1) =
      [.invalid, .invalid, .unsealed, .unsealed, .unsealed, .unsealed, .unsealed] ∧
    (List.range 7).map c'.heldRecovers = [true, false, false, false, false, false, true] := by decide

/-- with `verification_required` the operator holds BOTH share sets while `performBarrierRekey` writes; the full
crash statement for that flow -/
def rekey_verified_crash_safe_full : Prop :=
  ∀ (ops : List CoreOp) (n t k : Nat),
    let c' := ((({} : CoreSt).run ops).exec (.rekey n t)).1
    (∃ m, ((({} : CoreSt).run ops).exec (.rekey n t)).2 = .okN m) → k ≤ c'.writes.length →
    c'.recovers k false = true ∨ c'.recovers k true = true

/-- F6 persists under verification: after the FIRST write (stored keys name the new root key, the keyring is still
under the old one) neither share set unseals; and when the new threshold exceeds the old one the later prefixes
fail too (the stored configuration still asks for the old threshold, so too few new shares are combined). -/
theorem rekey_verified_crash_cex : ¬ rekey_verified_crash_safe_full := by
  intro h
  have := h [.boot 3 3, .put "d/a" "00"] 5 3 1 ⟨6, by decide⟩ (by decide)
  revert this; decide

example :
    let c' := ((({} : CoreSt).run [.boot 3 3, .put "d/a" "00"]).exec (.rekey 7 5)).1
    (List.range 7).map (fun k => c'.recovers k false || c'.recovers k true) =
      [true, false, false, false, false, false, true] := by decide

/-- same for the keyless root-key rotation (`sys/rotate/root`): the share set does not change -/
def rotroot_core_crash_safe_full : Prop :=
  ∀ (ops : List CoreOp) (k : Nat),
    let c' := ((({} : CoreSt).run ops).exec .rotroot).1
    (∃ m, ((({} : CoreSt).run ops).exec .rotroot).2 = .okN m) → k ≤ c'.writes.length → c'.recovers k true = true

/-- F45: false on the current code — after the first write (stored keys name the NEW root key, the keyring is still
under the old one) the unchanged shares are rejected. -/
theorem rotroot_core_crash_cex : ¬ rotroot_core_crash_safe_full := by
  intro h
  have := h [.boot 3 3, .put "d/a" "00"] 1 ⟨4, by decide⟩ (by decide)
  revert this; decide

example :
    let c' := ((({} : CoreSt).run [.boot 3 3, .put "d/a" "00", .rotate, .put "d/b" "01"]).exec .rotroot).1
    (List.range 5).map (fun k => c'.recovers k true) = [true, false, true, true, true] := by decide

/-- F46 at core level: after the keyless root-key rotation has written the stored keys and the keyring (2 of its 4
writes) an HA node restarted on the store UNSEALS but fails its leadership set-up: `core/root-key` still holds the
previous root key, `ReloadRootKey` installs it and `ReloadKeyring` is rejected.  (Prefix 1 does not even unseal —
F45; prefixes 0, 3, 4 become active.) -/
theorem rotroot_ha_crash_cex :
    let c' := ((({} : CoreSt).run [.boot 3 3, .put "d/a" "00"]).exec .rotroot).1
    (List.range 5).map c'.crashHA =
      [(.unsealed, some true), (.invalid, none), (.unsealed, some false), (.unsealed, some true), (.unsealed, some true)] := by
  decide

/-- **What does hold for rekey** (all core histories, all configurations): a crash before the first write leaves a
store the OLD shares unseal, the completed rekey one the NEW shares unseal, in both cases with every earlier entry
readable.  (`ValidCoreHist` only asks that `boot` uses a valid Shamir configuration.) -/
theorem rekey_crash_safe_partial (ops : List CoreOp) (hv : ValidCoreHist ops) (n t : Nat) :
    let c' := ((({} : CoreSt).run ops).exec (.rekey n t)).1
    (∃ m, ((({} : CoreSt).run ops).exec (.rekey n t)).2 = .okN m) →
    c'.recovers 0 false = true ∧ c'.recovers c'.writes.length true = true := by
  intro c' hok
  obtain ⟨_, hfacts⟩ := cinv_rekey _ (cinv_run _ cinv_init ops hv) n t
  obtain ⟨⟨rk, KR, h, hh⟩, hbase, hprev, hsh, hphys, rk', KR', h', hh'⟩ := hfacts hok
  constructor
  · exact recovers_lemma c' 0 false (by simp [c', hbase, applyWrites]) (by simp [c', hprev]) hsh h hh
  · exact recovers_lemma c' _ true (by rw [List.take_length]; exact hphys.symm) rfl rfl h' hh'

example : ValidCoreHist [.boot 3 3, .put "d/a" "00", .rotate, .rekey 5 3, .rotroot, .sealC, .unsealC true, .bootAuto, .rotroot] := by
  simp [ValidCoreHist, ValidCoreOp, validCfg]

/-- same for the keyless root-key rotation: prefix 0 and the completed rotation are recoverable with the shares -/
theorem rotroot_core_crash_safe_partial (ops : List CoreOp) (hv : ValidCoreHist ops) :
    let c' := ((({} : CoreSt).run ops).exec .rotroot).1
    (∃ m, ((({} : CoreSt).run ops).exec .rotroot).2 = .okN m) →
    c'.recovers 0 true = true ∧ c'.recovers c'.writes.length true = true := by
  intro c' hok
  obtain ⟨_, hfacts⟩ := cinv_rotroot _ (cinv_run _ cinv_init ops hv)
  obtain ⟨⟨rk, KR, h, hh⟩, hbase, hcur, hsh, hphys, rk', KR', h', hh'⟩ := hfacts hok
  constructor
  · exact recovers_lemma c' 0 true (by simp [c', hbase, applyWrites]) (by simp [c', hcur]) hsh h hh
  · exact recovers_lemma c' _ true (by rw [List.take_length]; exact hphys.symm) rfl rfl h' hh'

/-- **Every complete core history keeps every entry recoverable** with the shares the operator holds: after any
history of boot / put / delete / rotate / rekey(n, t) / keyless root rotation / seal / unseal, a core restarted on
the store unseals with the current share set and reads every entry back. -/
theorem core_history_recoverable (ops : List CoreOp) (hv : ValidCoreHist ops) :
    let c := ({} : CoreSt).run ops
    c.phys ≠ [] → ∃ rk KR, PInv c.phys c.shadow rk KR ∧ HInv c.phys c.cur rk ∧ unsealWith c.phys c.cur = (.unsealed, some KR) := by
  intro c hne
  cases cinv_run _ cinv_init ops hv with
  | uninit hp _ _ => exact absurd hp hne
  | live rk KR h _ hh _ _ _ _ => exact ⟨rk, KR, h, hh, unsealWith_ok h hh⟩

/-- Unsealing needs the threshold and the right shares: fewer shares than the stored threshold make no progress,
and shares split from another seal key (or combined below their own threshold) are rejected — the barrier is never
touched. -/
theorem unseal_below_threshold_no_progress (p : Phys) (ss : ShareSet) (n thr : Nat) (e : PEntry)
    (hc : p.get .sealcfg = some (.sealcfg n thr)) (hk : p.get .keyring = some e) (hlt : ss.n < thr) :
    unsealWith p ss = (.insufficient, none) := by
  simp [unsealWith, hc, hk, hlt]

theorem unseal_wrong_shares_rejected (p : Phys) (ss : ShareSet) (n thr : Nat) (e : PEntry) (sk root : Key)
    (hc : p.get .sealcfg = some (.sealcfg n thr)) (hk : p.get .keyring = some e)
    (hs : p.get .stored = some (.stored sk root)) (hne : candKey thr ss ≠ some sk) :
    (unsealWith p ss).1 ≠ .unsealed := by
  simp only [unsealWith, hc, hk]
  split
  · simp
  · cases hck : candKey thr ss with
    | none => simp
    | some c =>
      have : sk ≠ c := fun x => hne (by rw [hck, x])
      simp [openStored, hs, this]

example :
    let c := ({} : CoreSt).run [.boot 3 3, .put "d/a" "00", .rekey 5 3, .sealC]
    unsealWith c.phys c.cur = (.unsealed, c.bar.keyring.orElse fun _ => (unsealWith c.phys c.cur).2) ∧
    (unsealWith c.phys c.prev).1 = .invalid ∧ (unsealWith c.phys ⟨c.cur.skey, 2, 2⟩).1 = .insufficient := by decide

/-! ### refused unseal -/

/-- **An unseal that is refused after the barrier was opened ends sealed**: whatever the unseal attempt did (it may have
opened the barrier with the right shares), the node then seals again (`unsealInternal`, repair F78): the barrier is
sealed and holds no keyring — for every core state and both share sets. -/
theorem refused_unseal_ends_sealed (c : CoreSt) (new : Bool) :
    (((c.exec (.unsealC new)).1.exec .sealC).1.bar.sealed = true) ∧
    (((c.exec (.unsealC new)).1.exec .sealC).1.bar.keyring = none) := by
  simp [CoreSt.exec]

/-- **Finding F78 (repaired)**: without sealing again, a refused unseal with the right shares leaves the barrier open
and holding the keyring on a node that reports itself sealed. -/
theorem refused_unseal_without_reseal_cex :
    let c := (({} : CoreSt).exec (.boot 3 2)).1
    let c1 := (c.exec .sealC).1
    (c1.bar.sealed = true ∧ c1.bar.keyring = none) ∧
    ((c1.exec (.unsealC true)).1.bar.sealed = false ∧ (c1.exec (.unsealC true)).1.bar.keyring.isSome = true) := by
  decide

/-! ### a rekey that fails at its first write -/

/-- **A rekey whose first write fails changes nothing that matters**: storage, barrier, the share sets and the key in
the seal's wrapper are as before — so every later rotation, seal and unseal behaves as if the rekey had never been
attempted (all theorems about histories apply to the history without it). -/
theorem failed_rekey_changes_nothing (c : CoreSt) (n t : Nat) :
    let c' := (c.exec (.rekeyFail n t)).1
    c'.phys = c.phys ∧ c'.bar = c.bar ∧ c'.sealKey = c.sealKey ∧ c'.cur = c.cur ∧ c'.prev = c.prev := by
  simp only [CoreSt.exec]
  split
  · exact ⟨rfl, rfl, rfl, rfl, rfl⟩
  · split <;> exact ⟨rfl, rfl, rfl, rfl, rfl⟩

/-- **Finding F79 (repaired)**: with the never-persisted new seal key left in the seal's wrapper, the share-less root
rotation that follows wraps the new root key under it: after a seal, the (only ever issued) shares no longer unseal —
the instance is lost. With the wrapper restored the same history unseals. -/
theorem failed_rekey_poisons_wrapper_cex :
    let c := (({} : CoreSt).exec (.boot 3 2)).1
    let run := fun (c : CoreSt) => ((((c.exec .rotroot).1.exec .sealC).1.exec (.unsealC true)).2)
    run c.rekeyFailPoisoned = .uns .invalid ∧ run (c.exec (.rekeyFail 5 3)).1 = .uns .unsealed := by
  decide

end C10
