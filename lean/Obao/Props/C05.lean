import Obao.Model.TTL
/-! C05 — property theorems for lifetimes (the expiration-manager part is in `Obao/Props/C05b.lean`). -/
namespace C05
open Obao.TTL

/-- Every TTL `CalculateTTL` grants respects the effective maximum counted from the ISSUE time, for all inputs:
non-periodic: `now + ttl ≤ start + effMax`; periodic: `ttl ≤ period`, `ttl ≤ effMax`, and with an explicit
maximum `now + ttl ≤ start + explicitMax`. -/
theorem calcTTL_bound (i : Inp) (ttl : Int) (w : Nat) (h : calcTTL i = .ok ttl w) :
    (i.period ≤ 0 → i.now + ttl ≤ i.start + effMax i) ∧
    (i.period > 0 → ttl ≤ i.period ∧ ttl ≤ effMax i ∧
        (i.explicitMax > 0 → i.now + ttl ≤ i.start + i.explicitMax)) := by
  unfold calcTTL at h
  simp only at h
  repeat' (split at h)
  all_goals first
    | contradiction
    | (simp only [Out.ok.injEq] at h
       refine ⟨fun hp => ?_, fun hp => ⟨?_, ?_, fun he => ?_⟩⟩ <;> omega)

/-- the effective maximum is the smallest positive of the three maxima (when the system maximum is positive) -/
theorem effMax_le (i : Inp) :
    effMax i ≤ i.sysMax ∧ (i.backendMax > 0 → effMax i ≤ i.backendMax) ∧ (i.explicitMax > 0 → effMax i ≤ i.explicitMax) := by
  unfold effMax; simp only
  refine ⟨?_, ?_, ?_⟩ <;> (repeat' split) <;> (intros; omega)

/-- No sequence of renewals moves a non-periodic lease's expiry past issue time + effective maximum:
for every list of (now, increment) pairs (any order, any values). -/
theorem renew_sequence_bound (base : Inp) (hp : base.period ≤ 0) (seq : List (Int × Int)) :
    ∀ e ∈ renewExpiries base seq, e ≤ base.start + effMax base := by
  induction seq with
  | nil => intro e he; simp [renewExpiries] at he
  | cons p rest ih =>
    obtain ⟨now, incr⟩ := p
    intro e he
    unfold renewExpiries at he
    split at he
    · rename_i ttl w hc
      rcases List.mem_cons.mp he with rfl | he'
      · have := (calcTTL_bound _ ttl w hc).1 hp
        simpa [effMax] using this
      · exact ih e he'
    · exact ih e he

/-- same for periodic tokens with an explicit maximum -/
theorem renew_sequence_bound_periodic (base : Inp) (hp : base.period > 0) (he : base.explicitMax > 0)
    (seq : List (Int × Int)) :
    ∀ e ∈ renewExpiries base seq, e ≤ base.start + base.explicitMax := by
  induction seq with
  | nil => intro e he; simp [renewExpiries] at he
  | cons p rest ih =>
    obtain ⟨now, incr⟩ := p
    intro e hmem
    unfold renewExpiries at hmem
    split at hmem
    · rename_i ttl w hc
      rcases List.mem_cons.mp hmem with rfl | he'
      · exact ((calcTTL_bound _ ttl w hc).2 hp).2.2 he
      · exact ih e he'
    · exact ih e hmem

/-- a lease past its maximum cannot be extended: the call errors instead of granting anything -/
theorem past_max_refused (i : Inp) (hp : i.period ≤ 0) (hpast : i.start + effMax i ≤ i.now) :
    ∀ ttl w, calcTTL i ≠ .ok ttl w := by
  intro ttl w h
  have hb := (calcTTL_bound i ttl w h).1 hp
  unfold calcTTL at h
  simp only at h
  repeat' (split at h)
  all_goals first
    | contradiction
    | omega

/-- non-vacuity: the hypotheses are met by a concrete grant that is actually capped -/
example : calcTTL { now := 100, start := 40, sysMax := 100, sysDefault := 30, increment := 70, backendTTL := 0,
                    period := 0, backendMax := 0, explicitMax := 0 } = .ok 40 1 := by decide

/-- **periodic role tokens stay capped by THEIR period at every renewal** (finding F104, repaired). A token created
through a role with its own `period` (stored on the token; with a role period as well the lesser applies, as at
creation) is renewed with `renewPeriod`: whatever the role's period, whatever the other inputs, every TTL a renewal
grants is at most the token's own period. -/
theorem periodic_role_token_capped_by_own_period (i : Inp) (tokenPeriod rolePeriod ttl : Int) (w : Nat)
    (htp : tokenPeriod > 0) (hrp : rolePeriod ≥ 0)
    (h : calcTTL { i with period := renewPeriod tokenPeriod rolePeriod } = .ok ttl w) :
    ttl ≤ tokenPeriod := by
  have hp : renewPeriod tokenPeriod rolePeriod > 0 ∧ renewPeriod tokenPeriod rolePeriod ≤ tokenPeriod := by
    unfold renewPeriod; split <;> omega
  have := (calcTTL_bound _ ttl w h).2 hp.1
  exact Int.le_trans this.1 hp.2

/-- with the role's period alone (before the repair) one renewal moves a token issued with a 60 s period to 1 h -/
theorem periodic_role_token_role_period_only_cex :
    ∃ (i : Inp) (tokenPeriod rolePeriod ttl : Int) (w : Nat), tokenPeriod > 0 ∧
      calcTTL { i with period := renewPeriodRoleOnly tokenPeriod rolePeriod } = .ok ttl w ∧ ttl > tokenPeriod :=
  ⟨{ now := 10, start := 0, sysMax := 2764800, sysDefault := 2764800, increment := 0, backendTTL := 0, period := 0,
     backendMax := 0, explicitMax := 0 }, 60, 3600, 3600, 0, by decide, by decide, by decide⟩

end C05
