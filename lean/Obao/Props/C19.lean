import Obao.Proofs.UseCount
/-!
C19 — a use-limited token authorises at most its number of uses.

Model: `Obao/Model/UseCount.lean` (micro-steps of `m` concurrent requests presenting one token with `num_uses = n`,
plus the expiration worker). A schedule is an arbitrary `List Nat` (entry `t < m`: request thread `t` performs its
next micro-step, entry `= m`: the worker; blocked / finished / out-of-range entries are skipped), so every theorem
below holds for ALL interleavings at storage-operation + lock-operation granularity, any number of requests of any
kinds that present the token as their client token (read, write, policy-denied, token lookup, lease-generating,
child-token creation, …: `firstParty`), any `n ≥ 1`.  (Third-party unwrap / rewrap revoke the token themselves and
are covered for `n = 1` in C18.)
-/
namespace C19
open Obao.UseCount

/-- At most `n` requests get past the use step — counting the ones that are then denied by policy or fail —
under every interleaving, for every number and mix of concurrent requests. -/
theorem uses_at_most_n (n : Nat) (hn : 1 ≤ n) (kinds : List Kind) (hk : AllFirstParty kinds) (sched : List Nat) :
    passedCount (run sched (init n kinds)).pcs ≤ n := by
  have inv := reach_inv false n hn kinds (wf_of hk) sched
  rcases inv.acct with a | a <;> (simp only [init]; omega)

/-- If at least `n` requests have completed, exactly `n` got past the use step. -/
theorem exactly_n_if_enough (n : Nat) (hn : 1 ≤ n) (kinds : List Kind) (hk : AllFirstParty kinds)
    (sched : List Nat) (hdone : n ≤ doneCount (run sched (init n kinds)).pcs) :
    passedCount (run sched (init n kinds)).pcs = n := by
  have inv := reach_inv false n hn kinds (wf_of hk) sched
  have hle := uses_at_most_n n hn kinds hk sched
  have hkind := kind_of_thread false n kinds sched
  change Inv n (run sched (init n kinds)) at inv
  change ∀ u pc, (run sched (init n kinds)).pcs[u]? = some pc → ∃ k, (run sched (init n kinds)).kinds[u]? = some k
    at hkind
  generalize run sched (init n kinds) = s at *
  by_cases hr : ∃ pc ∈ s.pcs, refusedPc pc = true
  · obtain ⟨pc, hm, hp⟩ := hr
    obtain ⟨u, hu⟩ := List.mem_iff_getElem?.1 hm
    obtain ⟨k, hk'⟩ := hkind u pc hu
    have hpend := (inv.loc u pc k hu hk').refused hp
    rcases inv.acct with a | a
    · exfalso; have := a.1; simp [hpend, pending] at this
    · exact a.2
  · have hall : ∀ pc ∈ s.pcs, isDoneUse pc = true → counted pc = 1 := by
      intro pc hm hd
      cases pc with
      | done u r =>
        cases u with
        | some l => rfl
        | none => exact absurd ⟨_, hm, by simpa [isDoneUse, refusedPc] using hd⟩ hr
      | _ => simp [isDoneUse] at hd
    have := doneCount_le_passed s.pcs hall
    omega

/-- Once `n` requests are past the use step the entry is invisible to `lookupInternal` (pending marker or
deleted) and stays so under every continuation: every later request is refused. -/
theorem after_nth_use_rejected (n : Nat) (hn : 1 ≤ n) (kinds : List Kind) (hk : AllFirstParty kinds)
    (sched more : List Nat) (h : passedCount (run sched (init n kinds)).pcs = n) :
    (run (sched ++ more) (init n kinds)).sh.hidden = true ∧
    passedCount (run (sched ++ more) (init n kinds)).pcs = n := by
  have inv := reach_inv false n hn kinds (wf_of hk) (sched ++ more)
  have hle := uses_at_most_n n hn kinds hk (sched ++ more)
  have hmono := run_passed_mono more (run sched (init n kinds))
  rw [← run_append] at hmono
  have heq : passedCount (run (sched ++ more) (init n kinds)).pcs = n := by omega
  refine ⟨?_, heq⟩
  change Inv n (run (sched ++ more) (init n kinds)) at inv
  rcases inv.acct with a | a
  · omega
  · simp [Shared.hidden, a.1, pending]

/-- …and a refused request is only ever refused because the token IS exhausted: no spurious refusals. -/
theorem refused_only_when_exhausted (n : Nat) (hn : 1 ≤ n) (kinds : List Kind) (hk : AllFirstParty kinds)
    (sched : List Nat) (t : Nat) (pc : Pc)
    (ht : (run sched (init n kinds)).pcs[t]? = some pc) (hr : refusedPc pc = true) :
    passedCount (run sched (init n kinds)).pcs = n := by
  have inv := reach_inv false n hn kinds (wf_of hk) sched
  obtain ⟨k, hkt⟩ := kind_of_thread false n kinds sched t pc ht
  have hp := (inv.loc t pc k ht hkt).refused hr
  rcases inv.acct with a | a
  · exfalso; have := a.1; simp [hp, pending] at this
  · exact a.2

/-- Last use ⇒ revocation (model level): when the request that consumed the final use has returned, the token's
revocation is queued (or already carried out) and the stored entry carries the pending marker or is deleted: no
request can use it any more. -/
theorem last_use_revokes (n : Nat) (hn : 1 ≤ n) (kinds : List Kind) (hk : AllFirstParty kinds)
    (sched : List Nat) (t : Nat) (r : Res)
    (ht : (run sched (init n kinds)).pcs[t]? = some (.done (some true) r)) :
    ((run sched (init n kinds)).sh.queued = true ∨ (run sched (init n kinds)).sh.gone = true) ∧
    (run sched (init n kinds)).sh.hidden = true := by
  have inv := reach_inv false n hn kinds (wf_of hk) sched
  obtain ⟨k, hkt⟩ := kind_of_thread false n kinds sched t _ ht
  have l := inv.loc t _ k ht hkt
  refine ⟨l.lastq r rfl, ?_⟩
  have : (run sched (init n kinds)).sh.numUses = pending := l.lastp rfl
  simp [Shared.hidden, this, pending]

/-- …and the queued revocation completes as soon as the worker gets two steps, whatever else is scheduled before:
the entry is deleted. -/
theorem queued_revocation_completes (n : Nat) (kinds : List Kind) (sched : List Nat)
    (hq : (run sched (init n kinds)).sh.queued = true) :
    (run (sched ++ [kinds.length, kinds.length]) (init n kinds)).sh.gone = true := by
  rw [run_append]
  have hlen : (run sched (init n kinds)).pcs.length = kinds.length := by
    rw [run_length]; simp [init, initW]
  rw [← hlen]
  exact worker_two _ hq

/-- Leases issued under the token and its revocation — what holds: once the sweep has run, every lease registered
before it is revoked (`revoked + late = issued`, `late` = registered after the sweep). -/
theorem last_use_revokes_leases_partial (n : Nat) (hn : 1 ≤ n) (kinds : List Kind) (hk : AllFirstParty kinds)
    (sched : List Nat) (hs : (run sched (init n kinds)).sh.swept = true) :
    (run sched (init n kinds)).sh.revoked + (run sched (init n kinds)).sh.late
      = (run sched (init n kinds)).sh.issued :=
  (reach_inv false n hn kinds (wf_of hk) sched).leases.2 hs

/-- Full statement of "revoked together with the leases issued under it": once the entry is deleted, every lease
issued under the token has been revoked. -/
def last_use_revokes_leases_full : Prop :=
  ∀ (n : Nat) (kinds : List Kind) (sched : List Nat), 1 ≤ n → AllFirstParty kinds →
    (run sched (init n kinds)).sh.gone = true →
    (run sched (init n kinds)).sh.revoked = (run sched (init n kinds)).sh.issued

/-- The unchanged code violates it (finding: `expiration.Register` never re-checks the token): with `n = 2` a
lease-generating request takes the first use and is overtaken, before it registers its lease, by a request that
takes the last use and by the worker; its lease is registered under a deleted token and is never revoked. -/
theorem last_use_revokes_leases_cex : ¬ last_use_revokes_leases_full := by
  intro h
  have := h 2 [.lease, .read] [0, 0, 0, 0, 0, 1, 1, 1, 1, 1, 1, 1, 2, 2, 0] (by decide) (by decide) (by decide)
  revert this
  decide

/-- A secret leased on the final use is not returned: the deferred function of `handleRequest` replaces it —
whatever the shared state, a `dq` step of a last use never ends with `secret`. -/
theorem last_use_secret_withheld (sc : Script) (t : Nat) (r : Res) (sh sh' : Shared) (pc' : Pc)
    (h : localStep true sc t (.dq (some true) r) sh = some (pc', sh')) :
    pc' ≠ .done (some true) .secret ∧ sh'.queued = true := by
  simp [localStep] at h
  obtain ⟨rfl, rfl⟩ := h
  constructor
  · intro e; injection e with _ e; split at e <;> simp_all
  · rfl

/-- The theorem rests on the per-token lock: the same system without it grants `n + 1` uses under a two-thread
schedule (`n = 1 … 4`, the range the harness drives). -/
theorem uses_need_lock :
    (∃ sched, passedCount (runG false sched (init 1 [.read, .read])).pcs = 2) ∧
    (∃ sched, passedCount (runG false sched (init 2 [.read, .read, .read])).pcs = 3) ∧
    (∃ sched, passedCount (runG false sched (init 3 [.read, .read, .read, .read])).pcs = 4) ∧
    (∃ sched, passedCount (runG false sched (init 4 [.read, .read, .read, .read, .read])).pcs = 5) := by
  refine ⟨⟨[0, 1, 0, 1, 0, 1, 0, 1], by decide⟩,
          ⟨[2, 2, 2, 2, 0, 1, 0, 1, 0, 1, 0, 1], by decide⟩,
          ⟨[2, 2, 2, 2, 3, 3, 3, 3, 0, 1, 0, 1, 0, 1, 0, 1], by decide⟩,
          ⟨[2, 2, 2, 2, 3, 3, 3, 3, 4, 4, 4, 4, 0, 1, 0, 1, 0, 1, 0, 1], by decide⟩⟩

/-- A use-limited token can never create child tokens: in every reachable state the guard of
`handleCreateCommon` (`parent == nil` or `parent.NumUses > 0` ⇒ refuse) refuses. -/
theorem limited_cannot_create (n : Nat) (hn : 1 ≤ n) (kinds : List Kind) (hk : AllFirstParty kinds)
    (sched : List Nat) : createGuard (run sched (init n kinds)).sh = false := by
  have inv := reach_inv false n hn kinds (wf_of hk) sched
  change Inv n (run sched (init n kinds)) at inv
  rcases inv.acct with a | a
  · have : 0 < (run sched (init n kinds)).sh.numUses := by omega
    simp [createGuard, this]
  · simp [createGuard, Shared.hidden, a.1, pending]

/-- …so the `create` instruction of a request body (the guard evaluated at that moment) always yields the refusal,
never a child token. -/
theorem create_step_refused (sc : Script) (t i : Nat) (u : Option Bool) (r : Res) (sh : Shared)
    (hb : sc.body[i]? = some .create) (hg : createGuard sh = false) :
    localStep true sc t (.body i u r) sh = some (advanceBody sc i u .errInvalid, sh) := by
  simp [localStep, hb, hg]

/-- the guard is not vacuous: an unlimited token (`num_uses = 0`) may create children -/
example : createGuard { numUses := 0, lock := none, queued := false, swept := false, gone := false,
                        issued := 0, revoked := 0, late := 0, payload := false, info := false,
                        leaseGone := false } = true := by decide

/-- the C19 request kinds meet the hypothesis -/
example : AllFirstParty [.read, .write, .denied, .self, .lease, .create, .recread] := by decide

/-- non-vacuity: three requests on a 2-use token, a schedule under which two pass and the third is refused at the
re-read, the last use queues the revocation, its leased secret is withheld, and the worker deletes the entry -/
example : let s := run [0, 1, 2, 0, 0, 0, 0, 0, 0, 1, 1, 1, 1, 1, 1, 2, 2, 2, 3, 3] (init 2 [.read, .lease, .denied])
    passedCount s.pcs = 2 ∧ doneCount s.pcs = 3 ∧ s.pcs[2]? = some (.done none .errInternal) ∧
    s.pcs[1]? = some (.done (some true) .withheld) ∧ s.sh.gone = true ∧ s.sh.issued = 1 ∧ s.sh.revoked = 1 := by
  decide

/-! ### the entry points outside `handleRequest` -/

/-- **A token that spends its last use on sys/seal or sys/step-down is revoked, allowed or not**: the tail of
`sealInitCommon` / `StepDown` revokes a spent token on both outcomes of the policy check, and proceeds only when the
request is allowed (real code: stream `usecount`, op `sealdenied`). -/
theorem spent_token_revoked_any_entry (allowed : Bool) :
    (sealTail true allowed).revoked = true ∧ (sealTail true allowed).proceeds = allowed ∧
    (sealTail false allowed).revoked = false := by
  cases allowed <;> decide

/-- returning from the denied branch before the revocation (NOT the code; finding F51 before its repair) leaves the
spent token — and the leases issued under it — in place -/
theorem spent_token_denied_seal_cex : (sealTailDeniedReturnsEarly true false).revoked = false := by decide

/-! ### writers of the entry that are not uses -/

/-- **A rewrite of the entry that is not a use never gives uses back**: in every execution made of uses and of
orphanings that re-read under the token's lock, the stored count is the initial count minus the uses spent. -/
theorem non_use_rewrite_preserves_count (n : Nat) (l : List EntryAct)
    (h : ∀ a ∈ l, a = .use ∨ a = .orphan) :
    (entryRun (n, none) l).1 = n - (l.filter (· == .use)).length := by
  unfold entryRun
  suffices H : ∀ (s : Nat × Option Nat), (l.foldl entryStep s).1 = s.1 - (l.filter (· == .use)).length from H (n, none)
  induction l with
  | nil => intro s; simp
  | cons a r ih =>
    intro s
    have ha := h a (List.mem_cons_self ..)
    have hr : ∀ b ∈ r, b = .use ∨ b = .orphan := fun b hb => h b (List.mem_cons_of_mem _ hb)
    simp only [List.foldl_cons]
    rw [ih hr]
    rcases ha with rfl | rfl
    · have : (EntryAct.use == EntryAct.use) = true := by decide
      simp only [entryStep, List.filter, this, List.length_cons]; omega
    · have : (EntryAct.orphan == EntryAct.use) = false := by decide
      simp only [entryStep, List.filter, this]

/-- **Finding F82 (repaired)**: with the entry read outside the lock, a use that falls between the orphaner's read and
its write is overwritten by the stale copy: a token of 3 uses has 3 left after one was spent. -/
theorem stale_orphaning_rewrite_cex :
    (entryRun (3, none) [.orphanRead, .use, .orphanWrite]).1 = 3 ∧
    (entryRun (3, none) [.orphan, .use]).1 = 2 ∧ (entryRun (3, none) [.use, .orphan]).1 = 2 := by decide

/-! ### a use limit needs counted uses -/

/-- **Every token that is issued with a use limit n authorises at most n requests** — because the only tokens whose
uses are not counted (batch tokens) are never issued with a limit. -/
theorem limit_needs_counted_uses (batch : Bool) (n k : Nat) (hn : n ≠ 0) (h : createAccepted batch n = true) :
    authorisedOf batch n k ≤ n := by
  cases batch
  · simp [authorisedOf, hn]; omega
  · simp [createAccepted, hn] at h

/-- **Finding F85 (repaired)**: a batch token issued with `num_uses = 1` (accepted when `explicit_max_ttl=0` was sent
along, or through a default-batch role) authorises every request. -/
theorem batch_token_limit_unenforced_cex : authorisedOf true 1 4 = 4 ∧ createAccepted true 1 = false := by decide

end C19
