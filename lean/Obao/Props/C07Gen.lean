import Obao.Gen.TokenTables
/-! C07 — regenerated tie (T-gen): `policy.NonAssignablePolicies`, re-extracted on every run. -/
namespace C07Gen
open Obao.Gen.TokenTables

/-- the policies a login or a token-create request may never assign -/
theorem non_assignable_table : nonAssignable = ["response-wrapping"] := by decide

end C07Gen
