import Obao.Model.RaftFSM
import Obao.Model.RaftLeader
import Obao.Model.RaftChunk
import Obao.Proofs.RaftFSM
/-!
C09 — raft replicas applying the same committed log reach the same state and the same verdicts.

Setting (`Obao/Model/RaftFSM.lean`): `sysRun fast log nodes evs` runs a group of replicas over one committed
`log` under an arbitrary schedule `evs` of `batch r n` (replica `r` is handed its next `n` entries as ONE
`ApplyBatch` call), `restart r` (tracker lost, bolt file kept) and `snap dst src` (snapshot of `src` installed on
`dst`; tracker kept). `Mode.fast` is the algorithm of the Go code, `Mode.full` the same algorithm with every
verification evaluated, `Mode.guarded` a repair candidate (fast path only at or above a completeness watermark). `NodeRef log nd`: replica `nd` holds exactly the reference state of the log prefix it
has consumed and every verdict it reported is the reference verdict (`refState`/`refVerdicts`: full
verification of every transaction against the state produced by the prefix).

* full for the non-optimised algorithm: `apply_deterministic_full_verify`, `replicas_agree_full_verify`;
* the optimised algorithm: the full statement `replicas_agree_full` is FALSE on the current tree
  (`replicas_agree_full_false`; witnesses `restart_breaks_complete_cex` = F1, `snapshot_breaks_complete_cex`,
  `batching_breaks_complete_cex` = F10, all on leader-generable logs); proved instead
  `fastpath_preserves_ref` (one step, under tracker completeness), `replicas_agree_partial` (all logs, all
  schedules in which each transaction starts at or after the replica's completeness watermark) and
  `fastpath_watermark_fixed` (the repair candidate satisfies the full statement).
-/
namespace C09
open Obao.RaftFSM Obao.RaftLeader

/-! ### the algorithm without the fast path: all logs, all batchings, all restart / snapshot positions -/

/-- With every verification evaluated, each replica of every execution — any log (no well-formedness
assumption at all), any number of replicas, any batching, restarts and snapshot installs anywhere — holds the
reference state of the prefix it consumed and reports only reference verdicts. -/
theorem apply_deterministic_full_verify (log : List Entry) (k : Nat) (evs : List Ev) :
    ∀ nd ∈ sysRun .full log (sysInit k) evs, NodeRef log nd := by
  apply sysRun_false_inv
  intro nd hnd
  rw [sysInit, List.mem_replicate] at hnd
  rw [hnd.2]
  exact NodeRef_fresh log

/-- hence any two replicas agree: equal data at equal log positions, equal verdicts for the same entry -/
theorem replicas_agree_full_verify (log : List Entry) (k : Nat) (evs : List Ev)
    (a b : Node) (ha : a ∈ sysRun .full log (sysInit k) evs) (hb : b ∈ sysRun .full log (sysInit k) evs) :
    (a.pos = b.pos → a.rep.kv = b.rep.kv) ∧
    (∀ i va vb, (i, va) ∈ a.out → (i, vb) ∈ b.out → va = vb) := by
  have h1 := apply_deterministic_full_verify log k evs a ha
  have h2 := apply_deterministic_full_verify log k evs b hb
  refine ⟨fun hp => by rw [h1.2.1, h2.2.1, hp], ?_⟩
  intro i va vb hva hvb
  have e1 := h1.2.2 (i, va) hva
  have e2 := h2.2.2 (i, vb) hvb
  simp only at e1 e2
  rw [e1] at e2
  exact Option.some.inj e2

/-! ### the optimised algorithm, one step -/

/-- Under tracker completeness the optimised application of an entry equals the reference step (same data,
same verdict): `s0` is the state the client read from, `mid` the entries applied since, the tracker records
above the start index every key `mid` effectively wrote, and `canFastWrite` can hold only when `mid` is empty. -/
theorem fastpath_preserves_ref (s0 : Store) (mid : List Entry) (tr : Tracker) (latest0 offset : Nat) (e : Entry)
    (h : ∀ ops, e.cmd = .data ops → isTx ops = true →
      observedAt s0 ops = true ∧ prefixesOk ops = true ∧ TrackerComplete tr s0 mid (txStart ops) ∧
      (offset = 0 → latest0 = txStart ops → mid = [])) :
    (applyEntry true (refState s0 mid) tr latest0 offset e).1 = (refStep (refState s0 mid) e).1 ∧
    (applyEntry true (refState s0 mid) tr latest0 offset e).2.2 = (refStep (refState s0 mid) e).2 :=
  applyEntry_fast_eq s0 mid tr latest0 offset e h

def kK : Key := [107]
def kJ : Key := [106]
def kX : Key := [120]
def kY : Key := [121]
def vOld : Val := [111, 108, 100]
def vNew : Val := [110, 101, 119]

/-- non-vacuity: a transaction that read `k = old`, one unrelated write (`x`) applied since and recorded by the
tracker; the verification is skipped (the tracker has no record for `k`) and the transaction commits, in the
middle of a batch (`offset = 1`) -/
example :
    let s0 : Store := [(kK, vOld)]
    let mid : List Entry := [{ idx := 2, low := some 1, cmd := .data [.put kX [49]] }]
    let tr : Tracker := [(2, [kX])]
    let ops := [Op.begin 1, .vread kK (some vOld), .put kJ [49], .commit]
    (observedAt s0 ops = true ∧ prefixesOk ops = true ∧
      (∀ a e b, mid = a ++ e :: b → ∀ k ∈ effKeys (refState s0 a) e, ∃ p ∈ tr, 1 < p.1 ∧ k ∈ p.2)) ∧
    hasModifiedEntry tr 1 kK = false ∧
    (applyEntry true (refState s0 mid) tr 1 1 { idx := 3, low := some 1, cmd := .data ops }).2.2 = .commit := by
  refine ⟨⟨by decide, by decide, ?_⟩, by decide, by decide⟩
  intro a e b hsplit k hk
  rcases a with _ | ⟨x, a⟩
  · simp only [List.nil_append, List.cons.injEq] at hsplit
    obtain ⟨rfl, _⟩ := hsplit
    refine ⟨(2, [kX]), by simp, by decide, ?_⟩
    simpa [effKeys, isTx, writeKeys, refState] using hk
  · simp at hsplit

/-! ### the optimised algorithm along executions -/

/-- All logs with increasing indexes, single-write plain commands and honestly built transactions; any number
of replicas; all schedules: a replica whose ghost flag `ok` is still set — every transaction it applied started
at or after its completeness watermark `wm` (raised to `latest` by a restart or snapshot install and to
`LowestActiveIndex - 1` by the clearing at a batch end), and every snapshot it installed came from such a
replica — holds the reference state and reported only reference verdicts. -/
theorem replicas_agree_partial (log : List Entry) (hok : LogOk log) (k : Nat) (evs : List Ev) :
    ∀ nd ∈ sysRun .fast log (sysInit k) evs, nd.ok = true → NodeRef log nd := by
  intro nd hnd hk
  have hinv := sysRun_true_inv log hok evs (sysInit k) (by
    intro x hx
    rw [sysInit, List.mem_replicate] at hx
    rw [hx.2]
    exact NodeInv_fresh log) nd hnd
  exact (hinv.good hk).1

/-- two such replicas agree on data at equal positions and on every verdict -/
theorem replicas_agree_partial_pair (log : List Entry) (hok : LogOk log) (k : Nat) (evs : List Ev)
    (a b : Node) (ha : a ∈ sysRun .fast log (sysInit k) evs) (hb : b ∈ sysRun .fast log (sysInit k) evs)
    (oka : a.ok = true) (okb : b.ok = true) :
    (a.pos = b.pos → a.rep.kv = b.rep.kv) ∧
    (∀ i va vb, (i, va) ∈ a.out → (i, vb) ∈ b.out → va = vb) := by
  have h1 := replicas_agree_partial log hok k evs a ha oka
  have h2 := replicas_agree_partial log hok k evs b hb okb
  refine ⟨fun hp => by rw [h1.2.1, h2.2.1, hp], ?_⟩
  intro i va vb hva hvb
  have e1 := h1.2.2 (i, va) hva
  have e2 := h2.2.2 (i, vb) hvb
  simp only at e1 e2
  rw [e1] at e2
  exact Option.some.inj e2

/-- a leader-generated log in which transaction T (start 1) reads `k`, an unrelated key is written before it
commits, and a second transaction reads what T wrote -/
def logOk : List Entry :=
  [ { idx := 1, low := some 0, cmd := .data [.put kK vOld] },
    { idx := 2, low := some 1, cmd := .data [.put kX [49]] },
    { idx := 3, low := some 2, cmd := .data [.begin 1, .vread kK (some vOld), .put kJ [49], .commit] },
    { idx := 4, low := some 3, cmd := .data [.begin 3, .vread kJ (some [49]), .put kK vNew, .commit] } ]

/-- non-vacuity of `replicas_agree_partial`: the hypotheses hold for `logOk`, three replicas with different
batchings, a restart and a snapshot install keep `ok`, both transactions commit, one of them through the
tracker fast path and one through `canFastWrite` -/
example : LogOk logOk := ⟨by decide, by decide, by decide⟩

example :
    let nodes := sysRun .fast logOk (sysInit 3)
      [.batch 0 4, .batch 1 1, .restart 1, .batch 1 2, .batch 1 1, .batch 2 1, .snap 2 0]
    nodes.map (·.ok) = [true, true, true] ∧
    nodes.map (·.out) =
      [ [(0, .plain), (1, .plain), (2, .commit), (3, .commit)],
        [(0, .plain), (1, .plain), (2, .commit), (3, .commit)],
        [(0, .plain)] ] ∧
    nodes.map (·.pos) = [4, 4, 4] := by decide

/-! ### the full statement for the optimised algorithm is false on the current tree -/

/-- the property at full strength: every replica of every execution over a leader-generable log agrees with
the reference (hence with every other replica) -/
def replicas_agree_full : Prop :=
  ∀ log, LeaderGenerable log → ∀ k evs, ∀ nd ∈ sysRun .fast log (sysInit k) evs, NodeRef log nd

/-- F1 log: `put k=old @1`, T begins (start 1, reads k=old), `put k=new @2`, T commits `@3` -/
def logF1 : List Entry :=
  [ { idx := 1, low := some 0, cmd := .data [.put kK vOld] },
    { idx := 2, low := some 1, cmd := .data [.put kK vNew] },
    { idx := 3, low := some 2, cmd := .data [.begin 1, .vread kK (some vOld), .put kJ [49], .commit] } ]

theorem logF1_generable : LeaderGenerable logF1 :=
  ⟨[.put kK vOld, .handoff 1, .deliver 1, .begin, .put kK vNew, .handoff 1, .deliver 1,
    .commit 0 [kK] [.put kJ [49]]], by decide⟩

/-- F1: replica 0 applies the log in one batch and rejects the transaction; replica 1 is restarted between
index 2 and index 3, its tracker is empty, it skips the verification and commits: different verdicts, different
data (`j` exists only on replica 1). The log satisfies every hypothesis of `replicas_agree_partial`; only the
watermark condition fails (`ok = false` on replica 1). -/
theorem restart_breaks_complete_cex :
    let nodes := sysRun .fast logF1 (sysInit 2) [.batch 0 3, .batch 1 2, .restart 1, .batch 1 1]
    nodes.map (·.out) = [[(0, .plain), (1, .plain), (2, .conflict)], [(0, .plain), (1, .plain), (2, .commit)]] ∧
    nodes.map (·.rep.kv) = [[(kK, vNew)], [(kJ, [49]), (kK, vNew)]] ∧
    nodes.map (·.ok) = [true, false] ∧
    refVerdicts [] logF1 = [.plain, .plain, .conflict] := by decide

/-- the same through a snapshot install: replica 1 receives indexes 1..2 as a snapshot of replica 0 -/
theorem snapshot_breaks_complete_cex :
    let nodes := sysRun .fast logF1 (sysInit 2) [.batch 0 2, .snap 1 0, .batch 0 1, .batch 1 1]
    nodes.map (·.out) = [[(0, .plain), (1, .plain), (2, .conflict)], [(2, .commit)]] ∧
    nodes.map (·.rep.kv) = [[(kK, vNew)], [(kJ, [49]), (kK, vNew)]] := by decide

/-- F10 log (F7 mechanism: the leader's FSM lags raft's applied index when T begins) -/
def logF10 : List Entry :=
  [ { idx := 1, low := some 0, cmd := .data [.put kK vOld] },
    { idx := 2, low := some 1, cmd := .data [.put kK vNew] },
    { idx := 3, low := some 2, cmd := .data [.put kX [121]] },
    { idx := 4, low := some 3, cmd := .data [.put kY [122]] },
    { idx := 5, low := some 4, cmd := .data [.begin 1, .vread kK (some vOld), .put kJ [49], .commit] } ]

theorem logF10_generable : LeaderGenerable logF10 :=
  ⟨[.put kK vOld, .handoff 1, .deliver 1, .put kK vNew, .handoff 1, .put kX [121], .handoff 1,
    .put kY [122], .handoff 1, .begin, .deliver 3, .commit 0 [kK] [.put kJ [49]]], by decide⟩

/-- F10: no restart, no snapshot — only the batch boundaries differ. Replica 0 (one batch `[1..5]`) still holds
the record of index 2 and rejects; replica 1 (batches `[1..4][5]`) cleared it at the end of its first batch
(`LowestActiveIndex = 3`) and commits. -/
theorem batching_breaks_complete_cex :
    let nodes := sysRun .fast logF10 (sysInit 2) [.batch 0 5, .batch 1 4, .batch 1 1]
    nodes.map (·.out) =
      [[(0, .plain), (1, .plain), (2, .plain), (3, .plain), (4, .conflict)],
       [(0, .plain), (1, .plain), (2, .plain), (3, .plain), (4, .commit)]] ∧
    (nodes.map (·.rep.kv))[0]? ≠ (nodes.map (·.rep.kv))[1]? ∧
    nodes.map (·.ok) = [true, false] := by decide

/-- log of the leader-local clearing witness: T0 begins (start 1); T1 reads its start index (1) and opens its
snapshot (`k = old`) but has not yet called `trackTransaction`; `put k=new @2`, `put x @3` are applied; T0 rolls
back — `Rollback` clears the LEADER's tracker with `min(raft applied = 3, no active transaction)`; T1 is tracked
and commits `@4`. -/
def logRb : List Entry :=
  [ { idx := 1, low := some 0, cmd := .data [.put kK vOld] },
    { idx := 2, low := some 1, cmd := .data [.put kK vNew] },
    { idx := 3, low := some 1, cmd := .data [.put kX [121]] },
    { idx := 4, low := some 3, cmd := .data [.begin 1, .vread kK (some vOld), .put kJ [49], .commit] } ]

def evsRb : List LEv :=
  [.put kK vOld, .handoff 1, .deliver 1, .begin, .beginRead, .put kK vNew, .handoff 1, .deliver 1,
   .put kX [121], .handoff 1, .deliver 1, .rollback 0, .track 1, .commit 1 [kK] [.put kJ [49]]]

/-- `Rollback` clears the tracker on the leader only (the clearing is not part of the log): the leader — whose
FSM applied every entry in its own batch, never restarted — commits T1 and reports success to the client; a
follower handed exactly the same batches rejects it. (F7 mechanism; needs neither restart nor different
batching.) -/
theorem leader_rollback_clear_cex :
    (run {} evsRb).map (·.log) = some logRb ∧
    -- the leader's own FSM after applying index 4: `j` written
    (run {} (evsRb ++ [.handoff 1, .deliver 1])).map (·.rep.kv) = some [(kJ, [49]), (kK, vNew), (kX, [121])] ∧
    -- replica 0 = the leader (same batches + the local clearing), replica 1 = a follower
    (sysRun .fast logRb (sysInit 2)
        [.batch 0 1, .batch 0 1, .batch 0 1, .lclear 0 3, .batch 0 1,
         .batch 1 1, .batch 1 1, .batch 1 1, .batch 1 1]).map (·.out) =
      [[(0, .plain), (1, .plain), (2, .plain), (3, .commit)],
       [(0, .plain), (1, .plain), (2, .plain), (3, .conflict)]] := by decide

theorem replicas_agree_full_false : ¬ replicas_agree_full := by
  intro h
  have := h logF1 logF1_generable 2 [.batch 0 3, .batch 1 2, .restart 1, .batch 1 1]
    { rep := { kv := [(kJ, [49]), (kK, vNew)], latest := 3, tracker := [(3, [kJ])], cfg := 0 },
      pos := 3, out := [(0, .plain), (1, .plain), (2, .commit)], wm := 2, ok := false } (by decide)
  have h2 := this.2.2 (2, .commit) (by decide)
  revert h2
  decide

/-! ### the repair candidate -/

/-- What a watermark repair would make true: if the FSM keeps the completeness watermark (`latest` after
`NewFSM`/`Restore`, `max wm (LowestActiveIndex - 1)` after `clearOldEntries`) and uses the fast path only for
transactions with `start ≥ wm`, then for all well-formed logs, any number of replicas and ALL schedules (batchings,
restarts, snapshot installs) every replica is on the reference — no side condition on the schedule. -/
theorem fastpath_watermark_fixed (log : List Entry) (hok : LogOk log) (k : Nat) (evs : List Ev) :
    ∀ nd ∈ sysRun .guarded log (sysInit k) evs, NodeRef log nd := by
  intro nd hnd
  exact (sysRun_guarded_inv log hok evs (sysInit k) (by
    intro x hx
    rw [sysInit, List.mem_replicate] at hx
    rw [hx.2]
    exact NodeInvG_fresh log) nd hnd).ref

/-- non-vacuity / effect: the F1 and F10 schedules under the repaired algorithm — both replicas reject; and the
fast path is still taken where it is sound (`logOk`, tracker bypass in the middle of a batch) -/
example : LogOk logF1 ∧ LogOk logF10 := ⟨⟨by decide, by decide, by decide⟩, ⟨by decide, by decide, by decide⟩⟩

example :
    (sysRun .guarded logF1 (sysInit 2) [.batch 0 3, .batch 1 2, .restart 1, .batch 1 1]).map (·.out) =
      [[(0, .plain), (1, .plain), (2, .conflict)], [(0, .plain), (1, .plain), (2, .conflict)]] ∧
    (sysRun .guarded logF10 (sysInit 2) [.batch 0 5, .batch 1 4, .batch 1 1]).map (·.out) =
      [[(0, .plain), (1, .plain), (2, .plain), (3, .plain), (4, .conflict)],
       [(0, .plain), (1, .plain), (2, .plain), (3, .plain), (4, .conflict)]] ∧
    (sysRun .guarded logOk (sysInit 1) [.batch 0 4]).map (·.out) =
      [[(0, .plain), (1, .plain), (2, .commit), (3, .commit)]] := by decide

/-! ### the tracker's `panic("saw later index …")` is unreachable -/

/-- For every log with increasing indexes, every algorithm variant, every schedule: whatever batch a replica
is handed next, no tracker lookup made while applying it finds an index above the entry being applied
(`hasModifiedEntry`/`hasModifiedListEntry` cannot panic). This discharges the only input class the model leaves
out of `applyBatch`. -/
theorem no_tracker_panic (log : List Entry) (hm : Mono log) (m : Mode) (k : Nat) (evs : List Ev) :
    ∀ nd ∈ sysRun m log (sysInit k) evs, ∀ n,
      batchPanics (m.fastOf nd.wm) nd.rep ((log.drop nd.pos).take n) = false := by
  intro nd hnd n
  have hb := sysRun_bnd m log hm evs (sysInit k) (by
    intro x hx
    rw [sysInit, List.mem_replicate] at hx
    rw [hx.2]
    exact NodeBnd_fresh log) nd hnd
  obtain ⟨hle, hmes⟩ := next_batch_bounds log hm nd n hb
  exact (loop_bound (m.fastOf nd.wm) nd.rep.latest _ nd.rep.latest 0 nd.rep.kv nd.rep.tracker hb.bnd hle hmes).1

/-- non-vacuity: without increasing indexes the panic condition is reachable (an entry replayed below a
recorded index) -/
example : batchPanics (fun _ => true) { kv := [], latest := 5, tracker := [(5, [kK])], cfg := 0 }
    [{ idx := 3, low := none, cmd := .data [.begin 1, .vread kK (some []), .commit] }] = true := by decide

/-! ### the verdict reported to the client -/

/-- **The leader tells the client the verdict its FSM reached**, for one-entry and for chunked operations alike (and
by the agreement theorems above that is the verdict of every replica whose tracker is complete; the real leader's
reports are compared with a real follower's verdicts, entry by entry, by stream `raftleader`). -/
theorem leader_reports_fsm_verdict (a : FsmAnswer) : reported a = a.verdict := by
  cases a <;> rfl

/-- looking for the sentinel before the chunking wrapper is removed (NOT the code; seeded change C09-3) reports a
rejected chunked transaction as committed -/
theorem report_before_unwrap_cex :
    reportedBeforeUnwrap (.wrapped .conflict) = .commit ∧ (FsmAnswer.wrapped .conflict).verdict = .conflict := by
  decide

/-! ### local snapshot persist -/

/-- **A local snapshot never changes what a replica is**: raft persists the snapshot taken at an earlier position
(`idx ≤ latest`) while the FSM has moved on; witnessing it leaves the replica — data, index, tracker, configuration —
exactly as it was, so every theorem above about schedules of `batch`/`restart`/`snap` holds unchanged with local
snapshots interleaved anywhere. -/
theorem local_snapshot_persist_is_identity (r : Replica) (idx : Nat) (h : idx ≤ r.latest) : r.witness idx = r := by
  unfold Replica.witness
  rw [if_neg (by omega)]

/-- the index of a replica never moves backwards through `witness`, whatever index is witnessed -/
theorem witness_latest_monotone (r : Replica) (idx : Nat) : r.latest ≤ (r.witness idx).latest := by
  unfold Replica.witness
  split <;> simp <;> omega

/-- **Finding F60 (repaired)**: with the witnessed index stored unconditionally, the replica that persisted its local
snapshot of position 1 after applying index 2 is back at index 1 = the start index of the transaction at index 3:
`canFastWrite` holds, every verification is skipped and the transaction commits — the replica that took no snapshot
rejects it. Same log, same batching, no restart, no snapshot install; the tracker still holds the conflicting write. -/
theorem snapshot_persist_regress_cex :
    let a := (applyBatch (fun _ => true) Replica.fresh (logF1.take 2)).1
    let b := a.witnessRegress 1
    (applyBatch (fun _ => true) a (logF1.drop 2)).2 = [.conflict] ∧
    (applyBatch (fun _ => true) b (logF1.drop 2)).2 = [.commit] ∧
    b.tracker = a.tracker ∧
    (applyBatch (fun _ => true) (a.witness 1) (logF1.drop 2)).2 = [.conflict] := by decide

/-! ### chunked entries -/

open Obao.RaftChunk in
/-- **Chunking is transparent as long as the replica is not restarted between the chunks**: for a chunking FSM that has
seen the current term and holds no chunk of operation `op`, the first chunk of a two-chunk operation is stored (nothing
is handed to the FSM) and the second one completes it — whatever chunks of other operations are held. -/
theorem chunks_complete_without_restart (c : Chunker) (h : c.termSeen = true) (op : Nat)
    (hfresh : ∀ s, (op, s) ∉ c.held) :
    (c.apply op 0 2).2 = false ∧ ((c.apply op 0 2).1.apply op 1 2).2 = true := by
  have hm0 := hfresh 0
  have hm1 := hfresh 1
  have hr : List.range 2 = [0, 1] := by decide
  constructor
  · simp [Chunker.apply, h, hm0, hm1, hr]
  · simp [Chunker.apply, h, hm0, hm1, hr]

open Obao.RaftChunk in
/-- **Finding F56**: restarted between the two chunks (the in-memory term is lost) the replica drops the stored first
chunk when the second arrives and never completes the operation — the replicas that were not restarted apply it. -/
theorem chunked_op_lost_after_restart_cex :
    let c : Chunker := { held := [], termSeen := true }
    ((c.apply 5 0 2).1.apply 5 1 2).2 = true ∧ (((c.apply 5 0 2).1.restart).apply 5 1 2).2 = false := by
  decide

/-! ### the leader-local clear of `Rollback` -/

theorem lowest_le_mem (l : List Nat) (s : Nat) (h : s ∈ l) : ∃ m, lowest l = some m ∧ m ≤ s := by
  induction l with
  | nil => cases h
  | cons a r ih =>
    rcases List.mem_cons.mp h with rfl | hr
    · cases hl : lowest r with
      | none => exact ⟨s, by simp [lowest, hl], Nat.le_refl _⟩
      | some b => exact ⟨min s b, by simp [lowest, hl], Nat.min_le_left _ _⟩
    · obtain ⟨m, hm, hle⟩ := ih hr
      exact ⟨min a m, by simp [lowest, hm], Nat.le_trans (Nat.min_le_right _ _) hle⟩

/-- **Rollback's local clear keeps what every open transaction still needs.** `Rollback` removes its own start index
from the active multiset (`completeTransaction`) and clears the leader's tracker below
`min(raft applied, lowestActiveIndex())` of what REMAINS: that bound is at most the start index of every transaction
still open — in particular of a sibling begun at the very same index — so no record such a transaction will be
verified against (records above its start index) is dropped. -/
theorem rollback_clear_keeps_open_windows (active : List Nat) (start raftApplied : Nat) :
    ∀ s ∈ active.erase start, capLow raftApplied (lowest (active.erase start)) ≤ s := by
  intro s hs
  obtain ⟨m, hm, hle⟩ := lowest_le_mem _ s hs
  rw [hm]
  exact Nat.le_trans (Nat.min_le_right _ _) hle

/-- **seeded change C09-4**: with the arithmetic of `lowestActiveIndexAfterCommit(start)` — which discounts one MORE
transaction at `start`, the committing caller that is still registered there — applied AFTER the rolled-back transaction
has already been removed, a sibling begun at the same index is discounted instead: two transactions at index 5, one
rolls back, raft has applied 9 — the leader clears below 9 although the sibling still needs the records 6..8. -/
theorem rollback_clear_after_commit_arith_cex :
    ∃ (active : List Nat) (start raftApplied s : Nat), s ∈ active.erase start ∧
      s < capLow raftApplied (lowest ((active.erase start).erase start)) :=
  ⟨[5, 5], 5, 9, 5, by decide, by decide⟩

end C09
