import Obao.Proofs.Expiration
/-!
C05 (second half) — every lease present in storage is tracked for expiry (or marked irrevocable after its retry
budget), also after a restart from any crash point; expired, non-renewable or irrevocable leases cannot be renewed;
a renewal never moves the expiry past issue time + maximum.

Model: `Obao/Model/Expiration.lean` (tied to the real `ExpirationManager` by stream `expiration`).
-/
namespace C05b
open Obao.Expiration Obao.TTL

/-- **tracked = stored, per unsealed namespace**, for EVERY history: after any finite sequence of operations —
creations (root namespace and the sealable namespaces), renewals, sync and lazy revocations, token revocations with
their cascade, time passing (`age`), backend failure modes, lost timers (`freeze`), restarts, namespace seals and
unseals INCLUDING unseals whose lease restore is still in flight while other leases are loaded (`unsealBegin` …
`unsealEnd`, any overlap of several namespaces' restores), and crashes at ANY point of any operation followed by a
restart (`crashRestart` puts an arbitrary set of lease entries into storage) — a lease id is held in `pending`,
`irrevocable` or `nonexpiring` iff it has an entry in storage whose namespace is not sealed and which is not the lease
an in-flight namespace restore has yet to reach. -/
theorem tracked_eq_stored (ops : List Op) (id : Nat) :
    (id ∈ (run St.init ops).pending ∨ id ∈ (run St.init ops).irrevocable ∨ id ∈ (run St.init ops).nonexpiring) ↔
    (∃ l ∈ (run St.init ops).stored, l.id = id ∧ unreachable (run St.init ops) l = false) := by
  have h := Inv_run ops St.init Inv_init
  exact (h.te id).trans (elig_iff _ id)

/-- In particular, right after ANY unseal of a namespace (however its earlier restores overlapped with loads of its
leases) every lease stored in that namespace is tracked. -/
theorem unseal_tracks_every_lease (ops : List Op) (ns : Nat) (now : Int) (l : Lease) :
    let s := run St.init (ops ++ [.unsealNs ns now])
    l ∈ s.stored → unreachable s l = false → (l.id ∈ s.pending ∨ l.id ∈ s.irrevocable ∨ l.id ∈ s.nonexpiring) := by
  intro s hl hu
  exact (tracked_eq_stored (ops ++ [.unsealNs ns now]) l.id).mpr ⟨l, hl, rfl, hu⟩

/-- The side invariant the unseal relies on: in every reachable state no `restoreLoaded` mark belongs to a sealed
namespace (`StopNamespace` clears the namespace's marks unconditionally) and none sits on a lease a restore still has
to reach — so `processRestore` never skips a lease that is not tracked. -/
theorem no_mark_in_sealed_namespace (ops : List Op) (m : Nat × Nat) (hm : m ∈ (run St.init ops).marks) :
    (run St.init ops).sealed.contains m.2 = false ∧ (run St.init ops).held.any (·.2 == m.1) = false :=
  (Inv_run ops St.init Inv_init).mlive m hm

/-- The restart half needs nothing of the memory before it (tracking maps, marks, restore mode, holds may be anything;
storage any map of lease entries): `Restore` rebuilds the tracking maps from whatever is stored in the namespaces
that are not sealed. -/
theorem restart_tracks_stored (s : St) (hw : WF s) (now : Int) (id : Nat) :
    (id ∈ (restart s now).pending ∨ id ∈ (restart s now).irrevocable ∨ id ∈ (restart s now).nonexpiring) ↔
    (∃ l ∈ (restart s now).stored, l.id = id ∧ unreachable (restart s now) l = false) :=
  ((Inv_restart s hw now).te id).trans (elig_iff _ id)

/-- the statement at full strength: an irrevocable, zero-expiry, expired or non-renewable lease cannot be renewed -/
def unrenewable_refused_full : Prop :=
  ∀ (s : St) (id : Nat) (incr now : Int) (l : Lease), find? s id = some l →
    (l.irrevocable = true ∨ l.expiry = none ∨ expired l now = true ∨ l.renewable = false) →
    ∃ e s', renew s id incr now = (s', .err e) ∧ s'.stored = s.stored

/-- **Finding F64**: the full statement is false on the current tree — a live, non-renewable secret lease that was
issued to a BATCH token is renewed (`leaseEntry.renewable` answers `(false, nil)` for it and `Renew` looks at the error
only; the existing test `TestExpiration_Register_BatchToken` depends on it). -/
theorem batch_lease_nonrenewable_renewed_cex : ¬ unrenewable_refused_full := by
  intro h
  have hf : find? (batchReg St.init 3600 7200 false 0).1 0 =
      some { id := 0, isAuth := false, owner := 0, issue := 0, expiry := some 3600, bttl := 3600, bmax := 7200,
             emax := 0, renewable := false, irrevocable := false, rootNonExp := false, batch := true } := by decide
  obtain ⟨e, s', he, _⟩ := h _ 0 60 10 _ hf (Or.inr (Or.inr (Or.inr rfl)))
  have hr : (renew (batchReg St.init 3600 7200 false 0).1 0 60 10).2 = .okTTL 60 := by decide
  rw [he] at hr
  cases hr

/-- `…_partial` (everything but F64): an irrevocable, zero-expiry or EXPIRED lease — whoever it was issued to — and a
non-renewable lease that was not issued to a batch token cannot be renewed: `Renew` answers with an error and leaves
storage (in particular the expiry) as it was. -/
theorem unrenewable_refused (s : St) (id : Nat) (incr now : Int) (l : Lease) (hl : find? s id = some l)
    (h : l.irrevocable = true ∨ l.expiry = none ∨ expired l now = true ∨ (l.renewable = false ∧ l.batch = false)) :
    ∃ e s', renew s id incr now = (s', .err e) ∧ s'.stored = s.stored := by
  unfold renew
  simp only [hl]
  split
  · exact ⟨_, _, rfl, rfl⟩
  · obtain ⟨e, he⟩ := renewableCheck_some l now h
    exact ⟨e, loadMark s l, by simp [he], (loadMark_frame s l).1⟩

/-- **Finding F63 (repaired)**: with the batch arm ABOVE the expiry check (the order before the repair) an expired lease
that was issued to a batch token — stored, its revocation pending or being retried — passed the check and was renewed. -/
theorem expired_batch_lease_order_cex :
    let l : Lease := { id := 0, isAuth := false, owner := 0, issue := 0, expiry := some 60, bttl := 60, bmax := 7200,
                       emax := 0, renewable := true, irrevocable := false, rootNonExp := false, batch := true }
    expired l 100 = true ∧ renewableCheckBatchFirst l 100 = none ∧ renewableCheck l 100 = some "expired" := by decide

/-- the same for tokens (`RenewToken`) -/
theorem unrenewable_token_refused (s : St) (id : Nat) (incr now : Int) (l : Lease) (hl : find? s id = some l)
    (h : l.irrevocable = true ∨ l.expiry = none ∨ expired l now = true ∨ (l.renewable = false ∧ l.batch = false)) :
    ∃ e s', tokRenew s id incr now = (s', .err e) ∧ s'.stored = s.stored := by
  unfold tokRenew
  split
  · exact ⟨_, _, rfl, rfl⟩
  · simp only [hl]
    obtain ⟨e, he⟩ := renewableCheck_some l now h
    exact ⟨e, loadMark s l, by simp [he], (loadMark_frame s l).1⟩

/-- A granted renewal of a secret lease ends no later than issue time + the effective maximum (the smallest positive
of system and backend maximum), whatever the increment and whenever it happens; the issue time is not rewritten. -/
theorem renew_within_max (s s' : St) (id : Nat) (incr now t : Int) (l : Lease) (hl : find? s id = some l)
    (h : renew s id incr now = (s', .okTTL t)) :
    now + t ≤ l.issue + effMax { now, start := l.issue, sysMax, sysDefault, increment := incr, backendTTL := l.bttl,
                                 period := 0, backendMax := l.bmax, explicitMax := 0 } ∧
    (∃ l' ∈ s'.stored, l'.id = id ∧ l'.issue = l.issue ∧ l'.expiry = some (now + t)) := by
  unfold renew at h
  simp only [hl] at h
  split at h
  · cases h
  · split at h
    · cases h
    · split at h
      · rename_i t' w hc
        simp only [Prod.mk.injEq, Out.okTTL.injEq] at h
        obtain ⟨hs, rfl⟩ := h
        refine ⟨calcTTL_nonperiodic_bound _ _ _ (Int.le_refl 0) hc, ?_⟩
        subst hs
        obtain ⟨hid, hmem⟩ := find?_some_id s id l hl
        refine ⟨{ l with expiry := some (now + t') }, ?_, hid, rfl, rfl⟩
        rw [(updatePending_frame _ _).1]
        exact mem_putLease _ _
      · cases h
      · cases h

/-- the same bound for a fresh secret lease (`reg`): its first expiry is within issue + effective maximum -/
theorem reg_within_max (s s' : St) (owner id : Nat) (ttl max t now : Int) (ren : Bool)
    (h : reg s owner ttl max ren now = (s', .okLease id t)) :
    now + t ≤ now + effMax { now, start := now, sysMax, sysDefault, increment := 0, backendTTL := ttl, period := 0,
                             backendMax := max, explicitMax := 0 } := by
  unfold reg at h
  split at h
  · cases h
  · split at h
    · rename_i t' w hc
      simp only [Prod.mk.injEq, Out.okLease.injEq] at h
      obtain ⟨_, _, rfl⟩ := h
      exact calcTTL_nonperiodic_bound _ _ _ (Int.le_refl 0) hc
    · cases h

/-- a granted token renewal ends no later than issue time + the effective maximum (system / explicit maximum) -/
theorem tokRenew_within_max (s s' : St) (id : Nat) (incr now t : Int) (l : Lease) (hl : find? s id = some l)
    (h : tokRenew s id incr now = (s', .okTTL t)) :
    now + t ≤ l.issue + effMax { now, start := l.issue, sysMax, sysDefault, increment := incr, backendTTL := l.bttl,
                                 period := 0, backendMax := 0, explicitMax := l.emax } := by
  unfold tokRenew at h
  split at h
  · cases h
  · simp only [hl] at h
    split at h
    · cases h
    · split at h
      · rename_i t' w hc
        simp only [Prod.mk.injEq, Out.okTTL.injEq] at h
        obtain ⟨_, rfl⟩ := h
        exact calcTTL_nonperiodic_bound _ _ _ (Int.le_refl 0) hc
      · cases h
      · cases h

/-- The revocation job of an expired secret lease, whatever the backend does (any failure mode, any number of
transient failures left): it ends with the lease gone from storage or marked irrevocable (entry flagged, id in the
`irrevocable` map), after at most `maxRevokeAttempts` = 6 backend calls. -/
theorem job_resolves_within_budget (s : St) (l : Lease) :
    let s' := secretJob (maxRevokeAttempts + 1) s l 0
    s'.calls ≤ s.calls + maxRevokeAttempts ∧
    ((¬ ∃ l' ∈ s'.stored, l'.id = l.id) ∨
      (l.id ∈ s'.irrevocable ∧ ∃ l' ∈ s'.stored, l'.id = l.id ∧ l'.irrevocable = true)) := by
  have := secretJob_budget (maxRevokeAttempts + 1) s l 0 (by omega) (by unfold maxRevokeAttempts; omega)
  exact ⟨by simpa using this.2.1, this.2.2⟩

/-- **… also when the storage read of the lease entry fails at the moment `OnFailure` wants to mark it**: with `f` such
failing reads (a storage outage that outlasts the retry budget), whatever the backend does, the job still ends with the
lease gone from storage or marked irrevocable, after at most `6 + f` backend calls (repair F66: the timer is re-armed). -/
theorem job_resolves_despite_failing_reads (s : St) (l : Lease) (f : Nat) :
    let s' := secretJobF (maxRevokeAttempts + 1 + f) s l 0 f
    s'.calls ≤ s.calls + maxRevokeAttempts + f ∧
    ((¬ ∃ l' ∈ s'.stored, l'.id = l.id) ∨
      (l.id ∈ s'.irrevocable ∧ ∃ l' ∈ s'.stored, l'.id = l.id ∧ l'.irrevocable = true)) := by
  have := secretJobF_budget (maxRevokeAttempts + 1 + f) s l 0 f (by omega) (by unfold maxRevokeAttempts; omega)
  exact ⟨by simpa using this.2.1, this.2.2⟩

/-- **Finding F66 (repaired)**: the job as it was — on that failing read `OnFailure` just returned. With a backend that
keeps failing, the lease of this history ends stored, expired, still "pending" (so the tracking invariant holds) and NOT
irrevocable: its timer has fired and nothing on the node will ever try again. -/
theorem revoke_retry_dropped_cex :
    let s0 := (run St.init [.tokCreate 14400 0 true 0, .reg 0 3600 7200 true 1, .setFail .always])
    let l : Lease := { id := 1, isAuth := false, owner := 0, issue := 1, expiry := some 2, bttl := 3600, bmax := 7200,
                       emax := 0, renewable := true, irrevocable := false, rootNonExp := false }
    let s := updatePending (putLease s0 l) l
    let d := secretJobDrop (maxRevokeAttempts + 1) s l 0
    (∃ l' ∈ d.stored, l'.id = 1 ∧ l'.irrevocable = false ∧ expired l' 10 = true) ∧ 1 ∈ d.pending ∧ 1 ∉ d.irrevocable ∧
    (let r := secretJobF (maxRevokeAttempts + 2) s l 0 1; 1 ∈ r.irrevocable ∧ r.calls = 7) := by
  decide

/-- The timers: when `settle` has run (strategy live, fuel not exhausted), no lease tracked in `pending` is at or past
its expiry — each expired one was revoked or moved to `irrevocable`. -/
theorem tick_resolves_expired (fuel : Nat) (s : St) (now : Int) (hfr : s.frozen = false)
    (hfuel : (settle fuel s now).outOfFuel = false) (l : Lease) (hl : l ∈ (settle fuel s now).stored)
    (hp : l.id ∈ (settle fuel s now).pending) (e : Int) (he : l.expiry = some e) : now < e := by
  have := settle_resolves fuel s now hfr hfuel l hl hp
  simpa [he] using this

/-- **A restore whose storage reads may fail never leaves the node active with a stored lease untracked.**  For every
set of failing lease reads, every list of collected leases and every memory before: if the restore completes
(`restoreF … = some s'`; otherwise `errorFunc` shuts the core down / seals the namespace again) then it is the
fault-free restore, no collected lease's read failed, and every collected lease is tracked in `s'`. -/
theorem restore_completes_only_with_every_lease_tracked (fail : Nat → Bool) (ls : List Lease) (s s' : St)
    (h : restoreF fail ls s = some s') :
    s' = restore ls s ∧ (∀ l ∈ ls, fail l.id = false) ∧
    ∀ l ∈ ls, (l.id ∈ s'.pending ∨ l.id ∈ s'.irrevocable ∨ l.id ∈ s'.nonexpiring) := by
  obtain ⟨h1, h2⟩ := (restoreF_some fail ls s s').mp h
  refine ⟨h1, h2, fun l hl => ?_⟩
  have := (tracked_restore ls s l.id).mpr (Or.inr ⟨l, hl, rfl⟩)
  rw [h1]; exact this

/-- A leadership-change restart during which the read of a stored, reachable lease's entry fails inside the restore
ends in `errorFunc` (shutdown) — for every state, every such lease. -/
theorem restart_fault_shuts_down (s : St) (now : Int) (l : Lease) (hl : l ∈ s.stored)
    (hs : s.sealed.contains l.ns = false) : (restartFault s l.id now).2 = .err "shutdown" := by
  unfold restartFault
  simp only
  have : restoreF (fun x => x == l.id) (List.filter (fun l' => !s.sealed.contains l'.ns) s.stored)
      { s with pending := [], irrevocable := [], nonexpiring := [], frozen := false, marks := [], restoreMode := 0,
               held := [] } = none := by
    cases hr : restoreF (fun x => x == l.id) (List.filter (fun l' => !s.sealed.contains l'.ns) s.stored)
      { s with pending := [], irrevocable := [], nonexpiring := [], frozen := false, marks := [], restoreMode := 0,
               held := [] } with
    | none => rfl
    | some s' =>
      have := ((restoreF_some _ _ _ _).mp hr).2 l (List.mem_filter.mpr ⟨hl, by rw [hs]; rfl⟩)
      simp at this
  rw [this]; rfl

/-- The same for a namespace unseal: the unseal fails and the state is what it was (the namespace sealed, nothing of
it tracked) whenever the failing read is that of a lease stored in the namespace. -/
theorem unseal_fault_fails_and_stays_sealed (s : St) (ns : Nat) (now : Int) (l : Lease) (hl : l ∈ s.stored)
    (hns : l.ns = ns) (hsealed : s.sealed.contains ns = true) :
    unsealNsFault s ns l.id now = (s, .err "unseal") := by
  unfold unsealNsFault
  simp only [hsealed, Bool.not_true, Bool.false_eq_true, ↓reduceIte]
  cases hr : restoreF (fun x => x == l.id) (nsLeases s ns) s with
  | none => rfl
  | some s' =>
    have := ((restoreF_some _ _ _ _).mp hr).2 l ((mem_nsLeases s ns l).mpr ⟨hl, hns⟩)
    simp at this

/-- The variant that logs and skips an unreadable entry (NOT the code; the seeded change C05-3) completes and leaves a
stored lease without any tracking: the property needs the restore to fail as a whole. -/
theorem restore_skip_cex :
    ∃ (ls : List Lease) (s : St) (fail : Nat → Bool) (l : Lease), l ∈ ls ∧
      ¬ (l.id ∈ (restoreSkip fail ls s).pending ∨ l.id ∈ (restoreSkip fail ls s).irrevocable ∨
         l.id ∈ (restoreSkip fail ls s).nonexpiring) := by
  refine ⟨[{ id := 1, isAuth := false, owner := 0, issue := 0, expiry := some 3600, bttl := 3600, bmax := 0, emax := 0,
             renewable := true, irrevocable := false, rootNonExp := false, ns := 0 }], St.init, (· == 1), _,
          List.mem_singleton.mpr rfl, ?_⟩
  decide

/-! ### non-vacuity -/

/-- a faulted restart of a state with two stored leases: shutdown, and after the operator's restart both are tracked -/
example :
    let s := run St.init [.tokCreate 14400 0 true 0, .reg 0 3600 7200 true 1]
    (restartFault s 1 2).2 = .err "shutdown" ∧ (restartFault s 1 2).1.pending = [0, 1] ∧
    (restartFault s 7 2).2 = .ok := by
  decide

/-- the history of the seeded defect: a lease of namespace 2 is renewed while namespace 1's restore is in flight (its
mark outlives that restore), then namespace 2 is sealed and unsealed — the lease is tracked again; and the mark is
really there in between -/
example :
    let ops : List Op := [.tokCreate 14400 0 true 0, .nsReg 1 3600 7200 true 1, .nsReg 2 3600 7200 true 2, .sealNs 1,
      .unsealBegin 1 1 3, .renew 2 60 4, .unsealEnd 1 5]
    (run St.init ops).marks = [(2, 2)] ∧ (run St.init (ops ++ [.sealNs 2])).marks = [] ∧
    (run St.init (ops ++ [.sealNs 2])).pending = [0, 1] ∧
    (run St.init (ops ++ [.sealNs 2, .unsealNs 2 6])).pending = [0, 1, 2] := by
  decide

/-- a history with a creation, a renewal capped by the backend maximum, a lazy revocation under a failing backend
(→ irrevocable after 6 calls), and a restart: tracked = stored holds and is non-trivial -/
example :
    let s := run St.init [.tokCreate 14400 0 true 0, .reg 0 3600 7200 true 1, .renew 1 36000 2, .setFail .always,
                          .revoke 1 false 3, .restart 4]
    s.stored.map (·.id) = [0, 1] ∧ s.pending = [0] ∧ s.irrevocable = [1] ∧ s.calls = 6 ∧ s.outOfFuel = false := by
  decide
/-- the capped renewal above: asked 36000 s, granted issue + 7200 − now -/
example : (renew (run St.init [.tokCreate 14400 0 true 0, .reg 0 3600 7200 true 1]) 1 36000 2).2 = .okTTL 7199 := by
  decide
/-- an irrevocable lease is refused -/
example : (renew (run St.init [.tokCreate 14400 0 true 0, .reg 0 3600 7200 true 1, .setFail .unrecoverable,
    .revoke 1 false 2]) 1 60 3).2 = .err "irrevocable" := by decide
/-- a crash that leaves an arbitrary lease entry behind: the restart tracks it -/
example : (run St.init [.crashRestart [⟨7, false, 0, 0, some 100, 60, 0, 0, true, false, false, 0, false⟩] 5]).pending = [7] := by
  decide

/-! ### deleting a namespace -/

/-- **Deleting a namespace revokes what it leased**: with a backend that accepts revocations, every secret lease of the
deleted namespace has been revoked at its backend when the deletion returns (and its entry is gone from storage). -/
theorem ns_delete_revokes_leases (s : St) (ns : Nat) (hf : s.fail = .none) (s' : St)
    (h : nsDelete s ns = (s', .ok)) : ∀ l ∈ nsLeases s ns, l.id ∈ s'.revoked := by
  unfold nsDelete at h
  split at h
  · cases h
  · injection h with h _
    subst h
    have key : ∀ (ls : List Lease) (s0 : St), s0.fail = .none →
        (∀ l ∈ ls, l.id ∈ (ls.foldl (fun s l => untrack (delLease (backendRevoke s l.id).2 l.id) l.id) s0).revoked) ∧
        (∀ x ∈ s0.revoked, x ∈ (ls.foldl (fun s l => untrack (delLease (backendRevoke s l.id).2 l.id) l.id) s0).revoked) := by
      intro ls
      induction ls with
      | nil => intro s0 _; exact ⟨fun l hl => absurd hl (List.not_mem_nil), fun x hx => hx⟩
      | cons a t ih =>
        intro s0 hf0
        simp only [List.foldl_cons]
        have hstep : (untrack (delLease (backendRevoke s0 a.id).2 a.id) a.id).fail = .none ∧
            (∀ x, x ∈ s0.revoked ∨ x = a.id → x ∈ (untrack (delLease (backendRevoke s0 a.id).2 a.id) a.id).revoked) := by
          have e1 : (backendRevoke s0 a.id).2 = { s0 with calls := s0.calls + 1, revoked := s0.revoked ++ [a.id] } := by
            unfold backendRevoke
            simp only [hf0]
          rw [e1]
          refine ⟨hf0, fun x hx => ?_⟩
          show x ∈ s0.revoked ++ [a.id]
          rcases hx with hx | rfl
          · exact List.mem_append_left _ hx
          · exact List.mem_append_right _ (List.mem_singleton.mpr rfl)
        obtain ⟨i1, i2⟩ := ih _ hstep.1
        refine ⟨fun l hl => ?_, fun x hx => i2 x (hstep.2 x (Or.inl hx))⟩
        rcases List.mem_cons.mp hl with rfl | hl
        · exact i2 _ (hstep.2 _ (Or.inr rfl))
        · exact i1 l hl
    exact (key _ s hf).1

/-- **Finding F90 (repaired)**: with the namespace's `sys/` view (its lease entries) wiped before the other mounts are
unmounted, the leases vanish from storage and nothing is revoked. -/
theorem ns_delete_wipe_first_cex :
    let s := run St.init [.nsReg 1 3600 7200 true 1, .nsReg 1 600 3600 true 2]
    (nsDeleteWipeFirst s 1).revoked = [] ∧ (nsDeleteWipeFirst s 1).stored = [] ∧ (nsDelete s 1).1.revoked = [0, 1] := by
  decide

end C05b
