import Obao.Proofs.PKIRevokeNum
import Obao.Proofs.PKIRevokeConc
import Obao.Model.PKIReport
/-! C16 — a revoked certificate is reported revoked everywhere until it expires.
Model: `Obao/Model/PKIRevoke.lean` (requests as programs of storage writes; `Run.cut = some j` = a storage
failure or crash after `j` writes; `Run.o1/o2` = the runtime's order of per-issuer CRL writes).  Histories are
arbitrary lists of `Run`s: every theorem quantified over `h : List Run` holds for all request sequences, all
orders, and all interruption points of all requests. -/
namespace C16
open Obao.PKIRevoke

/-- **revoked everywhere.**  Once `revoked/<serial>` of certificate `k` is recorded (stamp `t`) — in particular
after a revoke that answered success, see `revoke_success_recorded` — then after EVERY later history (any
requests — including imports of issuers whose own certificate carries this very serial number —, orders, faults,
crashes, restarts): as long as the certificate is unexpired the record is unchanged,
`cert/<serial>` reports it revoked with the same time, OCSP answers revoked while its issuer exists, and EVERY
complete CRL written for its issuer since then (while the CRL is not disabled) lists it. -/
theorem revoked_everywhere (s : St) (k : Nat) (c : Cert) (t : Nat)
    (hc : s.certs[k]? = some c) (hrev : s.revoked.lookup k = some t) (h : List Run) :
    ((run s h).now ≤ c.notAfter →
        (run s h).revoked.lookup k = some t ∧
        (k ∈ s.stored → status (run s h) k = .revoked t) ∧
        (c.issuer ∈ (run s h).issuers → ocsp (run s h) k = .revoked)) ∧
    (∀ e ∈ (run s h).log, e ∈ s.log ∨
        (e.issuer = c.issuer → e.delta = false → e.disabled = false → e.now ≤ c.notAfter → k ∈ e.serials)) := by
  have hinv : Inv ⟨k, c, t⟩ (decide (k ∈ s.stored)) s := ⟨hc, fun _ => ⟨hrev, fun h => of_decide_eq_true h⟩⟩
  have hlog : LogInv ⟨k, c, t⟩ s.log s := fun e he => Or.inl he
  obtain ⟨⟨hc', hr'⟩, hl'⟩ := inv_run ⟨k, c, t⟩ _ s.log h s hinv hlog
  refine ⟨fun hn => ?_, hl'⟩
  obtain ⟨h1, h2⟩ := hr' hn
  refine ⟨h1, fun hs => ?_, fun hi => ?_⟩
  · have : k ∈ (run s h).stored := h2 (decide_eq_true hs)
    simp [status, this, h1]
  · simp only [ocsp]
    simp only at hc'
    rw [hc']
    simp [hi, isRevoked_of_lookup _ _ _ h1]

/-- non-vacuity of `revoked_everywhere`: a concrete history (issuer, certificate, revoke, second issuer, tidy,
rotate) in which the hypotheses hold and CRLs are written afterwards -/
example :
    let s := run init [⟨.addIssuer, [1], [1], none⟩, ⟨.issue 1 3600, [], [], none⟩, ⟨.revoke 0 false, [1], [1], none⟩]
    s.certs[0]? = some ⟨1, 3700⟩ ∧ s.revoked.lookup 0 = some 1 ∧
    ((run s [⟨.importIssuer (some 0), [2, 1], [1, 2], none⟩, ⟨.tidy true true true, [1, 2], [1, 2], none⟩,
             ⟨.rotate, [2, 1], [2, 1], none⟩]).log.map fun e => (e.issuer, e.number, e.serials)).take 3
      = [(1, 8, []), (2, 4, []), (1, 7, [0])] := by decide

/-- a revoke that answers success has recorded the revocation with the stamp it reports -/
theorem revoke_success_recorded (s : St) (k : Nat) (byCert : Bool) (o1 o2 : List Nat) (t : Nat)
    (h : answer s ⟨.revoke k byCert, o1, o2, none⟩ = .revoked t) :
    (exec s ⟨.revoke k byCert, o1, o2, none⟩).revoked.lookup k = some t := by
  simp only [answer, exec, prog, cutSteps] at h ⊢
  have hpre : ∀ st ∈ revokePre s k byCert, Keeps k t st := by
    intro st hst; rw [revokePre_kind s k byCert st hst]; trivial
  rcases revokeProg_revoked s k byCert o1 o2 t h with ⟨hl, hp⟩ | ⟨_, _, hp⟩
  · rw [hp]
    apply keeps_steps k t _ s hl
    intro st hst
    rcases List.mem_append.mp hst with h | h
    · exact hpre st h
    · split at h
      · simp at h
      · exact rebuild_keeps _ _ _ _ _ _ st h
  · rw [hp, applySteps_append, applySteps_append]
    apply keeps_steps
    · simp [applySteps, applyStep, lookup_setAssoc_self]
    · intro st hst
      split at hst
      · simp at hst
      · exact rebuild_keeps _ _ _ _ _ _ st hst

/-- **revocation is idempotent**: revoking an already revoked (stored) certificate answers the FIRST revocation's
stamp and leaves the revocation store exactly as it was — whatever the orders and wherever the call is interrupted
(unless a present issuer's own certificate carries the same serial number: then the code refuses, `Res.isIssuer`);
since the repair of F5 it re-publishes the CRLs when auto-rebuild is off, and writes nothing at all when it is on -/
theorem revoke_idempotent (s : St) (k : Nat) (c : Cert) (t : Nat) (byCert : Bool) (o1 o2 : List Nat) (cut : Option Nat)
    (hc : s.certs[k]? = some c) (hrev : s.revoked.lookup k = some t) (hs : k ∈ s.stored)
    (hcol : collides s k = false) :
    answer s ⟨.revoke k byCert, o1, o2, cut⟩ = .revoked t ∧
    (exec s ⟨.revoke k byCert, o1, o2, cut⟩).revoked = s.revoked ∧
    (s.cfg.autoRebuild = true → exec s ⟨.revoke k byCert, o1, o2, cut⟩ = s) := by
  have hp : prog s o1 o2 (.revoke k byCert) =
      (if s.cfg.autoRebuild then [] else rebuildSteps s false o1 o2, .revoked t) := by
    simp only [prog, revokeProg, hc, hs, hrev, revokePre, hcol]
    cases s.cfg.autoRebuild <;> simp [applySteps]
  refine ⟨by simp [answer, hp], ?_, fun ha => ?_⟩
  · simp only [exec, hp]
    refine (frameRevoked_steps _ s (fun st hst => ?_)).1
    have hst := cutSteps_sub _ _ st hst
    split at hst
    · simp at hst
    · exact rebuild_frameRevoked _ _ _ _ st hst
  · simp only [exec, hp, ha, ↓reduceIte]
    cases cut <;> simp [cutSteps, applySteps]

example : let s := run init [⟨.addIssuer, [1], [1], none⟩, ⟨.issue 1 3600, [], [], none⟩, ⟨.revoke 0 false, [1], [1], none⟩]
    s.certs[0]? = some ⟨1, 3700⟩ ∧ s.revoked.lookup 0 = some 1 ∧ 0 ∈ s.stored ∧ collides s 0 = false := by decide

/-- **no request removes or alters another certificate's revocation entry** — for EVERY request, orders and
interruption point: an existing entry `(k', t')` is still there with the same stamp afterwards, the only exception
being a tidy run, and only for a certificate past its NotAfter by more than the safety buffer.  (For `revoke k`
this is "revocation never removes or alters other revocation entries".) -/
theorem entries_preserved (s : St) (r : Run) (k' t' : Nat) (hl : s.revoked.lookup k' = some t') :
    (exec s r).revoked.lookup k' = some t' ∨ (isTidy r.op = true ∧ tidyExpired s k' = true) := by
  by_cases hx : isTidy r.op = true ∧ tidyExpired s k' = true
  · exact Or.inr hx
  · left
    exact keeps_steps k' t' _ s hl
      (fun st hst => prog_keeps k' t' s r.o1 r.o2 r.op hl hx st (cutSteps_sub _ _ st hst))

theorem revoke_preserves_others (s : St) (k : Nat) (byCert : Bool) (o1 o2 : List Nat) (cut : Option Nat)
    (k' t' : Nat) (hl : s.revoked.lookup k' = some t') :
    (exec s ⟨.revoke k byCert, o1, o2, cut⟩).revoked.lookup k' = some t' := by
  rcases entries_preserved s ⟨.revoke k byCert, o1, o2, cut⟩ k' t' hl with h | h
  · exact h
  · simp [isTidy] at h

/-- **the served CRL lists the serial once revoke has returned** (auto-rebuild off, CRL enabled): in EVERY state —
whether this call records the revocation itself or finds it already recorded — when revoke answers success, the CRL
served for the certificate's issuer in the very state the call leaves behind contains the serial, for every order in
which the runtime writes the CRLs. -/
theorem served_crl_lists_serial (s : St) (k : Nat) (c : Cert) (byCert : Bool) (o1 o2 : List Nat) (t : Nat)
    (hc : s.certs[k]? = some c)
    (hauto : s.cfg.autoRebuild = false) (hdis : s.cfg.disable = false)
    (hi : c.issuer ∈ s.issuers) (ho : c.issuer ∈ o1)
    (hans : answer s ⟨.revoke k byCert, o1, o2, none⟩ = .revoked t) :
    ∃ n ser, served (exec s ⟨.revoke k byCert, o1, o2, none⟩) c.issuer = some (n, ser) ∧ k ∈ ser := by
  simp only [answer, exec, prog, cutSteps] at hans ⊢
  rcases revokeProg_revoked s k byCert o1 o2 t hans with ⟨hl, hp⟩ | ⟨_, _, hp⟩
  · obtain ⟨p1, p2, p3, p4⟩ := pre_state s k byCert
    rw [hp, hauto, applySteps_append]
    simp only [Bool.false_eq_true, ↓reduceIte]
    rw [rebuild_serves _ false o1 o2 c.issuer (by rw [p2]; exact hi) ho (by rw [p3, hdis]; rfl)]
    refine ⟨_, _, rfl, ?_⟩
    rw [p3, hdis]
    simp only [Bool.false_eq_true, ↓reduceIte]
    exact mem_crlSerials _ ⟨k, c, t⟩ (by rw [p1]; exact hc) (by rw [p4]; exact hl) (by rw [p2]; exact hi)
  · obtain ⟨h1, h2, h3, h4⟩ := rec1_state s k t byCert
    rw [hp, hauto, applySteps_append]
    simp only [Bool.false_eq_true, ↓reduceIte]
    rw [rebuild_serves _ false o1 o2 c.issuer (by rw [h2]; exact hi) ho (by rw [h3, hdis]; rfl)]
    refine ⟨_, _, rfl, ?_⟩
    rw [h3, hdis]
    simp only [Bool.false_eq_true, ↓reduceIte]
    exact mem_crlSerials _ ⟨k, c, t⟩ (by rw [h1]; exact hc) h4 (by rw [h2]; exact hi)

example : let s := run init [⟨.addIssuer, [1], [1], none⟩, ⟨.issue 1 3600, [], [], none⟩]
    s.certs[0]? = some ⟨1, 3700⟩ ∧ s.revoked.lookup 0 = none ∧ s.cfg.autoRebuild = false ∧ s.cfg.disable = false ∧
    1 ∈ s.issuers ∧ answer s ⟨.revoke 0 false, [1], [1], none⟩ = .revoked 1 ∧
    served (exec s ⟨.revoke 0 false, [1], [1], none⟩) 1 = some (3, [0]) := by decide

/-- a recorded revocation is on the next complete CRL of its issuer (any request that rebuilds; here `crl/rotate`) -/
theorem next_rebuild_lists_revoked (s : St) (k : Nat) (c : Cert) (t : Nat) (o1 o2 : List Nat)
    (hc : s.certs[k]? = some c) (hrev : s.revoked.lookup k = some t) (hdis : s.cfg.disable = false)
    (hi : c.issuer ∈ s.issuers) (ho : c.issuer ∈ o1) :
    ∃ n ser, served (exec s ⟨.rotate, o1, o2, none⟩) c.issuer = some (n, ser) ∧ k ∈ ser := by
  simp only [exec, prog, cutSteps]
  rw [rebuild_serves s false o1 o2 c.issuer hi ho (by rw [hdis]; rfl)]
  refine ⟨_, _, rfl, ?_⟩
  rw [hdis]
  exact mem_crlSerials s ⟨k, c, t⟩ hc hrev hi

/-- **crash anywhere inside a revocation, then restart** (restart keeps the model state: nothing volatile matters).
For EVERY number `j` of writes that took effect before the crash: either the revocation record is not durable and
the revocation store is exactly as before (the client's retry is a fresh revoke), or the record is durable with
the stamp the call would have reported, `cert/<serial>` already reports it, and the next complete rebuild lists the
serial on its issuer's CRL (for all later histories see `revoked_everywhere`). -/
theorem revoke_restart (s : St) (k : Nat) (c : Cert) (byCert : Bool) (o1 o2 : List Nat) (j : Nat)
    (hc : s.certs[k]? = some c) (hnew : s.revoked.lookup k = none) :
    let s' := exec s ⟨.revoke k byCert, o1, o2, some j⟩
    (s'.revoked = s.revoked) ∨
    (s'.revoked.lookup k = some (s.stamps + 1) ∧
      ∀ o1' o2', s'.cfg.disable = false → c.issuer ∈ s'.issuers → c.issuer ∈ o1' →
        ∃ n ser, served (exec s' ⟨.rotate, o1', o2', none⟩) c.issuer = some (n, ser) ∧ k ∈ ser) := by
  intro s'
  have key : ∀ l : List Step, (∀ st ∈ l, st = Step.putRevoked k (s.stamps + 1) ∨ frameRevoked st = true) →
      ∀ cur : St, cur.certs = s.certs → (cur.revoked = s.revoked ∨ cur.revoked.lookup k = some (s.stamps + 1)) →
        (applySteps cur l).certs = s.certs ∧
        ((applySteps cur l).revoked = s.revoked ∨ (applySteps cur l).revoked.lookup k = some (s.stamps + 1)) := by
    intro l
    induction l with
    | nil => intro _ cur h1 h2; exact ⟨h1, h2⟩
    | cons a l ih =>
      intro hl cur h1 h2
      rw [applySteps_cons]
      refine ih (fun st h => hl st (List.mem_cons_of_mem _ h)) _ ?_ ?_
      · rcases hl a (List.mem_cons_self ..) with rfl | h
        · exact h1
        · rw [(frameRevoked_step cur a h).2]; exact h1
      · rcases hl a (List.mem_cons_self ..) with rfl | h
        · right; simp [applyStep, lookup_setAssoc_self]
        · rw [(frameRevoked_step cur a h).1]; exact h2
  have hsteps : ∀ st ∈ (revokeProg s k byCert o1 o2).1, st = Step.putRevoked k (s.stamps + 1) ∨ frameRevoked st = true := by
    intro st hst
    rcases revoke_step_kind s k byCert o1 o2 st hst with rfl | rfl | ⟨s', f, h⟩
    · right; rfl
    · left; rfl
    · right; exact rebuild_frameRevoked s' f o1 o2 st h
  have hfin : s'.certs = s.certs ∧ (s'.revoked = s.revoked ∨ s'.revoked.lookup k = some (s.stamps + 1)) :=
    key ((revokeProg s k byCert o1 o2).1.take j) (fun st h => hsteps st (List.mem_of_mem_take h)) s rfl (Or.inl rfl)
  obtain ⟨hcerts, h | h⟩ := hfin
  · left; exact h
  · right
    refine ⟨h, fun o1' o2' hd hi ho => ?_⟩
    exact next_rebuild_lists_revoked s' k c (s.stamps + 1) o1' o2' (by rw [hcerts]; exact hc) h hd hi ho

/-- non-vacuity: both outcomes of `revoke_restart` occur (crash before / after the record write) -/
example : let s := run init [⟨.addIssuer, [1], [1], none⟩, ⟨.issue 1 3600, [], [], none⟩]
    (exec s ⟨.revoke 0 false, [1], [1], some 0⟩).revoked = s.revoked ∧
    (exec s ⟨.revoke 0 false, [1], [1], some 1⟩).revoked.lookup 0 = some 1 ∧
    served (exec s ⟨.revoke 0 false, [1], [1], some 1⟩) 1 = some (1, []) := by decide

/-! ### storage failure or crash inside a revocation, then a retry (findings F5 / F16, repaired by e3ecbb3) -/

/-- **fault / crash, then retry.**  Interrupt a revoke after ANY number `j` of its writes — a storage failure that
makes the call return an error, or a crash followed by a restart (a restart keeps the model state) — under any
write orders; then retry.  Whenever the retry answers success (auto-rebuild off, CRL enabled, issuer present), the
CRL served for the issuer in the state the retry leaves behind lists the serial.  This was false before the repair
(`j = 1`: record written, CRL not; the retry answered success without rebuilding). -/
theorem revoke_fault_retry (s : St) (k : Nat) (c : Cert) (byCert : Bool) (o1 o2 o1' o2' : List Nat) (j t : Nat)
    (hc : s.certs[k]? = some c) (hauto : s.cfg.autoRebuild = false) (hdis : s.cfg.disable = false)
    (hi : c.issuer ∈ s.issuers) (ho : c.issuer ∈ o1')
    (hans : answer (exec s ⟨.revoke k byCert, o1, o2, some j⟩) ⟨.revoke k byCert, o1', o2', none⟩ = .revoked t) :
    ∃ n ser, served (exec (exec s ⟨.revoke k byCert, o1, o2, some j⟩) ⟨.revoke k byCert, o1', o2', none⟩) c.issuer
      = some (n, ser) ∧ k ∈ ser := by
  have hfr : (exec s ⟨.revoke k byCert, o1, o2, some j⟩).certs = s.certs ∧
      (exec s ⟨.revoke k byCert, o1, o2, some j⟩).issuers = s.issuers ∧
      (exec s ⟨.revoke k byCert, o1, o2, some j⟩).cfg = s.cfg :=
    frameCI_steps _ s (fun st hst => revoke_frameCI s k byCert o1 o2 st (List.mem_of_mem_take hst))
  obtain ⟨f1, f2, f3⟩ := hfr
  exact served_crl_lists_serial _ k c byCert o1' o2' t (by rw [f1]; exact hc) (by rw [f3]; exact hauto)
    (by rw [f3]; exact hdis) (by rw [f2]; exact hi) ho hans

/-- non-vacuity, on the former F5 witness: the first revoke is cut right after `revoked/<serial>` was written; the
retry answers success with the recorded stamp and now serves CRL 3 listing the serial -/
example : let s := run init [⟨.addIssuer, [1], [1], none⟩, ⟨.issue 1 3600, [], [], none⟩]
    s.certs[0]? = some ⟨1, 3700⟩ ∧ s.cfg.autoRebuild = false ∧ s.cfg.disable = false ∧ 1 ∈ s.issuers ∧
    (exec s ⟨.revoke 0 false, [1], [1], some 1⟩).revoked.lookup 0 = some 1 ∧
    served (exec s ⟨.revoke 0 false, [1], [1], some 1⟩) 1 = some (1, []) ∧
    answer (exec s ⟨.revoke 0 false, [1], [1], some 1⟩) ⟨.revoke 0 false, [1], [1], none⟩ = .revoked 1 ∧
    served (exec (exec s ⟨.revoke 0 false, [1], [1], some 1⟩) ⟨.revoke 0 false, [1], [1], none⟩) 1 = some (3, [0]) := by
  decide

/-! ### importing issuers whose own certificate shares a serial number with a revoked certificate

`revoked_everywhere`, `entries_preserved`, `revoke_restart`, `revoke_fault_retry` quantify over ALL histories, and
`Op.importIssuer` (an externally built CA, possibly carrying the serial number of an already revoked certificate of
another issuer) is one of the requests.  The model-level reason they survive such imports: a CRL's content is
decided by ASSOCIATION (the certificate's issuer), and the "skip an issuer's own certificate" rule of
`getLocalRevokedCertEntries` is keyed by certificate identity — the certificates of the table are never issuer
certificates — so `crlSerials` never consults `issuerSerial`; only `revokeCert`'s refusal (`collides`) does. -/

/-- the content of every CRL is independent of which issuers' own certificates share serial numbers with whom -/
theorem crl_content_ignores_serial_collisions (s : St) (x : List (Nat × Nat)) (i : Nat) :
    crlSerials { s with issuerSerial := x } i = crlSerials s i := rfl

/-- a revoked certificate is on the CRL content of exactly the issuer it is associated with -/
theorem crl_content_by_association (s : St) (k i : Nat) :
    k ∈ crlSerials s i ↔ k ∈ s.revoked.map Prod.fst ∧ assigned s k = some i := by
  simp [crlSerials, List.mem_filter]

/-- importing an issuer — colliding serial or not, interrupted anywhere or not — changes neither the revocation
store nor the certificate table -/
theorem import_keeps_revocation_store (s : St) (col : Option Nat) (o1 o2 : List Nat) (cut : Option Nat) :
    (exec s ⟨.importIssuer col, o1, o2, cut⟩).revoked = s.revoked ∧
    (exec s ⟨.importIssuer col, o1, o2, cut⟩).certs = s.certs := by
  have hadd : ∀ s' : St, ∀ st ∈ (addIssuerProg s' o1 o2).1, frameRevoked st = true := by
    intro s' st hst
    simp only [addIssuerProg, List.mem_append, List.mem_singleton] at hst
    rcases hst with (rfl | h) | h
    · rfl
    · split at h
      · simp only [List.mem_singleton] at h; subst h; rfl
      · simp at h
    · exact rebuild_frameRevoked _ _ _ _ st h
  refine frameRevoked_steps _ s (fun st hst => ?_)
  have hst := cutSteps_sub _ _ st hst
  cases col with
  | none => exact hadd s st hst
  | some k =>
    simp only [prog, importIssuerProg] at hst
    split at hst
    · simp at hst
    · rcases List.mem_cons.mp hst with rfl | h
      · rfl
      · exact hadd _ st h

/-- the scenario of the seeded change, in the model: leaf #1 of issuer 1 is revoked and listed; then a CA whose own
certificate carries the leaf's serial number is imported (with a forced rebuild), then `crl/rotate`: both complete
CRLs of issuer 1 written afterwards (numbers 5 and 7) list the leaf, status and OCSP stay "revoked", and a further
revoke of that serial is refused because it now also is an issuer's serial -/
example :
    let s := run init [⟨.addIssuer, [1], [1], none⟩, ⟨.craft 1 true, [], [], none⟩, ⟨.revoke 0 true, [1], [1], none⟩]
    let s' := run s [⟨.importIssuer (some 0), [2, 1], [1, 2], none⟩, ⟨.rotate, [1, 2], [2, 1], none⟩]
    s.certs[0]? = some ⟨1, 3700⟩ ∧ s.revoked.lookup 0 = some 1 ∧ collides s' 0 = true ∧
    ((s'.log.filter fun e => e.issuer == 1 && !e.delta).map fun e => (e.number, e.serials)) = [(7, [0]), (5, [0]), (3, [0]), (1, [])] ∧
    status s' 0 = .revoked 1 ∧ ocsp s' 0 = .revoked ∧ served s' 1 = some (7, [0]) ∧
    answer s' ⟨.revoke 0 true, [1, 2], [1, 2], none⟩ = .isIssuer := by decide

/-! ### one revoke running concurrently with another request that rebuilds the CRLs

Model `Obao/Model/PKIRevokeConc.lean`: two threads of micro-steps (writes, `revokeStorageLock`, the builder mutex,
each build's listing of `revoked/`), every schedule.  The proof rests on two facts of the code: the builder mutex
serialises whole rebuilds, and the revoke's OWN rebuild starts after its record write and is never skipped. -/

/-- **concurrent revoke.**  `revoke k` against any one other request that rebuilds outside `revokeStorageLock`
(issuer delete / generate / import, `config/crl`, tidy, rotate — leaving the certificate's issuer, the CRL switch and
auto-rebuild = off alone), under EVERY schedule of their micro-steps and every order of CRL writes: once both have
returned and the revoke answered success, the CRL served for the issuer lists the serial. -/
theorem served_crl_lists_serial_concurrent (s : St) (k : Nat) (c : Cert) (byCert : Bool) (op1 : Op)
    (p1 p2 q1 q2 : List Nat) (sched : List Bool) (t : Nat)
    (hc : s.certs[k]? = some c) (hi : c.issuer ∈ s.issuers) (hdis : s.cfg.disable = false)
    (hauto : s.cfg.autoRebuild = false) (hexp : s.now ≤ c.notAfter) (hq : c.issuer ∈ q1)
    (hb : Benign ⟨k, c⟩ s op1)
    (hfin : (crun false (cinit s op1 p1 p2 k byCert q1 q2) sched).finished = true)
    (hans : (crun false (cinit s op1 p1 p2 k byCert q1 q2) sched).t2.res = some (.revoked t)) :
    ∃ n ser, served (crun false (cinit s op1 p1 p2 k byCert q1 q2) sched).s c.issuer = some (n, ser) ∧ k ∈ ser := by
  have hinv := cinv_run ⟨k, c⟩ sched _ (cinit_inv)
  exact (hinv.pub ⟨⟨t, hans⟩, by
    simp only [CSt.finished, Bool.and_eq_true, List.isEmpty_iff] at hfin
    simp [hfin.2]⟩).2.1
where
  cinit_inv := cinv_init ⟨k, c⟩ s op1 p1 p2 byCert q1 q2 ⟨hc, hi, hdis, hauto, hexp⟩ hb hq

/-- non-vacuity: issuer generation (thread `false`) lists `revoked/` before the revoke (thread `true`) writes its
record; the revoke queues on the builder mutex, rebuilds after it, and CRL 5 lists the serial -/
example :
    let s := run init [⟨.addIssuer, [1], [1], none⟩, ⟨.issue 1 3600, [], [], none⟩]
    let c := crun false (cinit s .addIssuer [1, 2] [1, 2] 0 false [1, 2] [1, 2])
      ([false, false, false, false, true, true, true, true, true] ++ List.replicate 14 false ++ List.replicate 24 true)
    c.finished = true ∧ c.t2.res = some (.revoked 1) ∧ served c.s 1 = some (5, [0]) := by decide

/-- FULL statement for the VARIANT in which a queued `rebuild(sc, false)` is coalesced with a build that completed
while it waited (`coalesce = true`; not the current code) -/
def served_crl_lists_serial_concurrent_coalescing : Prop :=
  ∀ (s : St) (k : Nat) (c : Cert) (byCert : Bool) (op1 : Op) (p1 p2 q1 q2 : List Nat) (sched : List Bool) (t : Nat),
    s.certs[k]? = some c → c.issuer ∈ s.issuers → s.cfg.disable = false → s.cfg.autoRebuild = false →
    s.now ≤ c.notAfter → c.issuer ∈ q1 → Benign ⟨k, c⟩ s op1 →
    (crun true (cinit s op1 p1 p2 k byCert q1 q2) sched).finished = true →
    (crun true (cinit s op1 p1 p2 k byCert q1 q2) sched).t2.res = some (.revoked t) →
    ∃ n ser, served (crun true (cinit s op1 p1 p2 k byCert q1 q2) sched).s c.issuer = some (n, ser) ∧ k ∈ ser

/-- why the revoke's own rebuild must never be skipped: with coalescing, the same schedule as above ends with the
revoke answering success while the served CRL (number 3, written by the build that listed `revoked/` BEFORE the
record write) does not list the serial -/
theorem served_crl_lists_serial_concurrent_cex : ¬ served_crl_lists_serial_concurrent_coalescing := by
  intro h
  have := h (run init [⟨.addIssuer, [1], [1], none⟩, ⟨.issue 1 3600, [], [], none⟩]) 0 ⟨1, 3700⟩ false .addIssuer
    [1, 2] [1, 2] [1, 2] [1, 2]
    ([false, false, false, false, true, true, true, true, true] ++ List.replicate 14 false ++ List.replicate 8 true) 1
    (by decide) (by decide) (by decide) (by decide) (by decide) (by decide) trivial (by decide) (by decide)
  obtain ⟨n, ser, h1, h2⟩ := this
  have h3 : served (crun true (cinit (run init [⟨.addIssuer, [1], [1], none⟩, ⟨.issue 1 3600, [], [], none⟩]) .addIssuer
      [1, 2] [1, 2] 0 false [1, 2] [1, 2])
      ([false, false, false, false, true, true, true, true, true] ++ List.replicate 14 false ++ List.replicate 8 true)).s 1
      = some (3, []) := by decide
  rw [h3] at h1
  cases h1
  cases h2

/-- the sequential and the concurrent model describe the same revoke: its program is the head (record write) followed,
when a rebuild is due, by the rebuild computed after the head -/
theorem revokeProg_eq_head (s : St) (k : Nat) (byCert : Bool) (o1 o2 : List Nat) :
    revokeProg s k byCert o1 o2 =
      ((revokeHead s k byCert).1 ++
        (if (revokeHead s k byCert).2.2 then rebuildSteps (applySteps s (revokeHead s k byCert).1) false o1 o2 else []),
       (revokeHead s k byCert).2.1) := by
  unfold revokeProg revokeHead
  cases s.certs[k]? with
  | none => simp
  | some c =>
    simp only
    split
    · simp
    · split
      · simp
      · split
        · simp
        · cases s.revoked.lookup k with
          | some t => cases s.cfg.autoRebuild <;> simp
          | none =>
            simp only
            split
            · simp
            · cases s.cfg.autoRebuild <;> simp

/-! ### CRL numbers -/

/-- **CRL numbers increase — also across interruptions.**  In EVERY history (any requests, any duplicate-free
orders of CRL writes, every request possibly cut by a storage failure or a crash after any number of its writes),
every CRL written for an issuer — complete or delta — carries a strictly larger CRL number than every CRL written
for that issuer before (`log` is newest first).  Since the repair of finding F17 a rebuild persists an issuer's
advanced number BEFORE it writes the CRL signed with the old one, so an interruption skips a number and never
reuses one. -/
theorem crl_number_increasing (h : List Run) (hh : ∀ r ∈ h, r.o1.Nodup ∧ r.o2.Nodup) :
    (run init h).log.Pairwise (fun newer older => newer.issuer = older.issuer → older.number < newer.number) :=
  (J_run h init hh J_init).inc

/-- every CRL ever written for a live issuer is numbered below the issuer's persisted counter — in every history,
interrupted or not; hence the served CRL (the newest one written) carries the largest number handed out so far -/
theorem crl_number_below_counter (h : List Run) (hh : ∀ r ∈ h, r.o1.Nodup ∧ r.o2.Nodup) :
    ∀ e ∈ (run init h).log, e.issuer ∈ (run init h).issuers → e.number < counter (run init h) e.issuer :=
  (J_run h init hh J_init).bound

example : ((run init [⟨.addIssuer, [1], [1], none⟩, ⟨.addIssuer, [2, 1], [1, 2], none⟩, ⟨.rotate, [1, 2], [2, 1], none⟩]).log.map
    fun e => (e.issuer, e.number)) = [(1, 6), (2, 4), (2, 3), (1, 5), (2, 2), (1, 4), (1, 3), (2, 1), (1, 2), (1, 1)] := by decide

/-- the former F17 witness: a rotate cut between the counter write and the CRL write (number 3 is skipped), and one
cut right after the CRL write; the next rotate continues with fresh numbers -/
example : ((run init [⟨.addIssuer, [1], [1], none⟩, ⟨.rotate, [1], [1], some 1⟩, ⟨.rotate, [1], [1], some 2⟩,
      ⟨.rotate, [1], [1], none⟩]).log.map fun e => (e.issuer, e.number)) = [(1, 6), (1, 5), (1, 4), (1, 2), (1, 1)] := by
  decide

/-! ### report channels after a retry (issuer certificates, `config/crl`) — stream `pkiscen` -/

open Obao.PKIReport in
/-- **Revocation of an issuer certificate: whichever write fails, a successful call or a successful retry leaves every
report channel showing it revoked.** For every position `k` of a failing write (`0` = none, beyond the last = none) of
`issuer/<ref>/revoke`: if the call succeeds, the `revoked/` entry exists and the served CRL was built after it; if it
fails, the fault-free retry succeeds and leaves the same. -/
theorem issuer_revoke_reported_after_retry (k : Nat) :
    let r1 := issuerRevoke {} k
    (r1.2 = true → r1.1.entry = true ∧ r1.1.crl = true) ∧
    (r1.2 = false → (issuerRevoke r1.1 0).2 = true ∧ (issuerRevoke r1.1 0).1.entry = true ∧ (issuerRevoke r1.1 0).1.crl = true) := by
  rcases k with _ | _ | _ | _ | k
  · decide
  · decide
  · decide
  · decide
  · have h1 : ¬ (1 = k + 1 + 1 + 1 + 1) := by omega
    have h2 : ¬ (2 = k + 1 + 1 + 1 + 1) := by omega
    have h3 : ¬ (3 = k + 1 + 1 + 1 + 1) := by omega
    simp [issuerRevoke, Obao.PKIReport.run, S.apply, h1, h2, h3]

open Obao.PKIReport in
/-- **Finding F69 (repaired)**: with the "already revoked" shortcut a retry after a failure of the second write answers
success although the `revoked/` entry was never written and the CRL never rebuilt. -/
theorem issuer_revoke_shortcut_cex :
    (issuerRevokeShortcut {} 2).2 = false ∧
    (issuerRevokeShortcut (issuerRevokeShortcut {} 2).1 0).2 = true ∧
    (issuerRevokeShortcut (issuerRevokeShortcut {} 2).1 0).1.entry = false ∧
    (issuerRevokeShortcut (issuerRevokeShortcut {} 2).1 0).1.crl = false := by decide

open Obao.PKIReport in
/-- **Finding F109 (repaired)**: `issuer_revoke_reported_after_retry` is about the procedure that writes the `revoked/`
entry UNCONDITIONALLY; with the entry written only when the issuer's certificate is in the mount's certificate store,
the fault-free revocation of an imported issuer answers success while the channels that read the entry (status API,
OCSP) — and a CRL built from the entries — never show it. -/
theorem issuer_revoke_if_stored_cex :
    (issuerRevokeIfStored false {} 0).2 = true ∧ (issuerRevokeIfStored false {} 0).1.entry = false ∧
    (issuerRevokeIfStored false {} 0).1.crl = false ∧
    (issuerRevokeIfStored true {} 0).1.entry = true := by decide

open Obao.PKIReport in
/-- **`config/crl`: once the switch to a state that needs a current CRL has been reported successful — at the first
attempt or at a retry after any failing write — the served CRL lists every serial whose revocation was reported
before.** -/
theorem config_crl_current_after_retry (k : Nat) :
    let s0 : S := { entry := true }
    let r1 := configCRL s0 k
    (r1.2 = true → r1.1.crl = true) ∧ (r1.2 = false → (configCRL r1.1 0).2 = true ∧ (configCRL r1.1 0).1.crl = true) := by
  rcases k with _ | _ | _ | k
  · decide
  · decide
  · decide
  · have h1 : ¬ (1 = k + 1 + 1 + 1) := by omega
    have h2 : ¬ (2 = k + 1 + 1 + 1) := by omega
    simp [configCRL, Obao.PKIReport.run, S.apply, h1, h2]

open Obao.PKIReport in
/-- **Finding F70 (repaired)**: deciding the rebuild by the STORED configuration, the retry after a failed rebuild finds
the configuration already switched, skips the rebuild and answers success with a stale CRL. -/
theorem config_crl_stored_diff_cex :
    let s0 : S := { entry := true }
    (configCRLStoredDiff s0 2).2 = false ∧
    (configCRLStoredDiff (configCRLStoredDiff s0 2).1 0).2 = true ∧
    (configCRLStoredDiff (configCRLStoredDiff s0 2).1 0).1.crl = false := by decide

end C16
