import Obao.Proofs.HashWalk
import Obao.Proofs.Audit
/-!
C11 — Audit precedes effect and disclosure; audit entries never hold plaintext secrets.

Three groups, all over the executable models that the streams `hashwalk`, `auditbroker`, `auditpipe` tie to
`/repo` on every check:

1. hash walk: `hash_no_plain_leaf`, `secret_only_where_exempt`, `secret_leaf_hashed`, `hash_auth_wrap`,
   `entry_data_is_hash_walk`, `response_data_no_plain_leaf` (with list elision), `time_exemption_shape`;
2. broker: `broker_at_least_one`, `broker_ok_accepted`, `broker_all_fail`, `broker_panic_fails_closed`,
   `broker_order_irrelevant`, and for audited request headers `headers_only_as_configured`;
3. pipeline: `route_after_request_audit`, `data_after_response_audit`, `payload_after_response_audit`,
   `return_is_last`, `all_fail_bare_error`.

`fn` (the salted HMAC) is universally quantified: nothing here depends on what the hash function is.
Documented exemption stated explicitly: a string value that `time.Time.UnmarshalText` accepts (RFC 3339 shaped)
is logged in clear (`isTimeShaped`); `time_exemption_shape` shows such a string necessarily starts with an ASCII
digit, so no token, accessor or canary of the harness (none starts with a digit) is ever exempt this way.
-/
namespace C11
open Obao.HashWalk Obao.Audit Obao.AuditPipeline

/-! ## 1. hash walk -/

/-- For EVERY data tree, every HMAC function and every non-HMAC key list:
(1) the string leaves of the hashed tree are, position by position and with the same innermost map keys, the
    leaves of the input passed through `hashLeaf`;
(2) hence every string leaf of the result is `fn s` for the original `s`, or is the unchanged original which
    then is RFC 3339 shaped or sits under an exempt innermost key;
(3) keys, numbers, booleans, nulls and the nesting are unchanged (only string values differ). -/
theorem hash_no_plain_leaf (fn : String → String) (ign : List String) (kvs : List (String × J)) :
    leavesFields (hashTree fn ign kvs) = (leavesFields kvs).map (fun p => (p.1, hashLeaf fn ign p.1 p.2)) ∧
    (∀ p ∈ leavesFields (hashTree fn ign kvs), ∃ s, (p.1, s) ∈ leavesFields kvs ∧
        (p.2 = fn s ∨ (p.2 = s ∧ (isTimeShaped s = true ∨ p.1 ∈ ign)))) ∧
    shapeFields (hashTree fn ign kvs) = shapeFields kvs := by
  have h1 := leavesFields_hash fn ign kvs
  refine ⟨h1, ?_, shapeFields_hash fn ign kvs⟩
  intro p hp
  simp only [hashTree] at hp
  rw [h1] at hp
  obtain ⟨q, hq, rfl⟩ := List.mem_map.mp hp
  refine ⟨q.2, hq, ?_⟩
  simpa [leafMap] using hashLeaf_cases fn ign q.1 q.2

/-- A secret value `c` that is not RFC 3339 shaped can appear in clear in the hashed tree ONLY at leaves whose
innermost key is exempt and where it already stood in the input — provided the HMAC never outputs `c` itself
(the symbolic-cryptography assumption: an HMAC value is not the secret). -/
theorem secret_only_where_exempt (fn : String → String) (ign : List String) (kvs : List (String × J))
    (c : String) (hc : isTimeShaped c = false) (hfn : ∀ s, fn s ≠ c) :
    ∀ p ∈ leavesFields (hashTree fn ign kvs), p.2 = c → p.1 ∈ ign ∧ (p.1, c) ∈ leavesFields kvs := by
  intro p hp hpc
  obtain ⟨s, hs, h⟩ := (hash_no_plain_leaf fn ign kvs).2.1 p hp
  rcases h with h | ⟨h, ht | hk⟩
  · exact absurd (h ▸ hpc : fn s = c) (hfn s)
  · have : s = c := by rw [← h, hpc]
    rw [this, hc] at ht; cases ht
  · have : s = c := by rw [← h, hpc]
    exact ⟨hk, this ▸ hs⟩

/-- and where the key is not exempt the secret is replaced by its HMAC at exactly the positions it stood -/
theorem secret_leaf_hashed (fn : String → String) (ign : List String) (key c : String)
    (hc : isTimeShaped c = false) (hk : key ∉ ign) : hashLeaf fn ign key c = fn c :=
  hashLeaf_secret fn ign key c hc hk

/-- `shown` hides `orig`: it is `fn orig`, or both are empty (an absent field) -/
def Hidden (fn : String → String) (orig shown : String) : Prop := shown = fn orig ∨ (orig = "" ∧ shown = "")

/-- Token-like fields of a response entry (which contains the request entry): the client token in the auth
block, the request's client token, the client token of a returned auth block and the wrapping token are ALWAYS
hidden; the four accessors are hidden iff `hmac_accessor` is on and otherwise shown unchanged. -/
theorem hash_auth_wrap (fn : String → String) (hm : Bool) (i : RespIn) :
    let e := formatResponse fn hm i
    Hidden fn i.req.auth.clientToken e.req.auth.clientToken ∧
    Hidden fn i.req.reqToken e.req.reqToken ∧
    (hm = true → Hidden fn i.req.auth.accessor e.req.auth.accessor ∧ Hidden fn i.req.reqAccessor e.req.reqAccessor) ∧
    (hm = false → e.req.auth.accessor = i.req.auth.accessor ∧ e.req.reqAccessor = i.req.reqAccessor) ∧
    (∀ a, i.respAuth = some a → ∃ a', e.respAuth = some a' ∧ Hidden fn a.clientToken a'.clientToken ∧
        (hm = true → Hidden fn a.accessor a'.accessor) ∧ (hm = false → a'.accessor = a.accessor)) ∧
    (i.respAuth = none → e.respAuth = none) ∧
    (∀ w, i.wrap = some w → ∃ w', e.wrap = some w' ∧ w'.token = fn w.token ∧
        (hm = true → w'.accessor = fn w.accessor ∧ Hidden fn w.wrappedAccessor w'.wrappedAccessor) ∧
        (hm = false → w'.accessor = w.accessor ∧ w'.wrappedAccessor = w.wrappedAccessor)) ∧
    (i.wrap = none → e.wrap = none) := by
  have hid : ∀ s : String, Hidden fn s (if s ≠ "" then fn s else s) := by
    intro s; unfold Hidden
    by_cases h : s = "" <;> simp [h]
  have hidA : ∀ s : String, Hidden fn s (if True ∧ s ≠ "" then fn s else s) := by
    intro s; unfold Hidden
    by_cases h : s = "" <;> simp [h]
  refine ⟨hid _, hid _, ?_, ?_, ?_, ?_, ?_, ?_⟩
  · intro h; subst h
    exact ⟨by simpa [formatResponse, formatRequest, hashAuth] using hidA i.req.auth.accessor,
           by simpa [formatResponse, formatRequest] using hidA i.req.reqAccessor⟩
  · intro h; subst h; simp [formatResponse, formatRequest, hashAuth]
  · intro a ha
    refine ⟨hashAuth fn hm a, by simp [formatResponse, ha], hid _, ?_, ?_⟩
    · intro h; subst h; simpa [hashAuth] using hidA a.accessor
    · intro h; subst h; simp [hashAuth]
  · intro h; simp [formatResponse, h]
  · intro w hw
    refine ⟨hashWrap fn hm w, by simp [formatResponse, hw], rfl, ?_, ?_⟩
    · intro h; subst h
      exact ⟨by simp [hashWrap], by simpa [hashWrap] using hidA w.wrappedAccessor⟩
    · intro h; subst h; simp [hashWrap]
  · intro h; simp [formatResponse, h]

/-- the data parts of both entries are exactly the hash walk (list elision, when it applies, happens first) -/
theorem entry_data_is_hash_walk (fn : String → String) (hm : Bool) (i : RespIn) :
    (formatResponse fn hm i).req.data = i.req.data.map (hashTree fn i.req.ign) ∧
    (formatResponse fn hm i).respData =
      i.respData.map (fun d => hashTree fn i.respIgn (if i.elide then elideFields d else d)) := by
  simp [formatResponse, formatRequest]

/-- The response-data part of an entry, including list elision: every string leaf shown is `fn s` for a leaf `s` of
the ORIGINAL response data (same innermost key), or such a leaf unchanged and then RFC 3339 shaped or exempt. -/
theorem response_data_no_plain_leaf (fn : String → String) (hm : Bool) (i : RespIn) (d : List (String × J))
    (hd : i.respData = some d) :
    ∃ d', (formatResponse fn hm i).respData = some d' ∧
      ∀ p ∈ leavesFields d', ∃ s, (p.1, s) ∈ leavesFields d ∧
        (p.2 = fn s ∨ (p.2 = s ∧ (isTimeShaped s = true ∨ p.1 ∈ i.respIgn))) := by
  refine ⟨hashTree fn i.respIgn (if i.elide then elideFields d else d), by simp [formatResponse, hd], ?_⟩
  intro p hp
  by_cases he : i.elide = true
  · simp only [he, if_true] at hp
    obtain ⟨s, hs, h⟩ := (hash_no_plain_leaf fn i.respIgn (elideFields d)).2.1 p hp
    exact ⟨s, elide_leaves_sub d _ hs, h⟩
  · simp only [he] at hp
    exact (hash_no_plain_leaf fn i.respIgn d).2.1 p hp

/-- the documented exemption is narrow: an RFC 3339 shaped string starts with an ASCII digit -/
theorem time_exemption_shape (s : String) (h : isTimeShaped s = true) :
    ∃ a rest, utf8 s = a :: rest ∧ 48 ≤ a ∧ a ≤ 57 := by
  obtain ⟨a, rest, h1, h2⟩ := timeShaped_first_digit s h
  refine ⟨a, rest, h1, ?_⟩
  simpa [isDig] using h2

-- non-vacuity: a nested tree with a secret under an exempt key inside a list, a secret under a non-exempt key of
-- a map nested in that list, and a timestamp
example :
    leavesFields (hashTree (fun s => "H(" ++ s ++ ")") ["k2"]
      [("k1", .str "secret-1"), ("k2", .arr [.str "x", .obj [("k1", .str "y")]]), ("t", .str "2006-01-02T15:04:05Z"), ("n", .num "7")])
    = [("k1", "H(secret-1)"), ("k2", "x"), ("k1", "H(y)"), ("t", "2006-01-02T15:04:05Z")] := by
  decide +kernel

example : isTimeShaped "2006-01-02T3:04:05,5+24:60" = true ∧ isTimeShaped "2023-02-29T00:00:00Z" = false ∧
    isTimeShaped "CANARY1x00" = false := by decide +kernel

example : (formatResponse (fun s => "H(" ++ s ++ ")") false
    { req := { auth := ⟨"tok", "acc"⟩, reqToken := "tok", reqAccessor := "", data := none, ign := [] },
      respAuth := some ⟨"new", "newacc"⟩, respData := none, respIgn := [], wrap := some ⟨"", "wacc", ""⟩, elide := false }).wrap
    = some ⟨"H()", "wacc", ""⟩ := by decide +kernel

/-! ## 2. broker -/

/-- `LogRequest`/`LogResponse` succeed iff there is no device at all, or no visited device panics and at least
one device accepts — for every outcome vector of every length. -/
theorem broker_at_least_one (devs : List Outcome) :
    brokerLog devs = .ok ↔ devs = [] ∨ ((∀ o ∈ devs, o.isPanic = false) ∧ Outcome.ok ∈ devs) := by
  rw [brokerLog_eq]
  by_cases hp : devs.any Outcome.isPanic = true
  · simp only [hp, if_true]
    constructor
    · intro h; cases h
    · rintro (h | ⟨h, _⟩)
      · subst h; simp at hp
      · obtain ⟨o, ho, hpo⟩ := List.any_eq_true.mp hp
        rw [h o ho] at hpo; cases hpo
  · have hnp : ∀ o ∈ devs, o.isPanic = false := by
      intro o ho
      cases h : o.isPanic
      · rfl
      · exact absurd (List.any_eq_true.mpr ⟨o, ho, h⟩) hp
    simp only [hp]
    cases devs with
    | nil => simp
    | cons a t =>
      by_cases hc : Outcome.ok ∈ a :: t
      · have : ((a :: t).isEmpty || (a :: t).contains Outcome.ok) = true := by
          have h' : (a :: t).contains Outcome.ok = true := List.contains_iff_mem.mpr hc
          rw [h']; simp
        rw [this]
        simp only [Bool.false_eq_true, if_false, if_true, true_iff]
        exact Or.inr ⟨hnp, hc⟩
      · have : (a :: t).contains Outcome.ok = false := by simpa using hc
        simp only [List.isEmpty_cons, this, Bool.or_self, Bool.false_eq_true, if_false]
        constructor
        · intro h; cases h
        · rintro (h | ⟨_, h⟩)
          · cases h
          · exact absurd h hc

/-- success with at least one device enabled means a device that was actually CALLED returned nil -/
theorem broker_ok_accepted (devs : List Outcome) (h : brokerLog devs = .ok) (hne : devs ≠ []) :
    0 < accepted devs := by
  rcases (broker_at_least_one devs).1 h with h0 | ⟨hnp, hok⟩
  · exact absurd h0 hne
  · unfold accepted
    rw [visited_no_panic devs hnp]
    apply List.length_pos_of_mem (a := Outcome.ok)
    simp [hok]

/-- fail closed: if every device fails (error, panic, header-hash failure) the broker reports an error -/
theorem broker_all_fail (devs : List Outcome) (hne : devs ≠ []) (h : ∀ o ∈ devs, o ≠ .ok) : brokerLog devs ≠ .ok := by
  intro hk
  rcases (broker_at_least_one devs).1 hk with h0 | ⟨_, hok⟩
  · exact hne h0
  · exact h _ hok rfl

/-- a panic anywhere makes the call fail, even after another device accepted the entry -/
theorem broker_panic_fails_closed (devs : List Outcome) (o : Outcome) (ho : o ∈ devs) (hp : o.isPanic = true) :
    brokerLog devs = .errPanic := by
  rw [brokerLog_eq]
  have : devs.any Outcome.isPanic = true := List.any_eq_true.mpr ⟨o, ho, hp⟩
  simp [this]

/-- Go map iteration order does not matter: the result is the same for every visiting order -/
theorem broker_order_irrelevant (d₁ d₂ : List Outcome) (h : d₁.Perm d₂) : brokerLog d₁ = brokerLog d₂ := by
  rw [brokerLog_eq, brokerLog_eq]
  have h1 : d₁.any Outcome.isPanic = d₂.any Outcome.isPanic := by
    rw [Bool.eq_iff_iff]; simp only [List.any_eq_true]
    exact ⟨fun ⟨o, ho, hp⟩ => ⟨o, h.mem_iff.1 ho, hp⟩, fun ⟨o, ho, hp⟩ => ⟨o, h.mem_iff.2 ho, hp⟩⟩
  have h2 : d₁.contains Outcome.ok = d₂.contains Outcome.ok := by
    rw [Bool.eq_iff_iff]; simp only [List.contains_iff_mem]
    exact h.mem_iff
  have h3 : d₁.isEmpty = d₂.isEmpty := by
    rw [Bool.eq_iff_iff]; simp only [List.isEmpty_iff]
    exact ⟨fun e => by subst e; exact h.nil_eq.symm, fun e => by subst e; exact h.eq_nil⟩
  rw [h1, h2, h3]

/-- Request headers: a device is shown a header only if it is configured as audited, under its lower-cased name,
and its values are the request's values passed through the device's HMAC whenever the header is configured with
`hmac` — for every configuration and every set of request headers. -/
theorem headers_only_as_configured (hash : String → String) (cfg : List (String × Bool))
    (headers : List (String × List String)) :
    ∀ e ∈ applyHeaders hash cfg headers, ∃ hm, (e.1, hm) ∈ cfg ∧ ∃ h ∈ headers, lower h.1 = e.1 ∧
      e.2 = (if hm then h.2.map hash else h.2) ∧ (hm = true → ∀ v ∈ e.2, ∃ v₀ ∈ h.2, v = hash v₀) := by
  intro e he
  unfold applyHeaders at he
  obtain ⟨c, hc, hce⟩ := List.mem_filterMap.mp he
  split at hce
  · rename_i h hfind
    simp only [Option.some.injEq] at hce
    subst hce
    refine ⟨c.2, hc, h, List.mem_of_find?_eq_some hfind, ?_, rfl, ?_⟩
    · have := List.find?_some hfind
      simpa using this
    · intro hm v hv
      simp only [hm, if_true] at hv
      obtain ⟨v₀, h0, rfl⟩ := List.mem_map.mp hv
      exact ⟨v₀, h0, rfl⟩
  · cases hce

example : applyHeaders (fun s => "H(" ++ s ++ ")") [("x-a", true), ("x-b", false), ("x-c", true)]
    [("X-A", ["s1", "s2"]), ("X-B", ["p"]), ("Other", ["o"])] = [("x-a", ["H(s1)", "H(s2)"]), ("x-b", ["p"])] := by
  decide +kernel

-- non-vacuity
example : brokerLog [.err, .ok, .hdrErr] = .ok ∧ accepted [.err, .ok, .hdrErr] = 1 := by decide
example : brokerLog [.ok, .panic, .ok] = .errPanic ∧ accepted [.ok, .panic, .ok] = 1 ∧ logCalls [.ok, .panic, .ok] = 2 := by decide
example : brokerLog [.err, .hdrErr] = .errNoneLogged ∧ brokerLog [] = .ok := by decide

/-! ## 3. pipeline -/

/-- `e₁` occurs strictly before `e₂` in the trace -/
def Before (tr : List Ev) (e₁ e₂ : Ev) : Prop := ∃ p q r, tr = p ++ e₁ :: (q ++ e₂ :: r)

/-- A request reaches a backend handler only AFTER the broker reported success for its request entry, which with
at least one device enabled means a device accepted the entry — for every request kind, every handler behaviour
and every pair of fault vectors. -/
theorem route_after_request_audit (i : PipeIn) (h : Ev.route ∈ trace i) :
    Before (trace i) (.auditReq i.reqDevs) .route ∧ brokerLog i.reqDevs = .ok ∧
    (i.reqDevs ≠ [] → 0 < accepted i.reqDevs) := by
  have hr := congrArg Prod.fst (run_eq i)
  simp only at hr
  cases hk : i.kind with
  | authed ok =>
    cases ok with
    | false => rw [hk] at hr; rw [hr] at h; simp at h
    | true =>
      rw [hk] at hr
      by_cases h1 : brokerLog i.reqDevs = .ok
      · simp only [h1, if_true] at hr
        refine ⟨?_, h1, broker_ok_accepted _ h1⟩
        rw [hr]; exact ⟨[.checkToken true], [], _, rfl⟩
      · simp only [h1, if_false] at hr; rw [hr] at h; simp at h
  | login =>
    rw [hk] at hr
    by_cases h1 : brokerLog i.reqDevs = .ok
    · simp only [h1, if_true] at hr
      refine ⟨?_, h1, broker_ok_accepted _ h1⟩
      rw [hr]; exact ⟨[.checkToken true], [], _, rfl⟩
    · simp only [h1, if_false] at hr; rw [hr] at h; simp at h

/-- Anything other than the bare internal error is handed to the client only AFTER the broker reported success
for the response entry (so, with a device enabled, after a device accepted it). -/
theorem data_after_response_audit (i : PipeIn) (c : Client) (h : Ev.ret c ∈ trace i) (hc : c ≠ bareInternal) :
    Before (trace i) (.auditResp i.respDevs) (.ret c) ∧ brokerLog i.respDevs = .ok ∧
    (i.respDevs ≠ [] → 0 < accepted i.respDevs) := by
  have hr := congrArg Prod.fst (run_eq i)
  simp only at hr
  by_cases h2 : brokerLog i.respDevs = .ok
  · refine ⟨?_, h2, broker_ok_accepted _ h2⟩
    cases hk : i.kind with
    | authed ok =>
      cases ok with
      | false =>
        rw [hk] at hr; simp only [h2, if_true] at hr; rw [hr] at h ⊢
        simp at h; subst h
        exact ⟨[.checkToken false, .auditReq i.reqDevs], [], [], rfl⟩
      | true =>
        rw [hk] at hr
        by_cases h1 : brokerLog i.reqDevs = .ok
        · simp only [h1, h2, if_true] at hr; rw [hr] at h ⊢
          simp at h; subst h
          exact ⟨[.checkToken true, .auditReq i.reqDevs, .route], [], [], rfl⟩
        · simp only [h1, if_false] at hr; rw [hr] at h
          simp at h; exact absurd h hc
    | login =>
      rw [hk] at hr
      by_cases h1 : brokerLog i.reqDevs = .ok
      · simp only [h1, h2, if_true] at hr; rw [hr] at h ⊢
        simp at h; subst h
        exact ⟨[.checkToken true, .auditReq i.reqDevs, .route], [], [], rfl⟩
      · simp only [h1, if_false] at hr; rw [hr] at h
        simp at h; exact absurd h hc
  · exfalso
    cases hk : i.kind with
    | authed ok =>
      cases ok with
      | false => rw [hk] at hr; simp only [h2, if_false] at hr; rw [hr] at h; simp at h; exact hc h
      | true =>
        rw [hk] at hr
        by_cases h1 : brokerLog i.reqDevs = .ok
        · simp only [h1, h2, if_true, if_false] at hr; rw [hr] at h; simp at h; exact hc h
        · simp only [h1, if_false] at hr; rw [hr] at h; simp at h; exact hc h
    | login =>
      rw [hk] at hr
      by_cases h1 : brokerLog i.reqDevs = .ok
      · simp only [h1, h2, if_true, if_false] at hr; rw [hr] at h; simp at h; exact hc h
      · simp only [h1, if_false] at hr; rw [hr] at h; simp at h; exact hc h

/-- in particular a response that carries data, a secret, an auth block or wrap info -/
theorem payload_after_response_audit (i : PipeIn) (c : Client) (h : Ev.ret c ∈ trace i) (hc : c.carries = true) :
    brokerLog i.respDevs = .ok ∧ (i.respDevs ≠ [] → 0 < accepted i.respDevs) := by
  have hne : c ≠ bareInternal := by
    intro e; subst e; simp [Client.carries, bareInternal] at hc
  exact (data_after_response_audit i c h hne).2

/-- the trace ends with the return event and that event carries what the client receives -/
theorem return_is_last (i : PipeIn) : ∃ p, trace i = p ++ [.ret (result i)] ∧ ∀ c, Ev.ret c ∉ p := by
  have hr := run_eq i
  have h1 := congrArg Prod.fst hr
  have h2 := congrArg Prod.snd hr
  simp only at h1 h2
  cases hk : i.kind with
  | authed ok =>
    cases ok with
    | false =>
      rw [hk] at h1 h2; rw [h1, h2]
      exact ⟨[.checkToken false, .auditReq i.reqDevs, .auditResp i.respDevs], rfl, by simp⟩
    | true =>
      rw [hk] at h1 h2
      by_cases hq : brokerLog i.reqDevs = .ok
      · simp only [hq, if_true] at h1 h2; rw [h1, h2]
        exact ⟨[.checkToken true, .auditReq i.reqDevs, .route, .auditResp i.respDevs], rfl, by simp⟩
      · simp only [hq, if_false] at h1 h2; rw [h1, h2]
        exact ⟨[.checkToken true, .auditReq i.reqDevs, .auditResp i.respDevs], rfl, by simp⟩
  | login =>
    rw [hk] at h1 h2
    by_cases hq : brokerLog i.reqDevs = .ok
    · simp only [hq, if_true] at h1 h2; rw [h1, h2]
      exact ⟨[.checkToken true, .auditReq i.reqDevs, .route, .auditResp i.respDevs], rfl, by simp⟩
    · simp only [hq, if_false] at h1 h2; rw [h1, h2]
      exact ⟨[.checkToken true, .auditReq i.reqDevs, .auditResp i.respDevs], rfl, by simp⟩

/-- If every enabled device fails on the response entry the client receives the bare internal error: no data,
no secret, no auth block, no wrap info, no error text.  If every enabled device fails on the request entry the
backend is never invoked, and (unless the token check had already refused the request) the client again gets
the bare internal error. -/
theorem all_fail_bare_error (i : PipeIn) :
    (i.respDevs ≠ [] → (∀ o ∈ i.respDevs, o ≠ .ok) → result i = bareInternal) ∧
    (i.reqDevs ≠ [] → (∀ o ∈ i.reqDevs, o ≠ .ok) →
        Ev.route ∉ trace i ∧ (i.kind ≠ .authed false → result i = bareInternal)) := by
  have hr := run_eq i
  have h1 := congrArg Prod.fst hr
  have h2 := congrArg Prod.snd hr
  simp only at h1 h2
  constructor
  · intro hne hall
    have hb := broker_all_fail _ hne hall
    cases hk : i.kind with
    | authed ok =>
      cases ok with
      | false => rw [hk] at h2; simpa [hb] using h2
      | true =>
        rw [hk] at h2
        by_cases hq : brokerLog i.reqDevs = .ok
        · simpa [hq, hb] using h2
        · simpa [hq] using h2
    | login =>
      rw [hk] at h2
      by_cases hq : brokerLog i.reqDevs = .ok
      · simpa [hq, hb] using h2
      · simpa [hq] using h2
  · intro hne hall
    have hb := broker_all_fail _ hne hall
    cases hk : i.kind with
    | authed ok =>
      cases ok with
      | false => rw [hk] at h1; rw [h1]; simp
      | true =>
        rw [hk] at h1 h2
        simp only [hb, if_false] at h1 h2
        rw [h1, h2]; simp
    | login =>
      rw [hk] at h1 h2
      simp only [hb, if_false] at h1 h2
      rw [h1, h2]; simp

-- non-vacuity: a routed, served request; a request whose response entry nobody accepted; a refused request
example : trace { kind := .authed true, reqDevs := [.err, .ok], respDevs := [.ok, .err],
                  handler := { err := .none, resp := .payload ⟨true, true, false, false⟩ } }
    = [.checkToken true, .auditReq [.err, .ok], .route, .auditResp [.ok, .err],
       .ret { err := .none, resp := .payload ⟨true, true, false, false⟩ }] := by decide
example : result { kind := .login, reqDevs := [.ok], respDevs := [.ok, .panic],
                   handler := { err := .none, resp := .payload ⟨false, false, true, false⟩ } } = bareInternal := by decide
example : routed { kind := .authed true, reqDevs := [.err, .hdrErr], respDevs := [.ok],
                   handler := { err := .none, resp := .payload ⟨true, false, false, false⟩ } } = false := by decide

end C11
