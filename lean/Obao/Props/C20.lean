import Obao.Model.GF256
/-!
C20 — property theorems (statements only; helper lemmas live in `Obao/Proofs`).
-/
namespace C20
open Obao.GF256

/-- `Split` refuses exactly the five documented parameter errors, in the order of the code. -/
theorem split_rejects (len parts thr : Int) :
    splitCheck len parts thr = none ↔ (thr ≤ parts ∧ parts ≤ 255 ∧ 2 ≤ thr ∧ thr ≤ 255 ∧ len ≠ 0) := by
  unfold splitCheck
  repeat' split
  all_goals simp_all
  all_goals omega

/-- `Combine` rejects fewer than two parts. -/
theorem combine_rejects_few (parts : List (List Nat)) (h : parts.length < 2) :
    combine parts = .error .tooFew := by
  match parts, h with
  | [], _ => rfl
  | [_], _ => rfl

/-- `Combine` rejects duplicate x-coordinates (when the shape checks pass it never interpolates over them). -/
theorem combine_rejects_duplicate (p0 p1 : List Nat) (rest : List (List Nat))
    (hlen : 2 ≤ p0.length) (heq : ∀ p ∈ p1 :: rest, p.length = p0.length)
    (hdup : hasDup ((p0 :: p1 :: rest).map fun p => p.getD (p0.length - 1) 0) = true) :
    combine (p0 :: p1 :: rest) = .error .duplicate := by
  unfold combine
  have h1 : ¬ p0.length < 2 := by omega
  have h2 : (p1 :: rest).any (fun p => p.length != p0.length) = false := by
    rw [List.any_eq_false]; intro p hp; simp [heq p hp]
  simp only [h1, h2, hdup, if_false, if_true, Bool.false_eq_true]

end C20
