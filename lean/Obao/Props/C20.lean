import Obao.Model.GF256
import Obao.Model.Threshold
import Obao.Proofs.GF256Split
import Obao.Proofs.GF256Quorum
import Obao.Proofs.Threshold
/-!
C20 — property theorems (statements only; helper lemmas live in `Obao/Proofs/GF256*.lean`, `Proofs/Threshold.lean`).

Vocabulary from the proof modules: `GF` = the 256-element carrier `{val : Nat // val < 256}` (a structure),
`GF.ofNat n = ⟨n % 256⟩`, `Bytes l = ∀ x ∈ l, x < 256`, `polyOf cs` = the `Polynomial GF` with coefficient list
`cs` (lowest degree first), `share secret coeffs x` = one element of `split secret xs coeffs` (`split_eq`),
`CoeffsWF k coeffs` = every coefficient list has `k` byte entries.
-/
namespace C20
open Obao.GF256

/-- `Split` refuses exactly the five documented parameter errors, in the order of the code. -/
theorem split_rejects (len parts thr : Int) :
    splitCheck len parts thr = none ↔ (thr ≤ parts ∧ parts ≤ 255 ∧ 2 ≤ thr ∧ thr ≤ 255 ∧ len ≠ 0) := by
  unfold splitCheck
  repeat' split
  all_goals simp_all

/-- `Combine` rejects fewer than two parts. -/
theorem combine_rejects_few (parts : List (List Nat)) (h : parts.length < 2) :
    combine parts = .error .tooFew := by
  match parts, h with
  | [], _ => rfl
  | [_], _ => rfl

/-- `Combine` rejects duplicate x-coordinates (when the shape checks pass it never interpolates over them). -/
theorem combine_rejects_duplicate (p0 p1 : List Nat) (rest : List (List Nat))
    (hlen : 2 ≤ p0.length) (heq : ∀ p ∈ p1 :: rest, p.length = p0.length)
    (hdup : hasDup ((p0 :: p1 :: rest).map fun p => p.getD (p0.length - 1) 0) = true) :
    combine (p0 :: p1 :: rest) = .error .duplicate := by
  unfold combine
  have h1 : ¬ p0.length < 2 := by omega
  have h2 : (p1 :: rest).any (fun p => p.length != p0.length) = false := by
    rw [List.any_eq_false]; intro p hp; simp [heq p hp]
  simp only [h1, h2, hdup, if_false, if_true, Bool.false_eq_true]

/-! ### 1. the arithmetic is a field -/

/-- **gf256_field.** There is a `Field` structure on the 256-element carrier whose `*`, `⁻¹`, `/`, `+`, `-`,
`0`, `1` are the model's `mult`, `inverse`, `div`, `add`, `add`, `0`, `1` (so `0⁻¹ = 0 = inverse 0`), and the
carrier is exactly the bytes. (The instance is `GF.instField`; its laws are proved from closure, xor-bilinearity
of `mult`, and the 8-element bit basis — see `Proofs/GF256Arith.lean`.) -/
theorem gf256_field :
    ∃ F : Field GF,
      (∀ a b : GF, (F.mul a b).val = mult a.val b.val) ∧
      (∀ a : GF, (F.inv a).val = inverse a.val) ∧
      (∀ a b : GF, (F.div a b).val = Obao.GF256.div a.val b.val) ∧
      (∀ a b : GF, (F.add a b).val = add a.val b.val) ∧
      (∀ a b : GF, (F.sub a b).val = add a.val b.val) ∧
      F.zero.val = 0 ∧ F.one.val = 1 ∧
      (∀ n < 256, ∃ a : GF, a.val = n) ∧ (∀ a b : GF, a.val = b.val → a = b) :=
  ⟨GF.instField, fun _ _ => rfl, fun _ => rfl, fun _ _ => rfl, fun _ _ => rfl, fun _ _ => rfl, rfl, rfl,
    fun n h => ⟨⟨n, h⟩, rfl⟩, fun _ _ h => GF.ext h⟩

/-- The field laws read back on the model's `Nat` functions (bytes in, bytes out): the statements a reader of
`shamir.go` would write down. -/
theorem gf256_laws (a b c : Nat) (ha : a < 256) (hb : b < 256) (hc : c < 256) :
    mult a b < 256 ∧ inverse a < 256 ∧
    mult a b = mult b a ∧ mult (mult a b) c = mult a (mult b c) ∧ mult 1 a = a ∧
    mult a (add b c) = add (mult a b) (mult a c) ∧
    (a ≠ 0 → mult a (inverse a) = 1) ∧ inverse 0 = 0 ∧
    (b ≠ 0 → div? a b = some (mult a (inverse b))) ∧ div? a 0 = none :=
  ⟨mult_lt _ ha, inverse_lt ha, mult_comm ha hb, mult_assoc ha hb hc, mult_one_left ha,
    mult_xor_right _ _ ha, mult_inverse ha, inverse_zero,
    fun h => by rw [div?_eq, if_neg h, div_eq], rfl⟩

/-! ### 2. Horner evaluation and Lagrange interpolation are the textbook ones -/

/-- **evaluate_eq_polynomial_eval.** The model's Horner `evaluate` on a byte list is `Polynomial.eval` of the
polynomial with those coefficients over the field above; that polynomial has degree below the list length and
its `i`-th coefficient is the `i`-th list entry. -/
theorem evaluate_eq_polynomial_eval (cs : List Nat) (x : Nat) (hcs : Bytes cs) (hx : x < 256) :
    evaluate cs x = ((polyOf (cs.map GF.ofNat)).eval (GF.ofNat x)).val ∧
    (polyOf (cs.map GF.ofNat)).degree < cs.length ∧
    ∀ i, ((polyOf (cs.map GF.ofNat)).coeff i).val = cs.getD i 0 := by
  refine ⟨evaluate_eq_eval hcs hx, by simpa using degree_polyOf_lt (cs.map GF.ofNat), fun i => ?_⟩
  rw [coeff_polyOf]
  by_cases hi : i < cs.length
  · simp [List.getD_eq_getElem?_getD, hi, GF.ofNat_val (hcs _ (List.getElem_mem hi))]
  · simp [List.getD_eq_getElem?_getD, hi]

/-- **interpolate_eq_lagrange.** Over distinct byte nodes the model's `interpolatePolynomial xs ys x` is the value
at `x` of Mathlib's `Lagrange.interpolate` through the points `(xs[i], ys[i])`. -/
theorem interpolate_eq_lagrange (xs ys : List Nat) (x : Nat) (hxs : Bytes xs) (hys : Bytes ys) (hx : x < 256)
    (hnd : xs.Nodup) (hlen : ys.length = xs.length) :
    interpolate xs ys x =
      ((Lagrange.interpolate (xs.map GF.ofNat).toFinset id
          (fun a => (ys.map GF.ofNat).getD ((xs.map GF.ofNat).idxOf a) 0)).eval (GF.ofNat x)).val := by
  have := interpolate_eq_lagrange_lookup (xs.map GF.ofNat) (ys.map GF.ofNat) (GF.ofNat x)
    (nodup_map_ofNat hxs hnd) (by simp [hlen])
  rwa [map_val_ofNat hxs, map_val_ofNat hys, GF.ofNat_val hx] at this

/-! ### 3. at the threshold: reconstruction -/

/-- **combine_split.** For every non-empty byte secret, every threshold `t ≥ 2`, every table of `t-1` random
byte coefficients per secret byte, every list `xs` of distinct byte x-coordinates: every collection `parts` of
at least `t` pairwise different shares of `split secret xs coeffs`, in any order, combines to exactly the secret.
(No bound on the secret length or on `n = xs.length`; `xs ≠ 0` is not needed here.) -/
theorem combine_split (secret xs : List Nat) (coeffs : List (List Nat)) (t : Nat) (parts : List (List Nat))
    (hsec : Bytes secret) (hne : secret ≠ []) (ht2 : 2 ≤ t)
    (hclen : coeffs.length = secret.length) (hc : CoeffsWF (t - 1) coeffs)
    (hxs : Bytes xs) (hpn : parts.Nodup) (hsub : ∀ p ∈ parts, p ∈ split secret xs coeffs)
    (ht : t ≤ parts.length) :
    combine parts = .ok secret :=
  combine_of_subset hsec hne ht2 hclen hc hxs hpn hsub ht

/-- the same with "sub-list in any order" spelled `List.Subperm` (here the x-coordinates must be distinct for
the shares to be pairwise different) -/
theorem combine_split_subperm (secret xs : List Nat) (coeffs : List (List Nat)) (t : Nat) (parts : List (List Nat))
    (hsec : Bytes secret) (hne : secret ≠ []) (ht2 : 2 ≤ t)
    (hclen : coeffs.length = secret.length) (hc : CoeffsWF (t - 1) coeffs)
    (hxs : Bytes xs) (hnd : xs.Nodup) (hsub : parts.Subperm (split secret xs coeffs))
    (ht : t ≤ parts.length) :
    combine parts = .ok secret := by
  have hsn : (split secret xs coeffs).Nodup := by
    rw [split_eq]
    refine List.Nodup.map_on ?_ hnd
    intro x _ y _ h
    have := congrArg (fun p => p.getD secret.length 0) h
    simpa only [share_getD_last hclen] using this
  obtain ⟨l, hl, hls⟩ := hsub
  have hpn : parts.Nodup := hl.nodup_iff.1 (hls.nodup hsn)
  exact combine_of_subset hsec hne ht2 hclen hc hxs hpn (fun p hp => hls.subset (hl.mem_iff.2 hp)) ht

example : combine ((split [66, 23] [1, 2, 3] [[5], [9]]).take 2) = .ok [66, 23] := by decide
example : combine [(split [66, 23] [1, 2, 3] [[5], [9]])[2], (split [66, 23] [1, 2, 3] [[5], [9]])[0]]
    = .ok [66, 23] := by decide
example : Bytes [66, 23] ∧ CoeffsWF (2 - 1) [[5], [9]] ∧ [1, 2, 3].Nodup := by
  refine ⟨by unfold Bytes; decide, ?_, by decide⟩
  intro c hc
  simp only [List.mem_cons, List.not_mem_nil, or_false] at hc
  rcases hc with rfl | rfl <;> exact ⟨rfl, by unfold Bytes; decide⟩

/-! ### 4. below the threshold: nothing -/

/-- **below_threshold_independent.** For every list of `k = t-1` distinct non-zero byte x-coordinates, every
vector of `k` observed y-bytes and **every** candidate secret byte `s` there is exactly one vector of `k` byte
coefficients that produces those observations: for each fixed secret the map coefficients ↦ observed shares is a
bijection `256^k → 256^k`. Hence with uniformly random coefficients the joint distribution of any `t-1` shares is
the same (uniform) for all secrets — the probabilistic reading is this one counting step. -/
theorem below_threshold_independent (xs ys : List Nat) (s : Nat) (hxs : Bytes xs) (hnd : xs.Nodup)
    (hnz : ∀ x ∈ xs, x ≠ 0) (hys : Bytes ys) (hlen : ys.length = xs.length) (hs : s < 256) :
    ∃! cs : List Nat, cs.length = xs.length ∧ Bytes cs ∧ xs.map (evaluate (s :: cs)) = ys :=
  existsUnique_coeffs_nat hxs hnd hnz hys hlen hs

/-- **below_threshold_consistent** (whole secrets). Take any split with threshold `t = k+1` (`k` coefficients per
byte) and look at the `k` shares at distinct non-zero x-coordinates `xs`. For *every* candidate secret of the same
length there is exactly one well-formed coefficient table that makes `Split` produce exactly the same `k` shares:
fewer than `t` shares are consistent with every possible secret, each equally often. -/
theorem below_threshold_consistent (xs secret secret' : List Nat) (coeffs : List (List Nat))
    (hxs : Bytes xs) (hnd : xs.Nodup) (hnz : ∀ x ∈ xs, x ≠ 0)
    (hb' : Bytes secret') (hb : Bytes secret) (hl : secret'.length = secret.length)
    (hclen : coeffs.length = secret.length) (hc : CoeffsWF xs.length coeffs) :
    ∃! coeffs' : List (List Nat), coeffs'.length = secret'.length ∧ CoeffsWF xs.length coeffs' ∧
      split secret' xs coeffs' = split secret xs coeffs :=
  split_consistent hxs hnd hnz secret' secret coeffs hb' hb hl hclen hc

/-- the hypotheses are satisfiable; e.g. two observed shares of a threshold-3 split and the candidate byte 77 -/
example : ∃! cs : List Nat, cs.length = 2 ∧ Bytes cs ∧ [3, 9].map (evaluate (77 :: cs)) = [1, 2] :=
  below_threshold_independent [3, 9] [1, 2] 77 (by decide) (by decide) (by decide) (by decide) rfl (by decide)

/-- the non-zero hypothesis is necessary: a share at `x = 0` *is* the secret byte -/
example : ∀ s c : Nat, s < 256 → c < 256 → evaluate [s, c] 0 = s :=
  fun s c hs hc => evaluate_at_zero hs (by intro v hv; simp at hv; omega)
example : (split [66] [7] [[5]] = split [200] [7] [[225]]) := by decide

/-- **the dealer must draw from the whole field, zero included** (seeded change C20-4: a dealer that draws the
leading coefficient again until it is non-zero). At threshold 2 the single observed share `(x, y)` is consistent
with the candidate secret byte `y` through the coefficient `0` **only**: a dealer that never uses a zero leading
coefficient can never have produced it, so the holder of one share learns `secret ≠ y` — fewer than `t` shares are
then *not* consistent with every possible secret. `below_threshold_independent`/`below_threshold_consistent` count
over **all** byte coefficient tables; the correspondence (`split` operations replayed on a random stream whose
leading coefficient is zero) checks that the code's dealer uses the stream as it comes. -/
theorem zero_leading_coefficient_needed_cex (x y c : Nat) (hx : x < 256) (hx0 : x ≠ 0) (hy : y < 256) (hc : c < 256)
    (h : evaluate [y, c] x = y) : c = 0 := by
  obtain ⟨cs, _, huniq⟩ := below_threshold_independent [x] [y] y
    (by intro v hv; simp at hv; omega) (by simp) (by intro v hv; simp at hv; omega)
    (by intro v hv; simp at hv; omega) rfl hy
  have h1 := huniq [c] ⟨rfl, by intro v hv; simp at hv; omega, by simp [h]⟩
  have h0 := huniq [0] ⟨rfl, by intro v hv; simp at hv; omega, by
    show [evaluate [y, 0] x] = [y]
    have : evaluate [y, 0] x = y := by
      show add (mult (add (mult 0 x) 0) x) y = y
      rw [mult_zero_left]
      show add (mult 0 x) y = y
      rw [mult_zero_left]
      exact Nat.zero_xor y
    rw [this]⟩
  have := h1.trans h0.symm
  simpa using this

/-! ### 5. x-coordinates and `Combine`'s input checks -/

/-- **xs_distinct_nonzero.** Whatever permutation of `1..255` the Fisher–Yates shuffle produces, its first `n`
entries are pairwise distinct, non-zero bytes (and there are `min n 255` of them). -/
theorem xs_distinct_nonzero (l : List Nat) (n : Nat) (hp : l.Perm (List.range' 1 255)) :
    (l.take n).Nodup ∧ (∀ x ∈ l.take n, x ≠ 0 ∧ x < 256) ∧ (l.take n).length = min n 255 := by
  have hnd : l.Nodup := hp.nodup_iff.2 (List.nodup_range' (step := 1) (by omega))
  refine ⟨hnd.sublist (List.take_sublist n l), ?_, ?_⟩
  · intro x hx
    have := hp.mem_iff.1 (List.mem_of_mem_take hx)
    rw [List.mem_range'_1] at this
    omega
  · rw [List.length_take, hp.length_eq, List.length_range']

example : (List.range' 1 255).Perm (List.range' 1 255) := .refl _
example : [3, 1, 2].Perm (List.range' 1 3) := by decide

/-- **combine_rejects.** `Combine` classifies every input: fewer than two parts; first part shorter than 2;
some part of a different length; a repeated x tag — and accepts exactly the rest, returning `len-1` bytes. -/
theorem combine_rejects (parts : List (List Nat)) :
    (parts.length < 2 → combine parts = .error .tooFew) ∧
    ∀ p0 p1 rest, parts = p0 :: p1 :: rest →
      let tags := parts.map fun p => p.getD (p0.length - 1) 0
      (p0.length < 2 → combine parts = .error .tooShort) ∧
      (2 ≤ p0.length → (∃ p ∈ p1 :: rest, p.length ≠ p0.length) → combine parts = .error .unequal) ∧
      (2 ≤ p0.length → (∀ p ∈ p1 :: rest, p.length = p0.length) → ¬ tags.Nodup →
        combine parts = .error .duplicate) ∧
      (2 ≤ p0.length → (∀ p ∈ p1 :: rest, p.length = p0.length) → tags.Nodup →
        ∃ s, combine parts = .ok s ∧ s.length = p0.length - 1) := by
  refine ⟨combine_rejects_few parts, ?_⟩
  rintro p0 p1 rest rfl
  intro tags
  rw [combine_cons_cons]
  refine ⟨fun h => by simp [h], fun h2 hne => ?_, fun h2 heq hd => ?_, fun h2 heq hd => ?_⟩
  · have h1 : ¬ p0.length < 2 := by omega
    have : (p1 :: rest).any (fun p => p.length != p0.length) = true := by
      obtain ⟨p, hp, hpl⟩ := hne
      exact List.any_eq_true.2 ⟨p, hp, by simpa using hpl⟩
    simp only [h1, this, if_true, if_false]
  · have h1 : ¬ p0.length < 2 := by omega
    have h3 : (p1 :: rest).any (fun p => p.length != p0.length) = false := by
      rw [List.any_eq_false]; intro p hp; simp [heq p hp]
    have h4 := (hasDup_eq_true_iff tags).2 hd
    simp only [h1, h3, if_false, Bool.false_eq_true]
    rw [if_pos h4]
  · have h1 : ¬ p0.length < 2 := by omega
    have h3 : (p1 :: rest).any (fun p => p.length != p0.length) = false := by
      rw [List.any_eq_false]; intro p hp; simp [heq p hp]
    have h4 := (hasDup_eq_false_iff tags).2 hd
    simp only [h1, h3, if_false, Bool.false_eq_true]
    rw [if_neg (by rw [h4]; simp)]
    exact ⟨_, rfl, by simp⟩

/-- **shamir_scheme** (the property in one statement). Let `l` be whatever permutation of `1..255` the shuffle
produced, `2 ≤ t ≤ n ≤ 255`, `secret` non-empty bytes, `coeffs` the `t-1` random bytes drawn per secret byte, and
`shares = split secret (l.take n) coeffs` what `Split` returns. Then there are `n` shares, each `len(secret)+1`
long with pairwise distinct non-zero tags; **every** sub-collection of at least `t` of them (any order) combines to
the secret; and for **every** choice `ys` of `t-1` of the x-coordinates and **every** other secret of the same
length exactly one coefficient table makes `Split` produce the very same `t-1` shares. -/
theorem shamir_scheme (l : List Nat) (hp : l.Perm (List.range' 1 255)) (n t : Nat)
    (ht2 : 2 ≤ t) (htn : t ≤ n) (hn : n ≤ 255)
    (secret : List Nat) (coeffs : List (List Nat)) (hsec : Bytes secret) (hne : secret ≠ [])
    (hclen : coeffs.length = secret.length) (hc : CoeffsWF (t - 1) coeffs) :
    let shares := split secret (l.take n) coeffs
    (shares.length = n ∧ (∀ p ∈ shares, p.length = secret.length + 1) ∧
      (shares.map fun p => p.getD secret.length 0) = l.take n ∧
      (l.take n).Nodup ∧ ∀ x ∈ l.take n, x ≠ 0 ∧ x < 256) ∧
    (∀ parts : List (List Nat), parts.Subperm shares → t ≤ parts.length → combine parts = .ok secret) ∧
    (∀ ys : List Nat, ys.Subperm (l.take n) → ys.length = t - 1 →
      ∀ secret' : List Nat, Bytes secret' → secret'.length = secret.length →
        ∃! coeffs' : List (List Nat), coeffs'.length = secret'.length ∧ CoeffsWF (t - 1) coeffs' ∧
          split secret' ys coeffs' = split secret ys coeffs) := by
  intro shares
  obtain ⟨hnd, hx, hlen⟩ := xs_distinct_nonzero l n hp
  have hxs : Bytes (l.take n) := fun x h => (hx x h).2
  refine ⟨⟨?_, ?_, ?_, hnd, hx⟩, ?_, ?_⟩
  · simp only [shares, split_eq, List.length_map, hlen]; omega
  · intro p h
    simp only [shares, split_eq] at h
    obtain ⟨x, _, rfl⟩ := List.mem_map.1 h
    exact share_length hclen x
  · simp only [shares, split_eq, List.map_map]
    conv => rhs; rw [← List.map_id (l.take n)]
    exact List.map_congr_left fun x _ => share_getD_last hclen x
  · intro parts hsub ht
    exact combine_split_subperm secret (l.take n) coeffs t parts hsec hne ht2 hclen hc hxs hnd hsub ht
  · intro ys hsub hyl secret' hb' hl'
    obtain ⟨l', hl'p, hl's⟩ := hsub
    have hynd : ys.Nodup := hl'p.nodup_iff.1 (hl's.nodup hnd)
    have hymem : ∀ y ∈ ys, y ∈ l.take n := fun y hy => hl's.subset (hl'p.mem_iff.2 hy)
    have := below_threshold_consistent ys secret secret' coeffs (fun y hy => (hx y (hymem y hy)).2) hynd
      (fun y hy => (hx y (hymem y hy)).1) hb' hsec hl' hclen (by rw [hyl]; exact hc)
    rw [hyl] at this
    exact this

example : combine [[1, 2]] = .error .tooFew := by decide
example : combine [[1], [2]] = .error .tooShort := by decide
example : combine [[1, 2], [3, 4, 5]] = .error .unequal := by decide
example : combine [[1, 7], [3, 7]] = .error .duplicate := by decide
example : combine [[1, 7], [3, 8]] = .ok [199] := by decide

/-! ### 6. threshold accounting (`seal_manager.go`: `unsealFragment` / `recordUnsealPart` / `getUnsealKey`) -/

open Obao.Threshold in
/-- **threshold_accounting.** For every configuration and **every** sequence `ks` of submitted parts (any
values, repetitions, lengths), starting from no recorded parts:
1. the recorded parts are pairwise distinct, were all submitted, pass the length checks, and (when present) are
   fewer than the threshold;
2. every key ever handed out was computed from at least `threshold` pairwise distinct valid submitted parts
   (`Parts[0]` when the threshold is 1, `shamir.Combine` of them otherwise);
3. as long as no submission completed an attempt, `progress` is the number of distinct valid parts submitted;
4. resubmitting a recorded part changes nothing and yields no key;
5. no submission yields a key while the progress it would reach is below the threshold. -/
theorem threshold_accounting (cfg : Cfg) (ks : List Part) :
    let r := run cfg [] ks
    (r.1.Nodup ∧ (∀ p ∈ r.1, p ∈ ks ∧ Valid cfg p) ∧ (r.1 ≠ [] → (progress r.1 : Int) < cfg.threshold)) ∧
    (∀ key, Outcome.key key ∈ r.2 →
      ∃ parts : List Part, parts.Nodup ∧ (∀ p ∈ parts, p ∈ ks ∧ Valid cfg p) ∧
        cfg.threshold ≤ (parts.length : Int) ∧
        ((cfg.threshold = 1 ∧ parts.head? = some key) ∨ (cfg.threshold ≠ 1 ∧ combine parts = .ok key))) ∧
    ((∀ o ∈ r.2, o.completes = false) →
      ∀ [DecidablePred (Valid cfg)], progress r.1 = (ks.toFinset.filter (Valid cfg)).card) ∧
    (∀ k ∈ r.1, submit cfg r.1 k = (r.1, .duplicate)) ∧
    (∀ k, ((progress r.1 : Int) + 1 < cfg.threshold) → ∀ key, (submit cfg r.1 k).2 ≠ .key key) := by
  intro r
  have hinv : Inv cfg r.1 := run_inv ks (inv_nil cfg)
  have hmem : ∀ p ∈ r.1, p ∈ ks := fun p hp => (run_mem (cfg := cfg) ks (st := []) p hp).resolve_left (by simp)
  refine ⟨⟨hinv.nodup, fun p hp => ⟨hmem p hp, hinv.valid p hp⟩, hinv.below⟩, ?_, ?_, ?_, ?_⟩
  · intro key hk
    obtain ⟨parts, hnd, hm, hge, hkey⟩ := run_key_sound ks (inv_nil cfg) key hk
    exact ⟨parts, hnd, fun p hp => ⟨((hm p hp).2).resolve_left (by simp), (hm p hp).1⟩, hge, hkey⟩
  · intro hno inst
    have hchar := run_progress (cfg := cfg) ks (st := []) hno
    have : r.1.toFinset = ks.toFinset.filter (Valid cfg) := by
      ext p
      simp only [List.mem_toFinset, Finset.mem_filter]
      rw [hchar p]; simp
    rw [← this, List.toFinset_card_of_nodup hinv.nodup]; rfl
  · intro k hk
    exact submit_duplicate (hinv.valid k hk) hk
  · intro k hlt key
    apply submit_no_key_below
    simp only [List.length_append, List.length_singleton, progress] at hlt ⊢
    omega

open Obao.Threshold in
/-- **An attempt completes only on `threshold` DISTINCT parts.**  After every history `ks`, whichever part `k` comes
next: if that submission ends the attempt — `shamir.Combine` (or `Parts[0]`) runs and the progress is reset, whether
it yields a key or a Combine error — then `k` was not recorded before (a repeated part never counts), and the recorded
parts together with `k` are pairwise distinct and at least `threshold` many. -/
theorem attempt_completes_only_at_threshold_distinct (cfg : Cfg) (ks : List Part) (k : Part) :
    let st := (run cfg [] ks).1
    (submit cfg st k).2.completes = true →
      k ∉ st ∧ (st ++ [k]).Nodup ∧ cfg.threshold ≤ ((st ++ [k]).length : Int) := by
  intro st hc
  have hinv : Inv cfg st := run_inv ks (inv_nil cfg)
  unfold submit at hc
  split at hc
  · simp [Outcome.completes] at hc
  · split at hc
    · simp [Outcome.completes] at hc
    · split at hc
      · simp [Outcome.completes] at hc
      · rename_i hnc
        have hk : k ∉ st := by simpa using hnc
        simp only at hc
        split at hc
        · simp [Outcome.completes] at hc
        · rename_i hge
          refine ⟨hk, ?_, by omega⟩
          rw [List.nodup_append]
          refine ⟨hinv.nodup, by simp, ?_⟩
          intro a ha b hb
          simp only [List.mem_singleton] at hb
          subst hb
          intro hab; subst hab; exact hk ha

open Obao.Threshold in
/-- the accounting is live: three distinct shares at threshold 3 unseal; a repeated share does not count -/
example :
    let cfg : Cfg := ⟨3, 3, 3⟩
    let sh := split [66, 23] [1, 2, 3, 4] [[5, 7], [9, 11]]
    (run cfg [] [sh[0], sh[0], sh[1]]).2 = [.pending 1, .duplicate, .pending 2] ∧
    (run cfg [] [sh[0], sh[0], sh[1], sh[3]]).2 = [.pending 1, .duplicate, .pending 2, .key [66, 23]] := by
  decide

/-! ### 7. rotation / rekey / generate-root proceed only on a verified quorum
(`rotate.go` `UpdateRotation`/`progressRotation`; same shape: `rekey.go` `BarrierRekeyUpdate`/`RecoveryRekeyUpdate`,
`generate_root.go` `GenerateRootUpdate`). Verification of the recovered key (`VerifyRecoveryKey`; for a Shamir barrier:
the recovered key must decrypt the stored root key) is modelled as equality with the key the current shares were
dealt from (`cfg.secret`). -/

open Obao.Threshold in
/-- **rotation_requires_quorum.** For every configuration and **every** sequence `ks` of parts submitted to an
operation (any values, repetitions, lengths), starting from no recorded parts, and every position `i` at which the
operation proceeds: the parts `ps` of that attempt (the ones recorded since the last completed recovery) end with the
part submitted at `i`, are pairwise distinct, were all submitted at or before `i`, are at least `threshold` many —
exactly `threshold` — and verification passes **on exactly these parts**: `Parts[0]` (threshold 1) resp.
`shamir.Combine(ps)` is the current key. `proceeds → verify ok`, and `verify ok` is decided by the model's `combine`
on the submitted parts; nothing else lets a step proceed (`rotSubmit_proceeds_iff`). -/
theorem rotation_requires_quorum (cfg : RotCfg) (ks : List Part) (i : Nat)
    (h : (rotRun cfg [] ks).2[i]? = some .proceeds) :
    ∃ (ps : List Part) (k : Part), ks[i]? = some k ∧ ps.getLast? = some k ∧ RotValid cfg k ∧ ps.Nodup ∧
      (∀ p ∈ ps, p ∈ ks.take (i + 1)) ∧ cfg.threshold ≤ (ps.length : Int) ∧
      ((ps.length : Int) = cfg.threshold ∨ ps.length = 1) ∧ Verified cfg ps := by
  obtain ⟨ps, k, h1, h2, h3, h4, h5, h6, h7, h8⟩ := rotRun_proceeds_sound ks (rotInv_nil cfg) i h
  exact ⟨ps, k, h1, h2, h3, h4, fun p hp => (h5 p hp).resolve_left (by simp), h6, h7, h8⟩

open Obao.Threshold in
/-- one step: the operation proceeds **iff** the part is acceptable and new, the attempt reaches the threshold and
the key recovered from the attempt's parts verifies -/
theorem rotation_step_iff (cfg : RotCfg) (st : List Part) (k : Part) :
    (rotSubmit cfg st k).2 = .proceeds ↔
      (RotValid cfg k ∧ k ∉ st ∧ cfg.threshold ≤ ((st ++ [k]).length : Int) ∧ Verified cfg (st ++ [k])) :=
  rotSubmit_proceeds_iff cfg st k

open Obao.Threshold in
/-- **rotation_quorum_is_genuine.** The current key `secret` was dealt by `Split` with threshold `t ≥ 2`
(coefficients `coeffs`, non-zero byte x-coordinates `xs`). Whenever an operation proceeds at position `i` of any
submission sequence, the attempt consists of exactly `t` distinct submitted parts that `Combine` to `secret`, and
none of them can be a forgery completing `t-1` genuine shares: if all parts of the attempt except the `j`-th are
genuine shares, then the `j`-th (bytes) is itself the share `Split` deals for its x-coordinate. (With fewer than `t-1`
genuine shares the holder knows nothing about the key — `below_threshold_consistent` — so a verified recovery from
forged parts is a blind guess of the key, probability `256^-len`.) -/
theorem rotation_quorum_is_genuine (secret xs : List Nat) (coeffs : List (List Nat)) (t : Nat)
    (hsec : Bytes secret) (ht2 : 2 ≤ t) (hclen : coeffs.length = secret.length)
    (hc : CoeffsWF (t - 1) coeffs) (hxs : Bytes xs) (hnz : ∀ x ∈ xs, x ≠ 0)
    (lc : Option (Nat × Nat)) (ks : List Part) (i : Nat)
    (h : (rotRun ⟨t, secret, lc⟩ [] ks).2[i]? = some .proceeds) :
    ∃ ps : List Part, ps.Nodup ∧ (∀ p ∈ ps, p ∈ ks.take (i + 1)) ∧ ps.length = t ∧ combine ps = .ok secret ∧
      ∀ j (hj : j < ps.length), Bytes ps[j] →
        (∀ i' (hi : i' < ps.length), i' ≠ j → ps[i'] ∈ split secret xs coeffs) →
        ps[j] = share secret coeffs (ps[j].getD secret.length 0) := by
  obtain ⟨ps, k, _, _, _, hnd, hmem, hge, hlen, hver⟩ := rotation_requires_quorum ⟨t, secret, lc⟩ ks i h
  have hlen' : ps.length = t := by
    simp only at hge hlen
    rcases hlen with hl | hl
    · exact_mod_cast hl
    · omega
  have hcomb : combine ps = .ok secret := by
    rcases hver with ⟨h1, _⟩ | ⟨_, h2⟩
    · simp only at h1; omega
    · exact h2
  exact ⟨ps, hnd, hmem, hlen', hcomb, fun j hj hb hgen =>
    forged_part_on_polynomial hsec hclen hc hxs hnz ps hlen' j hj hb hgen hcomb⟩

open Obao.Threshold in
/-- **rotation_quorum_suffices** (the other direction): `t` pairwise distinct genuine shares of the current key,
submitted to one attempt, do let the operation proceed at the `t`-th. -/
theorem rotation_quorum_suffices (secret xs : List Nat) (coeffs : List (List Nat)) (t : Nat)
    (hsec : Bytes secret) (hne : secret ≠ []) (ht2 : 2 ≤ t) (hclen : coeffs.length = secret.length)
    (hc : CoeffsWF (t - 1) coeffs) (hxs : Bytes xs)
    (lc : Option (Nat × Nat)) (st : List Part) (k : Part) (hv : RotValid ⟨t, secret, lc⟩ k)
    (hnd : (st ++ [k]).Nodup) (hgen : ∀ p ∈ st ++ [k], p ∈ split secret xs coeffs) (hlen : (st ++ [k]).length = t) :
    rotSubmit ⟨t, secret, lc⟩ st k = ([], .proceeds) := by
  have hk : k ∉ st := by
    intro hm
    have := List.nodup_append.1 hnd
    exact this.2.2 k hm k (by simp) rfl
  have hver : Verified ⟨t, secret, lc⟩ (st ++ [k]) :=
    Or.inr ⟨by simp only; omega, combine_of_subset hsec hne ht2 hclen hc hxs hnd hgen (by omega)⟩
  have hp := (rotSubmit_proceeds_iff ⟨t, secret, lc⟩ st k).2 ⟨hv, hk, by simp only; omega, hver⟩
  rcases rotSubmit_state ⟨t, secret, lc⟩ st k with e | ⟨_, hlt, _⟩ | e
  · exfalso
    rcases rotSubmit_cases ⟨t, secret, lc⟩ st k with ⟨hnv, _⟩ | ⟨_, e2⟩
    · exact hnv hv
    · rcases rotSubmit_rest_cases ⟨t, secret, lc⟩ st k with ⟨hm, _⟩ | ⟨_, hlt, _⟩ | ⟨_, _, e3, _⟩
      · exact hk hm
      · simp only at hlt; omega
      · rw [e2, e3] at e
        have : st = [] := e.symm
        subst this
        simp at hlen; omega
  · simp only at hlt; omega
  · exact Prod.ext e hp

open Obao.Threshold in
/-- the rotation accounting is live: a forged completion is refused and resets the attempt, a repeated share does
not count, two distinct genuine shares at threshold 2 proceed; a path with a length check rejects first -/
example :
    let sh := split [66, 23] [1, 2, 3] [[5], [9]]
    (rotRun ⟨2, [66, 23], none⟩ [] [sh[0], [1, 2, 7], sh[0], sh[0], sh[2]]).2
      = [.pending 1, .verifyFail, .pending 1, .duplicate, .proceeds] ∧
    (rotRun ⟨2, [66, 23], some (3, 3)⟩ [] [[1], sh[0], [9, 9, 1]]).2
      = [.tooShort, .pending 1, .combineErr .duplicate] := by
  decide

end C20
