import Obao.Proofs.TransitNoPanic
import Obao.Proofs.TransitFaults
import Obao.Proofs.TransitBatch
import Obao.Proofs.TransitAtoi
/-!
C17 — transit encryption round-trips, binds its inputs and honours version limits.

All theorems are about the executable model `Obao.Transit` (tied to `sdk/helper/keysutil` and the transit
endpoints by the streams `keysutil`, `keysutil-faults`, `transit-endpoints`, `transit-endpoints-faults`).
`run init ops` is the state after an arbitrary history `ops` of operations (create, rotate, configure, trim, backup,
restore, delete interleaved with encrypt, decrypt, rewrap, sign, verify, hmac, hmac-verify) of any length; `FF ops`
says that no storage fault is planned in it; `KeepsRing ops` that it contains no create / restore / delete.
Cryptography is symbolic: an artifact opens / verifies exactly under the key, derivation context, associated data
or message and body it was made with.
-/
namespace C17
open Obao.Transit

/-- **archive_invariant.** After every fault-free history the key ring is consistent (`PInv`): the version
numbers are ordered `1 ≤ minDec ≤ latest`, `minAvail ≤ minDec`, `minAvail ≤ minEnc ≤ latest` (or `minEnc = 0`), the
archive holds exactly the versions `[minAvail, latest]` at offset `minAvail` with `ArchiveVersion = latest` and
`ArchiveMinVersion = minAvail`, the in-memory key map holds exactly `[minDec, latest]` with the archived keys, and
every slot holds a key generated for that version; every artifact names the version of its key, and every backup
taken is itself consistent. -/
theorem archive_invariant (ops : List Op) (hff : FF ops) : Inv (run init ops) :=
  inv_run ops init inv_init hff

/-- **roundtrip.** After any fault-free history, whenever `encrypt` returns a ciphertext (any requested version,
context, associated data, plaintext; any key type and mode), decrypting that ciphertext with the same context and
associated data returns exactly the plaintext. -/
theorem roundtrip (ops : List Op) (hff : FF ops) (ver : Int) (ctx aad nonce plain : String) (h v : Nat)
    (henc : (encrypt (run init ops) ver ctx aad nonce plain).2 = .okArt h v) :
    (decrypt (encrypt (run init ops) ver ctx aad nonce plain).1 h .same .same ctx aad).2 = .okPlain plain :=
  roundtrip_of_inv (archive_invariant ops hff) henc

/-- **rewrap_roundtrip.** After any fault-free history, when `rewrap` (decrypt, then encrypt under the requested or
latest version) returns a new ciphertext, that ciphertext decrypts — with the same context — to exactly the plaintext
sealed in the old one. -/
theorem rewrap_roundtrip (ops : List Op) (hff : FF ops) (h : Nat) (ver : Int) (ctx : String) (h' v' : Nat)
    (hrw : (rewrap (run init ops) h ver ctx).2 = .okArt h' v') :
    ∃ a, artAt (run init ops) h .enc = some a ∧
      (decrypt (rewrap (run init ops) h ver ctx).1 h' .same .same ctx "-").2 = .okPlain a.msg := by
  have hi := archive_invariant ops hff
  generalize run init ops = st at *
  unfold rewrap at hrw ⊢
  cases ha : artAt st h .enc with
  | none => rw [ha] at hrw; cases hrw
  | some a =>
    rw [ha] at hrw
    cases hp : st.pol with
    | none => rw [hp] at hrw; cases hrw
    | some p =>
      rw [hp] at hrw
      simp only at hrw ⊢
      cases hd : decryptArt p a .same .same ctx "-" with
      | error c => rw [hd] at hrw; cases hrw
      | ok m =>
        rw [hd] at hrw
        simp only at hrw ⊢
        obtain ⟨_, _, _, _, _, hrest⟩ := decryptArt_ok_iff.1 hd
        simp only at hrest
        obtain ⟨_, _, _, _, _, _, _, hm⟩ := hrest
        refine ⟨a, rfl, ?_⟩
        rw [← hm]
        exact roundtrip_of_inv hi hrw

/-- **binds_inputs.** After any fault-free history, a decryption that succeeds — whatever was done to the version
prefix, the body, the context and the associated data — returns exactly the plaintext sealed in that ciphertext,
and only if the body is untouched, the prefix denotes the ciphertext's own version (`"01"`, `"+1"` denote 1; `v0` is
the documented alias of `v1`), that version is inside `[minDec, latest]`, the associated data are the sealed ones
and — for a derived key — the context is the sealed one. Any other combination is an error, never another
plaintext. -/
theorem binds_inputs (ops : List Op) (hff : FF ops) (h : Nat) (vm : VMut) (bm : BMut) (ctx aad m : String)
    (hdec : (decrypt (run init ops) h vm bm ctx aad).2 = .okPlain m) :
    ∃ a p, artAt (run init ops) h .enc = some a ∧ (run init ops).pol = some p ∧
      m = a.msg ∧ bm = .same ∧ denotes a vm a.ver ∧ p.minDec ≤ a.ver ∧ a.ver ≤ p.latest ∧
      aad = a.aad ∧ (p.derived = true → ctx = a.dctx) := by
  have hi := archive_invariant ops hff
  generalize run init ops = st at *
  obtain ⟨a, p, ha, hp, hd⟩ := decrypt_ok_iff.1 hdec
  obtain ⟨_, n1, n2, ver0, hv0, hrest⟩ := decryptArt_ok_iff.1 hd
  simp only at hrest
  obtain ⟨_, _, hb, dctx, hk, hdc, haad, hm⟩ := hrest
  obtain ⟨g0, g1, g2, g3, _⟩ := getKey_spec hk
  obtain ⟨w0, w1, w2, _⟩ := (hi.pol p hp).kget_ver g1
  -- the artifact names the version of its key
  have hart : a.key.1 = a.ver := by
    unfold artAt at ha
    split at ha
    · cases ha
    · split at ha
      · split at ha
        · cases ha; rename_i hget _
          exact (hi.arts _ (List.mem_of_getElem? hget)).1
        · cases ha
      · cases ha
  have hver : (if ver0 = 0 then 1 else ver0) = (a.ver : Int) := by omega
  refine ⟨a, p, ha, hp, hm, hb, ⟨ver0, hv0, hver.symm, n1, n2⟩, by omega, by omega, haad, fun hder => ?_⟩
  rw [← hdc, g2, hder]; rfl

/-- **encrypt_respects_min_enc.** After any fault-free history, `encrypt` never uses a version below
`min_encryption_version` (nor below `min_decryption_version`, nor above `latest`): version 0 means the latest
version, which is never below the minimum; an explicit version is used as given or refused. -/
theorem encrypt_respects_min_enc (ops : List Op) (hff : FF ops) (ver : Int) (ctx aad nonce plain : String) (h v : Nat)
    (henc : (encrypt (run init ops) ver ctx aad nonce plain).2 = .okArt h v) :
    ∃ p, (run init ops).pol = some p ∧ p.minEnc ≤ v ∧ p.minDec ≤ v ∧ v ≤ p.latest ∧
      (ver = 0 → v = p.latest) ∧ (ver ≠ 0 → (v : Int) = ver) := by
  have hi := archive_invariant ops hff
  generalize run init ops = st at *
  obtain ⟨p, a, hp, he, hv, _, _⟩ := encrypt_ok_spec henc
  obtain ⟨_, s2, _⟩ := encryptArt_spec he
  obtain ⟨_, _, k3, _⟩ := encryptArt_ok (hi.pol p hp) he
  obtain ⟨_, w1, w2, _⟩ := (hi.pol p hp).kget_ver k3
  obtain ⟨q1, q2, q3, _⟩ := pickVersion_spec s2
  have := (hi.pol p hp).encLe
  subst hv
  refine ⟨p, hp, ?_, w1, w2, q1, q2⟩
  by_cases h0 : ver = 0
  · rw [q1 h0]; exact this
  · exact q3 h0

/-- **old_versions_until_min_raised.** Take any fault-free history, a ciphertext `h` of version `v` returned by
`encrypt` after it, and then ANY further history of rotations, configuration changes (minimum versions, flags), trims,
backups and cryptographic operations (any length; everything but re-creating, restoring or deleting the key). At the
end the ciphertext decrypts to its plaintext if and only if `min_decryption_version ≤ v` (and `v ≤ latest` always
holds); once the minimum has been raised above `v` it is refused as too old, and lowering the minimum again (as far
as trimming allows) makes it decryptable again with the same key. -/
theorem old_versions_until_min_raised (ops : List Op) (hff : FF ops) (ver : Int) (ctx aad nonce plain : String)
    (h v : Nat) (henc : (encrypt (run init ops) ver ctx aad nonce plain).2 = .okArt h v)
    (later : List Op) (hk : KeepsRing later) :
    ∃ p2, (run (encrypt (run init ops) ver ctx aad nonce plain).1 later).pol = some p2 ∧ v ≤ p2.latest ∧
      ((decrypt (run (encrypt (run init ops) ver ctx aad nonce plain).1 later) h .same .same ctx aad).2 = .okPlain plain
        ↔ p2.minDec ≤ v) ∧
      (¬ p2.minDec ≤ v →
        (decrypt (run (encrypt (run init ops) ver ctx aad nonce plain).1 later) h .same .same ctx aad).2 = .err "tooOld") := by
  have hi := archive_invariant ops hff
  generalize run init ops = st at *
  obtain ⟨p, a, hp, he, hv, hh, hst⟩ := encrypt_ok_spec henc
  obtain ⟨s1, s2, s3, s4, s5, s6, s7, _⟩ := encryptArt_spec he
  obtain ⟨k1, k2, k3, k4⟩ := encryptArt_ok (hi.pol p hp) he
  have hi1 : Inv (encrypt st ver ctx aad nonce plain).1 := inv_encrypt hi ver ctx aad nonce plain
  have ha1 : artAt (encrypt st ver ctx aad nonce plain).1 h .enc = some a := by
    rw [hst, hh, ← k4]; exact artAt_intern st a
  have hp1 : (encrypt st ver ctx aad nonce plain).1.pol = some p := by rw [hst]; exact hp
  generalize (encrypt st ver ctx aad nonce plain).1 = st1 at *
  have hi2 : Inv (run st1 later) := inv_run later st1 hi1 hk.ff
  have he2 : Ext st1 (run st1 later) := ext_run later st1 hi1 hk
  have ha2 := artAt_ext he2 ha1
  obtain ⟨p2, hp2, t1, t2, t3, t4, t5⟩ := key_stable hi1 hi2 he2 hp1 k3
  generalize run st1 later = st2 at *
  have hd2 := (hi2.pol p2 hp2).decPos
  obtain ⟨g0, g1, g2, g3, g4⟩ := getKey_spec s4
  subst hv
  refine ⟨p2, hp2, t4, ⟨fun hdec => ?_, fun hwin => ?_⟩, fun hout => ?_⟩
  · obtain ⟨a', p', ha', hp', hd⟩ := decrypt_ok_iff.1 hdec
    rw [ha2] at ha'; cases ha'
    rw [hp2] at hp'; cases hp'
    obtain ⟨_, _, _, ver0, hv0, hrest⟩ := decryptArt_ok_iff.1 hd
    simp only [parseVer] at hv0; cases hv0
    simp only at hrest
    have hne : ¬ ((a.ver : Int) = 0) := by omega
    rw [if_neg hne] at hrest
    omega
  · rw [decrypt_ok_iff]
    refine ⟨a, p2, ha2, hp2, ?_⟩
    rw [decryptArt_ok_iff]
    refine ⟨by rw [t1]; exact s1, by simp, by simp, (a.ver : Int), rfl, ?_⟩
    have hne : ¬ ((a.ver : Int) = 0) := by omega
    simp only [if_neg hne]
    have hgk := getKey_intro (p := p2) (ctx := ctx) k2 t4 (t5 hwin) (by rw [t2]; exact g3) (by rw [t2]; exact g4)
    refine ⟨by omega, by omega, trivial, _, hgk, ?_, s5.symm, s6.symm⟩
    rw [t2, g2]
  · rw [decrypt_out ha2 hp2]
    have hne : ¬ ((a.ver : Int) = 0) := by omega
    have e1 : p2.ktype.encSupported = true := by rw [t1]; exact s1
    simp only [decryptArt, e1, parseVer, if_neg hne]
    rw [if_neg (by simp), if_neg (by simp), if_neg (by simp), if_neg (by omega), if_pos (by omega)]

/-- **sign_verify_sound.** After any fault-free history, a signature verification that returns `true` — whatever
was done to the version prefix, the body, the context and the message — was given an untouched signature whose
prefix denotes exactly its own version (no alias here), the very message that was signed, a version inside
`[minDec, latest]`, and for a derived Ed25519 key the signing context. -/
theorem sign_verify_sound (ops : List Op) (hff : FF ops) (h : Nat) (vm : VMut) (bm : BMut) (ctx msg : String)
    (hv : (verify (run init ops) h vm bm ctx msg).2 = .okBool true) :
    ∃ a p, artAt (run init ops) h .sig = some a ∧ (run init ops).pol = some p ∧
      bm = .same ∧ denotesExact a vm a.ver ∧ msg = a.msg ∧ p.minDec ≤ a.ver ∧ a.ver ≤ p.latest ∧
      (p.ktype = .ed25519 ∧ p.derived = true → ctx = a.dctx) := by
  have hi := archive_invariant ops hff
  generalize run init ops = st at *
  obtain ⟨a, p, ha, hp, hd⟩ := verify_true_spec hv
  obtain ⟨_, n1, n2, ver, hpv, g0, g1, g2, hb, hk, hm, hc⟩ := verifyArt_true hd
  obtain ⟨w0, w1, w2, _⟩ := (hi.pol p hp).kget_ver hk
  have hart := (hi.arts a (artAt_mem ha).1).1
  have hver : ver = (a.ver : Int) := by omega
  subst hver
  exact ⟨a, p, ha, hp, hb, ⟨hpv, n1, n2⟩, hm, by omega, by omega, hc⟩

/-- **sign_verify_iff.** Take any fault-free history, a signature `h` of version `v` returned by `sign` after it
(Ed25519 plain or derived, ECDSA), and then ANY further history that keeps the key ring (rotations, configuration,
trims, backups, other operations). At the end the signature verifies against its message (and context) if and only
if `min_decryption_version ≤ v`; below the minimum it is refused as too old. -/
theorem sign_verify_iff (ops : List Op) (hff : FF ops) (ver : Int) (ctx msg : String) (h v : Nat)
    (hs : (sign (run init ops) ver ctx msg).2 = .okArt h v) (later : List Op) (hk : KeepsRing later) :
    ∃ p2, (run (sign (run init ops) ver ctx msg).1 later).pol = some p2 ∧ v ≤ p2.latest ∧
      ((verify (run (sign (run init ops) ver ctx msg).1 later) h .same .same ctx msg).2 = .okBool true ↔ p2.minDec ≤ v) ∧
      (¬ p2.minDec ≤ v → (verify (run (sign (run init ops) ver ctx msg).1 later) h .same .same ctx msg).2 = .err "tooOld") := by
  have hi := archive_invariant ops hff
  generalize run init ops = st at *
  obtain ⟨p, a, hp, he, hv, hh, hst⟩ := sign_ok_spec hs
  obtain ⟨s1, s2, s3, s4, s5, s6, s7, s8⟩ := signArt_spec he
  obtain ⟨k1, k2, _, _⟩ := signArt_ok (hi.pol p hp) he
  have hi1 : Inv (sign st ver ctx msg).1 := inv_sign hi ver ctx msg
  have ha1 : artAt (sign st ver ctx msg).1 h .sig = some a := by
    rw [hst, hh, ← s6]; exact artAt_intern st a
  have hp1 : (sign st ver ctx msg).1.pol = some p := by rw [hst]; exact hp
  generalize (sign st ver ctx msg).1 = st1 at *
  obtain ⟨hi2, ha2, p2, hp2, t1, t2, t3, t4, t6, t5⟩ := later_setup hi1 ha1 hp1 s3 later hk
  generalize run st1 later = st2 at *
  subst hv
  refine ⟨p2, hp2, t4, ⟨fun hver => ?_, fun hwin => ?_⟩, fun hout => ?_⟩
  · obtain ⟨a', p', ha', hp', hd⟩ := verify_true_spec hver
    rw [ha2] at ha'; cases ha'
    rw [hp2] at hp'; cases hp'
    obtain ⟨_, _, _, ver0, hv0, _, _, hno, _⟩ := verifyArt_true hd
    simp only [parseVer] at hv0; cases hv0
    omega
  · rw [verify_out ha2 hp2, ← s5]
    rw [verifyArt_intro (by rw [t1]; exact s1) k2 t4 hwin (t5 hwin) s4 (by rw [t1, t2]; exact s7)
      (by rw [t1, t2]; exact s8)]
  · rw [verify_out ha2 hp2]
    have e1 : p2.ktype.signSupported = true := by rw [t1]; exact s1
    simp only [verifyArt, e1, parseVer]
    have e2 : ¬ ((a.ver : Int) > (p2.latest : Int)) := by omega
    have e3 : p2.minDec > 0 ∧ (a.ver : Int) < (p2.minDec : Int) := by omega
    rw [if_neg (by simp), if_neg (by simp), if_neg (by simp), if_neg e2, if_pos e3]
    simp

/-- **hmac_verify_sound.** After any fault-free history, an HMAC verification that returns `true` was given an
untouched HMAC whose prefix denotes its own version, the very message that was MACed, and a version inside
`[minDec, latest]`. -/
theorem hmac_verify_sound (ops : List Op) (hff : FF ops) (h : Nat) (vm : VMut) (bm : BMut) (msg : String)
    (hv : (hmacVerify (run init ops) h vm bm msg).2 = .okBool true) :
    ∃ a p, artAt (run init ops) h .mac = some a ∧ (run init ops).pol = some p ∧
      bm = .same ∧ denotesExact a vm a.ver ∧ msg = a.msg ∧ p.minDec ≤ a.ver ∧ a.ver ≤ p.latest := by
  have hi := archive_invariant ops hff
  generalize run init ops = st at *
  obtain ⟨a, p, ha, hp, hd⟩ := hmacVerify_true_spec hv
  obtain ⟨n1, n2, ver, hpv, g0, g1, g2, hb, hk, hm⟩ := hmacVerifyArt_true hd
  obtain ⟨w0, w1, w2, _⟩ := (hi.pol p hp).kget_ver hk
  have hart := (hi.arts a (artAt_mem ha).1).1
  have hver : ver = (a.ver : Int) := by omega
  subst hver
  exact ⟨a, p, ha, hp, hb, ⟨hpv, n1, n2⟩, hm, by omega, by omega⟩

/-- **hmac_verify_iff.** As `sign_verify_iff`, for HMACs of every key type: after any further ring-keeping history
the HMAC verifies against its message if and only if `min_decryption_version ≤ v`; below it is refused as too old. -/
theorem hmac_verify_iff (ops : List Op) (hff : FF ops) (ver : Int) (msg : String) (h v : Nat)
    (hs : (hmac (run init ops) ver msg).2 = .okArt h v) (later : List Op) (hk : KeepsRing later) :
    ∃ p2, (run (hmac (run init ops) ver msg).1 later).pol = some p2 ∧ v ≤ p2.latest ∧
      ((hmacVerify (run (hmac (run init ops) ver msg).1 later) h .same .same msg).2 = .okBool true ↔ p2.minDec ≤ v) ∧
      (¬ p2.minDec ≤ v → (hmacVerify (run (hmac (run init ops) ver msg).1 later) h .same .same msg).2 = .err "tooOld") := by
  have hi := archive_invariant ops hff
  generalize run init ops = st at *
  obtain ⟨p, a, hp, he, hv, hh, hst⟩ := hmac_ok_spec hs
  obtain ⟨s3, s5, s6, s4, _, _⟩ := hmacArt_spec he
  obtain ⟨k1, k2, _, _⟩ := hmacArt_ok (hi.pol p hp) he
  have hi1 : Inv (hmac st ver msg).1 := inv_hmac hi ver msg
  have ha1 : artAt (hmac st ver msg).1 h .mac = some a := by
    rw [hst, hh, ← s6]; exact artAt_intern st a
  have hp1 : (hmac st ver msg).1.pol = some p := by rw [hst]; exact hp
  generalize (hmac st ver msg).1 = st1 at *
  obtain ⟨hi2, ha2, p2, hp2, t1, t2, t3, t4, t6, t5⟩ := later_setup hi1 ha1 hp1 s3 later hk
  generalize run st1 later = st2 at *
  subst hv
  refine ⟨p2, hp2, t4, ⟨fun hver => ?_, fun hwin => ?_⟩, fun hout => ?_⟩
  · obtain ⟨a', p', ha', hp', hd⟩ := hmacVerify_true_spec hver
    rw [ha2] at ha'; cases ha'
    rw [hp2] at hp'; cases hp'
    obtain ⟨_, _, ver0, hv0, _, _, hno, _⟩ := hmacVerifyArt_true hd
    simp only [parseVer] at hv0; cases hv0
    omega
  · have hne : a.key ≠ emptyKey := by
      intro hc; rw [hc] at k1; simp [emptyKey] at k1; omega
    rw [hmacVerify_out ha2 hp2, ← s5, hmacVerifyArt_intro t4 hwin (t5 hwin) hne]
  · rw [hmacVerify_out ha2 hp2]
    simp only [hmacVerifyArt, parseVer]
    have e2 : ¬ ((a.ver : Int) > (p2.latest : Int)) := by omega
    have e3 : p2.minDec > 0 ∧ (a.ver : Int) < (p2.minDec : Int) := by omega
    rw [if_neg (by simp), if_neg (by simp), if_neg (by simp), if_neg e2, if_pos e3]

/-- **convergent_deterministic.** Take any fault-free history after which the key is convergent (such keys are
always derived: creation refuses anything else), a ciphertext `h` of version `v` returned by `encrypt` for
(context, associated data, plaintext), and then ANY further ring-keeping history. Afterwards
(1) encrypting the same plaintext with the same context and associated data under version `v` returns the very same
ciphertext `h` (deterministic per key version, context, associated data and plaintext), and
(2) whatever request returns ciphertext `h` had the same version, associated data and plaintext and — the key being
derived — the same context: different inputs never collide. -/
theorem convergent_deterministic (ops : List Op) (hff : FF ops) (ver : Int) (ctx aad plain : String) (h v : Nat)
    (henc : (encrypt (run init ops) ver ctx aad "-" plain).2 = .okArt h v)
    (hconv : ∀ p, (run init ops).pol = some p → p.convergent = true)
    (later : List Op) (hk : KeepsRing later) :
    (∀ ver2 h', (encrypt (run (encrypt (run init ops) ver ctx aad "-" plain).1 later) ver2 ctx aad "-" plain).2
        = .okArt h' v → h' = h) ∧
    (∀ ver' ctx' aad' plain' v',
      (encrypt (run (encrypt (run init ops) ver ctx aad "-" plain).1 later) ver' ctx' aad' "-" plain').2 = .okArt h v' →
        v' = v ∧ aad' = aad ∧ plain' = plain ∧
          (∀ p, (run init ops).pol = some p → p.derived = true → ctx' = ctx)) := by
  have hi := archive_invariant ops hff
  generalize run init ops = st at *
  obtain ⟨p, a, hp, he, hv, hh, hst⟩ := encrypt_ok_spec henc
  obtain ⟨s1, s2, s3, s4, s5, s6, s7, s8⟩ := encryptArt_spec he
  obtain ⟨k1, k2, k3, k4⟩ := encryptArt_ok (hi.pol p hp) he
  have hcv := hconv p hp
  have hi1 : Inv (encrypt st ver ctx aad "-" plain).1 := inv_encrypt hi ver ctx aad "-" plain
  have ha1 : artAt (encrypt st ver ctx aad "-" plain).1 h .enc = some a := by
    rw [hst, hh, ← k4]; exact artAt_intern st a
  have hp1 : (encrypt st ver ctx aad "-" plain).1.pol = some p := by rw [hst]; exact hp
  have harts1 : (encrypt st ver ctx aad "-" plain).1.arts = (internArt st.arts a).1 := by rw [hst]
  generalize (encrypt st ver ctx aad "-" plain).1 = st1 at *
  obtain ⟨hi2, ha2, p2, hp2, t1, t2, t3, t4, t6, t5⟩ := later_setup hi1 ha1 hp1 k3 later hk
  obtain ⟨more, hmore⟩ := (ext_run later st1 hi1 hk).arts
  generalize run st1 later = st2 at *
  obtain ⟨g0, g1, g2, g3, g4⟩ := getKey_spec s4
  subst hv
  constructor
  · intro ver2 h' henc2
    obtain ⟨p2', a2, hp2', he2, hv2, hh2, _⟩ := encrypt_ok_spec henc2
    rw [hp2] at hp2'; cases hp2'
    obtain ⟨r1, r2, r3, r4, r5, r6, r7, r8⟩ := encryptArt_spec he2
    obtain ⟨q1, q2, q3, q4⟩ := encryptArt_ok (hi2.pol p2 hp2) he2
    obtain ⟨_, w1, _, _⟩ := (hi2.pol p2 hp2).kget_ver q3
    obtain ⟨_, f1, f2, _⟩ := getKey_spec r4
    have hkey : a2.key = a.key := by
      have := t5 (by omega)
      rw [← hv2] at q3
      rw [q3] at this; exact Option.some.inj this
    have heq : a2 = a :=
      Art.eq_of (by rw [r7, s7]) hv2.symm hkey (by rw [f2, g2, t2]) (by rw [r5, s5]) (by rw [r6, s6])
        (by rw [r8, s8, t3, hcv]; simp)
    rw [hh2, heq, hmore, harts1, internArt_stable, hh]
  · intro ver' ctx' aad' plain' v' henc2
    obtain ⟨p2', a2, hp2', he2, hv2, hh2, _⟩ := encrypt_ok_spec henc2
    rw [hp2] at hp2'; cases hp2'
    obtain ⟨r1, r2, r3, r4, r5, r6, r7, r8⟩ := encryptArt_spec he2
    obtain ⟨_, f1, f2, f3, _⟩ := getKey_spec r4
    -- the artifact found at handle `h` is `a`
    have hget := (internArt_get st2.arts a2)
    have heq : a2 = a := by
      have h2 := artAt_intern st2 a2
      rw [← hh2, r7] at h2
      have h3 : artAt { st2 with arts := (internArt st2.arts a2).1 } h .enc = some a :=
        artAt_ext (ext_intern st2 a2) ha2
      rw [h2] at h3; cases h3; rfl
    subst heq
    refine ⟨hv2, by rw [← r5, s5], by rw [← r6, s6], fun q hq hder => ?_⟩
    rw [hp] at hq; cases hq
    have e1 : a2.dctx = ctx := by rw [g2, hder]; rfl
    have e2 : a2.dctx = ctx' := by rw [f2, t2, hder]; rfl
    rw [← e2, e1]

/-- **atoi_itoa.** The model's `strconv.Atoi` reads back what `strconv.Itoa` writes for every version number a Go
`int` can hold; this is what justifies treating an untouched prefix as denoting the artifact's own version. -/
theorem atoi_itoa (n : Nat) (hn : n < 2 ^ 63) : atoi? (toString n) = some (n : Int) := atoi_toString n hn

/-- **no_panic.** No endpoint operation after any fault-free history panics: the index arithmetic of `handleArchiving`
(`archive.Keys[i-MinAvailableVersion]`, the trim slice) stays in range and verification never meets a key entry
without key material. -/
theorem no_panic (ops : List Op) (hff : FF ops) (o : Op) (ho : o.faultFree = true) :
    (step (run init ops) o).2 ≠ .panic :=
  nopanic_step (archive_invariant ops hff) o ho

/-! ### batch requests (`batch_input`) -/

/-- **batch_is_pointwise.** A batch request (encrypt, decrypt or rewrap items; not refused as a whole for being empty,
mixing items with and without context, or naming no key) is the per-item map of the single-request semantics: its
i-th result is the result of the single request on the i-th item, processed in the state the earlier items left
(they can only have appended artifacts), and the state after the batch is the state after processing the items one by
one. Nothing carries over from one item to the next — in particular no context, key version or associated data. -/
theorem batch_is_pointwise (st : St) (items : List Op) (h1 : items ≠ []) (h2 : ctxMixed items = false)
    (h3 : st.pol.isSome = true) :
    batch st items = (run st items, .ok (outs st items)) ∧ (outs st items).length = items.length ∧
      ∀ i o, items[i]? = some o → (outs st items)[i]? = some (step (run st (items.take i)) o).2 := by
  refine ⟨?_, outs_length st items, fun i o hi => outs_get st items i o hi⟩
  unfold batch
  have e1 : items.isEmpty = false := by cases items with | nil => exact absurd rfl h1 | cons _ _ => rfl
  have e3 : st.pol.isNone = false := by cases hp : st.pol with | none => rw [hp] at h3; cases h3 | some _ => rfl
  simp [e1, h2, e3]

/-- **batch_decrypt_binds.** `binds_inputs` for every item of a decrypt batch after any fault-free history: an item
that yields a plaintext yields the plaintext sealed in ITS ciphertext, and only with ITS OWN untouched body, version,
associated data and (derived keys) context — whatever the other items of the batch supplied. -/
theorem batch_decrypt_binds (ops : List Op) (hff : FF ops) (items : List Op)
    (hdec : ∀ o ∈ items, ∃ hd vm bm c a, o = .decrypt hd vm bm c a)
    (i h : Nat) (vm : VMut) (bm : BMut) (ctx aad m : String)
    (hi : items[i]? = some (.decrypt h vm bm ctx aad))
    (hout : (outs (run init ops) items)[i]? = some (.okPlain m)) :
    ∃ a p, artAt (run init ops) h .enc = some a ∧ (run init ops).pol = some p ∧
      m = a.msg ∧ bm = .same ∧ denotes a vm a.ver ∧ p.minDec ≤ a.ver ∧ a.ver ≤ p.latest ∧
      aad = a.aad ∧ (p.derived = true → ctx = a.dctx) := by
  rw [outs_get _ items i _ hi] at hout
  rw [run_decrypts _ _ (fun o ho => hdec o (List.mem_of_mem_take ho))] at hout
  exact binds_inputs ops hff h vm bm ctx aad m (Option.some.inj hout)

/-- **batch_roundtrip.** `roundtrip` for every item of an encrypt batch after any fault-free history: the ciphertext
returned for item i decrypts, with item i's own context and associated data, to item i's plaintext. -/
theorem batch_roundtrip (ops : List Op) (hff : FF ops) (items : List Op) (hitems : FF items)
    (i : Nat) (ver : Int) (ctx aad nonce plain : String) (h v : Nat)
    (hi : items[i]? = some (.encrypt ver ctx aad nonce plain))
    (hout : (outs (run init ops) items)[i]? = some (.okArt h v)) :
    (decrypt (run (run init ops) (items.take (i + 1))) h .same .same ctx aad).2 = .okPlain plain := by
  rw [outs_get _ items i _ hi] at hout
  rw [run_take_succ _ items i _ hi, ← run_append]
  have := roundtrip (ops ++ items.take i) (ff_append hff (ff_take hitems i)) ver ctx aad nonce plain h v
    (by rw [run_append]; exact Option.some.inj hout)
  rw [run_append] at this ⊢
  exact this

/-- non-vacuity of the batch theorems: a decrypt batch whose first item supplies associated data and whose second
    does not — each item is judged with its own; and a batch mixing items with and without context is refused whole -/
example :
    let st := (encrypt (encrypt (run init [.new .aes256 false false]) 0 "-" "61" "-" "70").1 0 "-" "-" "-" "71").1
    ctxMixed [.decrypt 1 .same .same "-" "61", .decrypt 1 .same .same "-" "-", .decrypt 2 .same .same "-" "-"] = false ∧
    st.pol.isSome = true ∧
    outs st [.decrypt 1 .same .same "-" "61", .decrypt 1 .same .same "-" "-", .decrypt 2 .same .same "-" "-"]
      = [.okPlain "70", .err "auth", .okPlain "71"] ∧
    ctxMixed [.decrypt 1 .same .same "-" "61", .decrypt 2 .same .same "63" "-"] = true := by decide

/-! ### failing storage `Put`s

The theorems above quantify over fault-free histories, as the property does. Since the repairs of F38 (`Persist` also
rolls back `ArchiveMinVersion`) and F39 (the restore endpoint runs `RestorePolicy` inside `StartTxStorage`) the
decryption window also survives storage `Put`s that fail inside ANY endpoint operation, under one assumption that is
built into the model and realised by the fault streams: the storage backend is transactional (as raft and the
in-memory backend are), so that the writes of a failed rotate / config / trim / restore request are rolled back; backup
writes nothing it has to undo. For the bare library call `keysutil.LockManager.RestorePolicy` on a storage handle that is
not a transaction (`restoreRaw`) the statement stays false — two `Put`s, no atomicity — witnessed below by kernel
evaluation and replayed on the real library on every run by the stream `keysutil-faults`. -/

/-- **old_versions_under_faults.** `old_versions_until_min_raised` holds verbatim when the later history also plans
storage faults — any failing `Put` (first, second, third, ...), in front of any endpoint operation, any number of
them, retried or not — and contains restores through the endpoint that fail (for whatever reason: the injected fault,
an existing key without `force`); a restore that succeeds legitimately replaces the key ring and is excluded. At the
end the ciphertext decrypts iff `min_decryption_version ≤ v`, and is refused as too old otherwise. Assumption:
transactional storage (see above). -/
theorem old_versions_under_faults (ops : List Op) (hff : FF ops) (ver : Int) (ctx aad nonce plain : String)
    (h v : Nat) (henc : (encrypt (run init ops) ver ctx aad nonce plain).2 = .okArt h v)
    (later : List Op) (ho : ∀ o ∈ later, o.keepsRingOrFaultOrRestore = true)
    (hr : restoresFail (encrypt (run init ops) ver ctx aad nonce plain).1 later = true) :
    ∃ p2, (run (encrypt (run init ops) ver ctx aad nonce plain).1 later).pol = some p2 ∧ v ≤ p2.latest ∧
      ((decrypt (run (encrypt (run init ops) ver ctx aad nonce plain).1 later) h .same .same ctx aad).2 = .okPlain plain
        ↔ p2.minDec ≤ v) ∧
      (¬ p2.minDec ≤ v →
        (decrypt (run (encrypt (run init ops) ver ctx aad nonce plain).1 later) h .same .same ctx aad).2 = .err "tooOld") := by
  have hi := archive_invariant ops hff
  generalize run init ops = st at *
  obtain ⟨p, a, hp, he, hv, hh, hst⟩ := encrypt_ok_spec henc
  obtain ⟨s1, s2, s3, s4, s5, s6, s7, _⟩ := encryptArt_spec he
  obtain ⟨k1, k2, k3, k4⟩ := encryptArt_ok (hi.pol p hp) he
  have hi1 : Inv (encrypt st ver ctx aad nonce plain).1 := inv_encrypt hi ver ctx aad nonce plain
  have ha1 : artAt (encrypt st ver ctx aad nonce plain).1 h .enc = some a := by
    rw [hst, hh, ← k4]; exact artAt_intern st a
  have hp1 : (encrypt st ver ctx aad nonce plain).1.pol = some p := by rw [hst]; exact hp
  generalize (encrypt st ver ctx aad nonce plain).1 = st1 at *
  obtain ⟨ha2, p2, hp2, t1, t2, t3, t4, t6, t5⟩ := later_setup_any hi1 ha1 hp1 k3 later ho hr
  subst hv
  exact ⟨p2, hp2, t4, decrypt_window_core ha2 hp2 t1 t2 t4 t6 t5 s1 s4 s5 s6 k2⟩

/-- the same statement when the later history may also call `RestorePolicy` outside a transaction -/
def old_versions_under_faults_bare_restore_full : Prop :=
  ∀ (ops : List Op) (_ : FF ops) (ver : Int) (ctx aad nonce plain : String) (h v : Nat)
    (_ : (encrypt (run init ops) ver ctx aad nonce plain).2 = .okArt h v)
    (later : List Op) (_ : ∀ o ∈ later, o.keepsRingOrFaultOrAnyRestore = true)
    (_ : restoresFail (encrypt (run init ops) ver ctx aad nonce plain).1 later = true),
    ∃ p2, (run (encrypt (run init ops) ver ctx aad nonce plain).1 later).pol = some p2 ∧
      (p2.minDec ≤ v →
        (decrypt (run (encrypt (run init ops) ver ctx aad nonce plain).1 later) h .same .same ctx aad).2 = .okPlain plain)

/-- **old_versions_under_faults_bare_restore_cex (F39, library call only).** Create, make the key exportable, take a
backup, rotate, encrypt (version 2); then `RestorePolicy` (force) called WITHOUT a transaction whose policy `Put` —
the third of the call — fails after the backup's archive was written; rotate; raise `min_decryption_version` to 3
and lower it to 1. The version-2 ciphertext, inside `[1, 3]`, is refused: the existing ring was paired with the
backup's shorter archive, the rotation padded it with an empty entry for version 2, and that entry was loaded back. -/
theorem old_versions_under_faults_bare_restore_cex : ¬ old_versions_under_faults_bare_restore_full := by
  intro hfull
  obtain ⟨p2, hp2, hdec⟩ := hfull
    [.new .aes256 false false, .config none none none (some true) (some true), .backup, .rotate]
    (by unfold FF; decide) 0 "-" "-" "-" "70" 1 2 (by decide)
    [.failPut 3, .restoreRaw 1 true, .rotate, .config (some 3) none none none none, .config (some 1) none none none none]
    (by decide) (by decide)
  have hp : p2.minDec = 1 := by
    have : (run (encrypt (run init [.new .aes256 false false, .config none none none (some true) (some true), .backup,
        .rotate]) 0 "-" "-" "-" "70").1
      [.failPut 3, .restoreRaw 1 true, .rotate, .config (some 3) none none none none,
       .config (some 1) none none none none]).pol.map (·.minDec) = some 1 := by decide
    rw [hp2] at this
    exact Option.some.inj this
  have hbad := hdec (by omega)
  revert hbad
  decide

/-- non-vacuity of `old_versions_under_faults`: the F38 history (fault inside `trim`) and the F39 history through the
    endpoint (fault inside `restore`) meet its hypotheses, and the ciphertexts still decrypt -/
example :
    (decrypt (run (encrypt (run init [.new .aes256 false false, .rotate, .rotate]) 0 "-" "-" "-" "70").1
      [.config (some 1) (some 1) none none none, .failPut 1, .trim 1, .trim 1,
       .config (some 3) (some 3) none none none, .config (some 1) none none none none]) 1 .same .same "-" "-").2
      = .okPlain "70" ∧
    restoresFail (encrypt (run init [.new .aes256 false false, .config none none none (some true) (some true), .backup,
        .rotate]) 0 "-" "-" "-" "70").1
      [.failPut 3, .restore 1 true, .rotate, .config (some 3) none none none none,
       .config (some 1) none none none none] = true ∧
    (decrypt (run (encrypt (run init [.new .aes256 false false, .config none none none (some true) (some true), .backup,
        .rotate]) 0 "-" "-" "-" "70").1
      [.failPut 3, .restore 1 true, .rotate, .config (some 3) none none none none,
       .config (some 1) none none none none]) 1 .same .same "-" "-").2 = .okPlain "70" := by decide

/-! ### non-vacuity: concrete histories meeting the hypotheses -/

/-- `roundtrip`, `encrypt_respects_min_enc`: a derived convergent key, rotated, minimum encryption version 2 -/
example : (encrypt (run init [.new .aes256 true true, .rotate, .config none (some 2) none none none]) 0 "63" "61" "-" "70").2
    = .okArt 1 2 := by decide

/-- … and an explicit version below the minimum encryption version is refused -/
example : (encrypt (run init [.new .aes256 true true, .rotate, .config none (some 2) none none none]) 1 "63" "61" "-" "70").2
    = .err "belowMinEnc" := by decide

/-- `binds_inputs`: `v0` opens a version-1 ciphertext (documented alias), `"+1"` and `"01"` too; version 2, another
context or other associated data do not -/
example :
    let st := (encrypt (run init [.new .chacha true false, .rotate]) 1 "63" "61" "-" "70").1
    (decrypt st 1 (.str "0") .same "63" "61").2 = .okPlain "70" ∧
    (decrypt st 1 (.str "+1") .same "63" "61").2 = .okPlain "70" ∧
    (decrypt st 1 (.str "01") .same "63" "61").2 = .okPlain "70" ∧
    (decrypt st 1 (.str "2") .same "63" "61").2 = .err "auth" ∧
    (decrypt st 1 .same .same "64" "61").2 = .err "auth" ∧
    (decrypt st 1 .same .same "63" "62").2 = .err "auth" ∧
    (decrypt st 1 .same .tamper "63" "61").2 = .err "auth" := by decide

/-- `old_versions_until_min_raised`: five rotations later the version-1 ciphertext still decrypts; raising the minimum
to 2 refuses it; lowering it to 1 again makes it decryptable; after trimming version 1 it is gone for good -/
example :
    let st1 := (encrypt (run init [.new .aes128 false false]) 0 "-" "-" "-" "70").1
    (decrypt (run st1 [.rotate, .rotate, .rotate, .rotate, .rotate]) 1 .same .same "-" "-").2 = .okPlain "70" ∧
    (decrypt (run st1 [.rotate, .config (some 2) none none none none]) 1 .same .same "-" "-").2 = .err "tooOld" ∧
    (decrypt (run st1 [.rotate, .config (some 2) none none none none, .config (some 1) none none none none])
      1 .same .same "-" "-").2 = .okPlain "70" ∧
    (run st1 [.rotate, .config (some 2) (some 2) none none none, .trim 2, .config (some 1) none none none none]).pol.map
      (·.minDec) = some 2 := by decide

/-- `convergent_deterministic`: the same request returns the same ciphertext, another context another one -/
example :
    let st := run init [.new .xchacha true true]
    (encrypt st 0 "63" "-" "-" "70").2 = .okArt 1 1 ∧
    (encrypt (encrypt st 0 "63" "-" "-" "70").1 1 "63" "-" "-" "70").2 = .okArt 1 1 ∧
    (encrypt (encrypt st 0 "63" "-" "-" "70").1 1 "64" "-" "-" "70").2 = .okArt 2 1 := by decide

/-- `sign_verify_iff`, `hmac_verify_iff`: an Ed25519 signature and an HMAC of version 1 verify after a rotation and
are refused once the minimum decryption version is 2; another message does not verify -/
example :
    let st1 := (sign (run init [.new .ed25519 false false]) 0 "-" "6d").1
    (verify (run st1 [.rotate]) 1 .same .same "-" "6d").2 = .okBool true ∧
    (verify (run st1 [.rotate]) 1 .same .same "-" "6e").2 = .okBool false ∧
    (verify (run st1 [.rotate, .config (some 2) none none none none]) 1 .same .same "-" "6d").2 = .err "tooOld" := by decide

example :
    let st1 := (hmac (run init [.new .hmac false false]) 0 "6d").1
    (hmacVerify (run st1 [.rotate]) 1 .same .same "6d").2 = .okBool true ∧
    (hmacVerify (run st1 [.rotate]) 1 (.str "2") .same "6d").2 = .okBool false ∧
    (hmacVerify (run st1 [.rotate, .config (some 2) none none none none]) 1 .same .same "6d").2 = .err "tooOld" := by decide

/-- `archive_invariant` is not vacuous: a history that exercises rotation, both directions of
`min_decryption_version`, trimming, backup and restore ends in the expected ring -/
example :
    let st := run init [.new .aes256 false false, .rotate, .rotate, .rotate,
                        .config (some 3) (some 3) none (some true) (some true), .trim 2, .backup, .rotate,
                        .config (some 2) none none none none, .restore 1 true]
    st.pol.map (·.latest) = some 4 ∧ st.pol.map (·.minDec) = some 3 ∧ st.pol.map (·.minEnc) = some 3 ∧
    st.pol.map (·.minAvail) = some 2 ∧ st.pol.map (·.archiveMin) = some 2 ∧ st.pol.map (·.keys.length) = some 2 ∧
    st.archive.length = 3 := by decide

/-! ### failing commits -/

/-- **A request whose Commit fails leaves no trace**: a history in which some requests' commits fail ends in exactly
the state of the history without those requests — so every theorem above about `run` (round trips, version windows,
old versions under rotation) holds for histories with failed commits, about the requests that succeeded. -/
theorem failed_commits_leave_no_trace (st : St) (l : List (Bool × Op)) :
    runCF st l = run st ((l.filter (fun x => !x.1)).map (·.2)) := by
  induction l generalizing st with
  | nil => rfl
  | cons x r ih =>
    obtain ⟨f, o⟩ := x
    cases f
    · simp only [runCF, stepCF, List.filter, Bool.not_false, List.map, run]
      exact ih _
    · simp only [runCF, stepCF, List.filter, Bool.not_true]
      exact ih _

/-! ### key rings written by older code: convergent scheme per key version -/

/-- **Whatever encrypt accepts, decrypt accepts**: for every policy-level and per-key convergent scheme version, the
key versions `encrypt` serves are exactly those `decrypt` serves (both judge the per-key effective version). -/
theorem convergent_scheme_enc_dec_agree (polVer keyVer : Nat) :
    convEncAccepts polVer keyVer = convDecAccepts polVer keyVer := rfl

/-- **Finding F61 (repaired)**: judging the policy-level value on the decrypt side, a ring of the scheme-2 era
(`polVer = 2`) that was rotated (new key version: scheme 3) encrypts under the new version but refuses to decrypt what it
just produced. -/
theorem convergent_scheme_policy_level_cex :
    convEncAccepts 2 3 = true ∧ convDecAcceptsPolicyLevel 2 3 = false ∧ convDecAccepts 2 3 = true := by decide

end C17
