import Obao.Proofs.TokenCreate
/-! C07 — token creation and login never escalate privilege. Theorems over `Obao.TokenCreate.create` / `login`
(models of `handleCreateCommon` + `resolveTokenPolicies` + `parseAndMergeTTLPeriod` and of
`LoginCreateToken` + `RegisterAuth`), for ALL parents, capabilities, endpoints, roles, parameters and login responses. -/
namespace C07
open Obao.TokenCreate Obao.TTL

/-- A caller without update capability on the path reaches no guard at all. -/
theorem uncapable_denied (env : Env) (par : Parent) (ep : Endpoint) (rq : Req) (h : env.allowed = false) :
    create env par ep rq = .denied := by
  unfold create; simp [h]

/-- Use-limited and batch tokens cannot create tokens: whatever the endpoint, role, parameters, capabilities. -/
theorem limited_or_batch_cannot_create (env : Env) (par : Parent) (ep : Endpoint) (rq : Req)
    (h : par.numUses > 0 ∨ par.batch = true) : ∀ t, create env par ep rq ≠ .ok t := by
  intro t hc
  obtain ⟨_, hb, hu, _⟩ := create_ok hc
  rcases h with h | h
  · omega
  · rw [hb] at h; cases h

/-- `root` only from `root`: every created token holding `root` has a parent holding `root` — any endpoint, any role
(also one whose allow-list names `root`), any capabilities including sudo. -/
theorem root_only_from_root (env : Env) (par : Parent) (ep : Endpoint) (rq : Req) (t : Created)
    (h : create env par ep rq = .ok t) : nRoot ∈ t.policies → nRoot ∈ par.policies := by
  intro hr
  obtain ⟨_, _, _, batch, X, orphan, m, ttl, _, _, _, _, hX, _, hroot, _, _, _, _, _, _, ht⟩ := create_inv h
  subst ht
  apply hroot
  obtain ⟨y, hy, hn⟩ := mem_sanitize_false hr
  -- the resolved list is already normalised, so the member that normalises to `root` IS `root`
  have hN : Normal X := (resolvePolicies_ok hX).1
  rw [hN y hy] at hn
  rw [← hn]; exact hy

/-- No non-assignable policy is ever put on a created token. -/
theorem created_policies_assignable (env : Env) (par : Parent) (ep : Endpoint) (rq : Req) (t : Created)
    (h : create env par ep rq = .ok t) : ∀ p ∈ nonAssignable, p ∉ t.policies := by
  intro p hp hpt
  obtain ⟨_, _, _, batch, X, orphan, m, ttl, _, _, _, _, hX, _, _, _, _, _, _, _, _, ht⟩ := create_inv h
  subst ht
  have hNA := resolvePolicies_ok hX
  exact hNA.2 p hp (sanitize_false_subset hNA.1 hpt)

/-- **No escalation through plain creation.** Caller without sudo, same namespace, no role (or a role that configures
none of the four policy lists): every policy of the created token is one of the parent's (after the normalisation
every stored token has undergone), or it is `default`, added only when the parent's list names `default` and the
request did not opt out. Without a role, additionally: the token is an orphan exactly when the request went to the
create-orphan endpoint (never through `no_parent`), it is not periodic, and its id was not chosen by the caller. -/
theorem create_no_escalation (env : Env) (par : Parent) (ep : Endpoint) (rq : Req) (t : Created)
    (hs : env.sudo = false) (hns : env.crossNS = false)
    (hl : ∀ r, endpointRole ep = some r → roleHasLists r = false)
    (h : create env par ep rq = .ok t) :
    (∀ p ∈ t.policies, p ∈ sanitize par.policies false ∨
        (p = nDefault ∧ nDefault ∈ par.policies ∧ rq.noDefault = false)) ∧
    t.customId = false ∧ t.periodStored = 0 ∧
    (endpointRole ep = none →
        (t.orphan = true ↔ ep = .createOrphan) ∧ rq.noParent = false ∧ t.period = 0) := by
  obtain ⟨_, _, _, batch, X, orphan, m, ttl, _, _, hid, _, hX, _, _, _, ho, hm, _, _, _, ht⟩ := create_inv h
  subst ht
  rw [resolvePolicies_noLists hl] at hX
  obtain ⟨hN, _, hsub⟩ := resolveNoLists_nosudo hs hns hX
  obtain ⟨_, _, _, hper, hnone, _, _⟩ := parseAndMerge_ok hm
  have hidn : rq.id = .none := by
    cases hq : rq.id <;> first | rfl | (have := (hid (by rw [hq]; simp)).1; rw [hs] at this; cases this)
  refine ⟨fun p hp => hsub p (sanitize_false_subset hN hp), ?_, ?_, fun hnr => ?_⟩
  · simp [hidn]
  · have := hper hs
    simp only
    split <;> simp [this]
  · obtain ⟨_, hor⟩ := orphanOf_ok ho
    obtain ⟨hiff, hnp⟩ := hor hnr
    have hnp' : rq.noParent = false := by
      cases hq : rq.noParent
      · rfl
      · have := hnp hq; rw [hs] at this; cases this
    refine ⟨?_, hnp', ?_⟩
    · simp only
      rw [hiff, hnp']
      simp
    · simp only
      rw [(hnone hnr).1]
      exact hper hs

/-- For a parent whose stored policy list is itself an output of `SanitizePolicies` (every token written by
`ts.create` is), the previous theorem reads: the child's policies are a subset of the parent's. -/
theorem create_no_escalation_stored (env : Env) (par : Parent) (ep : Endpoint) (rq : Req) (t : Created) (Q : List Name)
    (hs : env.sudo = false) (hns : env.crossNS = false)
    (hl : ∀ r, endpointRole ep = some r → roleHasLists r = false)
    (hpar : par.policies = sanitize Q false)
    (h : create env par ep rq = .ok t) : ∀ p ∈ t.policies, p ∈ par.policies := by
  intro p hp
  rcases (create_no_escalation env par ep rq t hs hns hl h).1 p hp with h1 | ⟨h1, h2, _⟩
  · rw [hpar] at h1 ⊢
    exact sanitize_false_subset (normal_sanitize _ _) h1
  · rw [h1]; exact h2

/-- every token `create` produces stores a sanitised policy list (the hypothesis of `create_no_escalation_stored`) -/
theorem create_stores_sanitized (env : Env) (par : Parent) (ep : Endpoint) (rq : Req) (t : Created)
    (h : create env par ep rq = .ok t) : ∃ Q, t.policies = sanitize Q false := by
  obtain ⟨_, _, _, batch, X, orphan, m, ttl, _, _, _, _, _, _, _, _, _, _, _, _, _, ht⟩ := create_inv h
  exact ⟨X, by rw [ht]⟩

/-- **A role changes the outcome only as configured.** Created through a role that configures at least one policy
list: with an allow-list (literal or glob) every policy is on the literal list, matches an allowed glob, or is
`default`; no policy is on the literal disallow-list or matches a disallowed glob; and for every role the orphan
state is the role's, a forced token type is honoured, and period / explicit max are positive and at most the role's
when the role sets them (a caller without sudo gets no period from a non-periodic role). -/
theorem role_bounds (env : Env) (par : Parent) (name : Name) (r : Role) (rq : Req) (t : Created)
    (h : create env par (.withRole name (some r)) rq = .ok t) :
    (roleHasLists r = true →
      ((r.allowed ≠ [] ∨ r.allowedGlob ≠ []) →
          ∀ p ∈ t.policies, p ∈ sanitize r.allowed false ∨ p = nDefault ∨
                            containsGlob (sanitize r.allowedGlob false) p = true) ∧
      (∀ p ∈ t.policies, (removeDuplicates r.disallowed).contains p = false ∧
                          containsGlob (removeDuplicates r.disallowedGlob) p = false)) ∧
    t.orphan = r.orphan ∧
    (r.tokType = .service → t.batch = false) ∧ (r.tokType = .batch → t.batch = true) ∧
    (t.batch = false →
      (0 < r.period → 0 < t.period ∧ t.period ≤ r.period) ∧
      (env.sudo = false → r.period ≤ 0 → t.period ≤ 0) ∧
      (0 < r.emax → 0 < t.emax ∧ t.emax ≤ r.emax)) := by
  obtain ⟨_, _, _, batch, X, orphan, m, ttl, hb, _, _, _, hX, _, _, _, ho, hm, _, _, _, ht⟩ := create_inv h
  subst ht
  have hrole : endpointRole (.withRole name (some r)) = some r := rfl
  rw [hrole] at hX hm hb
  refine ⟨fun hl => ?_, ?_, ?_, ?_, fun hbf => ?_⟩
  · obtain ⟨F, G, hF, hG, hT⟩ := resolvePolicies_roleLists hl hX
    obtain ⟨hNF, hallow, _⟩ := roleAllowStep_ok hF
    obtain ⟨hGF, hdis⟩ := roleDisallowStep_ok hG
    subst hGF
    obtain ⟨hNX, hXG, _⟩ := resolveTail_ok hT
    have hsub : ∀ p ∈ sanitize X false, p ∈ G := fun p hp =>
      sanitize_false_subset hNF (hXG p (sanitize_false_subset hNX hp))
    exact ⟨fun ha p hp => hallow ha p (hsub p hp), fun p hp => hdis p (hsub p hp)⟩
  · exact (orphanOf_ok ho).1 r hrole
  · intro hty
    unfold batchOf typeStrOf at hb
    simp only [hty] at hb
    injection hb with hb; exact hb.symm
  · intro hty
    unfold batchOf typeStrOf at hb
    simp only [hty] at hb
    split at hb
    · contradiction
    · injection hb with hb; exact hb.symm
  · obtain ⟨_, he, hp, hper, _, _, hr⟩ := parseAndMerge_ok hm
    simp only at hbf
    obtain ⟨hp1, he1⟩ := hr r rfl hbf
    simp only
    rw [hp1, he1]
    refine ⟨(mergeLesser_bounds _ _ hp).1, fun hs hr0 => ?_, (mergeLesser_bounds _ _ he).1⟩
    exact (mergeLesser_bounds _ _ hp).2 hr0 (hper hs)

/-- The glob of `role_bounds` means what it should in its two simplest shapes: `*` matches every name … -/
theorem glob_star (s : Name) : glob ['*'] s = true := by
  unfold glob; simp

/-- … and a pattern without `*` matches exactly itself (so a literal entry in a glob list is a literal). -/
theorem glob_literal (p s : Name) (h : '*' ∉ p) : glob p s = (s == p) := by
  unfold glob
  by_cases hp : p = []
  · subst hp; cases s <;> simp
  · have h1 : p.isEmpty = false := by cases p <;> simp_all
    have h2 : p ≠ ['*'] := fun e => h (by simp [e])
    simp only [h1, Bool.false_eq_true, if_false, h2, splitStar_of_no_star p h]

/-- **Logins never produce root.** For every auth-backend response, mount configuration and set of identity
policies: a token created by a login carries neither `root` nor a non-assignable policy — in its own policy list
and in the combined list with the identity policies. -/
theorem login_never_root (mt : TokType) (sd sm : Int) (a : LoginAuth) (t : LoginTok)
    (h : login mt sd sm a = .ok t) :
    nRoot ∉ t.policies ∧ nRoot ∉ t.tokenPolicies ∧
    (∀ p ∈ nonAssignable, p ∉ t.policies ∧ p ∉ t.tokenPolicies) := by
  obtain ⟨ttl, w, _, htp, hall, hfb, _, _⟩ := login_ok h
  obtain ⟨hnr, hna⟩ := firstBad_none hfb
  -- the token's own policies are contained in the combined list (which did not collapse to [root])
  have hsub : ∀ x ∈ t.tokenPolicies, x ∈ t.policies := by
    intro x hx
    have hN : norm x = x := by rw [htp] at hx; exact norm_of_mem_sanitize hx
    have hne : x ≠ [] := by rw [htp] at hx; exact ((mem_sanitize _ _ _).1 hx).1
    rw [hall, mem_sanitize]
    refine ⟨hne, ?_⟩
    have hnoroot : nRoot ∉ (t.tokenPolicies ++ a.identity).map norm := by
      intro hc
      exact hnr (by rw [hall]; exact (root_mem_sanitize_iff _ _).2 hc)
    rw [if_neg hnoroot]
    exact Or.inl ⟨x, List.mem_append.2 (Or.inl hx), hN⟩
  exact ⟨hnr, fun hc => hnr (hsub _ hc), fun p hp => ⟨hna p hp, fun hc => hna p hp (hsub _ hc)⟩⟩

/-- Every policy of a login token was supplied by the backend's `Policies`, by the entity's identity policies, or is
`default`. (The backend's own `TokenPolicies` field has no influence.) -/
theorem login_policies_provenance (mt : TokType) (sd sm : Int) (a : LoginAuth) (t : LoginTok)
    (h : login mt sd sm a = .ok t) :
    ∀ p ∈ t.policies, (∃ q ∈ a.policies, norm q = p) ∨ (∃ q ∈ a.identity, norm q = p) ∨ p = nDefault := by
  intro p hp
  obtain ⟨ttl, w, _, htp, hall, _, _, _⟩ := login_ok h
  rw [hall] at hp
  obtain ⟨y, hy, hn⟩ := mem_sanitize_false hp
  rcases List.mem_append.1 hy with hy | hy
  · rw [htp] at hy
    have hN := norm_of_mem_sanitize hy
    rw [hN] at hn
    subst hn
    rcases mem_sanitize_true' hy with h1 | ⟨h1, _⟩
    · exact Or.inl (mem_sanitize_false h1)
    · exact Or.inr (Or.inr h1)
  · exact Or.inr (Or.inl ⟨y, hy, hn⟩)

/-- A login never hands out a BATCH token that carries a use limit (batch tokens are not stored: the limit could not be
counted) — whichever of the auth method and the mount's `token_type` tuning made it a batch token (finding F105). -/
theorem login_batch_token_has_no_use_limit (mt : TokType) (sd sm : Int) (a : LoginAuth) (t : LoginTok)
    (h : login mt sd sm a = .ok t) (hb : t.batch = true) : t.numUses = 0 ∧ a.numUses = 0 := by
  unfold login at h
  simp only at h
  split at h
  · split at h
    · contradiction
    · split at h
      · contradiction
      · split at h
        · contradiction
        · rename_i hnb
          injection h with h
          subst h
          simp only at hb
          simp only [hb, Bool.true_and, bne_iff_ne, ne_eq, Decidable.not_not] at hnb
          simp [hb, hnb]
  · contradiction

/-- Lifetime of a login token: positive and within the mount maximum, the backend's maximum and the explicit
maximum (each when set), for a mount whose default lease TTL is positive. Uses `C05.calcTTL_bound`. -/
theorem login_lifetime_bounded (mt : TokType) (sd sm : Int) (a : LoginAuth) (t : LoginTok)
    (hd : 0 < sd) (h : login mt sd sm a = .ok t) :
    0 < t.ttl ∧ t.ttl ≤ sm ∧ (0 < a.maxTTL → t.ttl ≤ a.maxTTL) ∧ (0 < a.emax → t.ttl ≤ a.emax) := by
  obtain ⟨ttl, w, hc, _, _, _, httl, _⟩ := login_ok h
  rw [httl]
  have hpos := calcTTL_pos _ ttl w hc hd rfl
  have hb := C05.calcTTL_bound _ ttl w hc
  have he := C05.effMax_le (loginInp sd sm a)
  simp only [loginInp] at hb he
  refine ⟨hpos, ?_, fun hm => ?_, fun hm => ?_⟩
  · by_cases hp : a.period > 0
    · have := (hb.2 hp).2.1; omega
    · have := hb.1 (by omega); omega
  · by_cases hp : a.period > 0
    · have := (hb.2 hp).2.1; have := he.2.1 hm; omega
    · have := hb.1 (by omega); have := he.2.1 hm; omega
  · by_cases hp : a.period > 0
    · have := (hb.2 hp).2.1; have := he.2.2 hm; omega
    · have := hb.1 (by omega); have := he.2.2 hm; omega

/-- The lifetime clause as the property states it: a created token either is a non-expiring root token made by a
non-expiring root token, or its TTL is positive, at most its explicit maximum (when set) and at most the mount
maximum. -/
def lifetime_bounded_full : Prop :=
  ∀ (env : Env) (par : Parent) (ep : Endpoint) (rq : Req) (t : Created),
    0 < env.sysDefault → create env par ep rq = .ok t →
      (t.ttl = 0 ∧ nRoot ∈ t.policies ∧ nRoot ∈ par.policies ∧ par.ttl = 0) ∨
      (0 < t.ttl ∧ (0 < t.emax → t.ttl ≤ t.emax) ∧ t.ttl ≤ env.sysMax)

/-- What holds for all inputs: the clause above, except that a token holding `root` (hence made by a root parent),
created with neither `ttl` nor a period, gets exactly its explicit maximum as TTL — which the mount maximum does
not cap ("root tokens are still bound by explicit max TTL" assigns it after `CalculateTTL` was skipped). -/
theorem lifetime_bounded_partial (env : Env) (par : Parent) (ep : Endpoint) (rq : Req) (t : Created)
    (hd : 0 < env.sysDefault) (h : create env par ep rq = .ok t) :
    (t.ttl = 0 ∧ nRoot ∈ t.policies ∧ nRoot ∈ par.policies ∧ par.ttl = 0) ∨
    (0 < t.ttl ∧ (0 < t.emax → t.ttl ≤ t.emax) ∧ t.ttl ≤ env.sysMax) ∨
    (nRoot ∈ t.policies ∧ nRoot ∈ par.policies ∧ 0 < t.emax ∧ t.ttl = t.emax ∧ t.period ≤ 0) := by
  obtain ⟨_, _, _, batch, X, orphan, m, ttl, _, _, _, _, hX, _, hroot, _, _, hm, httl, hpt, _, ht⟩ := create_inv h
  have hrt := root_only_from_root env par ep rq t h
  subst ht
  obtain ⟨hm0, _⟩ := parseAndMerge_ok hm
  simp only at hrt ⊢
  rcases ttlOf_ok httl hd hm0 with ⟨h1, h2, h3⟩ | ⟨hr, _, hp, h4⟩
  · exact Or.inr (Or.inl ⟨h1, h3, h2⟩)
  · have hrs : nRoot ∈ sanitize X false := by
      rw [root_mem_sanitize_iff]
      exact List.mem_map.2 ⟨nRoot, hr, norm_nRoot⟩
    rcases h4 with ⟨h5, h6⟩ | ⟨_, h6⟩
    · exact Or.inr (Or.inr ⟨hrs, hroot hr, h5, h6, hp⟩)
    · exact Or.inl ⟨h6, hrs, hroot hr, hpt h6⟩

/-- The full clause is FALSE of the code as it stands: an expiring root token (TTL 60 s) asks for a root child with
`explicit_max_ttl = 1000000` under a mount maximum of 3600 s and gets TTL 1000000. Reproduced on the real code by the
`tokencreate` stream (known finding, signature `root-ttl-from-explicit-max-over-mount-max`). -/
theorem lifetime_bounded_cex : ¬ lifetime_bounded_full := by
  intro hfull
  have h := hfull
    { allowed := true, sudo := true, nsChild := false, crossNS := false, sysDefault := 1800, sysMax := 3600 }
    { policies := [nRoot], ttl := 60, numUses := 0, batch := false }
    .create
    { policies := [], noParent := false, noDefault := false, renewable := true, period := .absent,
      emax := .val 1000000, ttl := .absent, numUses := 0, id := .none, type := .empty, alias := none }
    { policies := [nRoot], orphan := false, batch := false, ttl := 1000000, period := 0, emax := 1000000,
      periodStored := 0, emaxStored := 1000000, numUses := 0, renewable := true, customId := false,
      path := cCreate, role := [] }
    (by decide) (by decide)
  simp only at h
  omega

/-- **A batch token never carries a use limit**: whatever the request parameters and the role say (also a role whose
token type defaults to batch, also when `explicit_max_ttl` or `period` are sent along as 0), a created batch token has
`num_uses = 0` — the create endpoints refuse the other combinations. (Batch tokens are not stored; a use limit on one
would be reported and never enforced: finding F85, repaired; cf. `C19.limit_needs_counted_uses`.) -/
theorem batch_token_has_no_use_limit (env : Env) (par : Parent) (ep : Endpoint) (rq : Req) (t : Created)
    (h : createMid env par ep rq = .ok t) (hb : t.batch = true) : t.numUses = 0 := by
  unfold createMid at h
  simp only at h
  split at h
  · contradiction
  · split at h
    · contradiction
    · rename_i batch hbo
      split at h
      · contradiction
      · split at h
        · contradiction
        · split at h
          · contradiction
          · rename_i hnu
            split at h
            · contradiction
            · split at h
              · contradiction
              · split at h
                · contradiction
                · rename_i X hX
                  obtain ⟨orphan, m, ttl, _, _, _, _, _, _, _, _, ht⟩ := createTail_ok h
                  subst ht
                  simp only at hb ⊢
                  subst hb
                  cases hr : endpointRole ep with
                  | some r =>
                    simp only [hr, Option.isSome_some, Bool.true_and, Bool.and_eq_true, bne_iff_ne, ne_eq, not_and,
                      Decidable.not_not] at hnu
                    simpa [hr] using hnu
                  | none =>
                    -- no role: the guard of the type switch has refused a non-zero `num_uses`
                    simp only [batchOf, typeStrOf, hr] at hbo
                    simp only [numUsesOf]
                    split at hbo <;> try (cases hbo)
                    split at hbo
                    · cases hbo
                    · rename_i hg
                      by_cases hz : rq.numUses = 0
                      · exact hz
                      · exfalso
                        unfold batchGuard at hg
                        cases he : rq.emax <;> simp [he, batchGuard.batchGuardRest, hz] at hg
                        split at hg <;> cases hg

/-- **Root tokens are never created from a parent namespace** (after the repair of F33: the guard tests the resolved,
sanitised policy list — the one stored on the token — instead of the raw request). For every parent, capability set,
endpoint, role and spelling of the request: a token created in a namespace other than its parent's never holds
`root`, and the creation needs sudo. -/
theorem crossns_never_root (env : Env) (par : Parent) (ep : Endpoint) (rq : Req) (t : Created)
    (hx : env.crossNS = true) (h : create env par ep rq = .ok t) :
    env.sudo = true ∧ nRoot ∉ t.policies := by
  obtain ⟨_, _, _, batch, X, orphan, m, ttl, _, _, _, hns, hX, hcross, _, _, _, _, _, _, _, ht⟩ := create_inv h
  subst ht
  refine ⟨hns hx, fun hr => ?_⟩
  have hN : Normal X := (resolvePolicies_ok hX).1
  have : env.crossNS = false := hcross (sanitize_false_subset hN hr)
  rw [hx] at this
  cases this

/-- non-vacuity, and the shapes that used to slip through: from a parent namespace, `ROOT` is now refused … -/
example :
    create { allowed := true, sudo := true, nsChild := true, crossNS := true, sysDefault := 1800, sysMax := 3600 }
      { policies := [nRoot], ttl := 0, numUses := 0, batch := false } .create
      { policies := [['R', 'O', 'O', 'T']], noParent := false, noDefault := false, renewable := true, period := .absent,
        emax := .absent, ttl := .absent, numUses := 0, id := .none, type := .empty, alias := none }
    = .err "ns-root" := by decide

/-- … so is an empty request through a role without allow-list (which inherits the parent's [root]) … -/
example :
    create { allowed := true, sudo := true, nsChild := true, crossNS := true, sysDefault := 1800, sysMax := 3600 }
      { policies := [nRoot], ttl := 0, numUses := 0, batch := false }
      (.withRole ['r'] (some { allowed := [], disallowed := [['x']], allowedGlob := [], disallowedGlob := [],
                               orphan := true, renewable := true, noDefault := false, period := 0, emax := 0,
                               numUses := 0, tokType := .defaultService, pathSuffix := [], aliases := [] }))
      { policies := [], noParent := false, noDefault := false, renewable := true, period := .absent,
        emax := .absent, ttl := .val 600, numUses := 0, id := .none, type := .empty, alias := none }
    = .err "ns-root" := by decide

/-- … while an ordinary cross-namespace creation by a sudo caller still succeeds -/
example :
    create { allowed := true, sudo := true, nsChild := true, crossNS := true, sysDefault := 1800, sysMax := 3600 }
      { policies := [nRoot], ttl := 0, numUses := 0, batch := false } .create
      { policies := [['a']], noParent := false, noDefault := false, renewable := true, period := .absent,
        emax := .absent, ttl := .val 600, numUses := 0, id := .none, type := .empty, alias := none }
    = .ok { policies := [['a'], nDefault], orphan := false, batch := false, ttl := 600, period := 0, emax := 0,
            periodStored := 0, emaxStored := 0, numUses := 0, renewable := true, customId := false,
            path := cCreate, role := [] } := by decide

/-! ### non-vacuity: the hypotheses are met by concrete, non-trivial creations -/

/-- create_no_escalation / _stored: a non-sudo parent [a, default] asks for [A] and gets [a, default] -/
example :
    create { allowed := true, sudo := false, nsChild := false, crossNS := false, sysDefault := 1800, sysMax := 3600 }
      { policies := [['a'], nDefault], ttl := 600, numUses := 0, batch := false } .create
      { policies := [['A']], noParent := false, noDefault := false, renewable := true, period := .absent,
        emax := .absent, ttl := .val 90, numUses := 0, id := .none, type := .empty, alias := none }
    = .ok { policies := [['a'], nDefault], orphan := false, batch := false, ttl := 90, period := 0, emax := 0,
            periodStored := 0, emaxStored := 0, numUses := 0, renewable := true, customId := false,
            path := cCreate, role := [] } := by decide

/-- … and the same caller asking for a policy the parent lacks is refused -/
example :
    create { allowed := true, sudo := false, nsChild := false, crossNS := false, sysDefault := 1800, sysMax := 3600 }
      { policies := [['a'], nDefault], ttl := 600, numUses := 0, batch := false } .create
      { policies := [['b']], noParent := false, noDefault := false, renewable := true, period := .absent,
        emax := .absent, ttl := .absent, numUses := 0, id := .none, type := .empty, alias := none }
    = .err "not-subset" := by decide

/-- limited_or_batch_cannot_create: a parent with 3 uses left is refused -/
example :
    create { allowed := true, sudo := true, nsChild := false, crossNS := false, sysDefault := 1800, sysMax := 3600 }
      { policies := [nRoot], ttl := 0, numUses := 3, batch := false } .create
      { policies := [], noParent := false, noDefault := false, renewable := true, period := .absent,
        emax := .absent, ttl := .absent, numUses := 0, id := .none, type := .empty, alias := none }
    = .err "limited-use" := by decide

/-- role_bounds: a role with allow-list [b] + glob [de*], orphan, period 600 lets a non-sudo parent [a] obtain
[b, default] on an orphan periodic token -/
example :
    create { allowed := true, sudo := false, nsChild := false, crossNS := false, sysDefault := 1800, sysMax := 3600 }
      { policies := [['a']], ttl := 600, numUses := 0, batch := false }
      (.withRole ['r'] (some { allowed := [['b']], disallowed := [], allowedGlob := [['d', 'e', '*']], disallowedGlob := [],
                               orphan := true, renewable := true, noDefault := false, period := 600, emax := 0,
                               numUses := 0, tokType := .defaultService, pathSuffix := [], aliases := [] }))
      { policies := [['b'], nDefault], noParent := false, noDefault := false, renewable := true, period := .absent,
        emax := .absent, ttl := .absent, numUses := 0, id := .none, type := .empty, alias := none }
    = .ok { policies := [['b'], nDefault], orphan := true, batch := false, ttl := 600, period := 600, emax := 0,
            periodStored := 0, emaxStored := 0, numUses := 0, renewable := true, customId := false,
            path := cCreate ++ ['/', 'r'], role := ['r'] } := by decide

/-- login_never_root: a response carrying [x, Root] is refused, one carrying [x] is granted with `default` added -/
example :
    login .defaultService 1800 3600
      { policies := [['x'], ['R', 'o', 'o', 't']], identity := [], noDefault := false, ttl := 0, maxTTL := 0, period := 0,
        emax := 0, numUses := 0, renewable := true, tokType := .default } = .err "login-root" := by decide

example :
    login .defaultService 1800 3600
      { policies := [['x']], identity := [['b']], noDefault := false, ttl := 5000, maxTTL := 0, period := 0,
        emax := 0, numUses := 0, renewable := true, tokType := .default }
    = .ok { tokenPolicies := [nDefault, ['x']], policies := [['b'], nDefault, ['x']], identity := [['b']], batch := false,
            ttl := 3600, period := 0, emax := 0, numUses := 0, renewable := true } := by decide

/-- lifetime_bounded_partial, first disjunct: a non-expiring root makes a non-expiring root -/
example :
    create { allowed := true, sudo := true, nsChild := false, crossNS := false, sysDefault := 1800, sysMax := 3600 }
      { policies := [nRoot], ttl := 0, numUses := 0, batch := false } .create
      { policies := [], noParent := false, noDefault := false, renewable := true, period := .absent,
        emax := .absent, ttl := .absent, numUses := 0, id := .none, type := .empty, alias := none }
    = .ok { policies := [nRoot], orphan := false, batch := false, ttl := 0, period := 0, emax := 0,
            periodStored := 0, emaxStored := 0, numUses := 0, renewable := false, customId := false,
            path := cCreate, role := [] } := by decide

end C07
