import Obao.Proofs.WrapOnce
import Obao.Model.WrapNs
/-!
C18 — a response-wrapping token reveals its payload exactly once.

Same model as C19 (`Obao/Model/UseCount.lean`): a response-wrapping token is a token with `num_uses = 1` whose
cubbyhole holds the wrapped response (`payload`) and the wrapping information (`info`). Attempts are request threads
of any kinds — unwrap with the token as client token (`unwrap1`) or in the body (`unwrap3`), rewrap (`rewrap1/3`),
wrapping lookup (`lookup1/3`), direct read of `cubbyhole/response` (`cubby`), any other request presenting the token
(`other`, and all C19 kinds) — in any number, under EVERY schedule (a `List Nat`; entry `= number of threads` is the
expiration worker).  "Obtains the payload" = the request's result is the wrapped response (`payload`) or its
transfer into a new wrapping token (`rewrapped`).
-/
namespace C18
open Obao.UseCount

/-- The single use: at most one attempt gets past the use step, whatever the attempts and the schedule
(the C19 theorem at `n = 1`, here also for the third-party kinds). -/
theorem wrapping_token_used_at_most_once (kinds : List Kind) (sched : List Nat) :
    passedCount (run sched (wrapInit kinds)).pcs ≤ 1 := by
  have inv := wrap_inv kinds sched
  rcases inv.acct with a | a <;> omega

/-- Among any concurrent or repeated attempts at most ONE obtains the wrapped response. -/
theorem unwrap_at_most_once (kinds : List Kind) (sched : List Nat) :
    obtainedCount (run sched (wrapInit kinds)).pcs ≤ 1 :=
  Nat.le_trans (obtained_le_passed (wrap_inv kinds sched) (run_kinds_length true 1 kinds sched))
    (wrapping_token_used_at_most_once kinds sched)

/-- Exactly once: when every attempt is an attempt to get at the payload (unwrap first- or third-party, direct read
of `cubbyhole/response`, third-party rewrap) or a wrapping lookup, at least one of them is of the former sort, and
all attempts have returned, then exactly ONE of them obtained the wrapped response — under every schedule. -/
theorem unwrap_exactly_once (kinds : List Kind)
    (hk : ∀ k ∈ kinds, seeking k = true ∨ (scriptOf k).uses = false)
    (hone : ∃ k ∈ kinds, seeking k = true) (sched : List Nat)
    (hall : ∀ (t : Nat) (pc : Pc), (run sched (wrapInit kinds)).pcs[t]? = some pc → ∃ u r, pc = .done u r) :
    obtainedCount (run sched (wrapInit kinds)).pcs = 1 := by
  have inv := wrap_inv kinds sched
  have pinv : PInv (run sched (wrapInit kinds)) :=
    pinv_run sched _ (init_inv true 1 kinds (Nat.le_refl 1) (Or.inl rfl)) (pinv_init 1 kinds)
  have hle := unwrap_at_most_once kinds sched
  have hkinds : (run sched (wrapInit kinds)).kinds = kinds := run_kinds sched _
  have hlen : (run sched (wrapInit kinds)).pcs.length = kinds.length := by rw [run_length]; simp [initW]
  have seeking_uses : ∀ k, seeking k = true → (scriptOf k).uses = true := by
    intro k hs; cases k <;> simp [seeking] at hs <;> rfl
  -- a payload-seeking attempt exists and has returned: it presented the token for use
  obtain ⟨k0, hk0, hs0⟩ := hone
  obtain ⟨j, hj⟩ := List.mem_iff_getElem?.1 hk0
  have hjl : j < kinds.length := by
    rcases Nat.lt_or_ge j kinds.length with h1 | h1
    · exact h1
    · simp [List.getElem?_eq_none h1] at hj
  have hjpc : ∃ pc, (run sched (wrapInit kinds)).pcs[j]? = some pc :=
    ⟨_, List.getElem?_eq_getElem (by rw [hlen]; exact hjl)⟩
  obtain ⟨pcj, hpcj⟩ := hjpc
  obtain ⟨uj, rj, rfl⟩ := hall j pcj hpcj
  have hkj : (run sched (wrapInit kinds)).kinds[j]? = some k0 := by rw [hkinds]; exact hj
  have hdj : isDoneUse (Pc.done uj rj) = true := by
    cases uj with
    | some _ => rfl
    | none => exact (pinv.sl j _ k0 hpcj hkj).doneNone rj rfl (seeking_uses k0 hs0)
  have hdone : 1 ≤ doneCount (run sched (wrapInit kinds)).pcs := doneUse_le_count _ j _ hpcj hdj
  have hp1 : passedCount (run sched (wrapInit kinds)).pcs = 1 :=
    exactly_of_done inv (kind_of_thread true 1 kinds sched) hdone
  -- the request that went through the use step has returned, and it is payload-seeking: it obtained the payload
  obtain ⟨tp, pcp, htp, hcp⟩ := exists_counted (run sched (wrapInit kinds)).pcs (by omega)
  obtain ⟨up, rp, rfl⟩ := hall tp pcp htp
  obtain ⟨kp, hkp⟩ := kind_of_thread true 1 kinds sched tp _ htp
  have hup : ∃ l, up = some l := by
    cases up with
    | some l => exact ⟨l, rfl⟩
    | none => simp [counted] at hcp
  obtain ⟨l, rfl⟩ := hup
  have huse : (scriptOf kp).uses = true := (inv.loc tp _ kp htp hkp).used rfl
  have hkpm : kp ∈ kinds := by
    have := List.mem_of_getElem? hkp
    rwa [hkinds] at this
  have hsp : seeking kp = true := by
    rcases hk kp hkpm with h | h
    · exact h
    · simp [huse] at h
  have hobt := (pinv.sl tp _ kp htp hkp).after l rp hsp rfl rfl
  have : obtained (Pc.done (some l) rp) = 1 := by
    rw [obtained_done_eq 0 (some l) (some l)]; exact (obtained_body_obtRes 0 (some l) rp).2 hobt
  have := obtained_le_count _ tp _ htp
  omega

/-- An attempt that obtained the payload went through the use step (it is THE use). -/
theorem payload_only_through_use (kinds : List Kind) (sched : List Nat) (t : Nat) (pc : Pc)
    (ht : (run sched (wrapInit kinds)).pcs[t]? = some pc) (ho : obtained pc = 1) : counted pc = 1 := by
  obtain ⟨k, hk⟩ := kind_of_thread true 1 kinds sched t pc ht
  exact ((wrap_inv kinds sched).loc t pc k ht hk).got ho

/-- After an attempt that went through the use step has returned, the entry is invisible to every lookup
(pending marker or deleted), stays so under every continuation, and no further attempt gets past the use step or
obtains the payload: every later attempt fails. -/
theorem after_unwrap_gone (kinds : List Kind) (sched more : List Nat) (t : Nat) (l : Bool) (r : Res)
    (ht : (run sched (wrapInit kinds)).pcs[t]? = some (.done (some l) r)) :
    (run (sched ++ more) (wrapInit kinds)).sh.hidden = true ∧
    passedCount (run (sched ++ more) (wrapInit kinds)).pcs = 1 := by
  have inv := wrap_inv kinds sched
  have h1 : passedCount (run sched (wrapInit kinds)).pcs = 1 := by
    have := counted_le_passedCount _ t _ ht
    have := wrapping_token_used_at_most_once kinds sched
    simp [counted] at *; omega
  rw [run_append]
  exact exhausted_stays inv h1 more

/-- …and the token and its stored payload cease to exist: the revocation is queued (token was the client token)
or already done by the request itself (third-party unwrap / rewrap); after two steps of the expiration worker —
whatever else ran before — entry, payload and wrapping information are deleted.  For every kind of attempt. -/
theorem after_unwrap_deleted (kinds : List Kind) (sched : List Nat) (t : Nat) (l : Bool) (r : Res)
    (ht : (run sched (wrapInit kinds)).pcs[t]? = some (.done (some l) r)) :
    let s' := run (sched ++ [kinds.length, kinds.length]) (wrapInit kinds)
    s'.sh.gone = true ∧ s'.sh.payload = false ∧ s'.sh.info = false := by
  have inv := wrap_inv kinds sched
  obtain ⟨k, hk⟩ := kind_of_thread true 1 kinds sched t _ ht
  have hl := inv.loc t _ k ht hk
  have hlt : l = true := by
    have := hl.one rfl
    cases l with
    | true => rfl
    | false => simp [pcU] at this
  subst hlt
  have hq := hl.lastq r rfl
  have hlen : (run sched (wrapInit kinds)).pcs.length = kinds.length := by
    rw [run_length]; simp [initW]
  have hg : (run (sched ++ [kinds.length, kinds.length]) (wrapInit kinds)).sh.gone = true := by
    rw [run_append, ← hlen]; exact worker_two' _ hq
  have inv' := wrap_inv kinds (sched ++ [kinds.length, kinds.length])
  exact ⟨hg, inv'.goneD hg⟩

/-- A third-party unwrap / rewrap that went through the use step has, when it returns, itself deleted the entry,
the payload and the wrapping information. -/
theorem third_party_unwrap_deletes (kinds : List Kind) (sched : List Nat) (t : Nat) (l : Bool) (r : Res) (k : Kind)
    (ht : (run sched (wrapInit kinds)).pcs[t]? = some (.done (some l) r))
    (hk : (run sched (wrapInit kinds)).kinds[t]? = some k) (h3 : (scriptOf k).defer = .sync) :
    (run sched (wrapInit kinds)).sh.gone = true ∧ (run sched (wrapInit kinds)).sh.payload = false ∧
    (run sched (wrapInit kinds)).sh.info = false := by
  have inv := wrap_inv kinds sched
  have hg := (inv.loc t _ k ht hk).syncDone l r rfl h3
  exact ⟨hg, inv.goneD hg⟩

/-- The wrapped response is never returned to the original requester: what `handleCancelableRequest` hands back
after `wrapInCubbyhole` carries the wrapping information only. -/
theorem payload_not_to_requester (orig : Resp) :
    (wrapResponse orig).data = false ∧ (wrapResponse orig).auth = false ∧ (wrapResponse orig).secret = false ∧
    (wrapResponse orig).wrapInfo = true := ⟨rfl, rfl, rfl, rfl⟩

/-- The wrapping token grants nothing beyond retrieving that payload: its policy allows exactly reading (and
initially creating) `cubbyhole/response` and `sys/wrapping/unwrap`. -/
theorem wrap_token_grants_nothing_else (path op : String) (h : wrapPolicyAllows path op = true) :
    (path = "cubbyhole/response" ∧ (op = "read" ∨ op = "create")) ∨ (path = "sys/wrapping/unwrap" ∧ op = "update") := by
  simpa [wrapPolicyAllows] using h

/-- … and this does not depend on WHO asked for the wrapping: whatever entity the requester is bound to and whatever
identity policies the identity store attaches to any entity, a request with a fresh wrapping token as its client token
is allowed only to read (initially create) `cubbyhole/response` and to update `sys/wrapping/unwrap` — the wrapping
token is bound to no entity, so `fetchACLTokenEntryAndEntity` adds nothing to its `response-wrapping` policy. -/
theorem wrap_token_grants_nothing_else_any_requester (identity : String → List String) (requesterEntity path op : String)
    (h : wrapTokenAllows identity requesterEntity path op = true) :
    (path = "cubbyhole/response" ∧ (op = "read" ∨ op = "create")) ∨ (path = "sys/wrapping/unwrap" ∧ op = "update") := by
  have : wrapPolicyAllows path op = true := by
    simpa [wrapTokenAllows, effectivePolicies, wrapTokenEntry, namedPolicyAllows] using h
  exact wrap_token_grants_nothing_else path op this

/-- A wrapping token that inherits the requester's entity (NOT the code; the seeded change C18-3) would be allowed
whatever that entity's identity policies allow. -/
theorem wrap_token_inheriting_entity_cex :
    ((effectivePolicies (fun _ => ["c18ident"]) (wrapTokenEntryInheriting "e1")).any
      (namedPolicyAllows · "sys/mounts" "read")) = true ∧
    wrapTokenAllows (fun _ => ["c18ident"]) "e1" "sys/mounts" "read" = false := by
  decide

/-- Lookup reports the path that created the wrapped response: after ANY history of rewraps (any number of
generations, first- or third-party) of a response that was wrapped for a request on `path` with TTL `ttl`, whenever
a live token of the chain exists, `sys/wrapping/lookup` on it reports `creation_path = path` and `creation_ttl =
ttl`, and so did the `wrap_info` of the response that handed that token out — although the token's own `te.Path`
is `sys/wrapping/rewrap` from the second generation on. -/
theorem lookup_reports_creation_path (path : String) (hp : path ≠ rewrapPath) (ttl : Nat) (hist : List Bool)
    (tok : WToken) (h : rewrapHistory hist (some (wrapFirst path ttl)) = some tok) :
    lookupInfo tok = { path := path, ttl := ttl } ∧ tok.handed = { path := path, ttl := ttl } := by
  have key : ∀ (hist : List Bool) (t0 : WToken), t0.stored = { path := path, ttl := ttl } →
      t0.handed = { path := path, ttl := ttl } → rewrapHistory hist (some t0) = some tok →
      lookupInfo tok = { path := path, ttl := ttl } ∧ tok.handed = { path := path, ttl := ttl } := by
    intro hist
    induction hist with
    | nil =>
      intro t0 h1 h2 h; simp [rewrapHistory] at h; subst h; exact ⟨h1, h2⟩
    | cons b rest ih =>
      intro t0 h1 h2 h
      cases b with
      | true =>
        simp only [rewrapHistory] at h
        refine ih (rewrapTok t0) ?_ ?_ h <;> simp [rewrapTok, wrapIn, h1]
      | false =>
        simp only [rewrapHistory] at h
        have : ∀ l, rewrapHistory l none = none := by
          intro l; induction l with
          | nil => rfl
          | cons _ _ ih => simpa [rewrapHistory] using ih
        rw [this] at h; cases h
  exact key hist (wrapFirst path ttl) (by simp [wrapFirst, wrapIn, hp]) (by simp [wrapFirst, wrapIn, hp]) h

/-- non-vacuity: three generations; the third token's own path is the rewrap path, its record still names the origin -/
example : (rewrapHistory [true, true] (some (wrapFirst "rec/data/a" 3600))).map (fun t => (t.tePath, lookupInfo t))
    = some ("sys/wrapping/rewrap", { path := "rec/data/a", ttl := 3600 }) := by decide

/-- non-vacuity: a first-party and a third-party unwrap race; one gets the payload, the other fails, and the
worker removes token and payload -/
example : let s := run [1, 1, 1, 1, 0, 0, 0, 0, 0, 0, 0, 0, 0, 0, 1, 1, 1, 2, 2] (wrapInit [.unwrap1, .unwrap3])
    obtainedCount s.pcs = 1 ∧ s.pcs[0]? = some (.done (some true) .payload) ∧
    s.pcs[1]? = some (.done none .errInternal) ∧ s.sh.gone = true ∧ s.sh.payload = false := by decide

/-- non-vacuity: the third-party unwrap wins and deletes everything itself; the direct cubbyhole read is refused -/
example : let s := run [1, 1, 1, 1, 1, 1, 1, 1, 1, 1, 1, 1, 1, 1, 1, 0, 0] (wrapInit [.cubby, .unwrap3])
    obtainedCount s.pcs = 1 ∧ s.pcs[1]? = some (.done (some true) .payload) ∧
    s.pcs[0]? = some (.done none .denied) ∧ s.sh.gone = true ∧ s.sh.payload = false := by decide

/-- the hypotheses of `unwrap_exactly_once` are met by a concrete race of three attempts and a lookup -/
example : let kinds := [Kind.unwrap1, .unwrap3, .cubby, .lookup3]
    (∀ k ∈ kinds, seeking k = true ∨ (scriptOf k).uses = false) ∧ (∃ k ∈ kinds, seeking k = true) := by decide

/-- non-vacuity for the third-party rewrap: it transfers the payload and deletes the old token and its payload -/
example : let s := run [0, 0, 0, 0, 0, 0, 0, 0, 0, 0, 0, 0, 0, 0, 0, 0] (wrapInit [.rewrap3])
    s.pcs[0]? = some (.done (some true) .rewrapped) ∧ s.sh.gone = true ∧ s.sh.payload = false ∧ s.sh.info = false := by
  decide

/-! ### across namespaces: "…exactly once, after which the token and its stored payload no longer exist" -/
section Ns
open Obao.WrapNs

/-- **unwrap_across_namespaces_consumes.** Whatever the namespace the third party acts in: a successful unwrap removes
the wrapping token and its payload, so a second unwrap — through any namespace — reveals nothing; entries of other
tokens are untouched. -/
theorem unwrap_across_namespaces_consumes (s : Obao.WrapNs.St) (reqNs reqNs' tokNs id : Nat)
    (h : (unwrap3 s reqNs tokNs id).2 = true) :
    (tokNs, id) ∉ (unwrap3 s reqNs tokNs id).1.toks ∧ (tokNs, id) ∉ (unwrap3 s reqNs tokNs id).1.payloads ∧
    (unwrap3 (unwrap3 s reqNs tokNs id).1 reqNs' tokNs id).2 = false ∧
    ∀ e, e ≠ (tokNs, id) → (e ∈ (unwrap3 s reqNs tokNs id).1.toks ↔ e ∈ s.toks) := by
  unfold unwrap3 at h ⊢
  split at h
  · rename_i hc
    simp only [hc, and_self, if_true]
    have h1 : (tokNs, id) ∉ (revokeIn s tokNs id).toks := by simp [revokeIn]
    have h2 : (tokNs, id) ∉ (revokeIn s tokNs id).payloads := by simp [revokeIn]
    refine ⟨h1, h2, ?_, ?_⟩
    · simp [h1]
    · intro e he; simp [revokeIn, he]
  · simp at h

/-- live: wrapped in namespace 1, unwrapped through the root namespace (0) -/
example : (unwrap3 { toks := [(1, 7)], payloads := [(1, 7)] } 0 1 7).2 = true := by decide

/-- **seeded change C18-4 is a violation**: revoked in the REQUEST's namespace the token wrapped in namespace 1 and
unwrapped through the root namespace hands out its payload and stays, with its payload, in the store. -/
theorem unwrap_revoke_in_request_ns_cex :
    ∃ (s : Obao.WrapNs.St) (reqNs tokNs id : Nat), (unwrap3InReqNs s reqNs tokNs id).2 = true ∧
      (tokNs, id) ∈ (unwrap3InReqNs s reqNs tokNs id).1.toks ∧ (tokNs, id) ∈ (unwrap3InReqNs s reqNs tokNs id).1.payloads :=
  ⟨{ toks := [(1, 7)], payloads := [(1, 7)] }, 0, 1, 7, by decide, by decide, by decide⟩

end Ns

end C18
