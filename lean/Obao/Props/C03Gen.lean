import Obao.Gen.AclTables
/-! C03 — regenerated tie (T-gen): the operation→capability switch of `ACL.AllowOperation` and the capability bit
constants, re-extracted from internal/vault/policy/{acl,policy}.go on every run, equal the documented table. -/
namespace C03Gen
open Obao.Gen.AclTables

/-- the documented mapping (website/content/docs/concepts/policies.mdx, "Capabilities"): each operation needs the
capability of the same name; revoke/renew/rollback need `update`; anything else is denied -/
def documentedOpCap : List (String × String) := [
  ("ReadOperation", "ReadCapabilityInt"), ("ListOperation", "ListCapabilityInt"),
  ("UpdateOperation", "UpdateCapabilityInt"), ("DeleteOperation", "DeleteCapabilityInt"),
  ("CreateOperation", "CreateCapabilityInt"), ("PatchOperation", "PatchCapabilityInt"),
  ("ScanOperation", "ScanCapabilityInt"), ("RevokeOperation", "UpdateCapabilityInt"),
  ("RenewOperation", "UpdateCapabilityInt"), ("RollbackOperation", "UpdateCapabilityInt"),
  ("default", "")]

theorem op_cap_table_ok : opCap = documentedOpCap := by decide

/-- capability constants are pairwise distinct single bits (so the bitmap union/deny logic cannot alias) -/
theorem cap_bits_distinct_single_bits :
    (capBits.map (·.2)).Nodup ∧
    (capBits.map (·.2)).all (fun n => n != 0 && (n &&& (n - 1)) == 0) = true := by
  decide

end C03Gen
