import Obao.Proofs.InmemTxn
import Obao.Proofs.RaftTxn
import Obao.Proofs.CacheTxn
/-! C08 — storage transactions are serializable and atomic. Part (a): the inmem transactional backend
(`Obao/Model/InmemTxn.lean`, tied to `sdk/physical/inmem` by stream `txn-inmem`) against the serial spec
(`Obao/Model/SerialTxn.lean`). -/
namespace C08
open Obao.SerialTxn Obao.InmemTxn

/-- A transaction that wrote commits **iff** executing its logged operations one after the other against the
parent store *at the commit point* reproduces every observation it logged (values read, listings, and the
pre-images of the keys it wrote); the parent then becomes exactly the store that serial execution ends in;
otherwise the verdict is the commit-conflict error and the parent is unchanged. All stores, all logs. -/
theorem inmem_commit_iff_serial (t : Txn) (parent : Store)
    (hf : t.finished = false) (hw : t.writable = true) (hwr : t.written = true) :
    ((t.commit parent).2.2 = .ok ↔ (exec parent t.logOps).1 = t.logObs) ∧
    ((t.commit parent).2.2 = .ok → (t.commit parent).1 = (exec parent t.logOps).2) ∧
    ((t.commit parent).2.2 ≠ .ok → (t.commit parent).2.2 = .err .conflict ∧ (t.commit parent).1 = parent) := by
  unfold Txn.commit Txn.logOps Txn.logObs
  simp only [hf, hw, hwr, Bool.false_eq_true, if_false, Bool.not_true, Bool.or_self]
  cases h : replay parent t.operations with
  | none =>
    have := (replay_none_iff parent t.operations).mp h
    simp [this]
  | some p =>
    have := (replay_iff_exec parent p t.operations).mp h
    simp [this]

/-- non-vacuity of the hypotheses: a concrete transaction that read `a`, wrote `b`, and (i) commits on an
unchanged parent, (ii) conflicts once `a` was overwritten — the parent stays as it was -/
example :
    (fun t : Txn =>
      t.finished = false ∧ t.writable = true ∧ t.written = true ∧
      t.commit [("a", "01")] = ([("a", "01"), ("b", "02")], { t with finished := true }, .ok) ∧
      (t.commit [("a", "03")]).1 = [("a", "03")] ∧ (t.commit [("a", "03")]).2.2 = .err .conflict)
    ((beginTx [("a", "01")]).applyAll [.get "a", .put "b" "02"]) := by
  decide

/-- A commit that does not succeed never changes the parent store (whatever the state of the transaction):
none of an aborted transaction's writes become visible. -/
theorem inmem_abort_restores (t : Txn) (parent : Store) (h : (t.commit parent).2.2 ≠ .ok) :
    (t.commit parent).1 = parent := by
  unfold Txn.commit at h ⊢
  split
  · rfl
  · split
    · rfl
    · split
      · rfl
      · rename_i p hp
        simp_all

/-- A read-only transaction, or one that never wrote, commits without any check and without effect (it is
equivalent to a rollback). Its observations are those of its begin-time snapshot (next theorem). -/
theorem inmem_commit_unwritten (t : Txn) (parent : Store) (hf : t.finished = false)
    (h : t.writable = false ∨ t.written = false) :
    t.commit parent = (parent, { t with finished := true }, .ok) := by
  unfold Txn.commit
  rcases h with h | h <;> simp [hf, h]

/-- Inside a transaction every read and listing reflects the begin-time snapshot plus the transaction's own
earlier writes: the logged operations, executed serially on the store the transaction began from, reproduce
every logged observation and end in the transaction's private tree. Any operation sequence, writable or not. -/
theorem txn_sees_snapshot_plus_own_writes (parent : Store) (w : Bool) (ops : List Op) :
    let t := (if w then beginTx parent else beginReadOnlyTx parent).applyAll ops
    exec parent t.logOps = (t.logObs, t.root) := by
  intro t
  apply viewInv_applyAll
  cases w <;> simp [ViewInv, beginTx, beginReadOnlyTx, Txn.logOps, Txn.logObs, exec]

/-- … and what the client was handed is what was logged: an operation either fails and changes nothing, or
appends exactly one log entry whose observation agrees with the returned result. -/
theorem txn_result_is_logged (t : Txn) (o : Op) :
    ((t.apply o).2.isErr = true ∧ (t.apply o).1 = t) ∨
    (∃ e : InmemOp, (t.apply o).1.operations = t.operations ++ [e] ∧ (t.apply o).2.agrees e.toObs ∧
        (∀ s, step s e.toOp = step s o)) := by
  rcases apply_cases t o with h | ⟨e, h1, h2, h3, _⟩
  · exact Or.inl h
  · exact Or.inr ⟨e, h1, h2, h3⟩

/-- Reads reflect own writes: after `put k v` (resp. `delete k`) and any further operations of the same
transaction that do not write `k`, `get k` returns `v` (resp. nothing) — whatever happens to the parent
store meanwhile (the parent does not even occur in the statement). -/
theorem reads_own_writes (t : Txn) (k : Key) (v : Val) (mid : List Op)
    (hw : t.writable = true) (hf : t.finished = false) (hmid : ∀ o ∈ mid, writesKey o k = false) :
    (((t.put k v).1.applyAll mid).get k).2 = .val (some v) ∧
    (((t.delete k).1.applyAll mid).get k).2 = .val none := by
  constructor
  · have hfl := applyAll_flags (t.put k v).1 mid
    have hr := applyAll_root_other (t.put k v).1 mid k hmid
    have hfin : ((t.put k v).1.applyAll mid).finished = false := by
      rw [hfl.2]; simp [Txn.put, hw, hf]
    have hroot : sget (t.put k v).1.root k = some v := by
      simp [Txn.put, hw, hf, sget_sput_same]
    simp [Txn.get, hfin, hr, hroot]
  · have hfl := applyAll_flags (t.delete k).1 mid
    have hr := applyAll_root_other (t.delete k).1 mid k hmid
    have hfin : ((t.delete k).1.applyAll mid).finished = false := by
      rw [hfl.2]; simp [Txn.delete, hw, hf]
    have hroot : sget (t.delete k).1.root k = none := by
      simp [Txn.delete, hw, hf, sget_sdel_same]
    simp [Txn.get, hfin, hr, hroot]

example : ∀ o ∈ [Op.get "b", .put "c" "01", .list "" "" (-1)], writesKey o "a" = false := by decide

/-- A read-only transaction refuses every write with the read-only error and stays untouched, after any
sequence of operations; its private tree is still the snapshot and its commit never changes any parent. -/
theorem readonly_refuses_writes (parent : Store) (ops : List Op) (k : Key) (v : Val) :
    let t := (beginReadOnlyTx parent).applyAll ops
    t.put k v = (t, .err .readOnly) ∧ t.delete k = (t, .err .readOnly) ∧
    (∀ p, (t.commit p).1 = p) := by
  intro t
  have hw : t.writable = false := by
    have h1 := (applyAll_flags (beginReadOnlyTx parent) ops).1
    show ((beginReadOnlyTx parent).applyAll ops).writable = false
    rw [h1]; rfl
  refine ⟨by simp [Txn.put, hw], by simp [Txn.delete, hw], fun p => ?_⟩
  unfold Txn.commit
  split
  · rfl
  · simp [hw]

/-- A finished transaction (committed or rolled back) refuses every further use — each operation, a second
commit and a second rollback fail and change neither the transaction nor the parent — and both `Commit` and
`Rollback` finish the transaction whatever their verdict. -/
theorem finished_refuses_use (t : Txn) (parent : Store) :
    (t.finished = true →
      (∀ o, (t.apply o).2.isErr = true ∧ (t.apply o).1 = t) ∧
      t.commit parent = (parent, t, .err .finished) ∧ t.rollback = (t, .err .finished)) ∧
    (t.commit parent).2.1.finished = true ∧ t.rollback.1.finished = true := by
  refine ⟨fun hf => ⟨fun o => ?_, by simp [Txn.commit, hf], by simp [Txn.rollback, hf]⟩, ?_, ?_⟩
  · rcases apply_cases t o with h | ⟨e, _, _, _, _, _, _, hnf⟩
    · exact h
    · rw [hf] at hnf; cases hnf
  · unfold Txn.commit
    split
    · assumption
    · split
      · rfl
      · split <;> rfl
  · unfold Txn.rollback
    split
    · assumption
    · rfl

/-- **Serializability of the inmem backend.** For every initial store and every schedule — any number of
transactions, read-only or not, any operations, plain reads and writes in between, commits and rollbacks in
any order, use after finish — executing the *committed units* (each plain write; each transaction whose commit
succeeded after writing, with all the operations it logged) **one at a time in commit order** from the
initial store reproduces every observation those transactions made and ends in exactly the final parent
store. Aborted and rolled-back transactions contribute nothing. -/
theorem inmem_serializable (s0 : Store) (es : List Event) :
    replaySerial s0 ((Sys.init s0).run es).2 = some ((Sys.init s0).run es).1.parent := by
  suffices h : ∀ (s : Sys) (base : Store) (hist : List CommitRec),
      replaySerial base hist = some s.parent →
      replaySerial base (hist ++ (s.run es).2) = some (s.run es).1.parent by
    simpa using h (Sys.init s0) s0 [] (by simp [replaySerial, Sys.init])
  induction es with
  | nil => intro s base hist h; simpa [Sys.run] using h
  | cons e es ih =>
    intro s base hist h
    unfold Sys.run
    cases hs : s.step e with
    | none => exact ih s base hist h
    | some sr =>
      obtain ⟨s', r⟩ := sr
      -- one-step lemma: appending this event's unit (if any) leads to the new parent
      have one : replaySerial base (hist ++ (match s.commitRec e with | some r => [r] | none => [])) = some s'.parent := by
        rw [replaySerial_append, h]
        simp only [Option.bind_some]
        cases e with
        | begin id w =>
          simp only [Sys.step] at hs
          split at hs
          · cases hs
          · cases hs; simp [Sys.commitRec, replaySerial]
        | op id o =>
          simp only [Sys.step] at hs
          split at hs
          · cases hs
          · cases hs; simp [Sys.commitRec, replaySerial]
        | rollback id =>
          simp only [Sys.step] at hs
          split at hs
          · cases hs
          · cases hs; simp [Sys.commitRec, replaySerial]
        | plain o =>
          simp only [Sys.step] at hs
          cases hs
          cases o <;> simp [Sys.commitRec, Op.isWrite, replaySerial, exec, step]
        | commit id =>
          simp only [Sys.step] at hs
          simp only [Sys.commitRec]
          cases hl : s.txns.lookup id with
          | none => simp [hl] at hs
          | some t =>
            simp only [hl] at hs
            cases hs
            unfold Txn.commit
            by_cases hf : t.finished = true
            · simp [hf, replaySerial]
            · by_cases hw : t.writable = true
              · by_cases hwr : t.written = true
                · cases hr : replay s.parent t.operations with
                  | none => simp [hf, hw, hwr, hr, replaySerial]
                  | some p =>
                    have := (replay_iff_exec s.parent p t.operations).mp hr
                    simp [hf, hw, hwr, hr, replaySerial, this]
                · simp [hf, hw, hwr, replaySerial]
              · simp [hf, hw, replaySerial]
      cases hc : s.commitRec e with
      | none =>
        rw [hc] at one
        simp only [List.append_nil] at one
        exact ih s' base hist one
      | some rec =>
        rw [hc] at one
        have := ih s' base (hist ++ [rec]) one
        simpa [List.append_assoc] using this

/-- non-vacuity: a schedule with two overlapping transactions — the first commits, the second (which read the
key the first one overwrote) conflicts — yields a serial history of two units (a plain write, transaction 0) -/
example :
    (fun r : Sys × List CommitRec => r.1.parent = [("a", "02")] ∧ r.2.length = 2)
    ((Sys.init []).run [.plain (.put "a" "01"), .begin 0 true, .begin 1 true, .op 1 (.get "a"),
                        .op 0 (.get "a"), .op 0 (.put "a" "02"), .commit 0, .op 1 (.put "b" "03"), .commit 1]) := by
  decide

/-! ## Part (b): the raft transaction's client-side verification records (`Obao/Model/RaftTxn.lean`, tied to
`internal/physical/raft` by stream `txn-raft`). The apply side (tracker, fast path) is C09's. -/
section Raft
open Obao.RaftTxn

/-- **Read verification is sound (up to the hash).** Take any transaction begun on any backend state, after any
sequence of operations. (1) Every key it read or wrote has a `verifyReadOp` record, and every record holds the
hash of the SNAPSHOT content. (2) Hence, if every read record is *actually evaluated* against the store at
apply time and passes, then for every key the transaction touched the content at the commit point hashes like
the content it saw. (SHA-384 idealised as injective on `{key}content`.) -/
theorem raft_verify_sound (s : RSys) (w : Bool) (ops : List Op) (store : Store)
    (hv : ∀ r ∈ ((beginTx s w).applyAll ops).reads, verifyReadFull store r = true) :
    ∀ o ∈ ops, ∀ k, touches w o k = true →
      k ∈ ((beginTx s w).applyAll ops).reads.map (·.1) ∧ hashOf (sget store k) = hashOf (sget s.store k) := by
  intro o ho k hk
  have hcov := (cover_applyAll (beginTx s w) ops rfl (by intro k hk; simp [Obao.RaftTxn.beginTx] at hk)).2 o ho k hk
  refine ⟨hcov, ?_⟩
  obtain ⟨r, hr, rfl⟩ := List.mem_map.mp hcov
  have hinv := readsInv_applyAll (beginTx s w) ops (by intro r hr; simp [Obao.RaftTxn.beginTx] at hr) r hr
  have hsnap : ((beginTx s w).applyAll ops).snap = s.store := (snap_applyAll (beginTx s w) ops).1
  have := hv r hr
  simp only [verifyReadFull, beq_iff_eq] at this
  rw [this, hinv, hsnap]

/-- **the start index must not be later than the snapshot** (seeded change C08-4). `raft_commit_reads_current`
rests on `beginTx` taking the index *before* (here: together with) the snapshot: every write the snapshot does not
contain is then in the verification window. With the index sampled after the snapshot (`beginTxLateIndex`) a write
applied in between is in neither: the transaction reads the old value of `k`, writes, and its commit is accepted
although `k` changed — a lost update. The correspondence drives exactly this schedule (`raft-beginrace`). -/
theorem raft_begin_late_index_cex :
    ∃ (s s' : RSys) (k : Key) (t : RTxn),
      t = (beginTxLateIndex s s' true).applyAll [.get k, .put "j" "ee"] ∧
      (t.commit s').2.2.2 = .ok ∧ t.haveWritten = true ∧
      hashOf (sget s'.store k) ≠ hashOf (sget t.snap k) :=
  ⟨{ store := [("k", "01")], wlog := [["k"]], txns := [] },
   { store := [("k", "02")], wlog := [["k"], ["k"]], txns := [] }, "k", _, rfl, by decide, by decide, by decide⟩

/-- the exact statement one would want: verification passing ⇒ the VALUE (presence included) is unchanged -/
def raft_verify_sound_full : Prop :=
  ∀ (s : RSys) (w : Bool) (ops : List Op) (store : Store),
    (∀ r ∈ ((beginTx s w).applyAll ops).reads, verifyReadFull store r = true) →
    ∀ o ∈ ops, ∀ k, touches w o k = true → sget store k = sget s.store k

/-- … is FALSE on the current code (F23): bbolt returns `nil` for an absent key and `sha384("{k}" ‖ nil)` is
the hash of the empty value, so "absent" verifies against "present with empty value". -/
theorem raft_verify_absent_empty_cex : ¬ raft_verify_sound_full := by
  intro h
  have := h RSys.init true [.get "k"] [("k", "-")] (by decide) (.get "k") (by simp) "k" (by decide)
  exact absurd this (by decide)

/-- … and TRUE as soon as no stored value is empty (the barrier never writes an empty ciphertext). -/
theorem raft_verify_sound_partial (s : RSys) (w : Bool) (ops : List Op) (store : Store)
    (hv : ∀ r ∈ ((beginTx s w).applyAll ops).reads, verifyReadFull store r = true)
    (hne1 : ∀ k, sget store k ≠ some "-") (hne2 : ∀ k, sget s.store k ≠ some "-") :
    ∀ o ∈ ops, ∀ k, touches w o k = true → sget store k = sget s.store k := by
  intro o ho k hk
  have := (raft_verify_sound s w ops store hv o ho k hk).2
  have h1 := hne1 k
  have h2 := hne2 k
  cases hs : sget store k <;> cases hs' : sget s.store k <;> simp_all [hashOf]

example : (∀ k, sget [("a", "01")] k ≠ some "-") := by
  intro k; simp only [sget]; split <;> simp

/-- **Committed raft transactions have current reads (single node, FSM keeping up).** After any schedule of
the backend — transactions, plain writes, commits, conflicts, rollbacks — a transaction that wrote and whose
`Commit` succeeds has, for EVERY read record (that is, by `raft_verify_sound`, every key it read or wrote), the
same content at the commit point as in its snapshot (up to the absent/empty collision of the hash). The proof
goes through the fast path: a verification is bypassed only when no write to the key was applied since the
transaction began, and then store and snapshot agree on it (`WindowInv`, an invariant of the whole system). -/
theorem raft_commit_reads_current (es : List Obao.RaftTxn.Event) (id : Nat) (t : RTxn)
    (ht : (RSys.init.run es).txns.lookup id = some t) (hw : t.writable = true) (hh : t.haveWritten = true)
    (hok : (t.commit (RSys.init.run es)).2.2.2 = .ok) :
    ∀ r ∈ t.reads, hashOf (sget (RSys.init.run es).store r.1) = hashOf (sget t.snap r.1) := by
  obtain ⟨_, _, h3⟩ := rcommit_cases t (RSys.init.run es)
  obtain ⟨hf, hv⟩ := h3 hok
  have hv : (t.reads.all (verifyRead (RSys.init.run es).store ((RSys.init.run es).wlog.drop t.start)) &&
      t.lists.all (verifyList (RSys.init.run es).store ((RSys.init.run es).wlog.drop t.start))) = true := by
    rcases hv with (h | h) | h
    · rw [hw] at h; cases h
    · rw [hh] at h; cases h
    · exact h
  obtain ⟨ri, _, wi⟩ := sysInv_run RSys.init es sysInv_init id t ht hf
  intro r hr
  have hr1 := (List.all_eq_true.mp (Bool.and_eq_true_iff.mp hv).1) r hr
  simp only [verifyRead, Bool.or_eq_true, Bool.not_eq_true', beq_iff_eq] at hr1
  rcases hr1 with h | h
  · rw [wi r.1 h]
  · rw [h, ri r hr]

/-- non-vacuity: a schedule in which such a transaction exists and commits although another key was written
meanwhile (its verification is bypassed by the fast path) -/
example :
    (fun s : RSys => ∃ t, s.txns.lookup 0 = some t ∧ t.writable = true ∧ t.haveWritten = true ∧
        (t.commit s).2.2.2 = .ok ∧ t.reads = [("b", "-"), ("a", "01")])
    (RSys.init.run [.plain (.put "a" "01"), .begin 0 true, .op 0 (.get "a"), .plain (.put "c" "02"),
                    .op 0 (.put "b" "03")]) := by
  refine ⟨_, rfl, ?_⟩
  decide

/-- **List verification is sound for listings that did not reach their limit (after the repair of F8).** The
client now records such a listing (non-empty, cursor exhausted, no look-ahead entry) with ONE EXTRA slot:
`verifyLimit = |observed| + 1`. If that record is actually evaluated at apply time and passes, then the
unlimited listing — and every limited one with a limit above the observed count — is exactly what was observed.
All stores, all prefixes. (`obs ≠ [""]` excludes the one collision `strings.Join` has — F27, below; empty
listings are the second half of `raft_list_verify_sound_partial`.) -/
theorem raft_list_verify_sound (store : Store) (pre after : String) (obs : List String)
    (hne : obs ≠ []) (hne' : obs ≠ [""])
    (hv : verifyListFull store { pre := pre, after := after, limit := obs.length + 1, items := obs } = true) :
    ∀ l : Int, (l ≤ 0 ∨ l > obs.length) → listPageInner store pre after l = obs := by
  simp only [verifyListFull, beq_iff_eq] at hv
  have hv : listPageInner store pre after ((obs.length + 1 : Nat) : Int) = obs := by
    unfold itemsKey at hv
    simp only [hne', if_false] at hv
    split at hv
    · exact absurd hv.symm hne
    · exact hv
  rw [listPageInner_take store pre after _ (by omega)] at hv
  have h2 : (((obs.length + 1 : Nat) : Int)).toNat = obs.length + 1 := by omega
  rw [h2] at hv
  have hfull : listPageInner store pre after 0 = obs := by
    have hlen := congrArg List.length hv
    rw [List.length_take] at hlen
    have : (listPageInner store pre after 0).length ≤ obs.length + 1 := by omega
    rw [List.take_of_length_le this] at hv
    exact hv
  intro l hl
  rcases hl with hl | hl
  · rw [listPageInner_nonpos store pre after l hl, hfull]
  · rw [listPageInner_take store pre after l (by omega), hfull, List.take_of_length_le (by omega)]

/-- the F8 scenario on the repaired client code: a transaction lists `foo/ = [a, b]` — the record it builds now
has `verifyLimit = 3` —, another writer appends `foo/c`: the record no longer verifies (and still verifies on the
unchanged store, so no spurious conflict is introduced) -/
theorem raft_list_phantom_rejected :
    (fun s : RSys =>
      ((Obao.RaftTxn.beginTx s true).listPage "foo/" "" (-1)).2 = .keys ["a", "b"] ∧
      ((Obao.RaftTxn.beginTx s true).listPage "foo/" "" (-1)).1.lists = [{ pre := "foo/", after := "", limit := 3, items := ["a", "b"] }] ∧
      verifyListFull [("foo/a", "01"), ("foo/b", "01"), ("foo/c", "02")]
        { pre := "foo/", after := "", limit := 3, items := ["a", "b"] } = false ∧
      verifyListFull s.store { pre := "foo/", after := "", limit := 3, items := ["a", "b"] } = true)
    { RSys.init with store := [("foo/a", "01"), ("foo/b", "01")] } := by
  decide

/-- What IS sound: (i) a record with a look-ahead entry — the listing reached its limit `n` and the record holds
the `n` observed entries plus the next one, `verifyLimit = n + 1` — pins the first `n` entries; (ii) an empty
record (`verifyLimit = 0`, verified without limit) pins the listing for every limit to "empty" — or to the single
empty name `[""]` (a key equal to the prefix), which `strings.Join` cannot tell from the empty list. All stores. -/
theorem raft_list_verify_sound_partial (store : Store) (pre after : String) :
    (∀ (obs : List String) (next : String), obs.length > 0 →
        verifyListFull store { pre := pre, after := after, limit := obs.length + 1, items := obs ++ [next] } = true →
        listPageInner store pre after obs.length = obs) ∧
    (verifyListFull store { pre := pre, after := after, limit := 0, items := [] } = true →
        ∀ l, listPageInner store pre after l = [] ∨ listPageInner store pre after l = [""]) := by
  constructor
  · intro obs next hpos hv
    simp only [verifyListFull, beq_iff_eq] at hv
    have hne : obs ++ [next] ≠ [""] := by
      intro h
      have := congrArg List.length h
      rw [List.length_append] at this
      simp only [List.length_cons, List.length_nil] at this
      omega
    have hv : listPageInner store pre after ((obs.length + 1 : Nat) : Int) = obs ++ [next] := by
      unfold itemsKey at hv
      simp only [hne, if_false] at hv
      split at hv
      · exact absurd hv.symm (by intro h; have := congrArg List.length h; simp at this)
      · exact hv
    rw [listPageInner_take store pre after _ (by omega)] at hv
    rw [listPageInner_take store pre after _ (by omega)]
    have h1 : ((obs.length : Int)).toNat = obs.length := by omega
    have h2 : (((obs.length + 1 : Nat) : Int)).toNat = obs.length + 1 := by omega
    rw [h1]; rw [h2] at hv
    have : (List.take (obs.length + 1) (listPageInner store pre after 0)).take obs.length = (obs ++ [next]).take obs.length := by
      rw [hv]
    rw [List.take_take] at this
    simpa [Nat.min_eq_left (Nat.le_succ _)] using this
  · intro hv l
    simp only [verifyListFull, beq_iff_eq] at hv
    have hv : itemsKey (listPageInner store pre after 0) = itemsKey [] := hv
    have h0 : listPageInner store pre after 0 = [] ∨ listPageInner store pre after 0 = [""] := by
      unfold itemsKey at hv
      split at hv
      · rename_i h; exact Or.inr h
      · left; simpa using hv
    by_cases hl : l > 0
    · rw [listPageInner_take store pre after l hl]
      rcases h0 with h0 | h0
      · left; rw [h0]; simp
      · right; rw [h0]
        have : l.toNat ≥ 1 := by omega
        match hn : l.toNat, this with
        | n + 1, _ => simp
    · rw [listPageInner_nonpos store pre after l (by omega)]; exact h0

/-- the collision is real (**F27**): `List("a") = []`, a concurrent `put a` makes it `[""]`, the empty record
still verifies -/
theorem raft_list_verify_empty_child_cex :
    verifyListFull [("a", "01")] { pre := "a", after := "", limit := 0, items := [] } = true ∧
    listPageInner [("a", "01")] "a" "" (-1) = [""] := by
  decide

/-- The repaired rule (what a `fix:` would make true): when the listing did not reach its limit, verify with
ONE EXTRA slot (`verifyLimit = |observed| + 1`). Then a passing verification pins the whole listing — for the
unlimited call and for every limit above the observed count. -/
theorem raft_list_verify_sound_fixed (store : Store) (pre after : String) (obs : List String)
    (hv : listPageInner store pre after (obs.length + 1 : Nat) = obs) :
    ∀ l : Int, (l ≤ 0 ∨ l > obs.length) → listPageInner store pre after l = obs := by
  rw [listPageInner_take store pre after _ (by omega)] at hv
  have h2 : (((obs.length + 1 : Nat) : Int)).toNat = obs.length + 1 := by omega
  rw [h2] at hv
  have hfull : listPageInner store pre after 0 = obs := by
    have hlen := congrArg List.length hv
    rw [List.length_take] at hlen
    have : (listPageInner store pre after 0).length ≤ obs.length + 1 := by omega
    rw [List.take_of_length_le this] at hv
    exact hv
  intro l hl
  rcases hl with hl | hl
  · rw [listPageInner_nonpos store pre after l hl, hfull]
  · rw [listPageInner_take store pre after l (by omega), hfull, List.take_of_length_le (by omega)]

/-- non-vacuity of the look-ahead shape: the real client code builds exactly such a record when the limit is
reached (`foo/ = [a b c]`, limit 2 ⇒ observed `[a b]`, record `[a b c]` with `verifyLimit = 3`) -/
example :
    (fun s : RSys =>
      ((beginTx s true).listPage "foo/" "" 2).2 = .keys ["a", "b"] ∧
      ((beginTx s true).listPage "foo/" "" 2).1.lists = [{ pre := "foo/", after := "", limit := 3, items := ["a", "b", "c"] }])
    { RSys.init with store := [("foo/a", "01"), ("foo/b", "01"), ("foo/c", "01")] } := by
  decide

end Raft

/-! ## The transactional cache layer (`Obao/Model/CacheTxn.lean`, tied to `sdk/physical/cache.go` by the
`cache` and `view` cases of stream `txn-inmem`) -/
section Cache
open Obao.CacheTxn

/-- **The caches never lie about the layer below.** After every schedule of the cache-wrapped backend — any
transactions, plain reads and writes, commits, conflicts, rollbacks — (1) every entry of the parent cache is the
value the backend below holds for that key *now* (in particular after a commit evicted the modified keys), and
(2) every entry of an open transaction's private cache is the value the wrapped transaction holds for that key
(snapshot plus own writes). Hence a cache hit returns exactly what the layer below would have returned: at
operation granularity the layer is transparent for every operation on the parent and on open transactions. -/
theorem cache_layer_transparent (s0 : Store) (es : List Event) :
    ParentCoherent ((CSys.init s0).run es) ∧ TxnCoherent ((CSys.init s0).run es) := by
  have := inv_run (CSys.init s0) es (inv_init s0)
  exact ⟨this.1, this.2.1⟩

/-- **Behind the cache a finished transaction refuses every further use (after the repair of F22).** After any
schedule, for a transaction whose wrapped transaction has been committed or rolled back, every operation through
the cache layer — `Get` of a cached key included — is refused with an error: the cache transaction knows it is
finished (`FlagInv`) and hands the read to the wrapped transaction instead of its private cache. Together with
`finished_refuses_use` (the wrapped transaction) this covers the wrapping layer. -/
theorem finished_refuses_use_cache (s0 : Store) (es : List Event) (id : Nat) (t : Txn) (o : Op) (s' : CSys) (r : Res)
    (ht : ((CSys.init s0).run es).inner.txns.lookup id = some t) (hf : t.finished = true)
    (h : ((CSys.init s0).run es).step (.op id o) = some (s', r)) : r.isErr = true :=
  finished_refused _ s' (flag_run _ es (flag_init s0)) id t ht hf o r h

/-- non-vacuity (the former F22 witness): read `a` through the transaction, commit, read `a` again -/
example :
    (fun s : CSys => (s.step (.op 0 (.get "a"))).map (·.2) = some (.err .finished))
    ((CSys.init [("a", "01")]).run [.begin 0 true, .op 0 (.get "a"), .commit 0]) := by
  decide

/-- **The commit window.** `cacheTransaction.Commit` taken apart into its micro-steps in code order — the
underlying commit, then one eviction per modified key — with ANY interleaving of concurrent plain readers
(`cache.Get` of any key on the parent cache: hit, or miss → backend read → fill, negative entries included)
between any two micro-steps, any number of such commits, embedded in any schedule of ordinary events: once each
commit has returned, the parent cache agrees with the backend on every key it holds, and every open transaction's
private cache with its transaction (`cache_layer_transparent` at micro-step granularity). What it rests on: a
reader between the underlying commit and the eviction of `k` can only re-insert the NEW value or a value that the
pending eviction of `k` still removes (`StaleOnly` in `Obao/Proofs/CacheTxn.lean`). -/
theorem cache_commit_window_coherent_atomic_reader (s0 : Store) (ms : List MEvent) :
    ParentCoherent ((CSys.init s0).runM ms) ∧ TxnCoherent ((CSys.init s0).runM ms) := by
  have := inv_runM (CSys.init s0) ms (inv_init s0)
  exact ⟨this.1, this.2.1⟩

/-- the micro-step commit without readers IS the atomic commit step the operation-granular streams replay -/
theorem cache_commit_window_refines_atomic (s : CSys) (id : Nat) (w : Win) (h : Win.start s id = some w) :
    s.step (.commit id) = some (w.finish.sys, w.finish.res) :=
  window_no_readers s id w h

/-- non-vacuity: a window with readers before the underlying commit, between it and the eviction, and after -/
example :
    (fun s : CSys => s.lru.lookup "a" = some (some "02") ∧ sget s.inner.parent "a" = some "02")
    ((CSys.init [("a", "01")]).runM
      [.ev (.begin 0 true), .ev (.op 0 (.put "a" "02")),
       .window 0 [.reader "a", .tick, .reader "a", .reader "b", .tick, .reader "a"]]) := by
  decide

/-- **What the theorem rests on (model variant, not the code):** with the two halves in the REVERSED order —
evict first, commit below second — one reader between them re-inserts the pre-commit value and nothing evicts
it again: the parent cache holds `a = 01` while the backend holds `a = 02`. -/
theorem cache_commit_reversed_order_cex :
    ∃ (s : CSys) (s' : CSys), Inv s ∧ commitReversed s 0 ["a"] = some s' ∧ ¬ ParentCoherent s' := by
  refine ⟨(CSys.init [("a", "01")]).run [.begin 0 true, .op 0 (.put "a" "02")],
          { inner := { parent := [("a", "02")],
                       txns := [(0, { root := [("a", "02")], writable := true, written := true, finished := true,
                                      operations := [{ opType := .put, argKey := "a", argVal := "02", currEntry := some "01" }] })] },
            lru := [("a", some "01")], ctxns := [(0, { lru := [("a", some "02")], modified := ["a"], finished := true })] },
          inv_run _ _ (inv_init _), by decide, ?_⟩
  intro h
  have := h "a" (some "01") (by decide)
  exact absurd this (by decide)

/-- **Finding F94: inside the commit window the writes of a committed transaction are NOT visible together** (the clause
"the writes of a committed transaction become visible together" read for plain readers that go through the read cache
while `Commit` is still running). `a` is in the parent cache (old value `01`), `b` is not; the transaction changes both;
the underlying commit lands; a plain reader then reads `b` — a miss, answered by the backend with the NEW value — and
then `a` — a hit, answered by the parent cache with the OLD value. Once `Commit` has returned both are new
(`cache_commit_window_coherent_atomic_reader`). -/
theorem cache_window_half_visible_cex :
    (fun (s : CSys) =>
      ∃ w, Win.start s 0 = some w ∧
        ((w.tick).reader "b").2 = .val (some "02") ∧
        ((((w.tick).reader "b").1).reader "a").2 = .val (some "01") ∧
        ((((w.tick).reader "b").1.run [.tick, .tick, .tick]).reader "a").2 = .val (some "02"))
    ((CSys.init [("a", "01"), ("b", "01")]).run
      [.plain (.get "a"), .begin 0 true, .op 0 (.put "a" "02"), .op 0 (.put "b" "02")]) := by
  refine ⟨_, rfl, ?_⟩
  decide

/-- **The commit window at lock granularity.** Readers are no longer atomic: `cache.Get(k)` is acquire the read
lock of `k`'s stripe · LRU lookup · (miss) backend read · `lru.Add` · release, and the commit's eviction of each
modified key is acquire the stripe's WRITE lock (blocked while a reader holds it) · `lru.Remove` · release, after
the underlying commit. For EVERY assignment of keys to lock stripes, every number of concurrent readers, every
interleaving of their micro-steps with the commit's, any number of such windows inside any schedule of ordinary
events: the parent cache agrees with the backend on every key it holds (and every open transaction's private
cache with its transaction). A window left early is closed by letting `Commit` run to its end and abandoning the
readers that have not returned; `cache_commit_window_quiescent` is the statement for windows in which everything
returned. What it rests on: a reader that fetched a pre-commit value holds the read lock until it has added it,
so the eviction of that key — which needs the write lock — comes AFTER the add (`MInv`). -/
theorem cache_commit_window_coherent (stripe : Key → Nat) (s0 : Store) (ls : List LEvent) :
    ParentCoherent (CSys.runL stripe (CSys.init s0) ls) ∧ TxnCoherent (CSys.runL stripe (CSys.init s0) ls) := by
  have := inv_runL stripe (CSys.init s0) ls (inv_init s0)
  exact ⟨this.1, this.2.1⟩

/-- … for every schedule after which `Commit` has returned and all readers have returned: the parent cache agrees
with the backend on every key (nothing had to be finished or abandoned). -/
theorem cache_commit_window_quiescent (stripe : Key → Nat) (s0 : Store) (es : List Event) (id : Nat) (m : MWin)
    (sched : List MStep) (hm : MWin.start ((CSys.init s0).run es) id true = some m)
    (hq : (m.run stripe sched).quiescent = true) :
    ParentCoherent (m.run stripe sched).w.sys ∧ TxnCoherent (m.run stripe sched).w.sys ∧
    (m.run stripe sched).w.finish = (m.run stripe sched).w := by
  have h1 := (minv_run stripe m sched (minv_start stripe _ id m (inv_run _ es (inv_init s0)) hm)).1
  have hd : (m.run stripe sched).w.phase = .done := by
    unfold MWin.quiescent at hq
    simp only [Bool.and_eq_true, beq_iff_eq] at hq
    exact hq.1.1
  have := inv_of_winInv_done _ h1 hd
  exact ⟨this.1, this.2.1, quiescent_finish _ hq⟩

/-- **What the theorem rests on (model variant, not the code): the lock.** With a lock-free eviction
(`locking := false`) this schedule — reader of `a` acquires, misses, reads `a = 01`; the transaction's commit
lands (`a = 02`) and evicts `a` (a no-op); the reader adds `01` and returns — ends quiescent with the parent cache
holding `a = 01` while the backend holds `a = 02`. With the lock (`locking := true`) the same schedule leaves the
commit blocked at the eviction until the reader has released. -/
theorem cache_commit_lockfree_cex :
    (fun (s : CSys) (sched : List MStep) =>
      (∃ m, MWin.start s 0 false = some m ∧ (m.run (fun _ => 0) sched).quiescent = true ∧
         (m.run (fun _ => 0) sched).w.sys.lru.lookup "a" = some (some "01") ∧
         sget (m.run (fun _ => 0) sched).w.sys.inner.parent "a" = some "02") ∧
      (∃ m, MWin.start s 0 true = some m ∧ (m.run (fun _ => 0) sched).quiescent = false ∧
         (m.run (fun _ => 0) sched).lock = .free ∧ (m.run (fun _ => 0) sched).w.phase = .invalidating ["a"]))
    ((CSys.init [("a", "01")]).run [.begin 0 true, .op 0 (.put "a" "02")])
    [.spawn "a", .reader 0, .reader 0, .reader 0, .commit, .commit, .commit, .commit, .commit, .reader 0, .reader 0] := by
  refine ⟨⟨_, rfl, ?_⟩, ⟨_, rfl, ?_⟩⟩ <;> decide

end Cache

end C08
