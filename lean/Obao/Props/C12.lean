import Obao.Proofs.View
import Obao.Model.NsLoad
import Obao.Proofs.Router
import Obao.Proofs.Confine
/-! C12 — mounts, cubbyholes and namespaces are confined to their own storage and scope. -/
namespace C12
open Obao.View Obao.Router Obao.Confine

/-! ## storage views -/

/-- `splitSlash` is `strings.Split(s, "/")`: joining the segments with '/' gives the string back and no segment
contains a '/' (these two facts determine the split uniquely). -/
theorem split_is_strings_split (s : Bytes) :
    [slash].intercalate (splitSlash s) = s ∧ ∀ seg ∈ splitSlash s, slash ∉ seg :=
  ⟨splitSlash_join s, splitSlash_noslash s⟩

/-- The Go predicate, written with index arithmetic, means exactly: some '/'-separated segment is "." or "..". -/
theorem isRelativePath_spec (p : Bytes) :
    isRelativePath p = true ↔ ∃ seg ∈ splitSlash p, seg = [dot] ∨ seg = [dot, dot] := by
  rw [isRelativePath_eq, ← hasDotSegment_eq]
  simp [hasDotSegment, isDotSeg]

/-- Every operation through a view with prefix `p`, for every caller-supplied key `k`: either it is refused
(and then `k` really has a "."/".." segment) or it touches exactly `p ++ k`, which has prefix `p`, and no segment of
`k` is "." or ".." . -/
theorem view_confined (p k : Bytes) :
    (touch p k = .relative ∧ ∃ seg ∈ splitSlash k, seg = [dot] ∨ seg = [dot, dot]) ∨
    (touch p k = .key (p ++ k) ∧ p <+: p ++ k ∧ ∀ seg ∈ splitSlash k, seg ≠ [dot] ∧ seg ≠ [dot, dot]) := by
  unfold touch
  by_cases h : isRelativePath k = true
  · left; exact ⟨by simp [h], (isRelativePath_spec k).mp h⟩
  · right
    refine ⟨by simp [h], List.prefix_append _ _, ?_⟩
    intro seg hs
    have := mt (isRelativePath_spec k).mpr h
    constructor <;> intro e <;> exact this ⟨seg, hs, by simp [e]⟩

/-- For a view prefix ending in '/', the segments of the key handed to the storage below are the segments of the
prefix followed by the segments of the caller's key: nothing the caller supplies can merge with, or climb over, a
segment of the prefix (a path-interpreting physical backend is never shown a "."/".." below `p`). -/
theorem view_confined_segments (a k : Bytes) :
    splitSlash ((a ++ [slash]) ++ k) = (splitSlash (a ++ [slash])).dropLast ++ splitSlash k := by
  have h1 : splitSlash (a ++ [slash]) = splitSlash a ++ [[]] := by
    simpa [splitSlash] using splitSlash_append_slash a []
  rw [h1, List.dropLast_concat, List.append_assoc, List.singleton_append, splitSlash_append_slash]

/-- nested sub-views compose: a chain of `SubView` calls is the view on the concatenated prefix -/
theorem subview_compose (p q k : Bytes) (qs : List Bytes) :
    touch (subView p q) k = touch (p ++ q) k ∧
    subView (subView p q) k = subView p (q ++ k) ∧
    chainPrefix (p :: qs) = p ++ qs.flatten := by
  refine ⟨rfl, by simp [subView, expandKey], chainPrefix_eq p qs⟩

/-- `TruncateKey` undoes `ExpandKey` (what `Get` reports as the entry's key is the caller's key) -/
theorem truncate_expand (p k : Bytes) : truncateKey p (expandKey p k) = k := by
  simp [truncateKey, expandKey]

/-- names returned by `List`/`ListPage` through a view are relative to the listed prefix: each name `n` extends the
physical prefix inside an existing key, and is one segment (a '/' can only be its last byte). -/
theorem list_relative (keys : List Bytes) (pfx after : Bytes) (limit : Int) :
    ∀ n ∈ listPage keys pfx after limit,
      (∃ key ∈ keys, (pfx ++ n) <+: key) ∧ slash ∉ n.dropLast := by
  unfold listPage
  suffices H : ∀ (ks : List Bytes) (out : List Bytes),
      (∀ k ∈ ks, k ∈ keys ∧ pfx <+: k) →
      (∀ n ∈ out, (∃ key ∈ keys, (pfx ++ n) <+: key) ∧ slash ∉ n.dropLast) →
      ∀ n ∈ ks.foldl (listStep pfx after limit) out, (∃ key ∈ keys, (pfx ++ n) <+: key) ∧ slash ∉ n.dropLast by
    apply H _ []
    · intro k hk
      rw [List.mem_filter] at hk
      exact ⟨hk.1, List.isPrefixOf_iff_prefix.mp hk.2⟩
    · simp
  intro ks
  induction ks with
  | nil => intro out _ h; simpa using h
  | cons k ks ih =>
    intro out hks hout
    rw [List.foldl_cons]
    apply ih
    · exact fun x hx => hks x (List.mem_cons_of_mem _ hx)
    · obtain ⟨hk1, hk2⟩ := hks k List.mem_cons_self
      have hk3 : pfx ++ truncateKey pfx k = k := by
        have : pfx.isPrefixOf k = true := List.isPrefixOf_iff_prefix.mpr hk2
        simp only [truncateKey, this, if_true]
        exact List.prefix_iff_eq_append.mp hk2
      unfold listStep
      split
      · exact hout
      · simp only
        split
        · rename_i hidx
          split
          · exact hout
          · intro n hn
            rcases List.mem_append.mp hn with hn | hn
            · exact hout n hn
            · simp at hn; subst hn
              refine ⟨⟨k, hk1, by rw [hk3]; exact List.prefix_refl _⟩, ?_⟩
              exact fun h => indexSlash_none _ hidx (List.dropLast_subset _ h)
        · rename_i sep hidx
          obtain ⟨h1, h2, h3⟩ := indexSlash_some _ sep hidx
          have key : ∀ n, n = (truncateKey pfx k).take (sep + 1) →
              (∃ key ∈ keys, (pfx ++ n) <+: key) ∧ slash ∉ n.dropLast := by
            intro n hn; subst hn
            refine ⟨⟨k, hk1, ?_⟩, by rw [h2]; exact h1⟩
            obtain ⟨t, ht⟩ := h3
            exact ⟨t, by rw [List.append_assoc, ht, hk3]⟩
          split
          · exact hout
          · split
            · exact hout
            · intro n hn
              rcases List.mem_append.mp hn with hn | hn
              · exact hout n hn
              · simp at hn; exact key n hn

/-- non-vacuity: a hostile key is refused, a plain key lands below the prefix, a listing returns relative names -/
example : touch [108, 47] [46, 46, 47, 120] = .relative := by decide
example : touch [108, 47] [97, 47, 46, 46, 46, 47, 98] = .key [108, 47, 97, 47, 46, 46, 46, 47, 98] := by decide
example : listPage [[108, 47, 97], [108, 47, 100, 47, 120], [109, 47, 122]] [108, 47] [] (-1) = [[97], [100, 47]] := by decide

/-! ## router -/

/-- The mount that handles a request is the LONGEST registered route prefix of `ns.Path ++ path` (or, when nothing
matches and the path has no trailing '/', of `ns.Path ++ path ++ "/"`), whatever the path is; tainted mounts or
namespaces serve nothing but revoke/rollback; the backend's relative path is the request path minus that prefix. -/
theorem route_longest_prefix (t : Table) (ns : Bytes) (nst : Bool) (path : Bytes) (rr rb : Bool)
    (te : Option TokEntry) (e : Entry) (mp rel : Bytes) (tok : TokSeen)
    (h : route t ns nst path rr rb te = .handled e mp rel tok) :
    e ∈ t ∧ mp = e.pfx ∧
    (∃ adj, (adj = path ∨ (adj = path ++ [slash] ∧ ∀ e' ∈ t, ¬ e'.pfx <+: ns ++ path)) ∧
       e.pfx <+: ns ++ adj ∧ (∀ e' ∈ t, e'.pfx <+: ns ++ adj → e'.pfx.length ≤ e.pfx.length) ∧
       rel = relPath ns adj e) ∧
    (rr = true ∨ (e.tainted = false ∧ nst = false)) := by
  obtain ⟨adj, hf, h2, h3, h4⟩ := route_handled _ _ _ _ _ _ _ _ _ _ _ h
  obtain ⟨a1, a2, a3, a4⟩ := findEntry_some _ _ _ _ _ hf
  exact ⟨a1, h2, ⟨adj, a4, a2, a3, h3⟩, h4⟩

/-- no route entry prefixes the request ⇒ no backend is called at all -/
theorem route_none_unsupported (t : Table) (ns : Bytes) (nst : Bool) (path : Bytes) (rr rb : Bool) (te : Option TokEntry)
    (h : ∀ e ∈ t, ¬ e.pfx <+: ns ++ path ∧ ¬ e.pfx <+: ns ++ (path ++ [slash])) :
    route t ns nst path rr rb te = .unsupported := by
  cases hr : route t ns nst path rr rb te with
  | handled e mp rel tok =>
    obtain ⟨a1, _, ⟨adj, a4, a2, _, _⟩, _⟩ := route_longest_prefix _ _ _ _ _ _ _ _ _ _ _ hr
    rcases a4 with rfl | ⟨rfl, _⟩
    · exact absurd a2 (h e a1).1
    · exact absurd a2 (h e a1).2
  | unsupported => rfl
  | noBackendCall | errInternal | errResp =>
    exfalso
    unfold route at hr
    split at hr
    · cases hr
    · rename_i e adj hf
      obtain ⟨a1, a2, _, a4⟩ := findEntry_some _ _ _ _ _ hf
      rcases a4 with rfl | ⟨rfl, _⟩
      · exact (h e a1).1 a2
      · exact (h e a1).2 a2

/-- The storage a handler can touch is the selected mount's own view: for every client-influenced key `k`, a storage
access of the handling backend either is refused or touches exactly `e.storage ++ k` of the entry `e` selected by
longest prefix, `k` free of "."/".." segments. -/
theorem request_storage_is_mount_view (t : Table) (ns : Bytes) (nst : Bool) (path : Bytes) (rr rb : Bool)
    (te : Option TokEntry) (k : Bytes) (e : Entry) (tc : Obao.View.Touch)
    (h : routeTouch t ns nst path rr rb te k = some (e, tc)) :
    e ∈ t ∧
    (∃ adj, (adj = path ∨ adj = path ++ [slash]) ∧ e.pfx <+: ns ++ adj ∧
       ∀ e' ∈ t, e'.pfx <+: ns ++ adj → e'.pfx.length ≤ e.pfx.length) ∧
    (tc = .relative ∨ (tc = .key (e.storage ++ k) ∧ ∀ seg ∈ splitSlash k, seg ≠ [dot] ∧ seg ≠ [dot, dot])) := by
  unfold routeTouch at h
  split at h
  · rename_i e0 mp rel tok hr
    injection h with h; injection h with h1 h2; subst h1 h2
    obtain ⟨a1, _, ⟨adj, a4, a2, a3, _⟩, _⟩ := route_longest_prefix _ _ _ _ _ _ _ _ _ _ _ hr
    refine ⟨a1, ⟨adj, ?_, a2, a3⟩, ?_⟩
    · rcases a4 with h | h
      · exact .inl h
      · exact .inr h.1
    · rcases view_confined e0.storage k with h | h
      · exact .inl h.1
      · exact .inr ⟨h.1, h.2.2⟩
  · cases h

/-- Two different mounts never share a physical key: with slash-free namespace / mount UUIDs and table names, the
barrier-view prefixes `namespaces/<ns>/<table>/<uuid>/` (root: `<table>/<uuid>/`) of two mounts that differ in
namespace, table or UUID have no common extension — as long as no table is called "namespaces". -/
theorem mount_storage_disjoint (n1 n2 : Option Bytes) (t1 t2 u1 u2 k1 k2 : Bytes)
    (hn1 : ∀ u, n1 = some u → slash ∉ u) (hn2 : ∀ u, n2 = some u → slash ∉ u)
    (ht1 : slash ∉ t1) (ht2 : slash ∉ t2) (hu1 : slash ∉ u1) (hu2 : slash ∉ u2)
    (hr1 : t1 ≠ strOf "namespaces") (hr2 : t2 ≠ strOf "namespaces")
    (h : mountStorage n1 t1 u1 ++ k1 = mountStorage n2 t2 u2 ++ k2) :
    n1 = n2 ∧ t1 = t2 ∧ u1 = u2 ∧ k1 = k2 := by
  have hns : slash ∉ strOf "namespaces" := by decide
  have tail : ∀ (a b : Bytes), slash ∉ a → slash ∉ b → ∀ x y, a ++ slash :: x = b ++ slash :: y → a = b ∧ x = y :=
    fun a b ha hb x y => slashfree_cancel a b x y ha hb
  have same : ∀ (t1 t2 u1 u2 k1 k2 : Bytes), slash ∉ t1 → slash ∉ t2 → slash ∉ u1 → slash ∉ u2 →
      (t1 ++ slash :: (u1 ++ [slash])) ++ k1 = (t2 ++ slash :: (u2 ++ [slash])) ++ k2 → t1 = t2 ∧ u1 = u2 ∧ k1 = k2 := by
    intro t1 t2 u1 u2 k1 k2 a b c d h
    simp only [List.append_assoc, List.cons_append, List.nil_append] at h
    obtain ⟨e1, h⟩ := tail _ _ a b _ _ h
    obtain ⟨e2, h⟩ := tail _ _ c d _ _ h
    exact ⟨e1, e2, h⟩
  unfold mountStorage at h
  cases n1 with
  | none =>
    cases n2 with
    | none =>
      simp only [List.nil_append] at h
      obtain ⟨a, b, c⟩ := same _ _ _ _ _ _ ht1 ht2 hu1 hu2 h
      exact ⟨rfl, a, b, c⟩
    | some v =>
      exfalso
      simp only [List.append_assoc, List.cons_append, List.nil_append] at h
      exact hr1 (tail _ _ ht1 hns _ _ h).1
  | some v1 =>
    cases n2 with
    | none =>
      exfalso
      simp only [List.append_assoc, List.cons_append, List.nil_append] at h
      exact hr2 (tail _ _ hns ht2 _ _ h).1.symm
    | some v2 =>
      simp only [List.append_assoc, List.cons_append, List.nil_append] at h
      obtain ⟨_, h⟩ := tail _ _ hns hns _ _ h
      obtain ⟨e1, h⟩ := tail _ _ (hn1 _ rfl) (hn2 _ rfl) _ _ h
      have h' : (t1 ++ slash :: (u1 ++ [slash])) ++ k1 = (t2 ++ slash :: (u2 ++ [slash])) ++ k2 := by
        simpa only [List.append_assoc, List.cons_append, List.nil_append] using h
      obtain ⟨a, b, c⟩ := same _ _ _ _ _ _ ht1 ht2 hu1 hu2 h'
      exact ⟨by rw [e1], a, b, c⟩

/-- non-vacuity: nested and sibling mounts in a child namespace; the deeper mount wins, the sibling is not reached -/
example :
    let t : Table := [⟨strOf "n1/kv/", 1, strOf "namespaces/a/logical/u1/", false⟩,
                      ⟨strOf "n1/kv/nested/", 2, strOf "namespaces/a/logical/u2/", false⟩,
                      ⟨strOf "kv/", 3, strOf "logical/u3/", false⟩]
    (routeTouch t (strOf "n1/") false (strOf "kv/nested/x") false false none (strOf "k")).map (fun r => (r.1.id, r.2))
      = some (2, .key (strOf "namespaces/a/logical/u2/k")) ∧
    (routeTouch t (strOf "n1/") false (strOf "kv/x") false false none (strOf "../u2/k")).map (fun r => (r.1.id, r.2))
      = some (1, .relative) := by decide

/-! ## the request path of the core: namespaces, policies, cubbyholes, sealed namespaces -/

/-- Every mount-storage key a request touches — whatever token, context namespace, header, path, operation and
backend-interpreted key the client supplies — belongs to the ONE mount the router selects for the resolved
(namespace, relative path): a `c12rec` mount's own view, with a key free of "."/".." segments, or the cubbyhole
mount of the routed namespace below the requesting token's own cubbyhole id, again free of "."/".." segments. -/
theorem request_confined (s : St) (t : Tok) (ctx : Option Bytes) (hdr path : Bytes) (op : OpKind) (skey : Bytes) :
    ∀ tch ∈ (request s t ctx hdr path op skey).2.2,
      ∃ ns rel, precheck s t ctx hdr path op = .ok (ns, rel) ∧
        ((∃ m r, routeIn s ns rel = .toRec m r ∧ tch.tgt = .mount m.id ∧
            ∀ seg ∈ splitSlash tch.key, seg ≠ [dot] ∧ seg ≠ [dot, dot]) ∨
         (∃ no r, routeIn s ns rel = .toCubby no r ∧ tch.tgt = .cubby no t.ord ∧
            ∀ seg ∈ splitSlash tch.key, seg ≠ [dot] ∧ seg ≠ [dot, dot])) := by
  intro tch htch
  obtain ⟨ns, rel, hp, hok⟩ := request_touches s t ctx hdr path op skey tch htch
  refine ⟨ns, rel, hp, ?_⟩
  have nodot : ∀ k : Bytes, isRelativePath k = false → ∀ seg ∈ splitSlash k, seg ≠ [dot] ∧ seg ≠ [dot, dot] := by
    intro k hk seg hs
    have := mt (isRelativePath_spec k).mpr (by simp [hk])
    constructor <;> intro e <;> exact this ⟨seg, hs, by simp [e]⟩
  rcases hok with ⟨m, r, h1, h2, h3⟩ | ⟨no, r, h1, h2, h3⟩
  · exact .inl ⟨m, r, h1, h2, nodot _ h3⟩
  · refine .inr ⟨no, r, h1, h2, ?_⟩
    -- `<id>/<key>` has no dot segment ⇒ `<key>` has none (its segments are among those of `<id>/<key>`)
    intro seg hs
    have h4 := nodot _ h3 seg
    rw [List.append_assoc, List.singleton_append, splitSlash_append_slash] at h4
    exact h4 (List.mem_append_right _ hs)

/-- Cubbyhole privacy. (a) A request carrying token `t` touches cubbyhole storage only below `t`'s own cubbyhole
id. (b) Two different slash-free cubbyhole ids have disjoint key sets. (c) In every state reachable from the empty
store by set-up steps and requests of arbitrary tokens, whatever is stored below cubbyhole id `o` was written by the
token with id `o` — so a read with another token (root tokens included) cannot return it. -/
theorem cubbyhole_private :
    (∀ (s : St) (t : Tok) (ctx : Option Bytes) (hdr path : Bytes) (op : OpKind) (skey : Bytes),
      ∀ tch ∈ (request s t ctx hdr path op skey).2.2, ∀ no owner, tch.tgt = .cubby no owner → owner = t.ord) ∧
    (∀ (c1 c2 p1 p2 : Bytes), slash ∉ c1 → slash ∉ c2 → c1 ≠ c2 → c1 ++ slash :: p1 ≠ c2 ++ slash :: p2) ∧
    (∀ (reqs : List (Tok × Option Bytes × Bytes × Bytes × OpKind × Bytes)) (s0 : St), s0.vals = [] →
      let s := reqs.foldl (fun s r => (request s r.1 r.2.1 r.2.2.1 r.2.2.2.1 r.2.2.2.2.1 r.2.2.2.2.2).1) s0
      ∀ no o k w, lookupVal s (.cubby no o, k) = some w → w = o) := by
  refine ⟨?_, ?_, ?_⟩
  · intro s t ctx hdr path op skey tch htch no owner htgt
    obtain ⟨_, _, _, hok⟩ := request_touches s t ctx hdr path op skey tch htch
    rcases hok with ⟨m, r, _, h2, _⟩ | ⟨no', r, _, h2, _⟩
    · rw [h2] at htgt; cases htgt
    · rw [h2] at htgt; injection htgt with _ h; exact h.symm
  · intro c1 c2 p1 p2 h1 h2 hne h
    exact hne (slashfree_cancel c1 c2 p1 p2 h1 h2 h).1
  · intro reqs s0 h0
    have hinv : ∀ (reqs : List (Tok × Option Bytes × Bytes × Bytes × OpKind × Bytes)) (s0 : St), CubbyInv s0 →
        CubbyInv (reqs.foldl (fun s r => (request s r.1 r.2.1 r.2.2.1 r.2.2.2.1 r.2.2.2.2.1 r.2.2.2.2.2).1) s0) := by
      intro reqs
      induction reqs with
      | nil => intro s0 h; exact h
      | cons r rs ih => intro s0 h; exact ih _ (request_inv _ _ _ _ _ _ _ h)
    intro s no o k w hl
    exact lookupVal_inv _ (hinv reqs s0 (by intro e he; rw [h0] at he; cases he)) no o k w hl

/-- Policy scoping. A policy attached to a token of namespace `n` is parsed with `n`'s path prepended to every
pattern (exact, prefix and segment-wildcard patterns alike; namespace names contain no '+'), so a non-root token
allows a request only if the namespace-qualified request path `reqNs.path ++ rel` starts with `n`'s path; the "root"
policy allows the requests whose namespace is `n` or a descendant of `n`, or (repair of F101) whose qualified path starts
with `n`'s path. Consequently a request whose
qualified path does not start with the token's namespace path is denied. -/
theorem policy_scoped_to_namespace (t : Tok) (reqNs rel : Bytes) (isList : Bool) (hns : CanonNs t.ns)
    (h : aclAllows t reqNs rel isList = true) :
    (t.isRoot = true → hasParent reqNs t.ns = true ∨ t.ns <+: reqNs ++ rel) ∧ (t.isRoot = false → t.ns <+: reqNs ++ rel) :=
  aclAllows_scope t reqNs rel isList hns h

/-- Namespace-level scoping in the default configuration (no "."/".." segment anywhere in header ++ path — relative
request paths are refused up front, headers are canonicalised): if the resolved namespace's path was consumed from the
request (`ns.path` is a prefix of header ++ path, the normal case) and the token's namespace is loaded, then a request
the token's policies allow was resolved to the token's OWN namespace or a DESCENDANT of it — never to a sibling or
to the parent. All namespace paths are well formed (`Namespace.Validate`). -/
theorem token_authorises_only_own_namespace_and_below (s : St) (t : Tok) (hdr path : Bytes) (ns : Ns) (rel : Bytes)
    (isList : Bool)
    (hsafe : ∀ sg ∈ splitSlash ((if hdr = strOf "root/" then [] else hdr) ++ path), sg ≠ [dot] ∧ sg ≠ [dot, dot])
    (hwf : ∀ n ∈ allNs s, WfNs n.path)
    (htok : ∃ n ∈ liveNs s, n.path = t.ns)
    (hres : resolveNs s hdr path = some (ns, rel))
    (hcons : ns.path <+: (if hdr = strOf "root/" then [] else hdr) ++ path)
    (hacl : aclAllows t ns.path rel isList = true) :
    hasParent ns.path t.ns = true := by
  obtain ⟨tn, htn, htp⟩ := htok
  have hlive_all : ∀ n ∈ liveNs s, n ∈ allNs s := fun n hn => (List.mem_filter.mp hn).1
  have hwt : WfNs t.ns := htp ▸ hwf tn (hlive_all tn htn)
  obtain ⟨hroot, hnon⟩ := aclAllows_scope t ns.path rel isList hwt.canon hacl
  have hcase : hasParent ns.path t.ns = true ∨ t.ns <+: ns.path ++ rel := by
    cases hr : t.isRoot with
    | true => exact hroot hr
    | false => exact Or.inr (hnon hr)
  rcases hcase with hdone | hpre
  · exact hdone
  · unfold resolveNs at hres
    simp only at hres
    generalize hh : (if hdr = strOf "root/" then [] else hdr) = hdr' at hres hsafe hcons
    generalize hfull : hdr' ++ path = full at hres hsafe hcons
    split at hres
    · cases hres
    · rename_i n hdeep
      by_cases hpfx : hdr'.isPrefixOf n.path = true
      · rw [if_pos hpfx] at hres
        injection hres with hres; injection hres with h1 h2
        rw [h1] at hdeep h2
        obtain ⟨hn1, hn2, hn3⟩ := deepestNs_some _ _ _ hdeep
        have hrel : ns.path ++ rel = full := by
          rw [← h2]; unfold trimPrefix truncateKey
          rw [if_pos (List.isPrefixOf_iff_prefix.mpr hcons)]
          exact List.prefix_iff_eq_append.mp hcons
        rw [hrel] at hpre
        have hsegs : (if full = [] then [] else canonSegs full) = canonSegs full := by
          split
          · rename_i h; rw [h]; decide
          · rfl
        rw [hsegs] at hn2 hn3
        have htseg : nsSegs t.ns <+: canonSegs full := nsSegs_prefix_canonSegs _ _ hwt hpre hsafe
        have hlen : t.ns.length ≤ ns.path.length := by
          have := hn3 tn htn (by rw [htp]; exact htseg)
          rwa [htp] at this
        have hpp : t.ns <+: ns.path :=
          ns_prefix_of_common _ _ _ hwt (hwf ns (hlive_all ns hn1)) htseg hn2 hlen
        unfold hasParent
        by_cases h1 : t.ns = []
        · simp [h1]
        · have h2 : ns.path ≠ [] := by
            intro h; rw [h] at hpp; exact h1 (List.prefix_nil.mp hpp)
          simp [h1, h2, List.isPrefixOf_iff_prefix.mpr hpp]
      · rw [if_neg hpfx] at hres; cases hres

/-- the root policy of namespace `n` reaches `m` iff `m` is `n` or below it; siblings and parents are denied -/
theorem root_policy_descendants_only (a b : Bytes) (hb : a ++ [slash] ≠ b ++ [slash])
    (hs : slash ∉ a ∧ slash ∉ b) :
    hasParent (b ++ [slash]) (a ++ [slash]) = false ∧ hasParent [] (a ++ [slash]) = false ∧
    hasParent ((a ++ [slash]) ++ b ++ [slash]) (a ++ [slash]) = true := by
  refine ⟨?_, by simp [hasParent], by simp [hasParent, List.append_assoc]⟩
  simp only [hasParent]
  have : (a ++ [slash]).isPrefixOf (b ++ [slash]) = false := by
    apply Bool.eq_false_iff.mpr
    intro hp
    obtain ⟨x, hx⟩ := List.isPrefixOf_iff_prefix.mp hp
    have := slashfree_cancel a b x [] hs.1 hs.2 (by simpa [List.append_assoc] using hx)
    exact hb (by rw [this.1])
  simp [this]

/-- Sealed namespaces. (i) A request whose resolved namespace is sealed (directly or through its nearest sealable
ancestor) is refused before any token or policy is consulted and touches no mount storage. (ii) NO request — whatever
namespace it resolves to — touches storage of a mount or cubbyhole of a namespace that is sealed or lies below a
sealed one: the router holds no entry for them. -/
theorem sealed_namespace_unreachable (s : St) (t : Tok) (ctx : Option Bytes) (hdr path : Bytes) (op : OpKind) (skey : Bytes) :
    (∀ ns rel, resolveNs s ((ctx.getD []) ++ hdr) path = some (ns, rel) → ns.path ≠ [] → nsSealed s ns.path = true →
       ∃ o, (request s t ctx hdr path op skey) = (s, o, []) ∧ (o = .errSealed ∨ o = .errRelative ∨ o = .errEscape)) ∧
    (∀ tch ∈ (request s t ctx hdr path op skey).2.2,
       (∀ id, tch.tgt = .mount id → ∃ m ∈ s.mounts, m.id = id ∧ underSealed s m.ns = false ∧ nsSealed s m.ns = false) ∧
       (∀ no owner, tch.tgt = .cubby no owner →
          ∃ n ∈ allNs s, nsOrd s n.path = some no ∧ underSealed s n.path = false ∧ nsSealed s n.path = false)) := by
  constructor
  · intro ns rel hres hne hsealed
    have : ∃ o, precheck s t ctx hdr path op = .error o ∧ (o = .errSealed ∨ o = .errRelative ∨ o = .errEscape) := by
      unfold precheck
      by_cases h1 : ¬ s.unsafeRel = true ∧ isRelativePath path = true
      · rw [if_pos h1]; exact ⟨_, rfl, .inr (.inl rfl)⟩
      · rw [if_neg h1, hres]
        cases ctx with
        | none =>
          simp only
          rw [if_neg (by simp), if_pos ⟨hne, hsealed⟩]; exact ⟨_, rfl, .inl rfl⟩
        | some c =>
          simp only
          by_cases h2 : (!hasParent ns.path c) = true
          · rw [if_pos h2]; exact ⟨_, rfl, .inr (.inr rfl)⟩
          · rw [if_neg h2, if_pos ⟨hne, hsealed⟩]; exact ⟨_, rfl, .inl rfl⟩
    obtain ⟨o, ho, hm⟩ := this
    unfold request
    rw [ho]
    exact ⟨o, rfl, hm⟩
  · intro tch htch
    obtain ⟨ns, rel, _, hok⟩ := request_touches s t ctx hdr path op skey tch htch
    have hr : ∀ p, routable s p = true → underSealed s p = false ∧ nsSealed s p = false := by
      intro p hp
      unfold routable at hp
      cases h1 : underSealed s p <;> cases h2 : nsSealed s p <;> simp_all
    constructor
    · intro id hid
      rcases hok with ⟨m, r, h1, h2, _⟩ | ⟨no, r, _, h2, _⟩
      · obtain ⟨hm, hrt⟩ := routeIn_rec _ _ _ _ _ h1
        rw [h2] at hid; injection hid with hid
        exact ⟨m, hm, hid, hr _ hrt⟩
      · rw [h2] at hid; cases hid
    · intro no owner hid
      rcases hok with ⟨m, r, _, h2, _⟩ | ⟨no', r, h1, h2, _⟩
      · rw [h2] at hid; cases hid
      · obtain ⟨n, hn, hrt, hord⟩ := routeIn_cubby _ _ _ _ _ h1
        rw [h2] at hid; injection hid with hid _
        exact ⟨n, hn, by rw [← hid]; exact hord, hr _ hrt⟩

/-! ### separately sealed namespaces, nested, over all histories

`Ns.sealed` of an own-seal namespace = "its OWN key shares were not supplied since a seal last covered it".
A history is any list of events: namespace creation (own-seal namespaces start sealed), `sealEv p`, `unsealEv p`
(with `p`'s own shares), requests, arbitrary changes of mount table and token set. -/

/-- Sealing a namespace seals the barrier of EVERY own-seal namespace at or below it (`sealNamespaceLocked`'s
post-order walk) — whatever the tree, however deeply nested. -/
theorem seal_covers_descendant_barriers (s : St) (p : Bytes) :
    (∀ n ∈ (sealNs s p).nss, n.sealable = true → p <+: n.path → n.sealed = true) ∧
    (underSealed s p = false → ∀ n ∈ (stepEv s (.sealEv p)).nss, n.sealable = true → p <+: n.path → n.sealed = true) := by
  refine ⟨sealNs_covers s p, ?_⟩
  intro h n hn
  simp only [stepEv, sealOp, h, Bool.false_eq_true, if_false, if_true] at hn
  exact sealNs_covers s p n hn

/-- Unsealing a namespace with ITS shares unseals nothing else: every other namespace entry — in particular a
child with its own seal that the covering seal sealed — is exactly what it was, still sealed. More generally a sealed
own-seal namespace stays sealed through EVERY history that contains no unseal of that namespace itself (seals and
unseals of parents, siblings and children, namespace creations, requests, mount and token changes). -/
theorem unseal_parent_does_not_unseal_child :
    (∀ (s : St) (p : Bytes) (c : Ns), c ∈ s.nss → c.path ≠ p → c ∈ (unsealNs s p).nss) ∧
    (∀ (evs : List Ev) (s : St) (c : Ns), c ∈ s.nss → c.sealed = true →
       (∀ e ∈ evs, e ≠ Ev.unsealEv c.path) → c ∈ (runEvs s evs).nss) :=
  ⟨unsealNs_other, stays_sealed⟩

/-- Over ALL histories from the empty state and all namespace trees (own-seal namespaces nested to any depth): no
request touches storage of a mount or cubbyhole of a namespace `q` while some own-seal namespace at or above `q` is
sealed, i.e. while the own shares of that namespace were not supplied since a seal (of it or of an ancestor) last
covered it. -/
theorem sealed_namespace_unreachable_histories (evs : List Ev) (t : Tok) (ctx : Option Bytes) (hdr path : Bytes)
    (op : OpKind) (skey : Bytes) :
    let s := runEvs {} evs
    ∀ tch ∈ (request s t ctx hdr path op skey).2.2,
      (∀ id, tch.tgt = .mount id → ∃ m ∈ s.mounts, m.id = id ∧
         ∀ a ∈ s.nss, a.sealable = true → a.sealed = true → ¬ a.path <+: m.ns) ∧
      (∀ no owner, tch.tgt = .cubby no owner → ∃ n ∈ allNs s, nsOrd s n.path = some no ∧
         ∀ a ∈ s.nss, a.sealable = true → a.sealed = true → ¬ a.path <+: n.path) := by
  intro s tch htch
  have hwf : NsWf s := runEvs_wf evs {} ⟨(by intro a ha; cases ha), (by intro a ha; cases ha)⟩
  obtain ⟨ns, rel, _, hok⟩ := request_touches s t ctx hdr path op skey tch htch
  constructor
  · intro id hid
    rcases hok with ⟨m, r, h1, h2, _⟩ | ⟨no, r, _, h2, _⟩
    · obtain ⟨hm, hrt⟩ := routeIn_rec _ _ _ _ _ h1
      rw [h2] at hid; injection hid with hid
      exact ⟨m, hm, hid, routable_no_sealed_above s hwf m.ns hrt⟩
    · rw [h2] at hid; cases hid
  · intro no owner hid
    rcases hok with ⟨m, r, _, h2, _⟩ | ⟨no', r, h1, h2, _⟩
    · rw [h2] at hid; cases hid
    · obtain ⟨n, hn, hrt, hord⟩ := routeIn_cubby _ _ _ _ _ h1
      rw [h2] at hid; injection hid with hid _
      exact ⟨n, hn, by rw [← hid]; exact hord, routable_no_sealed_above s hwf n.path hrt⟩

/-- non-vacuity (nested own seals): after create, unseal both, seal(out), unseal(out) the child `out/in/` — whose own
shares were NOT supplied again — is still sealed: a request into it is refused and touches nothing, a request into
`out/` is served; after unseal(in) the child serves again; unsealing the child while the parent is sealed is refused. -/
example :
    let evs : List Ev := [.addNs (strOf "out/") true, .unsealEv (strOf "out/"), .addNs (strOf "out/in/") true,
      .unsealEv (strOf "out/in/"),
      .setup [⟨strOf "out/", strOf "m1/", 1⟩, ⟨strOf "out/in/", strOf "m1/", 2⟩] [],
      .sealEv (strOf "out/"), .unsealEv (strOf "out/in/"), .unsealEv (strOf "out/")]
    let t : Tok := { ord := 0, ns := [], isRoot := true, pats := [] }
    let s := runEvs {} evs
    (request s t (some []) [] (strOf "out/in/m1/raw/a") .read (strOf "k")).2.2 = [] ∧
    (request s t (some []) [] (strOf "out/m1/raw/a") .read (strOf "k")).2.2 = [⟨.mount 1, .get, strOf "k"⟩] ∧
    (request (stepEv s (.unsealEv (strOf "out/in/"))) t (some []) [] (strOf "out/in/m1/raw/a") .read (strOf "k")).2.2
      = [⟨.mount 2, .get, strOf "k"⟩] := by
  decide

/-- FULL statement (false on the current tree when the core runs with `UnsafeRelativePaths`): the mount a request
is served by belongs to the namespace the request was resolved to (whose seal / API-lock / quota checks were applied). -/
def request_in_resolved_namespace_full : Prop :=
  ∀ (s : St) (t : Tok) (ctx : Option Bytes) (hdr path : Bytes) (op : OpKind) (skey : Bytes),
    ∀ tch ∈ (request s t ctx hdr path op skey).2.2, ∀ id, tch.tgt = .mount id →
      ∀ m ∈ s.mounts, m.id = id → ∃ ns rel, precheck s t ctx hdr path op = .ok (ns, rel) ∧ m.ns = ns.path

/-- first witness (finding F13, reproduced on the real core by stream `confine`): with unsafe relative paths the request
`n2/m1/raw/a/../../../../zz` is resolved to the ROOT namespace (the tree is walked along the cleaned path) but is
routed into, authorised for and served by namespace `n2/`'s mount. -/
theorem request_in_resolved_namespace_cex : ¬ request_in_resolved_namespace_full := by
  intro h
  let s : St := { unsafeRel := true, nss := [{ path := strOf "n2/", sealable := false, sealed := false }],
                  mounts := [{ ns := strOf "n2/", path := strOf "m1/", id := 1 }] }
  let t : Tok := { ord := 1, ns := strOf "n2/", isRoot := false, pats := [strOf "m1/*"] }
  have := h s t (some []) [] (strOf "n2/m1/raw/a/../../../../zz") .read (strOf "x")
    { tgt := .mount 1, kind := .get, key := strOf "x" } (by decide) 1 rfl
    { ns := strOf "n2/", path := strOf "m1/", id := 1 } (by decide) rfl
  obtain ⟨ns, rel, h1, h2⟩ := this
  have h3 : (match precheck s t (some []) [] (strOf "n2/m1/raw/a/../../../../zz") .read with
      | .ok (ns, _) => ns.path | .error _ => [1]) = [] := by decide
  rw [h1] at h3
  simp only at h3
  rw [h3] at h2
  exact absurd h2 (by decide)

/-- second witness, DEFAULT configuration (no relative path involved; finding F13, reproduced on the real core by
stream `confine`): namespaces `t/`, `t/t/`, `t/t/t/` and a mount `t/` in `t/t/t/`. The request path `t/t` names the
namespace `t/t/` without its trailing '/': it is resolved to `t/t/` (tree walk along the canonicalised path), nothing is
cut from the raw path, the router key `t/t/` ++ `t/t` (+ '/') selects the mount of namespace `t/t/t/`. -/
theorem request_in_resolved_namespace_cex_default_config :
    ∃ (s : St) (t : Tok) (path : Bytes), s.unsafeRel = false ∧
      (request s t (some []) [] path .read (strOf "x")).2.2 = [{ tgt := .mount 1, kind := .get, key := strOf "x" }] ∧
      (match precheck s t (some []) [] path .read with | .ok (ns, _) => ns.path | .error _ => []) = strOf "t/t/" ∧
      s.mounts = [{ ns := strOf "t/t/t/", path := strOf "t/", id := 1 }] := by
  refine ⟨{ nss := [{ path := strOf "t/", sealable := false, sealed := false },
                    { path := strOf "t/t/", sealable := false, sealed := false },
                    { path := strOf "t/t/t/", sealable := false, sealed := false }],
            mounts := [{ ns := strOf "t/t/t/", path := strOf "t/", id := 1 }] },
          { ord := 1, ns := strOf "t/t/t/", isRoot := false, pats := [strOf "t"] }, strOf "t/t", rfl, by decide,
          by decide, rfl⟩

/-- non-vacuity: a token of `n1/` with the harness's policy is allowed on its own mount and on its child's, denied on
the sibling's and the parent's; a sealed namespace serves nothing; a cubbyhole write is keyed by the writer -/
example :
    let s : St := { nss := [{ path := strOf "n1/", sealable := false, sealed := false },
                            { path := strOf "n2/", sealable := true, sealed := true },
                            { path := strOf "n1/c/", sealable := false, sealed := false }],
                    mounts := [⟨[], strOf "m1/", 1⟩, ⟨strOf "n1/", strOf "m1/", 2⟩, ⟨strOf "n2/", strOf "m1/", 3⟩,
                               ⟨strOf "n1/c/", strOf "m1/", 4⟩] }
    let t : Tok := { ord := 7, ns := strOf "n1/", isRoot := false, pats := [strOf "m1/*", strOf "+/m1/*", strOf "cubbyhole/*"] }
    (request s t (some []) [] (strOf "n1/m1/raw/a") .update (strOf "k")).2.2 = [⟨.mount 2, .put, strOf "k"⟩] ∧
    (request s t (some []) [] (strOf "n1/c/m1/raw/a") .update (strOf "k")).2.2 = [⟨.mount 4, .put, strOf "k"⟩] ∧
    (request s t (some []) [] (strOf "m1/raw/a") .update (strOf "k")).2.2 = [] ∧
    (request s t (some []) (strOf "n2/") (strOf "m1/raw/a") .read (strOf "k")).2.2 = [] ∧
    (request s t (some []) [] (strOf "n1/m1/raw/a") .update (strOf "../k")).2.2 = [] ∧
    (request s t (some []) [] (strOf "n1/cubbyhole/foo") .read (strOf "k")).2.2 = [⟨.cubby 1 7, .get, strOf "foo"⟩] := by
  decide

/-! ### the seal material of a namespace stays in the namespace -/

/-- **A namespace's root-key rotation writes only below the namespace's own storage prefix**: for every prefix `pre`,
every physical key the rotation puts or deletes starts with `pre` (stream `confine`, op `nsrotate`, compares the keys a
real rotation writes with `rotationWrites`). -/
theorem rotation_writes_confined (pre : String) : ∀ w ∈ rotationWrites pre, pre.toList <+: w.2.toList := by
  intro w hw
  unfold rotationWrites at hw
  rcases List.mem_append.mp hw with h | h
  · obtain ⟨r, _, rfl⟩ := List.mem_map.mp h
    simp [String.toList_append]
  · split at h
    · rename_i hp
      have : pre = "" := by simpa using hp
      subst this
      simp
    · cases h

/-- … also with a backup of the PGP-encrypted shares: the backup record lies under the namespace's prefix -/
theorem rotation_backup_writes_confined (pre : String) : ∀ w ∈ rotationWritesBackup pre, pre.toList <+: w.2.toList := by
  intro w hw
  unfold rotationWritesBackup at hw
  rcases List.mem_append.mp hw with h | h
  · exact rotation_writes_confined pre w h
  · simp only [List.mem_singleton] at h
    subst h
    simp [String.toList_append]

/-- **Finding F92 (repaired)**: the backup under the bare key is the root namespace's `core/unseal-keys-backup` -/
theorem rotation_backup_bare_cex :
    ∃ w ∈ rotationWritesBackupBare "namespaces/u/", ¬ ("namespaces/u/".toList <+: w.2.toList) := by
  refine ⟨("put", "core/unseal-keys-backup"), by decide, by decide⟩

/-- the two writes that escaped before the repairs (findings F49 and F50): with a namespace prefix they land in the ROOT
namespace's key space -/
theorem rotation_writes_unprefixed_cex :
    ∃ w ∈ rotationWritesUnprefixed "namespaces/u/", ¬ ("namespaces/u/".toList <+: w.2.toList) := by
  refine ⟨("put", "core/shamir-kek"), by decide, by decide⟩

/-! ### a namespace tree comes back whole when its sealed ancestor is unsealed (finding F99) -/
section NsLoad
open Obao.NsLoad

/-- **unseal_loads_whole_subtree.** For every (flat) namespace storage, every namespace `u` and every recursion depth:
the unseal of `u` loads exactly the descendants of `u` — children, grandchildren, … — in depth-first order. -/
theorem unseal_loads_whole_subtree (st : Store) (fuel u : Nat) : unsealLoad st fuel u = desc st fuel u := by
  unfold unsealLoad
  induction fuel generalizing u with
  | zero => rfl
  | succ f ih =>
    show (st.list [u]).flatMap (fun c => c :: load st f [] ([] ++ [c])) = (st.kids u).flatMap (fun c => c :: desc st f c)
    have : ∀ c, load st f [] ([] ++ [c]) = desc st f c := fun c => ih c
    simp only [this]
    rfl

/-- **finding F99 (repaired)**: with the namespace's own view passed as the barrier the children's views are nested
(`namespaces/<u>/namespaces/<c>/`, always empty): only the DIRECT children are loaded, whatever the depth. -/
theorem unseal_nested_view_direct_children_only (st : Store) (fuel u : Nat) :
    unsealLoadNested st (fuel + 1) u = st.kids u := by
  unfold unsealLoadNested
  show (st.list [u]).flatMap (fun c => c :: load st fuel [u] ([u] ++ [c])) = st.kids u
  have : ∀ c, load st fuel [u] ([u] ++ [c]) = [] := by
    intro c
    cases fuel with
    | zero => rfl
    | succ f => show (st.list [u, c]).flatMap _ = []; rfl
  simp only [this]
  show (st.kids u).flatMap (fun c => [c]) = st.kids u
  induction st.kids u with
  | nil => rfl
  | cons a r ih => simp [List.flatMap_cons, ih]

/-- the difference is real: `1 → 2 → 3` — the repaired unseal of 1 loads 2 and 3, the nested-view one only 2 -/
example : let st : Store := { kids := fun u => if u = 1 then [2] else if u = 2 then [3] else [] }
    unsealLoad st 5 1 = [2, 3] ∧ unsealLoadNested st 5 1 = [2] := by decide

end NsLoad

end C12
