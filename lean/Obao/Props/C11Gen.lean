import Obao.Gen.RequestSkeleton
/-!
C02 / C11 — regenerated tie (T-gen): in the CURRENT source of `handleRequest` and `handleLoginRequest`
(internal/vault/request_handling.go, skeleton re-extracted on every run by tools/extract) the routing call is
dominated by the token check, the `ctErr ≠ nil → return` exit and a request-audit guard whose failure returns;
and a failing response audit returns the bare internal error. A reordering of those statements in the Go
source changes the generated lists and these `decide` proofs stop checking.
-/
namespace C11Gen
open Obao.Gen.RequestSkeleton

/-- index of the first statement carrying a tag -/
def firstIdx (tag : String) (rows : List (List String)) : Option Nat :=
  rows.findIdx? (·.contains tag)

/-- `Route` is preceded by `CheckToken`, then `CtErrGuard`, then `AuditGuard`, each in an EARLIER statement,
    and no single statement mixes routing with one of the guards -/
def dominated (rows : List (List String)) : Bool :=
  match firstIdx "CheckToken" rows, firstIdx "CtErrGuard" rows, firstIdx "AuditGuard" rows, firstIdx "Route" rows with
  | some c, some g, some a, some r => decide (c < g) && decide (g < r) && decide (a < r) && decide (c < a)
  | _, _, _, _ => false

theorem handleRequest_route_dominated :
    dominated handleRequest = true ∧ handleRequestGotoBeforeRoute = false := by decide

theorem handleLoginRequest_route_dominated :
    dominated handleLoginRequest = true ∧ handleLoginRequestGotoBeforeRoute = false := by decide

/-- the use-count step sits between the token check and the authorisation exit: a denied request still uses the token -/
theorem handleRequest_use_before_ctErr_exit :
    (do let u ← firstIdx "UseToken" handleRequest
        let c ← firstIdx "CheckToken" handleRequest
        let g ← firstIdx "CtErrGuard" handleRequest
        pure (decide (c < u) && decide (u < g))) = some true := by decide

theorem response_audit_failure_returns_bare_error :
    logResponseGuardReturns = true ∧ logResponseGuardBareError = true := by decide

end C11Gen
