import Obao.Gen.PolicyStore
import Obao.Proofs.PolicyKey
/-!
C12 — regenerated tie (T-gen): the policy store's cache key, re-translated from
`internal/vault/policy/policy_store.go (*Store).cacheKey` on every run (`Obao.Gen.PolicyStore.cacheKeyGen`).

"A policy grants access only inside the namespace it is defined in": policies are cached under
`cacheKey(namespace, name)`, and a token's policy NAMES are looked up under the token's namespace. The lookup is confined
iff the key determines the namespace.
-/
namespace C12Gen
open Obao.Gen.PolicyStore Obao.PolicyKey

/-- **The cache key determines namespace and name.**  For namespace UUIDs (no '/' in them) and ANY policy names —
including names with `/`, `.` and `..` segments — two lookups share a cache slot only if they are for the same
namespace and the same name.  So a name such as `../<uuid of another namespace>/admin` can never select that other
namespace's cached policy. -/
theorem cache_key_injective (u1 u2 n1 n2 : String) (h1 : '/' ∉ u1.toList) (h2 : '/' ∉ u2.toList)
    (h : cacheKeyGen u1 n1 = cacheKeyGen u2 n2) : u1 = u2 ∧ n1 = n2 := by
  unfold cacheKeyGen at h
  exact str_concat_slash_inj u1 u2 n1 n2 h1 h2 h

/-- consequently a cache that holds only entries stored under their own key answers a lookup in namespace `u` with a
policy of namespace `u` (or nothing) — whatever the name -/
theorem cached_policy_is_of_lookup_namespace (c : Cache) (u name : String) (pu pn : String)
    (hc : ∀ e ∈ c, e.1 = cacheKeyGen e.2.1 e.2.2 ∧ '/' ∉ e.2.1.toList) (hu : '/' ∉ u.toList)
    (h : c.get? (cacheKeyGen u name) = some (pu, pn)) : pu = u ∧ pn = name := by
  unfold Cache.get? at h
  cases hf : c.find? (·.1 == cacheKeyGen u name) with
  | none => simp [hf] at h
  | some e =>
    simp only [hf, Option.map_some, Option.some.injEq] at h
    have hm := List.mem_of_find?_eq_some hf
    have hk : e.1 = cacheKeyGen u name := by simpa using List.find?_some hf
    obtain ⟨he, hs⟩ := hc e hm
    have := cache_key_injective e.2.1 u e.2.2 name hs hu (he.symm.trans hk)
    rw [h] at this
    exact this

/-- the key the store used before the repair of finding F48 (`path.Join(ns.UUID, name)`, which cleans the joined path)
is NOT injective: a name with a `..` segment reaches another namespace's slot -/
theorem cleaned_join_key_cex :
    joinClean ["B", "../A/admin"] = joinClean ["A", "admin"] ∧ ("B", "../A/admin") ≠ ("A", "admin") := by
  decide

/-- non-vacuity: namespace UUIDs have no '/' and the key of the witness above separates the two lookups -/
example : '/' ∉ "79d98009-f6ff-4fd6-62a6-c8a640370fb8".toList ∧
    cacheKeyGen "B" "../A/admin" ≠ cacheKeyGen "A" "admin" := by decide

end C12Gen
