import Obao.Proofs.Register
/-!
C06 — no dynamic secret or token is handed out without a durable lease.

The model (`Obao/Model/Register.lean`) runs the flows (leased secret, login, child token, response-wrapped leased
secret) one physical storage operation at a time; `stepWithFault v k` fails the k-th operation of the request (once), `crashAfter v j` stops the
process right after the j-th write.  `goodFault` / `goodCrash` are the property's predicate (the same predicate is
evaluated on the real code's observations on every run).  All theorems hold for EVERY variant — requester kind,
token type, orphan flag, ANY number of requester policies (the read phases have unbounded length) — and EVERY
fault position / crash point.
-/
namespace C06
open Obao.Register

/-- Leased secret: whatever single storage operation of the request fails, either the secret is returned and a
durable, tracked lease with its token-index entry exists, or the client gets an error, the generated secret was
revoked at its backend, and no lease / index record and nothing tracked remains. -/
theorem register_fault_atomic (v : Variant) (_hv : v.flow = .secret) (k : Nat) :
    goodFault v (stepWithFault v k) = true :=
  goodFault_runFlow v (some k)

/-- Login: either the service token is returned with its token entry and a durable, tracked lease (and it works), or
the client gets an error and no lease, nothing tracked and no usable token remains. -/
theorem login_fault_atomic (v : Variant) (_hv : v.flow = .login) (k : Nat) :
    goodFault v (stepWithFault v k) = true :=
  goodFault_runFlow v (some k)

/-- Child token creation (`auth/token/create[-orphan]`): same statement. -/
theorem create_fault_atomic (v : Variant) (_hv : v.flow = .create) (k : Nat) :
    goodFault v (stepWithFault v k) = true :=
  goodFault_runFlow v (some k)

/-- Response-wrapped leased secret (`wrapInCubbyhole`): either the wrapping token is returned and BOTH the secret and
the wrapping token have their durable, tracked leases (and the token works, its cubbyhole holds the two entries), or
the client gets an error, no usable wrapping token and no lease of it remains, and the secret was either revoked at
its backend with no lease record left, or — when the failure hit the wrapping after `Register` had succeeded — it
stays undelivered under its durable, tracked lease. -/
theorem wrap_fault_atomic (v : Variant) (_hv : v.flow = .wrap) (k : Nat) :
    goodFault v (stepWithFault v k) = true :=
  goodFault_runFlow v (some k)

/-- The lease / no-lease decision of `handleRequest` (the switch on the mount type) exempts KV mounts only: type `kv`
or `generic`, or the legacy generic type `plugin` with plugin name `kv`. -/
theorem lease_decision_only_exempts_kv (m : Mount) (h : registerLease m = false) :
    m.typ = .kv ∨ m.typ = .generic ∨ (m.typ = .plugin ∧ m.pluginKV = true) := by
  have := registerLease_false_kv m h
  simpa [kvMount, or_assoc] using this

/-- Hence: whatever fails or does not fail, a response that carries a secret of a NON-KV engine — in particular an
engine mounted under the legacy type `plugin` — always comes with its durable, tracked lease; the un-leased answer
never occurs there. -/
theorem non_kv_secret_always_leased (v : Variant) (_hv : v.flow = .secret) (hk : kvMount v.mount = false) (k : Nat) :
    (stepWithFault v k).resp ≠ some .okSecretUnleased ∧
    ((stepWithFault v k).resp = some .okSecret →
      (stepWithFault v k).st.store.secLease = true ∧ (stepWithFault v k).st.secPending = true) := by
  have g := goodFault_runFlow v (some k)
  unfold stepWithFault
  unfold goodFault at g
  constructor
  · intro h
    rw [h] at g
    simp [hk] at g
  · intro h
    rw [h] at g
    simp only [Bool.and_eq_true, Bool.or_eq_true, beq_iff_eq] at g
    exact ⟨g.2.1.1.1.1, g.2.1.1.1.2⟩

/-- The fault-free run satisfies the predicate too (its success branch). -/
theorem fault_free_good (v : Variant) : goodFault v (faultFree v) = true :=
  goodFault_runFlow v none

/-- Readable corollary, success side: a response carrying the secret implies the lease entry is stored and tracked,
and (unless the requester is an orphan batch token, which has no index by design) so is the token-index entry. -/
theorem handed_out_secret_has_durable_lease (v : Variant) (k : Nat)
    (h : (stepWithFault v k).resp = some .okSecret) :
    (stepWithFault v k).st.store.secLease = true ∧ (stepWithFault v k).st.secPending = true ∧
    (v.req ≠ .batchOrphan → (stepWithFault v k).st.store.secIdx = true) := by
  have g := goodFault_runFlow v (some k)
  unfold stepWithFault at h ⊢
  unfold goodFault at g
  rw [h] at g
  simp only [Bool.and_eq_true, Bool.or_eq_true, beq_iff_eq] at g
  refine ⟨g.2.1.1.1.1, g.2.1.1.1.2, fun hne => ?_⟩
  rcases g.2.1.1.2 with h1 | h1
  · exact absurd h1 hne
  · exact h1

/-- Readable corollary, success side for tokens: a returned service token has its entry, a stored and tracked lease,
and passes a lookup. -/
theorem handed_out_token_has_durable_lease (v : Variant) (k : Nat) (hs : v.typ ≠ .batch)
    (h : (stepWithFault v k).resp = some .okToken) :
    (stepWithFault v k).st.store.tokId = true ∧ (stepWithFault v k).st.store.leaseId = true ∧
    (stepWithFault v k).st.pending = true ∧ usable (stepWithFault v k).st = true := by
  have g := goodFault_runFlow v (some k)
  unfold stepWithFault at h ⊢
  unfold goodFault at g
  rw [h] at g
  simp only [Bool.and_eq_true, Bool.or_eq_true, beq_iff_eq] at g
  rcases g.2 with h1 | h1
  · exact absurd h1 hs
  · exact ⟨h1.1.1.1, h1.1.1.2, h1.1.2, h1.2⟩

/-- Readable corollary, failure side (every flow but the wrapped one): an error response implies that every secret the
backend generated for this request was revoked there, no lease or token-index record of it remains, nothing is
tracked, and nothing of a new token is usable or leased. -/
theorem error_leaves_nothing_usable (v : Variant) (hw : v.flow ≠ .wrap) (k : Nat) (r : Resp)
    (h : (stepWithFault v k).resp = some r) (hr : r ≠ .okSecret ∧ r ≠ .okSecretUnleased ∧ r ≠ .okToken ∧ r ≠ .okWrap) :
    (stepWithFault v k).st.issued = (stepWithFault v k).st.revoked ∧
    (stepWithFault v k).st.store.secLease = false ∧ (stepWithFault v k).st.store.secIdx = false ∧
    (stepWithFault v k).st.secPending = false ∧ (stepWithFault v k).st.store.leaseId = false ∧
    (stepWithFault v k).st.pending = false ∧ usable (stepWithFault v k).st = false := by
  have g := goodFault_runFlow v (some k)
  unfold stepWithFault at h ⊢
  unfold goodFault tokenGone at g
  rw [h] at g
  have hwb : (v.flow == Flow.wrap) = false := by simpa using hw
  cases r
  · exact absurd rfl hr.1
  · exact absurd rfl hr.2.1
  · exact absurd rfl hr.2.2.1
  · exact absurd rfl hr.2.2.2
  all_goals
    simp only [Bool.and_eq_true, Bool.or_eq_true, beq_iff_eq, Bool.not_eq_true', hwb, Bool.false_and,
      Bool.false_eq_true, or_false] at g
    exact ⟨g.2.2.1.1.1, g.2.2.1.1.2, g.2.2.1.2, g.2.2.2, g.2.1.1.1, g.2.1.1.2, g.2.1.2⟩

/-- The wrapped flow's failure side: no usable wrapping token and no lease of it remains; the undelivered secret is
revoked and unrecorded, or durably leased and tracked. -/
theorem wrap_error_secret_revoked_or_leased (v : Variant) (k : Nat) (r : Resp)
    (h : (stepWithFault v k).resp = some r) (hr : r ≠ .okSecret ∧ r ≠ .okSecretUnleased ∧ r ≠ .okToken ∧ r ≠ .okWrap) :
    (stepWithFault v k).st.store.leaseId = false ∧ (stepWithFault v k).st.pending = false ∧
    usable (stepWithFault v k).st = false ∧
    (((stepWithFault v k).st.issued = (stepWithFault v k).st.revoked ∧ (stepWithFault v k).st.store.secLease = false) ∨
     ((stepWithFault v k).st.issued = (stepWithFault v k).st.revoked + 1 ∧
      (stepWithFault v k).st.store.secLease = true ∧ (stepWithFault v k).st.secPending = true)) := by
  have g := goodFault_runFlow v (some k)
  unfold stepWithFault at h ⊢
  unfold goodFault tokenGone at g
  rw [h] at g
  cases r
  · exact absurd rfl hr.1
  · exact absurd rfl hr.2.1
  · exact absurd rfl hr.2.2.1
  · exact absurd rfl hr.2.2.2
  all_goals
    simp only [Bool.and_eq_true, Bool.or_eq_true, beq_iff_eq, Bool.not_eq_true'] at g
    refine ⟨g.2.1.1.1, g.2.1.1.2, g.2.1.2, ?_⟩
    rcases g.2.2 with h1 | h1
    · exact Or.inl ⟨h1.1.1.1, h1.1.1.2⟩
    · exact Or.inr ⟨h1.1.1.1.2, h1.1.1.2, h1.1.2⟩

/-- A single-fault run always produces a response (the flows catch every error; only a crash silences them), and
the mutual recursion of the clean-up paths never runs out of fuel. -/
theorem fault_run_responds (v : Variant) (k : Nat) :
    (stepWithFault v k).resp ≠ none ∧ (stepWithFault v k).st.outOfFuel = false := by
  have g := goodFault_runFlow v (some k)
  unfold stepWithFault
  unfold goodFault at g
  constructor
  · intro hn; rw [hn] at g; simp at g
  · simp only [Bool.and_eq_true, Bool.not_eq_true'] at g; exact g.1

/-- Crash safety, leased secret: stop after ANY number of writes, restart (memory lost, `Restore` reloads the
stored leases): every stored lease is tracked and nothing else is. -/
theorem register_crash_safe (v : Variant) (_hv : v.flow = .secret) (j : Nat) :
    goodCrash (crashAfter v j) = true :=
  goodCrash_runFlow v (some j)

/-- Crash safety, login: additionally a token entry that reached storage without its lease is not usable, and the
first lookup removes it together with its accessor / parent-index entries and the revocation lease it briefly gets. -/
theorem login_crash_safe (v : Variant) (_hv : v.flow = .login) (j : Nat) :
    goodCrash (crashAfter v j) = true :=
  goodCrash_runFlow v (some j)

theorem create_crash_safe (v : Variant) (_hv : v.flow = .create) (j : Nat) :
    goodCrash (crashAfter v j) = true :=
  goodCrash_runFlow v (some j)

/-- Crash safety of the wrapped flow: also the cubbyhole entries of a wrapping token that never got its lease (they
hold the wrapped secret) are removed by the first lookup after the restart. -/
theorem wrap_crash_safe (v : Variant) (_hv : v.flow = .wrap) (j : Nat) :
    goodCrash (crashAfter v j) = true :=
  goodCrash_runFlow v (some j)

/-- `ExpirationManager.RegisterAuth` refuses: a non-root token with neither a token TTL nor an auth TTL, batch tokens,
an empty client token, a path containing `..`; and when it accepts with `persistLease` the lease is stored and
tracked (without `persistLease` nothing is written). -/
theorem registerAuth_refusals (i : RAIn) (st tr ext : Bool) (h : registerAuthCheck i = .ok st tr ext) :
    ¬ (i.teTTL = 0 ∧ i.authTTL ≤ 0 ∧ i.policies ≠ ["root"]) ∧ i.typ ≠ 2 ∧ i.token ≠ .empty ∧
    hasDotDot i.path = false ∧ st = i.persist ∧ tr = i.persist := by
  unfold registerAuthCheck at h
  split at h
  · cases h
  · split at h
    · cases h
    · split at h
      · cases h
      · split at h
        · cases h
        · rename_i h1 h2 h3 h4
          split at h
          · rename_i hp
            cases h
            simp only [Bool.not_eq_true'] at hp
            exact ⟨h1, h2, h3, by simpa using h4, hp.symm, hp.symm⟩
          · rename_i hp
            cases h
            simp only [Bool.not_eq_true', Bool.not_eq_false] at hp
            exact ⟨h1, h2, h3, by simpa using h4, hp.symm, hp.symm⟩

/-- What the model (and, by the correspondence, the code) does when the lease registration of a NEW token fails:
`revokeOrphan` finds no lease, the lookup inside it creates and revokes a revocation lease, the nested
`revokeInternal` is short-circuited by `tokensPendingDeletion`, and the token entry STAYS in storage — unusable
(every lookup returns nil), not removed by further lookups in the same process, removed by the first lookup after a
restart.  C06 only demands "no usable token"; the leftover entry is reported as an observation.  (`wrap_leftover`
below: in the wrapped flow the same path also leaves the cubbyhole entry with the wrapped secret.) -/
theorem lease_failure_leaves_unusable_entry (v : Variant) (hv : v.flow = .login) (ht : v.typ = .service) :
    let o := stepWithFault v 2
    o.resp = some .errInternal ∧ o.st.store.tokId = true ∧ o.st.pendDel = true ∧ usable o.st = false ∧
    (probe o.st).2.1.store.tokId = true ∧ (probe (restart o.st)).2.1.store.tokId = false := by
  obtain ⟨fl, req, npol, typ, orphan, mnt⟩ := v
  simp only at hv ht
  subst hv ht
  have hv : stepWithFault ⟨.login, req, npol, .service, orphan, mnt⟩ 2 = stepWithFault ⟨.login, .anon, 0, .service, false, .modern⟩ 2 := rfl
  simp only [hv]
  decide

/-- the wrapped flow, lease registration of the wrapping token failing (operation 9 of a service requester with one
named policy): error; the secret keeps its tracked lease; the wrapping token's entry and BOTH cubbyhole entries (one
holds the wrapped secret) stay in storage, unusable, until a restart and a lookup -/
theorem wrap_leftover :
    let o := stepWithFault ⟨.wrap, .service, 1, .na, false, .modern⟩ 9
    o.resp = some .errInternal ∧ o.st.store.secLease = true ∧ o.st.secPending = true ∧ o.st.store.tokId = true ∧
    o.st.store.cubby = 2 ∧ usable o.st = false ∧ (probe o.st).2.1.store.cubby = 2 ∧
    (probe (restart o.st)).2.1.store.cubby = 0 ∧ (probe (restart o.st)).2.1.store.tokId = false := by
  decide +kernel

/-- a KV-style mount without `leased_passthrough` answers without a lease; the legacy `plugin` mount of another engine
registers one -/
example : (faultFree ⟨.secret, .service, 1, .na, false, ⟨.kv, false, true, false, none⟩⟩).resp = some .okSecretUnleased := by decide
example : (faultFree ⟨.secret, .service, 1, .na, false, ⟨.plugin, false, true, false, none⟩⟩).resp = some .okSecret := by decide
example : registerLease ⟨.plugin, true, false, true, none⟩ = true ∧ registerLease ⟨.plugin, true, true, false, none⟩ = false := by decide

/-! ### non-vacuity: concrete plans that reach each branch -/

/-- the fault-free secret read hands the secret out -/
example : (faultFree ⟨.secret, .service, 1, .na, false, .modern⟩).resp = some .okSecret := by decide
/-- failing the lease write (operation 3 of a service requester with one named policy): error, secret revoked -/
example : (stepWithFault ⟨.secret, .service, 1, .na, false, .modern⟩ 3).resp = some .errInternal ∧
    (stepWithFault ⟨.secret, .service, 1, .na, false, .modern⟩ 3).st.revoked = 1 := by decide
/-- failing the token-index write: the lease entry already written is rolled back -/
example : (faultFree ⟨.wrap, .service, 1, .na, false, .modern⟩).resp = some .okWrap := by decide
example : (stepWithFault ⟨.secret, .service, 1, .na, false, .modern⟩ 4).st.store = Store.empty ∧
    (stepWithFault ⟨.secret, .service, 1, .na, false, .modern⟩ 4).st.issued = 1 := by decide
/-- a login and a child-token creation succeed without fault -/
example : (faultFree ⟨.login, .anon, 1, .service, false, .modern⟩).resp = some .okToken := by decide
example : (faultFree ⟨.create, .service, 2, .service, false, .modern⟩).resp = some .okToken := by decide
/-- a crash between the token entry and its lease: the entry exists after restart and the lookup cleans it -/
example : (restart (crashAfter ⟨.login, .anon, 1, .service, false, .modern⟩ 2).st).store.tokId = true ∧
    (restart (crashAfter ⟨.login, .anon, 1, .service, false, .modern⟩ 2).st).store.leaseId = false := by decide
/-- an accepted and a refused `RegisterAuth` -/
example : registerAuthCheck ⟨3600, 0, ["default"], 1, .hvs, ['a', '/', 'b'], true⟩ = .ok true true true := by decide
example : registerAuthCheck ⟨0, 0, ["default"], 1, .hvs, ['a', '/', 'b'], true⟩ = .errZeroTTL := by decide
example : registerAuthCheck ⟨3600, 0, ["default"], 1, .hvs, ['a', '/', '.', '.', '/', 'b'], true⟩ = .errDotDot := by decide

/-! ### the token index entry is where revocation of the token looks for it — across namespaces -/

/-- **token_index_found_from_owner.** Whatever the namespace of the token and the namespace of the mount that issued
the lease: the entry `createIndexByToken` writes is listed by `lookupLeasesByToken` for the owning token (what
`RevokeByToken` walks), and entries of other tokens/namespaces are not disturbed. -/
theorem token_index_found_from_owner (ix : TokIdx) (tokenNs leaseNs tok lease : Nat) :
    lease ∈ (ix.create tokenNs leaseNs tok lease).lookup tokenNs tok ∧
    ∀ ns' tok', (ns', tok') ≠ (tokenNs, tok) →
      (ix.create tokenNs leaseNs tok lease).lookup ns' tok' = ix.lookup ns' tok' := by
  constructor
  · simp [TokIdx.create, TokIdx.lookup]
  · intro ns' tok' hne
    have : (tokenNs == ns' && tok == tok') = false := by
      cases h1 : tokenNs == ns' <;> cases h2 : tok == tok' <;> simp_all
    simp [TokIdx.create, TokIdx.lookup, List.filter_cons, this]

/-- removal by the same coordinates removes it again (no orphaned index entry after a revocation) -/
theorem token_index_removed (ix : TokIdx) (tokenNs leaseNs tok lease : Nat) (hfresh : lease ∉ ix.lookup tokenNs tok) :
    lease ∉ ((ix.create tokenNs leaseNs tok lease).remove tokenNs tok lease).lookup tokenNs tok := by
  intro h
  apply hfresh
  simp only [TokIdx.create, TokIdx.remove, TokIdx.lookup, List.mem_map, List.mem_filter] at h ⊢
  obtain ⟨e, ⟨⟨he, hk⟩, hq⟩, rfl⟩ := h
  rcases List.mem_cons.mp he with _ | he
  · simp [hq] at hk
  · exact ⟨e, ⟨he, hq⟩, rfl⟩

/-- **seeded change C06-4 is a violation**: written into the LEASE's namespace the entry is not found from its owning
token as soon as the two namespaces differ (a root-namespace token, namespace 0, reading a child namespace's engine,
namespace 1): the secret is handed out with a lease that revocation of the token never reaches. -/
theorem token_index_in_lease_ns_cex :
    ∃ (tokenNs leaseNs tok lease : Nat),
      lease ∉ (({} : TokIdx).createInLeaseNs tokenNs leaseNs tok lease).lookup tokenNs tok :=
  ⟨0, 1, 7, 9, by decide⟩

end C06
