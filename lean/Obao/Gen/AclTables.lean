-- GENERATED on every check run by tools/extract from /repo's current source. Do not edit.
namespace Obao.Gen.AclTables

/-- capability bit constants of internal/vault/policy/policy.go -/
def capBits : List (String × Nat) := [
  ("DenyCapabilityInt", 1),
  ("CreateCapabilityInt", 2),
  ("ReadCapabilityInt", 4),
  ("UpdateCapabilityInt", 8),
  ("DeleteCapabilityInt", 16),
  ("ListCapabilityInt", 32),
  ("SudoCapabilityInt", 64),
  ("PatchCapabilityInt", 128),
  ("ScanCapabilityInt", 256)
]

/-- arms of the `switch op` in ACL.AllowOperation: operation ↦ capability tested ("" = none: denied) -/
def opCap : List (String × String) := [
  ("ReadOperation", "ReadCapabilityInt"),
  ("ListOperation", "ListCapabilityInt"),
  ("UpdateOperation", "UpdateCapabilityInt"),
  ("DeleteOperation", "DeleteCapabilityInt"),
  ("CreateOperation", "CreateCapabilityInt"),
  ("PatchOperation", "PatchCapabilityInt"),
  ("ScanOperation", "ScanCapabilityInt"),
  ("RevokeOperation", "UpdateCapabilityInt"),
  ("RenewOperation", "UpdateCapabilityInt"),
  ("RollbackOperation", "UpdateCapabilityInt"),
  ("default", "")
]

end Obao.Gen.AclTables
