-- GENERATED on every check run by tools/extract from /repo's current source. Do not edit.
/-! Translation of `mult`, `inverse`, `add` of sdk/helper/shamir/shamir.go (uint8 arithmetic as Nat with explicit wrap). -/
namespace Obao.Gen.Shamir

/-- the assignment inside mult's loop, after `i--` -/
def roundGen (a b r i : Nat) : Nat :=
  (((((256 - ((b >>> i) &&& 1)) % 256) &&& a) ^^^ (((256 - (r >>> 7)) % 256) &&& 27)) ^^^ ((r + r) % 256))

def rInit : Nat := 0
def iInit : Nat := 8

/-- `for i > 0 { i--; r = round }` -/
def multLoop (a b : Nat) : Nat → Nat → Nat
  | 0, r => r
  | i + 1, r => multLoop a b i (roundGen a b r i)

def multGen (a b : Nat) : Nat := multLoop a b iInit rInit

/-- the multiplication chain of `inverse`, over an abstract `mult` -/
def inverseGen (mult : Nat → Nat → Nat) (a : Nat) : Nat :=
  let b := mult a a
  let c := mult a b
  let b := mult c c
  let b := mult b b
  let c := mult b c
  let b := mult b b
  let b := mult b b
  let b := mult b c
  let b := mult b b
  let b := mult a b
  mult b b

def addGen (a b : Nat) : Nat :=
  (a ^^^ b)

end Obao.Gen.Shamir
