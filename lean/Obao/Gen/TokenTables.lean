-- GENERATED on every check run by tools/extract from /repo's current source. Do not edit.
namespace Obao.Gen.TokenTables

/-- policy.NonAssignablePolicies (sorted) -/
def nonAssignable : List String := ["response-wrapping"]

end Obao.Gen.TokenTables
