-- GENERATED on every check run by tools/extract from /repo's current source. Do not edit.
import Obao.Model.PolicyKey
/-! Translation of `(*Store).cacheKey` of internal/vault/policy/policy_store.go. -/
namespace Obao.Gen.PolicyStore

/-- the cache key of policy `name` in the namespace with UUID `uuid` -/
def cacheKeyGen (uuid name : String) : String :=
  ((uuid ++ "/") ++ name)

end Obao.Gen.PolicyStore
