-- GENERATED on every check run by tools/extract from /repo's current source. Do not edit.
/-! Ordered tags of the top-level statements of the request pipeline functions (see tools/extract). -/
namespace Obao.Gen.RequestSkeleton

def handleRequest : List (List String) := [
  ["CheckToken"],
  ["UseToken"],
  ["CtErrGuard"],
  ["AuditGuard"],
  ["Route"],
  ["Route"]
]
def handleRequestGotoBeforeRoute : Bool := false

def handleLoginRequest : List (List String) := [
  ["CheckToken"],
  ["CtErrGuard"],
  ["AuditGuard"],
  ["Route"]
]
def handleLoginRequestGotoBeforeRoute : Bool := false

/-- handleCancelableRequest: a failing LogResponse returns, and returns the bare (nil, ErrInternalError) -/
def logResponseGuardReturns : Bool := true
def logResponseGuardBareError : Bool := true

end Obao.Gen.RequestSkeleton
