import Obao.Model.Prelude
/-!
Model of `sdk/helper/shamir/shamir.go`: GF(2^8) arithmetic (`mult`, `inverse`, `div`, `add`), `evaluate`
(Horner), `interpolatePolynomial` (Lagrange at a point), `Split` with the randomness as an *input*, `Combine`.
Field elements are `Nat` values `< 256`; the arithmetic is written in pure `Nat` operations so that the
kernel can evaluate it quickly under `decide +kernel`.
-/
namespace Obao.GF256

/-- one round of the shift-and-add loop of `mult`: `r = (-(b>>i & 1) & a) ^ (-(r>>7) & 0x1B) ^ (r+r)` on uint8 -/
@[inline] def round (a b r i : Nat) : Nat :=
  (((b >>> i) % 2) * a) ^^^ ((r / 128) * 27) ^^^ ((r + r) % 256)

/-- `mult`: the 8 rounds i = 7 … 0, starting from r = 0 -/
def mult (a b : Nat) : Nat :=
  let r := round a b 0 7
  let r := round a b r 6
  let r := round a b r 5
  let r := round a b r 4
  let r := round a b r 3
  let r := round a b r 2
  let r := round a b r 1
  round a b r 0

def add (a b : Nat) : Nat := a ^^^ b

/-- `inverse`: a^254 by the 11-multiplication chain of the Go code, statement for statement -/
def inverse (a : Nat) : Nat :=
  let b := mult a a
  let c := mult a b
  let b := mult c c
  let b := mult b b
  let c := mult b c
  let b := mult b b
  let b := mult b b
  let b := mult b c
  let b := mult b b
  let b := mult a b
  mult b b

/-- `div a b`; the Go code panics for `b = 0` (modelled as `none`) and returns 0 for `a = 0` -/
def div? (a b : Nat) : Option Nat :=
  if b = 0 then none else some (if a = 0 then 0 else mult a (inverse b))

/-- total version used where the divisor is known non-zero -/
def div (a b : Nat) : Nat := if a = 0 then 0 else mult a (inverse b)

/-- `polynomial.evaluate` (Horner from the top coefficient); coefficients lowest degree first -/
def evaluate (coeffs : List Nat) (x : Nat) : Nat :=
  coeffs.foldr (fun c acc => add (mult acc x) c) 0

/-- `interpolatePolynomial xs ys x` -/
def basisAt (xs : List Nat) (i : Nat) (xi x : Nat) : Nat :=
  (xs.zipIdx).foldl (fun basis (p : Nat × Nat) =>
      if p.2 = i then basis else mult basis (div (add x p.1) (add xi p.1))) 1

def interpolate (xs ys : List Nat) (x : Nat) : Nat :=
  ((xs.zip ys).zipIdx).foldl (fun res (p : (Nat × Nat) × Nat) =>
      add res (mult p.1.2 (basisAt xs p.2 p.1.1 x))) 0

inductive SplitErr | partsLtThreshold | partsGt255 | thresholdLt2 | thresholdGt255 | emptySecret
  deriving DecidableEq, Repr

/-- the parameter checks of `Split`, in the order of the Go code -/
def splitCheck (secretLen parts threshold : Int) : Option SplitErr :=
  if parts < threshold then some .partsLtThreshold
  else if parts > 255 then some .partsGt255
  else if threshold < 2 then some .thresholdLt2
  else if threshold > 255 then some .thresholdGt255
  else if secretLen = 0 then some .emptySecret
  else none

/-- `Split` with its randomness as inputs: `xs` = the first `parts` shuffled x-coordinates,
    `coeffs[idx]` = the `threshold-1` random coefficients drawn for secret byte `idx`.
    Share i = y-values for every secret byte, then the x-coordinate tag. -/
def split (secret : List Nat) (xs : List Nat) (coeffs : List (List Nat)) : List (List Nat) :=
  xs.map fun x => ((secret.zip coeffs).map fun sc => evaluate (sc.1 :: sc.2) x) ++ [x]

inductive CombineErr | tooFew | tooShort | unequal | duplicate
  deriving DecidableEq, Repr

def hasDup : List Nat → Bool
  | [] => false
  | x :: rest => rest.contains x || hasDup rest

/-- `Combine` -/
def combine (parts : List (List Nat)) : Except CombineErr (List Nat) :=
  match parts with
  | [] | [_] => .error .tooFew
  | p0 :: rest =>
    let n := p0.length
    if n < 2 then .error .tooShort
    else if rest.any (fun p => p.length != n) then .error .unequal
    else
      let xs := parts.map fun p => p.getD (n - 1) 0
      if hasDup xs then .error .duplicate
      else .ok ((List.range (n - 1)).map fun idx => interpolate xs (parts.map fun p => p.getD idx 0) 0)

end Obao.GF256
