import Obao.Model.Prelude
/-!
Model of the name validation of the PKI engine (`internal/builtin/logical/pki/cert_util.go`):
`validateNames`, `validateCommonName`, `validateWildcardDomain`, `isWildcardDomain`, the two regular
expressions `hostnameRegex` / `leftWildLabelRegex`, `github.com/ryanuber/go-glob` `Glob`, and the part of
`golang.org/x/net/idna` `ToASCII` (profile `StrictDomainName(true), VerifyDNSLength(true)`) that applies to
ASCII names without an ACE (`xn--`) label.  Transliterated branch for branch; strings are `List Char`
(`Str`).  Names outside the modelled alphabet (non-ASCII, an `xn--` label, ASCII white space, a comma)
are answered `skip` by the driver, never defaulted.

Second half: the label-level reading of a role (`nameAllowed`), which never looks at string suffixes, only
at lists of labels.  `Obao/Props/C15.lean` proves that the string implementation never accepts a name the
label-level reading forbids (with the one exception that the unchanged code really has).
-/
namespace Obao.PKI

abbrev Str := List Char

def str (s : String) : Str := s.toList

/-! ### strings -/

def hasSuffix (s suf : Str) : Bool := suf.isSuffixOf s
def hasPrefix (s pre : Str) : Bool := pre.isPrefixOf s
def containsCh (s : Str) (c : Char) : Bool := s.any (· == c)
def countCh (s : Str) (c : Char) : Nat := s.countP (· == c)

/-- `strings.Split(s, c)` for a one-character separator: never empty -/
def splitOn (c : Char) : Str → List Str
  | [] => [[]]
  | x :: xs =>
    if x = c then [] :: splitOn c xs
    else match splitOn c xs with
      | [] => [[x]]
      | l :: ls => (x :: l) :: ls

/-- `strings.SplitN(s, c, 2)`: the part before the first `c` and, when there is one, the part after it -/
def cut (c : Char) : Str → Str × Option Str
  | [] => ([], none)
  | x :: xs =>
    if x = c then ([], some xs)
    else let (a, b) := cut c xs; (x :: a, b)

def lowerCh (c : Char) : Char := if 'A' ≤ c ∧ c ≤ 'Z' then Char.ofNat (c.toNat + 32) else c
def lower (s : Str) : Str := s.map lowerCh
/-- `strings.EqualFold` on ASCII strings -/
def equalFold (a b : Str) : Bool := lower a == lower b

/-- `strings.Index(s, sub)` (`none` = -1) -/
def indexOf (sub : Str) : Str → Option Nat
  | [] => if sub.isEmpty then some 0 else none
  | c :: cs => if sub.isPrefixOf (c :: cs) then some 0 else (indexOf sub cs).map (· + 1)

/-! ### go-glob -/

/-- the loop of `glob.Glob` over `parts[0 .. end)`, then the test of the last part -/
def globLoop (leading trailing : Bool) : Bool → List Str → Str → Bool
  | _, [], _ => false
  | _, [last], subj => trailing || hasSuffix subj last
  | first, p :: rest, subj =>
    match indexOf p subj with
    | none => false
    | some idx =>
      if first && !leading && idx != 0 then false
      else globLoop leading trailing false rest (subj.drop (idx + p.length))

/-- `glob.Glob(pattern, subj)` -/
def glob (pattern subj : Str) : Bool :=
  if pattern.isEmpty then subj.isEmpty
  else if pattern == ['*'] then true
  else
    let parts := splitOn '*' pattern
    if parts.length == 1 then subj == pattern
    else globLoop (hasPrefix pattern ['*']) (hasSuffix pattern ['*']) true parts subj

/-! ### the regular expressions -/

def isAlnum (c : Char) : Bool := ('a' ≤ c ∧ c ≤ 'z') || ('A' ≤ c ∧ c ≤ 'Z') || ('0' ≤ c ∧ c ≤ '9')

/-- `labelRegex`: `[a-zA-Z0-9]|[a-zA-Z0-9][a-zA-Z0-9\-]*[a-zA-Z0-9]` (anchored) -/
def isLabel (s : Str) : Bool :=
  match s.head?, s.getLast? with
  | some a, some z => isAlnum a && isAlnum z && s.all (fun c => isAlnum c || c == '-')
  | _, _ => false

/-- `hostnameRegex`: `^(\*\.)?(label\.)*label\.?$` -/
def hostnameRegex (s : Str) : Bool :=
  let s1 := if hasPrefix s ['*', '.'] then s.drop 2 else s
  let s2 := if s1.getLast? == some '.' then s1.dropLast else s1
  (splitOn '.' s2).all isLabel

/-- `leftWildLabelRegex`: `^(\*|\*label|label\*|label\*label)$` -/
def leftWildLabel (w : Str) : Bool :=
  match splitOn '*' w with
  | [pre, post] => (pre.isEmpty || isLabel pre) && (post.isEmpty || isLabel post)
  | _ => false

/-! ### idna.ToASCII on ASCII names without ACE labels -/

/-- the labels `labelIter` visits: it stops before a final empty label, and (its special case) before a
final `..` once at least one label has been visited -/
def idnaLabels : List Str → List Str
  | [] => []
  | [l] => [l]
  | l :: rest => if rest == [[]] || rest == [[], []] then [l] else l :: idnaLabels rest

/-- this build's `unicode.Version >= "16.0.0"` (a trailing dot is then an error); tied by the `idna` ops -/
def unicode16 : Bool := true

/-- `idna.New(StrictDomainName(true), VerifyDNSLength(true)).ToASCII(s)` for ASCII `s` without `xn--` labels:
the name comes back unchanged or the call fails (`none`) -/
def idnaToASCII (s : Str) : Option Str :=
  if s.isEmpty then none else
  let ls := idnaLabels (splitOn '.' s)
  if ls.any (·.isEmpty) then none
  else if ls.any (fun l => l.length > 63) then none
  else if unicode16 && s.getLast? == some '.' then none
  else
    let n := if s.getLast? == some '.' then s.length - 1 else s.length
    if n > 253 then none else some s

/-! ### validateNames -/

structure NameRole where
  allowedDomains : List Str
  (allowBare allowSub allowGlob : Bool)
  /-- `*AllowWildcardCertificates` (never nil after `getRole`) -/
  allowWildcard : Bool
  (allowLocalhost allowAnyName enforceHostnames allowTokenDisplayName : Bool)
  /-- the requesting token's display name (`req.DisplayName`) -/
  displayName : Str
  cnValidations : List Str
  deriving Repr

def localhost : Str := str "localhost"
def localdomain : Str := str "localdomain"

/-- `validateWildcardDomain`: (wildcard label, reduced name) or an error -/
def validateWildcardDomain (name : Str) : Option (Str × Str) :=
  if countCh name '*' > 1 then none else
  match cut '.' name with
  | (l, none) => some (l, [])
  | (l, some rest) => if containsCh rest '*' then none else some (l, rest)

/-- the email split at the top of the loop body: (reducedName, emailDomain, isEmail) or reject -/
def emailSplit (name : Str) : Option (Str × Str × Bool) :=
  if containsCh name '@' then
    match splitOn '@' name with
    | [_, d] => some (d, d, true)
    | _ => none
  else some (name, name, false)

/-- the allowed-domains loop body for one (non-empty) domain -/
def domainMatches (r : NameRole) (name reduced emailDomain : Str) (isEmail isWildcard : Bool) (d : Str) : Bool :=
  (r.allowBare && (equalFold name d || (isEmail && equalFold emailDomain d)))
  || (r.allowSub && (hasSuffix reduced ('.' :: d) || (isWildcard && equalFold reduced d)))
  || (r.allowGlob && containsCh d '*' && glob d name)

/-- the token display name block -/
def displayNameMatches (r : NameRole) (name reduced : Str) (isEmail isWildcard : Bool) : Bool :=
  name == r.displayName
  || (r.allowSub &&
      ((isEmail && containsCh r.displayName '@' &&
          (match splitOn '@' r.displayName with
           | [_, dd] => hasSuffix reduced ('.' :: dd)
           | _ => false))
       || hasSuffix reduced ('.' :: r.displayName)
       || (isWildcard && reduced == r.displayName)))

/-- the localhost block: the exact match compares the full name (so a wildcard over localhost is left to
the `allow_subdomains` branch), the e-mail forms compare the domain -/
def localhostMatches (r : NameRole) (name reduced emailDomain : Str) (isEmail isWildcard : Bool) : Bool :=
  name == localhost || name == localdomain
  || (isEmail && emailDomain == localhost) || (isEmail && emailDomain == localdomain)
  || (r.allowSub &&
       (hasSuffix reduced ('.' :: localhost) || (isWildcard && reduced == localhost)
        || hasSuffix reduced ('.' :: localdomain) || (isWildcard && reduced == localdomain)))

/-- the EnforceHostnames block: `true` = passes.  An empty reduced name is only tolerated for a single-label
wildcard (whose label is tested by the second conjunct): `local@` and `<wildcard label>.` are refused. -/
def hostnameOK (name reduced wildLabel : Str) (isWildcard : Bool) : Bool :=
  (if reduced.isEmpty then (isWildcard && !hasSuffix name ['.'])
   else (match idnaToASCII reduced with
         | none => false
         | some c => hostnameRegex c))
  && (!isWildcard || leftWildLabel wildLabel)

/-- one iteration of the loop of `validateNames` after its empty-name test: `true` = `continue` (accepted),
`false` = `return name` -/
def validateNameBody (r : NameRole) (name : Str) : Bool :=
  match emailSplit name with
  | none => false
  | some (reduced0, emailDomain, isEmail) =>
    let isWildcard := containsCh reduced0 '*'
    match (if isWildcard then (if !r.allowWildcard then none else validateWildcardDomain reduced0)
           else some ([], reduced0)) with
    | none => false
    | some (wildLabel, reduced) =>
      if isEmail && isWildcard then false
      else if r.enforceHostnames && !hostnameOK name reduced wildLabel isWildcard then false
      else if r.allowAnyName then true
      else if r.allowLocalhost && localhostMatches r name reduced emailDomain isEmail isWildcard then true
      else if r.allowTokenDisplayName && displayNameMatches r name reduced isEmail isWildcard then true
      else (r.allowedDomains.filter (fun d => !d.isEmpty)).any
             (domainMatches r name reduced emailDomain isEmail isWildcard)

/-- the non-empty marker `""` (two quote characters) with which an empty name is refused -/
def emptyMarker : Str := ['"', '"']

/-- one iteration of the loop of `validateNames`: an empty name is never valid (`if name == "" { return … }`
at the top of the loop body), any other name goes through the body -/
def validateName (r : NameRole) (name : Str) : Bool := !name.isEmpty && validateNameBody r name

/-- `validateNames`: the first name that is refused, the empty string when none is — as the Go code reports it.
An empty name is refused with the marker `""`, never with the empty string itself, so the result is empty
exactly when every name of the list passed. -/
def validateNames (r : NameRole) : List Str → Str
  | [] => []
  | n :: rest => if n.isEmpty then emptyMarker else if validateName r n then validateNames r rest else n

/-- the callers' test `validateNames(...) != ""`: `true` = a bad name was reported -/
def namesRefused (r : NameRole) (names : List Str) : Bool := !(validateNames r names).isEmpty

/-- `validateCommonName`: the refused name, the empty string when accepted (it returns the name itself, so an
empty common name can never be reported; the callers only pass a non-empty one) -/
def validateCommonName (r : NameRole) (name : Str) : Str :=
  if r.cnValidations == [str "disabled"] then []
  else if namesRefused r [name] then name
  else if r.cnValidations.isEmpty then []
  else if containsCh name '@' then (if r.cnValidations.contains (str "email") then [] else name)
  else (if r.cnValidations.contains (str "hostname") then [] else name)

/-- the caller's test `len(badName) != 0` -/
def cnRefused (r : NameRole) (name : Str) : Bool := !(validateCommonName r name).isEmpty

/-! ### the label-level reading of a role (specification) -/

def labels (s : Str) : List Str := splitOn '.' s

/-- declarative glob matching, parts after the first: each literal part occurs after an arbitrary gap, in
order, and the last one ends the string -/
def GlobRest : List Str → Str → Prop
  | [], s => s = []
  | p :: ps, s => ∃ gap t, s = gap ++ p ++ t ∧ GlobRest ps t

/-- `s` matches the pattern whose literal parts (the pieces between the `*`s) are `parts`: the first part is
anchored at the start, the last at the end; a pattern without `*` matches only itself -/
def GlobMatch (parts : List Str) (s : Str) : Prop :=
  match parts with
  | [] => False
  | p0 :: ps => ∃ t, s = p0 ++ t ∧ GlobRest ps t

/-- what a name is, at label level -/
structure NameShape where
  /-- the host part (after the `@` for an e-mail form) -/
  host : Str
  isEmail : Bool
  deriving Repr

/-- `name` is `host`, or `local@host` with no further `@` -/
def shapeOf (name : Str) (sh : NameShape) : Prop :=
  (sh.isEmail = false ∧ sh.host = name ∧ containsCh name '@' = false)
  ∨ (sh.isEmail = true ∧ ∃ loc, name = loc ++ '@' :: sh.host ∧ containsCh loc '@' = false ∧ containsCh sh.host '@' = false)

/-- a host is a wildcard form when its leftmost label carries the single `*` of the name -/
def wildcardHost (host : Str) : Prop :=
  ∃ w rest, labels host = w :: rest ∧ countCh w '*' = 1 ∧ ∀ l ∈ rest, containsCh l '*' = false

/-- `ls` is `base` with at least one more label in front (a strict subdomain, or a wildcard over `base`) -/
def underLabels (ls base : List Str) : Prop := ∃ pre, pre ≠ [] ∧ ls = pre ++ base

/-- what the role's switches allow for one base domain `d`, reading names as label lists (of the lower-cased
strings: labels are compared without regard to ASCII case) -/
def domainAllows (r : NameRole) (name : Str) (sh : NameShape) (d : Str) : Prop :=
  (r.allowBare = true ∧ (lower name = lower d ∨ (sh.isEmail = true ∧ lower sh.host = lower d)))
  ∨ (r.allowSub = true ∧ underLabels (labels (lower sh.host)) (labels (lower d)))
  ∨ (r.allowGlob = true ∧ containsCh d '*' = true ∧ GlobMatch (splitOn '*' d) name)

/-- the label-level specification: may the role issue `name`? -/
def nameAllowed (r : NameRole) (name : Str) : Prop :=
  ∃ sh, shapeOf name sh ∧
    (containsCh sh.host '*' = true → r.allowWildcard = true ∧ sh.isEmail = false ∧ wildcardHost sh.host) ∧
    (r.allowAnyName = true
     ∨ (r.allowLocalhost = true ∧
         (labels sh.host = [localhost] ∨ labels sh.host = [localdomain]
          ∨ (r.allowSub = true ∧ (underLabels (labels sh.host) [localhost] ∨ underLabels (labels sh.host) [localdomain]))))
     ∨ (r.allowTokenDisplayName = true ∧
         (name = r.displayName
          ∨ (r.allowSub = true ∧
              (underLabels (labels sh.host) (labels r.displayName)
               ∨ (sh.isEmail = true ∧ ∃ loc dd, r.displayName = loc ++ '@' :: dd ∧ underLabels (labels sh.host) (labels dd))))))
     ∨ ∃ d ∈ r.allowedDomains, d ≠ [] ∧ domainAllows r name sh d)

/-- host names as `enforce_hostnames` reads them, label by label: every label is an LDH label, except that the
leftmost label of a wildcard form is an LDH label with one `*` in it (or `*` alone) -/
def hostShape (host : Str) : Prop :=
  match labels host with
  | [] => False
  | w :: rest =>
    (if containsCh host '*' then leftWildLabel w = true else isLabel w = true) ∧ ∀ l ∈ rest, isLabel l = true

end Obao.PKI
