import Obao.Model.Prelude
/-!
Model of the versioned key/value engine `internal/builtin/logical/kv` (C14), transliterated from
`path_data.go` (pathDataWrite, pathDataPatch, pathDataRead, pathDataDelete, validateCheckAndSetOption,
cleanupOldVersions, KeyMetadata.AddVersion), `path_delete.go`, `path_destroy.go`, `path_metadata.go`
(pathMetadataWrite/Read/Delete) and `path_config.go`.

Storage of one secret path = the key-metadata entry (`metadata/<encrypted path>`, a `KeyMetadata` protobuf) plus
one blob per version (`versions/<salt(path|v)>`).  Both are modelled: `PathSt.md` and `PathSt.blobs`.  Go maps
keyed by version number are total functions `Nat → Option _` (iteration order never matters in the code: the
only loop over `meta.Versions` deletes one blob per key).

Time: a version's `DeletionTime` is `none` (nil), `deleted` (a time that is already in the past: set by a delete)
or `future` (set from a far-future `delete_version_after`); the harness only uses such durations.

Write and patch carry the two knobs of the fault model (DESIGN section 4): `tx` (is the storage transactional)
and `fault = some k` (the k-th storage operation of the request, counted from 0 and including BeginTx/Commit,
fails once).  `fault = none` is the fault-free handler; then `tx` is irrelevant (`writePath_tx_irrelevant`).

Integers: version numbers are `Nat`; `uint64(cas)`/`uint64(version)` and `uint32(max_versions)` conversions of
request integers are modelled (`uint64`, `uint32`); the truncation `uint32(current-oldest)` inside AddVersion is
not (assumption: fewer than 2^32 versions per key).
-/
namespace Obao.KV2

/-- a secret's data: flat JSON object with string values, keys ascending (as `json.Marshal` of a map writes it) -/
abbrev Data := List (String × String)

/-- merge-patch document: `none` = JSON null (remove the key) -/
abbrev PatchData := List (String × Option String)

inductive Del where
  | none | deleted | future
  deriving DecidableEq, Repr

structure Ver where
  del : Del
  destroyed : Bool
  deriving DecidableEq, Repr

structure Meta where
  current : Nat
  oldest : Nat
  versions : Nat → Option Ver
  maxVersions : Nat
  casRequired : Bool
  dva : Bool            -- key-level delete_version_after set (far future)
  metaVersion : Nat     -- CurrentMetadataVersion
  custom : Data         -- custom_metadata

structure PathSt where
  md : Option Meta
  blobs : Nat → Option Data

inductive CfgDva where
  | unset | future | disabled
  deriving DecidableEq, Repr

structure Config where
  maxVersions : Nat
  casRequired : Bool
  dva : CfgDva

structure State where
  cfg : Config
  paths : String → PathSt

inductive Cas where
  | absent | val (c : Int) | bad
  deriving DecidableEq, Repr

inductive Err where
  | casMismatch | casRequired | casParse | noVersions | storage | missingBlob | mcasMismatch | mcasNotZero | badPath
  deriving DecidableEq, Repr

inductive Resp where
  | nil                                             -- (nil, nil)
  | wrote (v : Nat) (del : Del) (warn : Bool)       -- write/patch: version metadata of the new version
  | data (v : Nat) (d : Data) (del : Del)           -- read
  | gone (v : Nat) (del : Del) (destroyed : Bool)   -- 404 carrying the version metadata (deleted/destroyed)
  | notFound                                        -- bare 404
  | metaInfo (cur old max : Nat) (casReq dva : Bool) (mv : Nat) (vers : List (Nat × Ver)) (cm : Data)
  | conf (max : Nat) (casReq : Bool) (dva : CfgDva)
  | warn                                            -- response carrying only a warning
  | err (e : Err)
  deriving DecidableEq, Repr

def uint32 (n : Int) : Nat := (n % 4294967296).toNat
def uint64 (n : Int) : Nat := (n % 18446744073709551616).toNat

def emptyPath : PathSt := { md := none, blobs := fun _ => none }
def initCfg : Config := { maxVersions := 0, casRequired := false, dva := .unset }
def init : State := { cfg := initCfg, paths := fun _ => emptyPath }

/-- `&KeyMetadata{Key: key, Versions: map[uint64]*VersionMetadata{}}` of pathDataWrite -/
def freshMeta : Meta :=
  { current := 0, oldest := 0, versions := fun _ => none, maxVersions := 0, casRequired := false, dva := false,
    metaVersion := 0, custom := [] }

def setVer (m : Meta) (w : Nat) (vm : Ver) : Meta :=
  { m with versions := fun x => if x = w then some vm else m.versions x }

def setBlob (b : Nat → Option Data) (w : Nat) (d : Option Data) : Nat → Option Data :=
  fun x => if x = w then d else b x

def defaultMaxVersions : Nat := 10

/-- the window size AddVersion uses: `max(k.MaxVersions, configMaxVersions)` when positive, else 10 -/
def effMax (keyMax cfgMax : Nat) : Nat :=
  if max keyMax cfgMax > 0 then max keyMax cfgMax else defaultMaxVersions

/-- `KeyMetadata.AddVersion`: returns the new metadata and `versionToDelete` (0 = nothing to clean up) -/
def addVersion (m : Meta) (del : Del) (cfgMax : Nat) : Meta × Nat :=
  let cur := m.current + 1
  let vs : Nat → Option Ver := fun x => if x = cur then some { del := del, destroyed := false } else m.versions x
  let mx := effMax m.maxVersions cfgMax
  if cur - m.oldest ≥ mx then
    let vtd := cur - mx
    ({ m with current := cur, oldest := vtd + 1,
              versions := fun x => if m.oldest ≤ x ∧ x < vtd + 1 then none else vs x }, vtd)
  else
    ({ m with current := cur, versions := vs }, 0)

/-- the first loop of `cleanupOldVersions`: version numbers `vtd, vtd-1, …` whose blob exists, up to the first gap -/
def cleanupKeys (blobs : Nat → Option Data) : Nat → List Nat
  | 0 => []
  | i + 1 => if (blobs (i + 1)).isSome then (i + 1) :: cleanupKeys blobs i else []

/-- number of `storage.Get` calls of that loop: one per existing blob plus the one that found the gap -/
def cleanupGets (blobs : Nat → Option Data) (vtd : Nat) : Nat :=
  let n := (cleanupKeys blobs vtd).length
  if n < vtd then n + 1 else n

def eraseBlobs (blobs : Nat → Option Data) (ks : List Nat) : Nat → Option Data :=
  fun x => if ks.contains x then none else blobs x

/-- `validateCheckAndSetOption` -/
def casCheck (cas : Cas) (cfg : Config) (m : Meta) : Option Err :=
  match cas with
  | .val c => if uint64 c ≠ m.current then some .casMismatch else none
  | .bad => some .casParse
  | .absent => if cfg.casRequired || m.casRequired then some .casRequired else none

/-- deletion time of a new (or undeleted) version: none when the mount disables it, else from the minimum
    non-zero `delete_version_after` of mount and key (all such durations are far future here) -/
def newDel (cfg : Config) (m : Meta) : Del :=
  if cfg.dva = .disabled then .none
  else if cfg.dva = .future || m.dva then .future else .none

/-- the tail of pathDataWrite/pathDataPatch once the new version's data is known.  Storage operations, numbered
    from `base`: Put blob, Put metadata, the Gets and Deletes of cleanupOldVersions, Commit (transactional only).
    Returns (state, response, did the fault fire). -/
def commitWrite (ps : PathSt) (m : Meta) (d : Data) (del : Del) (cfgMax : Nat) (tx : Bool) (fault : Option Nat)
    (base : Nat) : PathSt × Resp × Bool :=
  let (m', vtd) := addVersion m del cfgMax
  let v := m'.current
  let blobs1 := setBlob ps.blobs v (some d)
  let keys := cleanupKeys blobs1 vtd
  let g := cleanupGets blobs1 vtd
  let nd := keys.length
  let full : PathSt × Resp × Bool := ({ md := some m', blobs := eraseBlobs blobs1 keys }, .wrote v del false, false)
  match fault with
  | none => full
  | some k =>
    if k < base then full                      -- (not reachable: earlier operations are handled by the caller)
    else if k = base then (ps, .err .storage, true)                                  -- Put blob failed
    else if k = base + 1 then                                                          -- Put metadata failed
      (if tx then ps else { ps with blobs := blobs1 }, .err .storage, true)
    else if k < base + 2 + g then                                                      -- a cleanup Get failed
      ({ md := some m', blobs := blobs1 }, .wrote v del true, true)
    else if k < base + 2 + g + nd then                                                 -- a cleanup Delete failed
      ({ md := some m', blobs := eraseBlobs blobs1 (keys.reverse.take (k - (base + 2 + g))) }, .wrote v del true, true)
    else if tx ∧ k = base + 2 + g + nd then (ps, .err .storage, true)                  -- Commit failed
    else full

/-- the metadata a write works on: the stored one, or `&KeyMetadata{Key: key, Versions: {}}` -/
def metaOr (ps : PathSt) : Meta :=
  match ps.md with
  | some m => m
  | none => freshMeta

/-- pathDataWrite (after the cached config read): [BeginTx] Get metadata, cas check, commitWrite -/
def writePath (cfg : Config) (ps : PathSt) (cas : Cas) (d : Data) (tx : Bool) (fault : Option Nat) :
    PathSt × Resp × Bool :=
  let b := if tx then 1 else 0
  if tx ∧ fault = some 0 then (ps, .err .storage, true) else
  if fault = some b then (ps, .err .storage, true) else
  let m := metaOr ps
  match casCheck cas cfg m with
  | some e => (ps, .err e, false)
  | none => commitWrite ps m d (newDel cfg m) cfg.maxVersions tx fault (b + 1)

def insertKV (k v : String) : Data → Data
  | [] => [(k, v)]
  | (k', v') :: rest =>
    if k < k' then (k, v) :: (k', v') :: rest
    else if k = k' then (k, v) :: rest
    else (k', v') :: insertKV k v rest

def eraseKV (k : String) : Data → Data
  | [] => []
  | (k', v') :: rest => if k = k' then rest else (k', v') :: eraseKV k rest

/-- JSON merge patch (RFC 7386) restricted to flat objects with string values -/
def mergePatch (d : Data) : PatchData → Data
  | [] => d
  | (k, none) :: rest => mergePatch (eraseKV k d) rest
  | (k, some v) :: rest => mergePatch (insertKV k v d) rest

/-- pathDataPatch after its Get of the metadata (`b` = number of storage operations so far minus one) -/
def patchBody (cfg : Config) (ps : PathSt) (cas : Cas) (pd : PatchData) (tx : Bool) (fault : Option Nat) (b : Nat) :
    PathSt × Resp × Bool :=
  match ps.md with
  | none => (ps, .notFound, false)
  | some m =>
    match casCheck cas cfg m with
    | some e => (ps, .err e, false)
    | none =>
      match m.versions m.current with
      | none => (ps, .notFound, false)
      | some vm =>
        if vm.del = .deleted then (ps, .gone m.current vm.del vm.destroyed, false)
        else if vm.destroyed then (ps, .gone m.current vm.del true, false)
        else if fault = some (b + 1) then (ps, .err .storage, true)
        else match ps.blobs m.current with
          | none => (ps, .err .missingBlob, false)
          | some d => commitWrite ps m (mergePatch d pd) (newDel cfg m) cfg.maxVersions tx fault (b + 2)

/-- pathDataPatch: [BeginTx] Get metadata, cas check, current version must be live, Get its blob, commitWrite -/
def patchPath (cfg : Config) (ps : PathSt) (cas : Cas) (pd : PatchData) (tx : Bool) (fault : Option Nat) :
    PathSt × Resp × Bool :=
  let b := if tx then 1 else 0
  if tx ∧ fault = some 0 then (ps, .err .storage, true) else
  if fault = some b then (ps, .err .storage, true) else
  patchBody cfg ps cas pd tx fault b

/-- pathDataRead; `v ≤ 0` = current version -/
def readPath (ps : PathSt) (v : Int) : Resp :=
  match ps.md with
  | none => .nil
  | some m =>
    let ver := if v > 0 then v.toNat else m.current
    match m.versions ver with
    | none => .nil
    | some vm =>
      if vm.del = .deleted then .gone ver vm.del vm.destroyed
      else if vm.destroyed then .gone ver vm.del true
      else match ps.blobs ver with
        | none => .err .missingBlob
        | some d => .data ver d vm.del

/-- pathDataDelete: soft-delete the current version -/
def deleteLatest (ps : PathSt) : PathSt :=
  match ps.md with
  | none => ps
  | some m =>
    match m.versions m.current with
    | none => ps
    | some vm =>
      if vm.destroyed then ps
      else if vm.del = .deleted then ps
      else { ps with md := some (setVer m m.current { vm with del := .deleted }) }

def markDeleted (m : Meta) (v : Int) : Meta :=
  match m.versions (uint64 v) with
  | none => m
  | some vm =>
    if vm.destroyed then m
    else if vm.del = .deleted then m
    else setVer m (uint64 v) { vm with del := .deleted }

def markUndeleted (cfg : Config) (m : Meta) (v : Int) : Meta :=
  match m.versions (uint64 v) with
  | none => m
  | some vm =>
    if vm.destroyed then m
    else setVer m (uint64 v) { vm with del := newDel cfg m }

def markDestroyed (m : Meta) (v : Int) : Meta :=
  match m.versions (uint64 v) with
  | none => m
  | some vm =>
    if vm.destroyed then m
    else setVer m (uint64 v) { vm with destroyed := true }

/-- pathDeleteWrite -/
def deleteVersions (ps : PathSt) (vs : List Int) : PathSt :=
  match ps.md with
  | none => ps
  | some m => { ps with md := some (vs.foldl markDeleted m) }

/-- pathUndeleteWrite -/
def undeleteVersions (cfg : Config) (ps : PathSt) (vs : List Int) : PathSt :=
  match ps.md with
  | none => ps
  | some m => { ps with md := some (vs.foldl (markUndeleted cfg) m) }

/-- pathDestroyWrite: flag the versions, write the metadata, then delete the blob of EVERY named number -/
def destroyVersions (ps : PathSt) (vs : List Int) : PathSt :=
  match ps.md with
  | none => ps
  | some m =>
    { md := some (vs.foldl markDestroyed m),
      blobs := fun x => if vs.any (fun v => uint64 v = x) then none else ps.blobs x }

/-- arguments of a metadata PUT: max_versions, cas_required, delete_version_after (0 / far future), custom_metadata
    (replaces the map), metadata_cas -/
structure MetaPut where
  mx : Option Int
  cr : Option Bool
  dva : Option Bool
  cm : Option Data
  mcas : Option Int
  deriving Repr

/-- arguments of a metadata PATCH (JSON merge patch): custom_metadata is merged, `none` values remove keys -/
structure MetaPatchArgs where
  mx : Option Int
  cr : Option Bool
  dva : Option Bool
  cm : Option PatchData
  mcas : Option Int
  deriving Repr

/-- the metadata_cas check: a supplied value must equal the current metadata version -/
def mcasFails (mcas : Option Int) (v : Nat) : Bool :=
  match mcas with
  | some c => uint64 c != v
  | none => false

def putSettings (m : Meta) (a : MetaPut) : Meta :=
  { m with
    maxVersions := match a.mx with
      | some n => uint32 n
      | none => m.maxVersions
    casRequired := match a.cr with
      | some c => c
      | none => m.casRequired
    dva := match a.dva with
      | some d => d
      | none => m.dva
    custom := match a.cm with
      | some d => d
      | none => m.custom }

/-- pathMetadataWrite (max_versions / cas_required / delete_version_after 0 or far future / custom_metadata /
    metadata_cas; the metadata_cas_required switches are not driven).  Creates the key metadata when absent. -/
def metaWrite (cfg : Config) (ps : PathSt) (a : MetaPut) : PathSt × Resp :=
  if a.mx.isNone ∧ a.cr.isNone ∧ a.dva.isNone ∧ a.cm.isNone then (ps, .nil) else
  let resp := if a.cr = some false ∧ cfg.casRequired then Resp.warn else Resp.nil
  match ps.md with
  | none =>
    if mcasFails a.mcas 0 then (ps, .err .mcasNotZero)
    else ({ ps with md := some (putSettings { freshMeta with metaVersion := 1 } a) }, resp)
  | some m =>
    if mcasFails a.mcas m.metaVersion then (ps, .err .mcasMismatch)
    else ({ ps with md := some (putSettings { m with metaVersion := m.metaVersion + 1 } a) }, resp)

/-- what the JSON merge patch of pathMetadataPatch does to the settings: numbers and booleans are replaced; the
    delete_version_after object `{seconds: n}` is merged into the existing object, so a zero duration (`{}`) leaves an
    existing setting in place; custom_metadata is merged key by key -/
def patchSettings (m : Meta) (a : MetaPatchArgs) : Meta :=
  { m with
    maxVersions := match a.mx with
      | some n => uint32 n
      | none => m.maxVersions
    casRequired := match a.cr with
      | some c => c
      | none => m.casRequired
    dva := match a.dva with
      | some true => true
      | _ => m.dva
    custom := match a.cm with
      | some pd => mergePatch m.custom pd
      | none => m.custom }

/-- pathMetadataPatch: the key must exist; [BeginTx] Get metadata, metadata_cas check, merge, Put [Commit] -/
def metaPatch (cfg : Config) (ps : PathSt) (a : MetaPatchArgs) : PathSt × Resp :=
  if a.mx.isNone ∧ a.cr.isNone ∧ a.dva.isNone ∧ a.cm.isNone then (ps, .nil) else
  match ps.md with
  | none => (ps, .notFound)
  | some m =>
    if mcasFails a.mcas m.metaVersion then (ps, .err .mcasMismatch)
    else ({ ps with md := some (patchSettings { m with metaVersion := m.metaVersion + 1 } a) },
          if a.cr = some false ∧ cfg.casRequired then Resp.warn else Resp.nil)

/-- versions listed by a metadata read: every key of the map (all keys are ≤ current) in ascending order -/
def listVersions (m : Meta) : List (Nat × Ver) :=
  (List.range (m.current + 1)).filterMap fun w => (m.versions w).map fun vm => (w, vm)

def metaRead (ps : PathSt) : Resp :=
  match ps.md with
  | none => .nil
  | some m => .metaInfo m.current m.oldest m.maxVersions m.casRequired m.dva m.metaVersion (listVersions m) m.custom

/-- pathMetadataDelete: delete the blob of every version in the metadata, then the metadata entry -/
def metaDelete (ps : PathSt) : PathSt :=
  match ps.md with
  | none => ps
  | some m => { md := none, blobs := fun x => if (m.versions x).isSome then none else ps.blobs x }

inductive DvaArg where
  | zero | future | negative
  deriving DecidableEq, Repr

/-- pathConfigWrite -/
def confWrite (cfg : Config) (mx : Option Int) (cr : Option Bool) (dva : Option DvaArg) : Config :=
  if mx.isNone ∧ cr.isNone ∧ dva.isNone then cfg else
  let cfg := match mx with
    | some n => { cfg with maxVersions := uint32 n }
    | none => cfg
  let cfg := match cr with
    | some c => { cfg with casRequired := c }
    | none => cfg
  match dva with
  | some .negative => { cfg with dva := .disabled }
  | some .zero => { cfg with dva := .unset }
  | some .future => { cfg with dva := .future }
  | none => cfg

inductive Op where
  | write (p : String) (cas : Cas) (d : Data)
  | patch (p : String) (cas : Cas) (d : PatchData)
  | read (p : String) (v : Int)
  | delete (p : String)
  | deleteV (p : String) (vs : List Int)
  | undelete (p : String) (vs : List Int)
  | destroy (p : String) (vs : List Int)
  | metaWrite (p : String) (a : MetaPut)
  | metaPatch (p : String) (a : MetaPatchArgs)
  | metaRead (p : String)
  | metaDelete (p : String)
  | confWrite (mx : Option Int) (cr : Option Bool) (dva : Option DvaArg)
  | confRead
  deriving Repr

def setPath (s : State) (p : String) (ps : PathSt) : State :=
  { s with paths := fun q => if q = p then ps else s.paths q }

/-- one request with the fault knobs (only write/patch look at them); third component: the fault fired -/
def stepF (tx : Bool) (fault : Option Nat) (s : State) : Op → State × Resp × Bool
  | .write p cas d =>
    let (ps, r, f) := writePath s.cfg (s.paths p) cas d tx fault
    (setPath s p ps, r, f)
  | .patch p cas d =>
    let (ps, r, f) := patchPath s.cfg (s.paths p) cas d tx fault
    (setPath s p ps, r, f)
  | .read p v => (s, readPath (s.paths p) v, false)
  | .delete p => (setPath s p (deleteLatest (s.paths p)), .nil, false)
  | .deleteV p vs =>
    if vs.isEmpty then (s, .err .noVersions, false) else (setPath s p (deleteVersions (s.paths p) vs), .nil, false)
  | .undelete p vs =>
    if vs.isEmpty then (s, .err .noVersions, false) else (setPath s p (undeleteVersions s.cfg (s.paths p) vs), .nil, false)
  | .destroy p vs =>
    if vs.isEmpty then (s, .err .noVersions, false) else (setPath s p (destroyVersions (s.paths p) vs), .nil, false)
  | .metaWrite p a =>
    let (ps, r) := metaWrite s.cfg (s.paths p) a
    (setPath s p ps, r, false)
  | .metaPatch p a =>
    let (ps, r) := metaPatch s.cfg (s.paths p) a
    (setPath s p ps, r, false)
  | .metaRead p => (s, metaRead (s.paths p), false)
  | .metaDelete p => (setPath s p (metaDelete (s.paths p)), .nil, false)
  | .confWrite mx cr dva => ({ s with cfg := confWrite s.cfg mx cr dva }, .nil, false)
  | .confRead => (s, .conf s.cfg.maxVersions s.cfg.casRequired s.cfg.dva, false)

/-- the fault-free sequential specification -/
def step (s : State) (op : Op) : State × Resp :=
  let r := stepF false none s op
  (r.1, r.2.1)

/-- a history with faults: each request carries its (tx, fault) knobs -/
structure Ev where
  op : Op
  tx : Bool
  fault : Option Nat

def stepEv (s : State) (e : Ev) : State × Resp :=
  let r := stepF e.tx e.fault s e.op
  (r.1, r.2.1)

def run (s : State) : List Ev → State
  | [] => s
  | e :: es => run (stepEv s e).1 es

/-- the path an operation addresses (config operations address none) -/
def Op.path? : Op → Option String
  | .write p _ _ | .patch p _ _ | .read p _ | .delete p | .deleteV p _ | .undelete p _ | .destroy p _
  | .metaWrite p _ | .metaPatch p _ | .metaRead p | .metaDelete p => some p
  | .confWrite _ _ _ | .confRead => none

/-! ### secret names

The metadata of a secret is stored under `path.Clean` of its name (`keysutil.EncryptedKeyStorageWrapper.encryptPath`),
its lock and its version blobs under the name as given: two names with the same cleaned form would share metadata but
not versions. `upgradeCheck` — through which every handler goes — therefore refuses a name that is not its own cleaned
form (repair F68); the model's `paths` map is keyed by names in that form. -/

/-- `strings.TrimPrefix(path.Clean(p), "/")` for names without `.` / `..` segments (the harness drives none) -/
def splitSlash : List Char → List Char → List (List Char)
  | [], cur => [cur.reverse]
  | c :: cs, cur => if c = '/' then cur.reverse :: splitSlash cs [] else splitSlash cs (c :: cur)

def joinSlash : List (List Char) → List Char
  | [] => []
  | [x] => x
  | x :: y :: r => x ++ '/' :: joinSlash (y :: r)

def cleanName (p : String) : String :=
  String.ofList (joinSlash ((splitSlash p.toList []).filter (fun seg => !seg.isEmpty)))

def canonicalName (p : String) : Bool := cleanName p == p

/-- the request as the backend serves it: a name that is not in cleaned form is refused before any handler runs -/
def stepC (s : State) (op : Op) : State × Resp :=
  match op.path? with
  | some p => if canonicalName p then step s op else (s, .err .badPath)
  | none => step s op

/-! ### Concurrency (DESIGN section 4): per-key lock, handler body at storage-operation granularity.

A thread executes one request on one path.  Locked requests (everything except the metadata read, which takes no
lock, and the data read, which takes the lock shared) go through: acquire the key lock → Get the path's storage
into a local copy → compute and Put the result → release.  Other threads run between any two of these steps. -/

inductive Pc where
  | idle                       -- not started / waiting for the key lock
  | locked                     -- holds the key lock, about to load the path's storage
  | loaded (snap : PathSt)     -- holds the lock, has its local copy, about to store the result
  | unlocking (r : Resp)       -- result stored, about to release the lock
  | done (r : Resp)

structure Thread where
  op : Op
  pc : Pc

structure CState where
  st : State
  lock : String → Option Nat       -- holder of each key lock
  threads : List Thread
  log : List (Nat × Op)            -- ghost: (thread id, request) in the order of the linearization steps

/-- does the request take the exclusive key lock -/
def Op.exclusive : Op → Bool
  | .read _ _ | .metaRead _ | .confRead | .confWrite _ _ _ => false
  | _ => true

/-- one micro-step of thread `t`; `none` = blocked, finished or no such thread -/
def cstep (c : CState) (t : Nat) : Option CState :=
  match c.threads[t]? with
  | none => none
  | some th =>
    match th.op.path? with
    | none => none                                 -- config requests are not part of the concurrent model
    | some p =>
      if th.op.exclusive then
        match th.pc with
        | .idle =>
          match c.lock p with
          | some _ => none
          | none =>
            let lock' : String → Option Nat := fun q => if q = p then some t else c.lock q
            some { c with lock := lock', threads := c.threads.set t { th with pc := .locked } }
        | .locked => some { c with threads := c.threads.set t { th with pc := .loaded (c.st.paths p) } }
        | .loaded snap =>
          -- the handler computes on its local copy and stores the result
          let r := step (setPath c.st p snap) th.op
          some { c with st := setPath c.st p (r.1.paths p), log := c.log ++ [(t, th.op)],
                        threads := c.threads.set t { th with pc := .unlocking r.2 } }
        | .unlocking r =>
          let lock' : String → Option Nat := fun q => if q = p then none else c.lock q
          some { c with lock := lock', threads := c.threads.set t { th with pc := .done r } }
        | .done _ => none
      else
        -- reads: the data read holds the key lock shared (blocked while a writer holds it), the metadata read
        -- takes no lock; both observe the storage at one point
        match th.pc with
        | .idle =>
          match th.op, c.lock p with
          | .read _ _, some _ => none
          | _, _ => some { c with log := c.log ++ [(t, th.op)],
                                  threads := c.threads.set t { th with pc := .done (step c.st th.op).2 } }
        | _ => none

def crun : List Nat → CState → CState
  | [], c => c
  | t :: ts, c =>
    match cstep c t with
    | some c' => crun ts c'
    | none => crun ts c

def cinit (s : State) (ops : List Op) : CState :=
  { st := s, lock := fun _ => none, threads := ops.map fun o => { op := o, pc := .idle }, log := [] }

/-- sequential execution of a list of requests, collecting the responses -/
def seqRun (s : State) : List Op → State × List Resp
  | [] => (s, [])
  | o :: os =>
    let r := step s o
    let rest := seqRun r.1 os
    (rest.1, r.2 :: rest.2)

end Obao.KV2
