import Obao.Model.Prelude
/-!
Model of the transit key ring (`sdk/helper/keysutil/policy.go`, `lock_manager.go`) and of the thin endpoint
logic on top of it (`internal/builtin/logical/transit/path_keys_config.go`, `path_trim.go`, `path_hmac.go`,
`path_rewrap.go`, `path_restore.go`).

Cryptography is symbolic (DESIGN section 4): a key is an opaque identifier `(version it was generated for,
serial)`; a ciphertext / signature / HMAC is an *artifact* recorded in a table and named by its ordinal handle;
`AEAD.Open`, `Verify`, `hmac.Equal` succeed exactly when key, derivation context, associated data / message and
the body are the ones recorded.  Everything else — version-prefix parsing (`strconv.Atoi`), the version window
checks and their order, `Persist`/`handleArchiving` with the archive index arithmetic, the configuration and trim
guards, backup / restore / delete — is transliterated branch by branch.  Byte strings stay opaque hex `String`s
(`"-"` = empty), they are only compared.

A storage fault plan (`failPut k`) makes the k-th storage `Put` of the next mutating operation fail (for `Persist` on
the to-archive path: 1 = archive put, 2 = policy put; on the from-archive path the policy put is the only one; `restore`
first writes the backup's archive), the single-fault convention of DESIGN section 4; 0 = no fault.  `Persist`'s
deferred rollback restores exactly what the Go code restores (`ArchiveVersion`, `ArchiveMinVersion` — added by the
repair of finding F38 — and `Keys`).  Storage is transactional (as the raft and in-memory backends are): rotate,
config, trim and (since the repair of F39) restore run inside `StartTxStorage`, so the writes of a failed request
are rolled back; create and backup open no transaction; `restoreRaw` is the bare library call of `RestorePolicy`
outside a transaction, whose two `Put`s are not atomic.
-/
namespace Obao.Transit

/-- a key entry: (version it was generated for, serial).  `(0,0)` is Go's zero `KeyEntry`. -/
abbrev Key := Nat × Nat

def emptyKey : Key := (0, 0)

inductive KType where
  | aes128 | aes256 | chacha | xchacha | ed25519 | ecdsa256 | hmac
  deriving DecidableEq, Repr

def KType.encSupported : KType → Bool
  | .aes128 | .aes256 | .chacha | .xchacha => true
  | _ => false

def KType.signSupported : KType → Bool
  | .ed25519 | .ecdsa256 => true
  | _ => false

structure Policy where
  ktype : KType
  derived : Bool
  convergent : Bool
  (latest minDec minEnc minAvail archiveVer archiveMin : Nat)
  keys : List (Nat × Key)
  (exportable plainBackup deletionAllowed : Bool)
  deriving DecidableEq, Repr

/-! ### the `Keys` map (Go `map[string]KeyEntry` keyed by the decimal version) as an association list -/

def kget (m : List (Nat × Key)) (v : Nat) : Option Key := m.lookup v

/-- `p.Keys[v] = k` -/
def kset (m : List (Nat × Key)) (v : Nat) (k : Key) : List (Nat × Key) :=
  if (m.lookup v).isSome then m.map (fun e => if e.1 = v then (v, k) else e) else m ++ [(v, k)]

/-- `for i := lo; i < hi; i++ { delete(p.Keys, i) }` (`lo` may be negative in Go) -/
def kdelRange (m : List (Nat × Key)) (lo : Int) (hi : Nat) : List (Nat × Key) :=
  m.filter (fun e => ¬ (lo ≤ (e.1 : Int) ∧ e.1 < hi))

/-! ### artifacts (ciphertexts, signatures, HMACs) -/

inductive AKind where
  | enc | sig | mac
  deriving DecidableEq, Repr

structure Art where
  kind : AKind
  ver : Nat
  key : Key
  /-- derivation context (hex) when the policy derives keys, `"-"` otherwise -/
  dctx : String
  aad : String
  /-- plaintext / signed message / MACed message (hex) -/
  msg : String
  /-- 0 for deterministic artifacts (convergent ciphertext, Ed25519 signature, HMAC); otherwise the ordinal of
      the randomised artifact (random nonce / ECDSA `k`), which makes it distinct from every other artifact -/
  uniq : Nat
  deriving DecidableEq, Repr

structure St where
  pol : Option Policy := none
  /-- the stored archive (`archive/<name>`); `[]` when absent (`LoadArchive` returns an empty slice) -/
  archive : List Key := []
  nextKey : Nat := 1
  arts : List Art := []
  backups : List (Policy × List Key) := []
  /-- fault plan for the next mutating op: 0 none, 1 = the archive put fails, 2 = the policy put fails -/
  failPut : Nat := 0
  deriving Repr

def init : St := {}

/-! ### results -/

inductive Out where
  /-- policy-changing op succeeded: latest, minDec, minEnc, minAvail -/
  | okPol (latest minDec minEnc minAvail : Nat)
  /-- artifact produced: handle (1-based), version in its prefix -/
  | okArt (h ver : Nat)
  /-- decrypted plaintext (hex) -/
  | okPlain (p : String)
  | okBool (b : Bool)
  | okBackup (n : Nat)
  | okUnit
  | err (cls : String)
  | panic
  | badOp
  deriving DecidableEq, Repr

/-! ### `strconv.Atoi` -/

def digitsVal? : List Char → Option Nat
  | [] => none
  | cs => cs.foldlM (fun acc c => if '0' ≤ c ∧ c ≤ '9' then some (acc * 10 + (c.toNat - '0'.toNat)) else none) 0

/-- Go's `strconv.Atoi` on a 64-bit platform: optional sign, at least one decimal digit, nothing else; out of
    `int64` range is an error. -/
def atoi? (s : String) : Option Int :=
  match s.toList with
  | '+' :: cs => (digitsVal? cs).bind fun n => if n < 2^63 then some (n : Int) else none
  | '-' :: cs => (digitsVal? cs).bind fun n => if n ≤ 2^63 then some (-(n : Int)) else none
  | cs => (digitsVal? cs).bind fun n => if n < 2^63 then some (n : Int) else none

/-! ### `Persist` / `handleArchiving` -/

/-- `for i := from; i <= latest; i++ { p.Keys[i] = archive.Keys[i-MinAvailableVersion] }`;
    `none` = index out of range (Go panics) -/
def fromArchive (archive : List Key) (minAvail : Nat) : List Nat → List (Nat × Key) → Option (List (Nat × Key))
  | [], m => some m
  | i :: is, m =>
    if i < minAvail then none else
    match archive[i - minAvail]? with
    | none => none
    | some k => fromArchive archive minAvail is (kset m i k)

/-- `for i := ArchiveVersion+1; i <= latest; i++ { archive.Keys[i-MinAvailableVersion] = p.Keys[i] }`;
    a missing map entry reads as the zero `KeyEntry`; `none` = index out of range -/
def toArchive (keys : List (Nat × Key)) (minAvail : Nat) : List Nat → List Key → Option (List Key)
  | [], a => some a
  | i :: is, a =>
    if i < minAvail then none else
    if i - minAvail < a.length then
      toArchive keys minAvail is (a.set (i - minAvail) ((kget keys i).getD emptyKey))
    else none

inductive PRes where
  | ok (p : Policy) (archive : List Key)
  /-- Go error; the policy object as `Persist`'s deferred rollback leaves it, and the stored archive -/
  | fail (cls : String) (p : Policy) (archive : List Key)
  | panic

/-- versions `a, a+1, …, b` -/
def verRange (a b : Nat) : List Nat := List.range' a (b + 1 - a)

/-- `Policy.Persist` (with `handleArchiving`): `p` is the policy object with the caller's modifications
    already applied, `archive` the stored archive, `fault` the index of the put of this `Persist` that fails
    (0 none). -/
def persist (p : Policy) (archive : List Key) (fault : Nat) : PRes :=
  -- the deferred rollback of `Persist`: `ArchiveVersion`, `ArchiveMinVersion` (since the repair of F38) and `Keys`
  let rollback (q : Policy) : Policy :=
    { q with archiveVer := p.archiveVer, archiveMin := p.archiveMin, keys := p.keys }
  let kcm := (kget p.keys p.minDec).isSome
  if p.minDec < 1 then .fail "persist:minDec<1" (rollback p) archive else
  if p.latest < 1 then .fail "persist:latest<1" (rollback p) archive else
  if !kcm ∧ p.archiveVer ≠ p.latest then .fail "persist:archiveStale" (rollback p) archive else
  if p.archiveVer > p.latest then .fail "persist:archiveAhead" (rollback p) archive else
  if p.minEnc > 0 ∧ p.minEnc < p.minDec then .fail "persist:encBelowDec" (rollback p) archive else
  if p.minDec > p.latest then .fail "persist:decAboveLatest" (rollback p) archive else
  if !kcm then
    -- move keys *from* the archive; the archive is not written
    match fromArchive archive p.minAvail (verRange p.minDec p.latest) p.keys with
    | none => .panic
    | some ks =>
      let p1 := { p with keys := ks }
      -- the policy put is the only put on this path
      if fault = 1 then .fail "persist:put" (rollback p1) archive else .ok p1 archive
  else
    -- move keys *to* the archive
    let a0 := if archive.length + p.minAvail < p.latest + 1
              then archive ++ List.replicate (p.latest - p.minAvail + 1 - archive.length) emptyKey else archive
    match toArchive p.keys p.minAvail (verRange (p.archiveVer + 1) p.latest) a0 with
    | none => .panic
    | some a1 =>
      -- the loop leaves `ArchiveVersion = LatestVersion` when it ran at all
      let archVer' := if p.archiveVer + 1 ≤ p.latest then p.latest else p.archiveVer
      -- trim the archive when `ArchiveMinVersion < MinAvailableVersion` (a slice beyond the length panics)
      if p.archiveMin < p.minAvail ∧ p.minAvail - p.archiveMin > a1.length then .panic else
      let a2 := if p.archiveMin < p.minAvail then a1.drop (p.minAvail - p.archiveMin) else a1
      let archMin' := if p.archiveMin < p.minAvail then p.minAvail else p.archiveMin
      let p2 := { p with archiveVer := archVer', archiveMin := archMin' }
      if fault = 1 then .fail "persist:put" (rollback p2) archive else
      let lo : Int := (p.latest : Int) - (p.keys.length : Int) + 1
      let p3 := { p2 with keys := kdelRange p.keys lo p.minDec }
      if fault = 2 then .fail "persist:put" (rollback p3) a2 else .ok p3 a2

/-! ### policy-level operations -/

def polOut (p : Policy) : Out := .okPol p.latest p.minDec p.minEnc p.minAvail

/-- the parameter combinations `LockManager.GetPolicy` refuses when it creates a policy -/
def badParams (t : KType) (derived convergent : Bool) : Bool :=
  match t with
  | .aes128 | .aes256 | .chacha | .xchacha => convergent && !derived
  | .ecdsa256 | .hmac => derived || convergent
  | .ed25519 => convergent

/-- `LockManager.GetPolicy` with `Upsert` on a name that does not exist: parameter checks, then `Rotate` -/
def newPolicy (st : St) (t : KType) (derived convergent : Bool) : St × Out :=
  let st0 := { st with failPut := 0 }
  match st.pol with
  | some _ => (st0, .err "exists")
  | none =>
    if badParams t derived convergent then (st0, .err "badparams") else
    let k : Key := (1, st.nextKey)
    let p : Policy := { ktype := t, derived, convergent := derived && convergent, latest := 1, minDec := 1, minEnc := 0,
                        minAvail := 0, archiveVer := 0, archiveMin := 0, keys := [(1, k)],
                        exportable := false, plainBackup := false, deletionAllowed := false }
    match persist p st.archive st.failPut with
    | .ok p' a => ({ st0 with pol := some p', archive := a, nextKey := st.nextKey + 1 }, polOut p')
    | .fail cls _ a => ({ st0 with archive := a, nextKey := st.nextKey + 1 }, .err cls)
    | .panic => (st0, .panic)

/-- `Policy.Rotate` -/
def rotate (st : St) : St × Out :=
  let st0 := { st with failPut := 0 }
  match st.pol with
  | none => (st0, .err "nokey")
  | some p =>
    let k : Key := (p.latest + 1, st.nextKey)
    let p1 := { p with latest := p.latest + 1, keys := kset p.keys (p.latest + 1) k,
                       minDec := if p.minDec = 0 then 1 else p.minDec }
    match persist p1 st.archive st.failPut with
    | .ok p' a => ({ st0 with pol := some p', archive := a, nextKey := st.nextKey + 1 }, polOut p')
    | .fail cls q _ =>
      -- Rotate's deferred restore: latest, minDec, keys
      -- the endpoint runs inside `StartTxStorage`: the failed request's writes are rolled back
      ({ st0 with pol := some { q with latest := p.latest, minDec := p.minDec, keys := p.keys },
                  nextKey := st.nextKey + 1 }, .err cls)
    | .panic => (st0, .panic)

/-- `pathKeysConfigWrite`, the `min_decryption_version` block: new policy object and `persistNeeded` -/
def cfgDec (p : Policy) : Option Int → Except String (Policy × Bool)
  | none => .ok (p, false)
  | some d =>
    if d < 0 then .error "negMinDec" else
    let d := if d = 0 then 1 else d.toNat
    if d ≠ p.minDec then
      if d > p.latest then .error "minDecTooHigh" else .ok ({ p with minDec := d }, true)
    else .ok (p, false)

/-- the `min_encryption_version` block -/
def cfgEnc (p : Policy) (pn : Bool) : Option Int → Except String (Policy × Bool)
  | none => .ok (p, pn)
  | some e =>
    if e < 0 then .error "negMinEnc" else
    let e := e.toNat
    if e ≠ p.minEnc then
      if e > p.latest then .error "minEncTooHigh" else .ok ({ p with minEnc := e }, true)
    else .ok (p, pn)

/-- the `deletion_allowed` block -/
def cfgDel (p : Policy) (pn : Bool) : Option Bool → Policy × Bool
  | some b => if b ≠ p.deletionAllowed then ({ p with deletionAllowed := b }, true) else (p, pn)
  | none => (p, pn)

/-- the `MinDecryptionVersion == 0` guard -/
def cfgDecZero (p : Policy) (pn : Bool) : Policy × Bool :=
  if p.minDec = 0 then ({ p with minDec := 1 }, true) else (p, pn)

/-- the `exportable` block (never unset) -/
def cfgExp (p : Policy) (pn : Bool) : Option Bool → Policy × Bool
  | some true => if !p.exportable then ({ p with exportable := true }, true) else (p, pn)
  | _ => (p, pn)

/-- the `allow_plaintext_backup` block (never unset) -/
def cfgApb (p : Policy) (pn : Bool) : Option Bool → Policy × Bool
  | some true => if !p.plainBackup then ({ p with plainBackup := true }, true) else (p, pn)
  | _ => (p, pn)

/-- `deletion_allowed`, the `MinDecryptionVersion == 0` guard, `exportable`, `allow_plaintext_backup` -/
def cfgFlags (p : Policy) (pn : Bool) (del exp apb : Option Bool) : Policy × Bool :=
  let r3 := cfgDel p pn del
  let r4 := cfgDecZero r3.1 r3.2
  let r5 := cfgExp r4.1 r4.2 exp
  cfgApb r5.1 r5.2 apb

/-- everything `pathKeysConfigWrite` does before `Persist`: the modified policy object and `persistNeeded`,
    or the error response -/
def cfgTarget (p : Policy) (dec enc : Option Int) (del exp apb : Option Bool) : Except String (Policy × Bool) :=
  match cfgDec p dec with
  | .error c => .error c
  | .ok (p1, pn1) =>
    match cfgEnc p1 pn1 enc with
    | .error c => .error c
    | .ok (p2, pn2) =>
      if p2.minEnc > 0 ∧ p2.minEnc < p2.minDec then .error "encBelowDec" else
      let (p6, pn6) := cfgFlags p2 pn2 del exp apb
      if !pn6 then .ok (p6, false) else
      if p6.minAvail > p6.minEnc then .error "availAboveEnc" else
      if p6.minAvail > p6.minDec then .error "availAboveDec" else .ok (p6, true)

/-- `pathKeysConfigWrite`: min_decryption_version, min_encryption_version, deletion_allowed, exportable,
    allow_plaintext_backup (absent = `none`); every error return restores the original values (deferred
    restore in the handler) -/
def config (st : St) (dec enc : Option Int) (del exp apb : Option Bool) : St × Out :=
  let st0 := { st with failPut := 0 }
  match st.pol with
  | none => (st0, .err "nokey")
  | some p =>
    match cfgTarget p dec enc del exp apb with
    | .error c => (st0, .err c)
    | .ok (p6, false) => ({ st0 with pol := some p6 }, polOut p6)
    | .ok (p6, true) =>
      match persist p6 st.archive st.failPut with
      | .ok p' a => ({ st0 with pol := some p', archive := a }, polOut p')
      | .fail cls q _ =>
        -- inside `StartTxStorage`: the stored archive is rolled back with the failed request
        ({ st0 with pol := some { q with minDec := p.minDec, minEnc := p.minEnc, deletionAllowed := p.deletionAllowed,
                                         exportable := p.exportable, plainBackup := p.plainBackup } }, .err cls)
      | .panic => (st0, .panic)

/-- harness-only: a caller of `keysutil` that assigns both minimum versions WITHOUT the endpoint's guards and
    persists (restoring them when `Persist` fails) — exercises the sanity checks of `handleArchiving` that the
    endpoint guards make unreachable -/
def rawConfig (st : St) (dec enc : Nat) : St × Out :=
  let st0 := { st with failPut := 0 }
  match st.pol with
  | none => (st0, .err "nokey")
  | some p =>
    match persist { p with minDec := dec, minEnc := enc } st.archive st.failPut with
    | .ok p' a => ({ st0 with pol := some p', archive := a }, polOut p')
    | .fail cls q _ => ({ st0 with pol := some { q with minDec := p.minDec, minEnc := p.minEnc } }, .err cls)
    | .panic => (st0, .panic)

/-- `pathTrimUpdate` -/
def trim (st : St) (n : Int) : St × Out :=
  let st0 := { st with failPut := 0 }
  match st.pol with
  | none => (st0, .err "nokey")
  | some p =>
    if n < p.minAvail then (st0, .err "trimDecrement") else
    if p.minEnc = 0 then (st0, .err "trimEncUnset") else
    if p.minDec = 0 then (st0, .err "trimDecUnset") else
    if n > p.minEnc then (st0, .err "trimAboveEnc") else
    if n > p.minDec then (st0, .err "trimAboveDec") else
    if n < 0 then (st0, .err "trimNegative") else
    if n = 0 then (st0, .err "trimZero") else
    match persist { p with minAvail := n.toNat } st.archive st.failPut with
    | .ok p' a => ({ st0 with pol := some p', archive := a }, polOut p')
    | .fail cls q _ => ({ st0 with pol := some { q with minAvail := p.minAvail } }, .err cls)   -- in a transaction
    | .panic => (st0, .panic)

/-- `LockManager.BackupPolicy` / `Policy.Backup` -/
def backup (st : St) : St × Out :=
  let st0 := { st with failPut := 0 }
  match st.pol with
  | none => (st0, .err "nokey")
  | some p =>
    if !p.exportable then (st0, .err "notExportable") else
    if !p.plainBackup then (st0, .err "noPlainBackup") else
    match persist p st.archive st.failPut with
    | .ok p' a => ({ st0 with pol := some p', archive := a, backups := st.backups ++ [(p', a)] },
                   .okBackup (st.backups.length + 1))
    | .fail cls q a => ({ st0 with pol := some q, archive := a }, .err cls)
    | .panic => (st0, .panic)

/-- `LockManager.RestorePolicy` (same name), parameterised by whether the caller runs it inside a storage
    transaction: `storeArchive(backup archive)` is put 1, then `Persist` (archive put 2, policy put 3).  In a
    transaction nothing a failed call wrote survives; without one the archive written before the failure stays. -/
def restoreWith (tx : Bool) (st : St) (b : Nat) (force : Bool) : St × Out :=
  let st0 := { st with failPut := 0 }
  if b = 0 then (st0, .badOp) else
  match st.backups[b - 1]? with
  | none => (st0, .badOp)
  | some (bp, ba) =>
    if st.pol.isSome ∧ !force then (st0, .err "exists") else
    if st.failPut = 1 then (st0, .err "persist:put") else
    match persist bp ba (st.failPut - 1) with
    | .ok p' a => ({ st0 with pol := some p', archive := a }, polOut p')
    | .fail cls _ a => (if tx then st0 else { st0 with archive := a }, .err cls)
    | .panic => (st0, .panic)

/-- the `restore` endpoint: `pathRestoreUpdate` runs `RestorePolicy` inside `StartTxStorage` (repair of F39) -/
def restore (st : St) (b : Nat) (force : Bool) : St × Out := restoreWith true st b force

/-- harness-only: the bare library call `LockManager.RestorePolicy` on a storage handle that is not a transaction -/
def restoreRaw (st : St) (b : Nat) (force : Bool) : St × Out := restoreWith false st b force

/-- `LockManager.DeletePolicy` -/
def delete (st : St) : St × Out :=
  let st0 := { st with failPut := 0 }
  match st.pol with
  | none => (st0, .err "nokey")
  | some p =>
    if !p.deletionAllowed then (st0, .err "deletionNotAllowed") else
    ({ st0 with pol := none, archive := [] }, .okUnit)

/-! ### encrypt / decrypt -/

/-- the version switch shared by `EncryptWithFactory` (`strict = false`: `ver < MinEncryptionVersion`) and
    `SignWithOptions` (`strict = true`: `MinEncryptionVersion > 0 && ver < MinEncryptionVersion` — the same
    condition over naturals) -/
def pickVersion (p : Policy) (ver : Int) : Except String Nat :=
  if ver = 0 then .ok p.latest else
  if ver < 0 then .error "negver" else
  if ver > p.latest then .error "tooNew" else
  if ver < p.minEnc then .error "belowMinEnc" else .ok ver.toNat

/-- `Policy.GetKey` as far as it can fail or select: the key entry used and the derivation context bound -/
def getKey (p : Policy) (ctx : String) (ver : Int) : Except String (Key × String) :=
  if !p.derived then
    if ver < 0 then .error "novers" else
    match kget p.keys ver.toNat with
    | none => .error "novers"
    | some k =>
      -- a zero `KeyEntry` (only reachable after a storage fault skewed the archive) has no key bytes:
      -- "could not derive key, length too small" / "could not derive enc key, length not correct"
      if k = emptyKey then .error "emptykey" else .ok (k, "-")
  else
    if ver ≤ 0 ∨ ver > p.latest then .error "invalidver" else
    if ctx = "-" then .error "ctxMissing" else
    match kget p.keys ver.toNat with
    | none => .error "novers"
    | some k => .ok (k, ctx)

/-- first occurrence of an equal artifact (deterministic artifacts are byte-identical), else a new handle -/
def internArt (arts : List Art) (a : Art) : List Art × Nat :=
  match arts.idxOf? a with
  | some i => (arts, i + 1)
  | none => (arts ++ [a], arts.length + 1)

/-- `Policy.EncryptWithFactory` (symmetric AEAD key types) -/
def encryptArt (p : Policy) (n : Nat) (ver : Int) (ctx aad nonce plain : String) : Except String Art :=
  if !p.ktype.encSupported then .error "unsupported" else
  match pickVersion p ver with
  | .error c => .error c
  | .ok v =>
    -- policies created by this code base: convergent version 3, or not convergent — a caller nonce is refused
    if nonce ≠ "-" then .error "nonceNotAllowed" else
    match getKey p ctx v with
    | .error c => .error c
    | .ok (k, dctx) =>
      -- a zero `KeyEntry` carries no convergent version: "unhandled convergent version -1"
      if p.convergent ∧ k = emptyKey then .error "emptykey" else
      .ok { kind := .enc, ver := v, key := k, dctx, aad, msg := plain, uniq := if p.convergent then 0 else n }

def encrypt (st : St) (ver : Int) (ctx aad nonce plain : String) : St × Out :=
  match st.pol with
  | none => (st, .err "nokey")
  | some p =>
    match encryptArt p (st.arts.length + 1) ver ctx aad nonce plain with
    | .error c => (st, .err c)
    | .ok a =>
      let (arts, h) := internArt st.arts a
      ({ st with arts }, .okArt h a.ver)

/-- how the version part of the prefix `vault:v<ver>:` was rewritten -/
inductive VMut where
  | same
  | str (s : String)
  | noPrefix
  | noFields
  deriving DecidableEq, Repr

/-- how the base64 body was rewritten: `tamper` = any change that keeps it base64 of at least nonce-size bytes
    (byte flip, truncation by a byte, appended byte), `short` = fewer bytes than the nonce, `badB64` -/
inductive BMut where
  | same | tamper | short | badB64
  /-- ECDSA only: the rewritten signature no longer parses as ASN.1 (reported as "does not verify" before the
      key is looked up) -/
  | badFormat
  deriving DecidableEq, Repr

/-- the version number `strconv.Atoi` reads from the prefix: a rewritten version string is parsed by `atoi?`;
    the untouched prefix is what `strconv.Itoa a.ver` wrote and parses back to `a.ver`
    (`C17.atoi_itoa` proves `atoi? (toString n) = some n` for every `n < 2^63`) -/
def parseVer (a : Art) : VMut → Option Int
  | .str s => atoi? s
  | _ => some (a.ver : Int)

/-- `Policy.DecryptWithFactory` on the artifact `a` presented with the given rewrites, context and
    associated data -/
def decryptArt (p : Policy) (a : Art) (vm : VMut) (bm : BMut) (ctx aad : String) : Except String String :=
  if !p.ktype.encSupported then .error "unsupported" else
  if vm = .noPrefix then .error "noprefix" else
  if vm = .noFields then .error "fields" else
  match parseVer a vm with
  | none => .error "verparse"
  | some ver0 =>
    let ver : Int := if ver0 = 0 then 1 else ver0
    if ver > p.latest then .error "tooNew" else
    if p.minDec > 0 ∧ ver < p.minDec then .error "tooOld" else
    if bm = .badB64 then .error "b64" else
    match getKey p ctx ver with
    | .error c => .error c
    | .ok (k, dctx) =>
      if bm = .short then .error "length" else
      if bm = .same ∧ k = a.key ∧ dctx = a.dctx ∧ aad = a.aad then .ok a.msg else .error "auth"

def artAt (st : St) (h : Nat) (kind : AKind) : Option Art :=
  if h = 0 then none else
  match st.arts[h - 1]? with
  | some a => if a.kind = kind then some a else none
  | none => none

def decrypt (st : St) (h : Nat) (vm : VMut) (bm : BMut) (ctx aad : String) : St × Out :=
  match artAt st h .enc with
  | none => (st, .badOp)
  | some a =>
    match st.pol with
    | none => (st, .err "nokey")
    | some p =>
      match decryptArt p a vm bm ctx aad with
      | .error c => (st, .err c)
      | .ok m => (st, .okPlain m)

/-- `pathRewrapWrite`: `Decrypt` (no associated data) then `Encrypt` with the requested version -/
def rewrap (st : St) (h : Nat) (ver : Int) (ctx : String) : St × Out :=
  match artAt st h .enc with
  | none => (st, .badOp)
  | some a =>
    match st.pol with
    | none => (st, .err "nokey")
    | some p =>
      match decryptArt p a .same .same ctx "-" with
      | .error c => (st, .err c)
      | .ok m => encrypt st ver ctx "-" "-" m

/-! ### sign / verify (Ed25519, ECDSA P-256; message = what the caller hands to the policy) -/

def signArt (p : Policy) (n : Nat) (ver : Int) (ctx msg : String) : Except String Art :=
  if !p.ktype.signSupported then .error "unsupported" else
  match pickVersion p ver with
  | .error c => .error c
  | .ok v =>
    match kget p.keys v with
    | none => .error "novers"
    | some k =>
      if k = emptyKey then .error "emptykey" else   -- `IsPrivateKeyMissing`
      if p.ktype = .ed25519 ∧ p.derived then
        if ctx = "-" then .error "derive" else
        .ok { kind := .sig, ver := v, key := k, dctx := ctx, aad := "-", msg, uniq := 0 }
      else
        .ok { kind := .sig, ver := v, key := k, dctx := "-", aad := "-", msg,
              uniq := if p.ktype = .ed25519 then 0 else n }

def sign (st : St) (ver : Int) (ctx msg : String) : St × Out :=
  match st.pol with
  | none => (st, .err "nokey")
  | some p =>
    match signArt p (st.arts.length + 1) ver ctx msg with
    | .error c => (st, .err c)
    | .ok a =>
      let (arts, h) := internArt st.arts a
      ({ st with arts }, .okArt h a.ver)

/-- `Policy.VerifySignatureWithOptions` (no `v0` alias here) -/
def verifyArt (p : Policy) (a : Art) (vm : VMut) (bm : BMut) (ctx msg : String) : Except String Bool :=
  if !p.ktype.signSupported then .error "unsupported" else
  if vm = .noPrefix then .error "noprefix" else
  if vm = .noFields then .error "fields" else
  match parseVer a vm with
  | none => .error "verparse"
  | some ver =>
    if ver > p.latest then .error "tooNew" else
    if p.minDec > 0 ∧ ver < p.minDec then .error "tooOld" else
    if bm = .badB64 then .error "b64" else
    if bm = .badFormat then .ok false else
    if p.ktype = .ed25519 ∧ p.derived then
      if ver ≤ 0 ∨ ctx = "-" then .error "derive" else
      match kget p.keys ver.toNat with
      | none => .error "derive"
      | some k => .ok (bm = .same ∧ k = a.key ∧ ctx = a.dctx ∧ msg = a.msg)
    else
      if ver < 0 then .error "novers" else
      match kget p.keys ver.toNat with
      | none => .error "novers"
      | some k =>
        -- a zero `KeyEntry` has no public key: `ecdsa.Verify` / `ed25519.Verify` panic
        if k = emptyKey then .error "PANIC" else
        .ok (bm = .same ∧ k = a.key ∧ a.dctx = "-" ∧ msg = a.msg)

def verify (st : St) (h : Nat) (vm : VMut) (bm : BMut) (ctx msg : String) : St × Out :=
  match artAt st h .sig with
  | none => (st, .badOp)
  | some a =>
    match st.pol with
    | none => (st, .err "nokey")
    | some p =>
      match verifyArt p a vm bm ctx msg with
      | .error c => (st, if c = "PANIC" then .panic else .err c)
      | .ok b => (st, .okBool b)

/-! ### HMAC (`pathHMACWrite` / `pathHMACVerify` over `Policy.HMACKey`) -/

/-- `Policy.HMACKey(version)` -/
def hmacKey (p : Policy) (ver : Int) : Except String Key :=
  if ver < 0 then .error "negver" else
  if ver > p.latest then .error "tooNew" else
  match kget p.keys ver.toNat with
  | none => .error "novers"
  | some k =>
    -- a zero `KeyEntry` has no HMAC key ("no HMAC key exists for that key version"); for the `hmac` key
    -- type the (empty) key itself is returned
    if k = emptyKey ∧ p.ktype ≠ .hmac then .error "emptykey" else .ok k

def hmacArt (p : Policy) (ver : Int) (msg : String) : Except String Art :=
  let v : Except String Int :=
    if ver = 0 then .ok p.latest else
    if ver = p.latest then .ok ver else
    if p.minEnc > 0 ∧ ver < p.minEnc then .error "belowMinEnc" else .ok ver
  match v with
  | .error c => .error c
  | .ok v =>
    match hmacKey p v with
    | .error c => .error c
    | .ok k => .ok { kind := .mac, ver := v.toNat, key := k, dctx := "-", aad := "-", msg, uniq := 0 }

def hmac (st : St) (ver : Int) (msg : String) : St × Out :=
  match st.pol with
  | none => (st, .err "nokey")
  | some p =>
    match hmacArt p ver msg with
    | .error c => (st, .err c)
    | .ok a =>
      let (arts, h) := internArt st.arts a
      ({ st with arts }, .okArt h a.ver)

def hmacVerifyArt (p : Policy) (a : Art) (vm : VMut) (bm : BMut) (msg : String) : Except String Bool :=
  if vm = .noPrefix then .error "noprefix" else
  if vm = .noFields then .error "fields" else
  match parseVer a vm with
  | none => .error "verparse"
  | some ver =>
    if bm = .badB64 then .error "b64" else
    if ver > p.latest then .error "tooNew" else
    if p.minDec > 0 ∧ ver < p.minDec then .error "tooOld" else
    match hmacKey p ver with
    | .error c => .error c
    | .ok k =>
      -- `pathHMACVerify`: "HMAC key value could not be computed" when the key bytes are nil (a zero `KeyEntry`
      -- of an `hmac`-type key; only reachable after a storage fault skewed the archive)
      if k = emptyKey then .error "emptykey" else
      .ok (bm = .same ∧ k = a.key ∧ msg = a.msg)

def hmacVerify (st : St) (h : Nat) (vm : VMut) (bm : BMut) (msg : String) : St × Out :=
  match artAt st h .mac with
  | none => (st, .badOp)
  | some a =>
    match st.pol with
    | none => (st, .err "nokey")
    | some p =>
      match hmacVerifyArt p a vm bm msg with
      | .error c => (st, .err c)
      | .ok b => (st, .okBool b)

/-! ### operations and histories -/

inductive Op where
  | new (t : KType) (derived convergent : Bool)
  | rotate
  | config (dec enc : Option Int) (del exp apb : Option Bool)
  | trim (n : Int)
  | backup
  | restore (b : Nat) (force : Bool)
  | delete
  | encrypt (ver : Int) (ctx aad nonce plain : String)
  | decrypt (h : Nat) (vm : VMut) (bm : BMut) (ctx aad : String)
  | rewrap (h : Nat) (ver : Int) (ctx : String)
  | sign (ver : Int) (ctx msg : String)
  | verify (h : Nat) (vm : VMut) (bm : BMut) (ctx msg : String)
  | hmac (ver : Int) (msg : String)
  | hmacVerify (h : Nat) (vm : VMut) (bm : BMut) (msg : String)
  /-- harness-only: plan a storage fault for the next mutating operation -/
  | failPut (k : Nat)
  /-- harness-only: assign the minimum versions without the endpoint guards -/
  | rawConfig (dec enc : Nat)
  /-- harness-only: `RestorePolicy` called outside any storage transaction -/
  | restoreRaw (b : Nat) (force : Bool)
  deriving Repr

def step (st : St) : Op → St × Out
  | .new t d c => newPolicy st t d c
  | .rotate => rotate st
  | .config dec enc del exp apb => config st dec enc del exp apb
  | .trim n => trim st n
  | .backup => backup st
  | .restore b f => restore st b f
  | .delete => delete st
  | .encrypt v c a n p => encrypt st v c a n p
  | .decrypt h vm bm c a => decrypt st h vm bm c a
  | .rewrap h v c => rewrap st h v c
  | .sign v c m => sign st v c m
  | .verify h vm bm c m => verify st h vm bm c m
  | .hmac v m => hmac st v m
  | .hmacVerify h vm bm m => hmacVerify st h vm bm m
  | .failPut k => ({ st with failPut := k }, .okUnit)
  | .rawConfig d e => rawConfig st d e
  | .restoreRaw b f => restoreRaw st b f

def run (st : St) : List Op → St
  | [] => st
  | o :: os => run (step st o).1 os

/-! ### a failing transaction Commit

The write handlers of the endpoints run inside a storage transaction; when its Commit fails (a conflict detected at
commit time, loss of leadership, a full disk) the writes are discarded and — since the repair F76 — the policy object the
handler changed is evicted from the lock manager's cache, so the next request loads the stored, unchanged policy: the
request has no effect at all. -/

/-- one request; `commitFails` = its transaction's Commit is refused -/
def stepCF (st : St) (commitFails : Bool) (op : Op) : St × Out :=
  if commitFails then (st, .err "commit") else step st op

def runCF (st : St) : List (Bool × Op) → St
  | [] => st
  | (f, o) :: os => runCF (stepCF st f o).1 os

/-! ### batch requests (`batch_input` of encrypt / decrypt / rewrap) -/

/-- the derivation-context field of a batchable request -/
def Op.ctxField : Op → Option String
  | .encrypt _ c _ _ _ => some c
  | .decrypt _ _ _ c _ => some c
  | .rewrap _ _ c => some c
  | _ => none

def Op.ctxSet (o : Op) : Bool :=
  match o.ctxField with
  | some c => c != "-"
  | none => false

/-- "context should be set either in all the request blocks or in none": compared with the first item -/
def ctxMixed : List Op → Bool
  | [] => false
  | o :: os => os.any (fun x => x.ctxSet != o.ctxSet)

/-- the results of the items, each processed in the state its predecessors left (only the artifact table grows) -/
def outs : St → List Op → List Out
  | _, [] => []
  | st, o :: os => (step st o).2 :: outs (step st o).1 os

/-- a `batch_input` request: whole-request refusals first (no items, mixed contexts, unknown key), then the items one
    after the other with the single-request semantics -/
def batch (st : St) (items : List Op) : St × Except String (List Out) :=
  if items.isEmpty then (st, .error "emptybatch") else
  if ctxMixed items then (st, .error "ctxmix") else
  if st.pol.isNone then (st, .error "nokey") else
  (run st items, .ok (outs st items))

/-- an operation of the transit endpoints that plans no storage fault (the histories of the property); the two
    harness-only operations — a planned storage fault and the unguarded assignment of the minimum versions — are
    excluded -/
def Op.faultFree : Op → Bool
  | .failPut _ | .rawConfig _ _ | .restoreRaw _ _ => false
  | _ => true

/-- an operation that keeps the identity of the key ring: everything except creating, restoring or deleting the
    key (and planning a fault) -/
def Op.keepsRing : Op → Bool
  | .new _ _ _ | .restore _ _ | .delete | .failPut _ | .rawConfig _ _ | .restoreRaw _ _ => false
  | _ => true

/-- the endpoint operations whose handler runs inside `logical.StartTxStorage` -/
def Op.transactional : Op → Bool
  | .rotate | .config _ _ _ _ _ | .trim _ => true
  | _ => false

/-- operations that write nothing (and leave a planned storage fault pending) -/
def Op.readOnly : Op → Bool
  | .encrypt _ _ _ _ _ | .decrypt _ _ _ _ _ | .rewrap _ _ _ | .sign _ _ _ | .verify _ _ _ _ _ | .hmac _ _
  | .hmacVerify _ _ _ _ => true
  | _ => false

/-- a ring-keeping history in which storage faults may be planned, provided the operation a planned fault hits is a
    transactional one (rotate, config, trim); `pending` = a fault is planned and not yet consumed -/
def txFaults : Bool → List Op → Bool
  | _, [] => true
  | _, .failPut k :: os => txFaults (k != 0) os
  | pending, o :: os =>
    if o.transactional then txFaults false os
    else if o.readOnly then txFaults pending os
    else o.keepsRing && !pending && txFaults false os

/-- ring-keeping endpoint operations, fault plans, and restores through the endpoint -/
def Op.keepsRingOrFaultOrRestore : Op → Bool
  | .failPut _ | .restore _ _ => true
  | o => o.keepsRing

/-- as above, plus the bare library call of `RestorePolicy` -/
def Op.keepsRingOrFaultOrAnyRestore : Op → Bool
  | .restoreRaw _ _ => true
  | o => o.keepsRingOrFaultOrRestore

def Op.isRestore : Op → Bool
  | .restore _ _ | .restoreRaw _ _ => true
  | _ => false

def Out.isErr : Out → Bool
  | .err _ => true
  | _ => false

/-- every restore of the history fails (so the key ring is never legitimately replaced) -/
def restoresFail : St → List Op → Bool
  | _, [] => true
  | st, o :: os => (!o.isRestore || (step st o).2.isErr) && restoresFail (step st o).1 os

/-! ### convergent scheme versions of key rings written by older code (`Policy.convergentVersion`)

A key ring stores a convergent scheme version at policy level (`Policy.ConvergentVersion`) and, since scheme 3, per key
version (`KeyEntry.ConvergentVersion`, 0 = absent — rings written by the scheme-2 code). `convergentVersion(ver)` is the
per-key value when present, else the policy-level one; `SymmetricEncryptRaw` / `SymmetricDecryptRaw` support scheme 3 only
(1 and 2 are refused as "old"). `RotateInMemory` gives every new key version scheme 3. The trace model above covers the
rings this code base creates (scheme 3 everywhere). -/

def effConvVersion (polVer keyVer : Nat) : Nat := if keyVer = 0 then polVer else keyVer

def convSchemeSupported (v : Nat) : Bool := v == 3

/-- `EncryptWithFactory`: the options carry `convergentVersion(ver)` -/
def convEncAccepts (polVer keyVer : Nat) : Bool := convSchemeSupported (effConvVersion polVer keyVer)

/-- `DecryptWithFactory` (after the repair F61): pre-check and options both use `convergentVersion(ver)` -/
def convDecAccepts (polVer keyVer : Nat) : Bool := convSchemeSupported (effConvVersion polVer keyVer)

/-- before the repair: the pre-check used `convergentVersion(ver)`, the options handed to `SymmetricDecryptRaw` the
policy-level value -/
def convDecAcceptsPolicyLevel (polVer keyVer : Nat) : Bool :=
  convSchemeSupported (effConvVersion polVer keyVer) && convSchemeSupported polVer

end Obao.Transit
