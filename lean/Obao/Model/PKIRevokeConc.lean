import Obao.Model.PKIRevoke
/-!
Two requests running concurrently on one pki backend (C16): one `revoke` against one other request that rebuilds
the CRLs outside `revokeStorageLock` (issuer delete / import / generate, `config/crl`, tidy).

Micro-steps are the storage writes plus the points where shared state is read or a lock changes hands:
* `lockR`/`unlockR` — `backend.revokeStorageLock` (taken by `pathRevokeWrite` and by tidy's passes);
* `note`, `lockB`, `snap`, `built`, `unlockB` — `crlBuilder._doRebuild`: the builder mutex serialises whole
  rebuilds; `snap` is the build's listing of `revoked/` (`getLocalRevokedCertEntries`): the content of every CRL
  of this build is fixed there, its writes (`bw`) follow;
* `revoke`/`tidy` expand, under `revokeStorageLock`, into the writes the request decides on in the state it finds.
`coalesce = true` is the VARIANT in which a caller of `rebuild(sc, false)` that finds, once it owns the mutex,
that another build completed since it queued (`note`) returns without building — not the current code; it is
here to document why the revoke's own rebuild must never be skipped (`C16.served_crl_lists_serial_concurrent_cex`).
-/
namespace Obao.PKIRevoke

inductive Act where
  | w (st : Step)
  | bw (st : Step)
  | lockR
  | unlockR
  | note
  | lockB
  | snap (forceNew : Bool) (o1 o2 : List Nat)
  | built
  | unlockB
  | revoke (k : Nat) (byCert : Bool) (o1 o2 : List Nat)
  | tidy (cs rc assoc : Bool) (o1 o2 : List Nat)
  deriving DecidableEq, Repr

/-- `crlBuilder.rebuild(sc, forceNew)` as micro-steps -/
def buildActs (forceNew : Bool) (o1 o2 : List Nat) : List Act :=
  [.note, .lockB, .snap forceNew o1 o2, .unlockB]

/-- the part of `revokeProg` before the CRL rebuild: the writes, the answer, and whether a rebuild follows -/
def revokeHead (s : St) (k : Nat) (byCert : Bool) : List Step × Res × Bool :=
  match s.certs[k]? with
  | none => ([], .badOp, false)
  | some c =>
    if !byCert && !(k ∈ s.stored) then ([], .notFound, false) else
    if byCert && !(k ∈ s.stored) && !(c.issuer ∈ s.issuers) then ([], .noSigner, false) else
    let pre := revokePre s k byCert
    if collides s k then (pre, .isIssuer, false) else
    match s.revoked.lookup k with
    | some t => (pre, .revoked t, !s.cfg.autoRebuild)
    | none =>
      if c.notAfter < s.now + 2 && !s.cfg.allowExpired then (pre, .expired, false) else
      (pre ++ [Step.putRevoked k (s.stamps + 1)], .revoked (s.stamps + 1), !s.cfg.autoRebuild)

structure Thread where
  acts : List Act
  seen : Nat            -- completed builds noted before queueing on the builder mutex
  res : Option Res
  deriving Repr

structure CSt where
  s : St
  lockR : Option Bool
  lockB : Option Bool
  builds : Nat
  t1 : Thread           -- `false`: the other request
  t2 : Thread           -- `true`: the revoke
  deriving Repr

def CSt.get (c : CSt) (a : Bool) : Thread := if a then c.t2 else c.t1
def CSt.set (c : CSt) (a : Bool) (t : Thread) : CSt := if a then { c with t2 := t } else { c with t1 := t }

/-- the program of a request as a thread -/
def opActs (s : St) (o1 o2 : List Nat) : Op → List Act × Option Res
  | .revoke k byCert => ([.lockR, .revoke k byCert o1 o2, .unlockR], none)
  | .tidy cs rc assoc => ([.lockR, .tidy cs rc assoc o1 o2], some .ok)
  | .delIssuer i =>
    if !(i ∈ s.issuers) then ([], some .ok) else (.w (.delIssuer i) :: buildActs true o1 o2, some .ok)
  | .addIssuer =>
    ([.w (.addIssuer (s.nIssuers + 1))] ++
      (if s.dflt.isNone then [.w (.putCounters (s.counters.filter fun p => p.1 ∈ s.issuers))] else []) ++
      buildActs true o1 o2, some (.okIssuer (s.nIssuers + 1)))
  | .importIssuer none =>
    ([.w (.addIssuer (s.nIssuers + 1))] ++
      (if s.dflt.isNone then [.w (.putCounters (s.counters.filter fun p => p.1 ∈ s.issuers))] else []) ++
      buildActs true o1 o2, some (.okIssuer (s.nIssuers + 1)))
  | .config a d x =>
    let c : Cfg := { autoRebuild := orKeep a s.cfg.autoRebuild, disable := orKeep d s.cfg.disable,
                     allowExpired := orKeep x s.cfg.allowExpired }
    (.w (.putCfg c) ::
      (if s.cfg.disable != c.disable || (s.cfg.autoRebuild && !c.autoRebuild) then buildActs true o1 o2 else []), some .ok)
  | .rotate => (buildActs false o1 o2, some .ok)
  | _ => ([], some .badOp)

/-- one micro-step of thread `a`; `none` = finished or blocked on a lock -/
def cstep (coalesce : Bool) (c : CSt) (a : Bool) : Option CSt :=
  let t := c.get a
  match t.acts with
  | [] => none
  | .w st :: r => some ({ c with s := applyStep c.s st }.set a { t with acts := r })
  | .bw st :: r => some ({ c with s := applyStep c.s st }.set a { t with acts := r })
  | .lockR :: r => if c.lockR.isNone then some ({ c with lockR := some a }.set a { t with acts := r }) else none
  | .unlockR :: r => some ({ c with lockR := none }.set a { t with acts := r })
  | .note :: r => some (c.set a { t with acts := r, seen := c.builds })
  | .lockB :: r => if c.lockB.isNone then some ({ c with lockB := some a }.set a { t with acts := r }) else none
  | .snap f o1 o2 :: r =>
    if coalesce && !f && c.builds != t.seen then some (c.set a { t with acts := r })
    else some (c.set a { t with acts := (rebuildSteps c.s f o1 o2).map Act.bw ++ [.built] ++ r })
  | .built :: r => some ({ c with builds := c.builds + 1 }.set a { t with acts := r })
  | .unlockB :: r => some ({ c with lockB := none }.set a { t with acts := r })
  | .revoke k byCert o1 o2 :: r =>
    let (ws, res, rb) := revokeHead c.s k byCert
    some (c.set a { t with acts := ws.map Act.w ++ (if rb then buildActs false o1 o2 else []) ++ r, res := some res })
  | .tidy cs rc assoc o1 o2 :: r =>
    let passes := tidyPass1 c.s cs rc ++ tidyPass2 c.s cs rc assoc
    some (c.set a { t with acts := passes.map Act.w ++ [.unlockR] ++
      (if passes.any removesEntry && !c.s.cfg.autoRebuild then buildActs false o1 o2 else []) ++ r })

/-- run a schedule (which thread moves next); moves of a finished or blocked thread are skipped -/
def crun (coalesce : Bool) (c : CSt) : List Bool → CSt
  | [] => c
  | a :: sched =>
    match cstep coalesce c a with
    | some c' => crun coalesce c' sched
    | none => crun coalesce c sched

def CSt.finished (c : CSt) : Bool := c.t1.acts.isEmpty && c.t2.acts.isEmpty

/-- start: request `op1` (thread `false`) against `revoke k` (thread `true`) -/
def cinit (s : St) (op1 : Op) (p1 p2 : List Nat) (k : Nat) (byCert : Bool) (q1 q2 : List Nat) : CSt :=
  { s := s, lockR := none, lockB := none, builds := 0,
    t1 := { acts := (opActs s p1 p2 op1).1, seen := 0, res := (opActs s p1 p2 op1).2 },
    t2 := { acts := (opActs s q1 q2 (.revoke k byCert)).1, seen := 0, res := none } }

end Obao.PKIRevoke
