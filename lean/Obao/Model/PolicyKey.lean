/-!
Model of how `policy.Store` keys its policy cache (`cacheKey(ns, name)` in internal/vault/policy/policy_store.go) and of
Go's `path.Join` / `path.Clean` on relative paths, which an earlier version of that function used. The function itself is
re-translated from the Go source on every run (`Obao/Gen/PolicyStore.lean`, `C12Gen`).
-/
namespace Obao.PolicyKey

/-- split a path at '/' -/
def splitSlash : List Char → List (List Char)
  | [] => [[]]
  | c :: cs =>
    match splitSlash cs with
    | [] => [[c]]   -- unreachable: `splitSlash` never returns `[]`
    | seg :: rest => if c = '/' then [] :: seg :: rest else (c :: seg) :: rest

/-- `path.Clean` on a relative path, segment-wise: drop empty and "." segments, let ".." cancel the segment before it
(a leading ".." stays) -/
def cleanSegs (segs : List (List Char)) : List (List Char) :=
  segs.foldl (fun acc s =>
    if s = [] ∨ s = ['.'] then acc
    else if s = ['.', '.'] then
      match acc.getLast? with
      | none => acc ++ [s]
      | some l => if l = ['.', '.'] then acc ++ [s] else acc.dropLast
    else acc ++ [s]) []

def joinSlash : List (List Char) → List Char
  | [] => []
  | [s] => s
  | s :: rest => s ++ '/' :: joinSlash rest

/-- `path.Join(parts...)` for relative parts: empty parts are ignored, the rest joined by '/' and cleaned -/
def joinClean (parts : List String) : String :=
  let ne := (parts.filter (· ≠ "")).map String.toList
  if ne.isEmpty then "" else
  let r := joinSlash (cleanSegs (splitSlash (joinSlash ne)))
  if r.isEmpty then "." else String.ofList r

/-- the cache as the store uses it: a map from cache keys to the policy cached there (namespace UUID of the policy,
policy name) -/
abbrev Cache := List (String × (String × String))

def Cache.get? (c : Cache) (key : String) : Option (String × String) :=
  (c.find? (·.1 == key)).map (·.2)

end Obao.PolicyKey
