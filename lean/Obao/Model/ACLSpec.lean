import Obao.Model.ACL
/-!
The documented policy semantics (website/content/docs/concepts/policies.mdx, "Policy syntax", "Capabilities",
"Fine-grained control") as a function of the *multiset of path stanzas* of the attached policies. Nothing here
builds a radix tree, merges step by step or iterates in an order:

* **which pattern decides** (`specFind`): an exact pattern equal to the request path; else, for list/scan, the exact
  pattern equal to the path without its trailing slash; else the highest-priority glob/wildcard pattern that
  matches the path ("most specific match", priority = the five documented criteria = `ACL.less`); else, for
  list/scan on a path with a trailing slash, the same for the path without the slash; else nothing: default deny;
* **what the deciding pattern grants** (`specCheck`), from all stanzas for that pattern: `deny` in any of them wins;
  otherwise the capabilities are the union; wrapping-TTL bounds and the pagination limit are the lowest positive
  value given; a parameter is required if any stanza requires it; a parameter key is constrained if any stanza
  mentions it, and a value is accepted for it if any stanza's list for that key accepts it (an empty list accepts
  everything);
* the root policy and `help` are as documented (always allowed).

Everything is expressed with `any`/`all`/`filter`/least-positive folds, so invariance under permutation of the
stanzas is immediate (`C03.spec_order_independent`); `C03.acl_impl_eq_spec` proves the implementation model
equal to this function.
-/
namespace Obao.ACLSpec
open Obao.ACL

inductive Kind where
  | exact | pref | segwc
  deriving DecidableEq, Repr

def kindOf (r : PathRule) : Kind := if r.hasSW then .segwc else if r.isPrefix then .pref else .exact

/-- a stanza counts at the instant `now` iff it has no expiration or `now` is not after it -/
def liveAt (now : Int) (r : PathRule) : Bool := !expiredAt now r.expiration

/-- all path stanzas of the attached policies that count at the instant `now` -/
def rulesOf (now : Int) (ps : List (Option Policy)) : List PathRule :=
  ps.flatMap fun p => match p with | none => [] | some p => p.paths.filter (liveAt now)

/-- the permissions of all stanzas written for one pattern -/
def permsFor (rules : List PathRule) (kind : Kind) (k : Path) : List Perms :=
  (rules.filter fun r => kindOf r == kind && r.path == k).map (·.perms)

/-! ### well-formed stanzas: what `parsePaths` guarantees -/

def keysNodup (m : PMap) : Bool := decide (m.map (·.1)).Nodup

/-- `deny` stands alone (parsePaths collapses the capability list), parameter maps are maps (distinct keys), and the
wrapping-TTL bounds are not negative. All three are established by `parsePaths` (`C03.parsed_stanza_wf`; the last two
since the repairs of F21 and F19); hand-built `Policy` values need not satisfy them (`C03.order_independent_cex`). -/
def wfPerms (p : Perms) : Bool :=
  (!isDeny p.caps || p.caps == denyBits) && keysNodup p.allowed && keysNodup p.denied &&
    decide (0 ≤ p.minTTL) && decide (0 ≤ p.maxTTL)

def wfRules (rules : List PathRule) : Bool := rules.all fun r => wfPerms r.perms

/-! ### what one pattern grants -/

def anyDeny (rs : List Perms) : Bool := rs.any fun p => isDeny p.caps

def unionCaps (rs : List Perms) : Nat := rs.foldl (fun a p => a ||| p.caps) 0

def specCaps (rs : List Perms) : Nat := if anyDeny rs then denyBits else unionCaps rs

/-- the least positive value of the list, `0` when there is none -/
def minPos (xs : List Int) : Int := xs.foldl (fun a x => if x > 0 ∧ (a = 0 ∨ x < a) then x else a) 0

def pmEmpty (sel : Perms → PMap) (rs : List Perms) : Bool := rs.all fun p => (sel p).isEmpty

/-- some stanza constrains parameter `k` -/
def pmHas (sel : Perms → PMap) (rs : List Perms) (k : String) : Bool := rs.any fun p => ((sel p).lookup k).isSome

/-- some stanza's value list for `k` accepts `v` -/
def pmAccepts (sel : Perms → PMap) (rs : List Perms) (k : String) (v : PVal) : Bool :=
  rs.any fun p => valueListed (sel p) k v

/-- the only constrained key is `"*"` -/
def pmOnlyStar (sel : Perms → PMap) (rs : List Perms) : Bool :=
  pmHas sel rs "*" && rs.all fun p => (sel p).all fun kv => kv.1 == "*"

def specCheckParams (rs : List Perms) (data : List (String × PVal)) : Bool :=
  if !(rs.all fun p => p.required.all fun r => (data.lookup (lower r)).isSome) then false
  else if data.isEmpty then true
  else
    let deniedOK :=
      if pmEmpty (·.denied) rs then true
      else if pmHas (·.denied) rs "*" then false
      else data.all fun kv => !pmAccepts (·.denied) rs (lower kv.1) kv.2
    if !deniedOK then false
    else if pmEmpty (·.allowed) rs then true
    else if pmOnlyStar (·.allowed) rs then true
    else data.all fun kv =>
      if pmHas (·.allowed) rs (lower kv.1) then pmAccepts (·.allowed) rs (lower kv.1) kv.2
      else pmHas (·.allowed) rs "*"

/-- the decision for a request given all stanzas `rs` of the deciding pattern -/
def specCheck (rs : List Perms) (req : Req) (capCheckOnly : Bool) : Res :=
  checkCore (specCaps rs) (ttlOK (minPos (rs.map (·.minTTL))) (minPos (rs.map (·.maxTTL))) req.wrapTTL)
    (specCheckParams rs req.data)
    (paginate (minPos (rs.map (·.pag))) (rs.any fun p => p.required.any fun r => (lower r) == "limit") req.data)
    req capCheckOnly

/-! ### which pattern decides -/

/-- the priority descriptor of the glob/wildcard pattern `(kind, k)` if it matches `path` -/
def candOf (path : Path) (kind : Kind) (k : Path) : Option Descr :=
  match kind with
  | .exact => none
  | .pref =>
    if k.isPrefixOf path then
      some { firstWC := k.length, wildcards := 0, isPrefix := true, wcPath := k, perms := {} }
    else none
  | .segwc => descrOf (splitSlash path) (k, {})

/-- a stanza as a candidate for `path`: descriptor and pattern -/
def candidate (path : Path) (r : PathRule) : Option (Descr × Kind × Path) :=
  (candOf path (kindOf r) r.path).map fun d => (d, kindOf r, r.path)

/-- the highest-priority element (priority = `ACL.less` on the descriptors) -/
def pickBest (cs : List (Descr × Kind × Path)) : Option (Descr × Kind × Path) :=
  cs.foldl (fun best c => match best with
    | none => some c
    | some b => if less b.1 c.1 then some c else some b) none

def specNonExact (rules : List PathRule) (path : Path) : Option (Kind × Path) :=
  (pickBest (rules.filterMap (candidate path))).map (·.2)

def hasExact (rules : List PathRule) (k : Path) : Bool := rules.any fun r => kindOf r == .exact && r.path == k

def specFind (rules : List PathRule) (path : Path) (op : Op) : Option (Kind × Path) :=
  if hasExact rules path then some (.exact, path)
  else if isListScan op && hasExact rules (trimSlash path) then some (.exact, trimSlash path)
  else match specNonExact rules path with
    | some pat => some pat
    | none => if isListScan op && path.getLast? == some slash then specNonExact rules (trimSlash path) else none

/-- the stanza's pattern matches the path -/
def stanzaMatches (path : Path) (r : PathRule) : Bool :=
  match kindOf r with
  | .exact => r.path == path
  | k => (candOf path k r.path).isSome

/-- the stanza can decide a request for `path` and `op`: it matches the path, or the operation is list/scan and it
matches the path without its trailing slash -/
def stanzaApplies (path : Path) (op : Op) (r : PathRule) : Bool :=
  stanzaMatches path r || (isListScan op && stanzaMatches (trimSlash path) r)

/-- a set of attached policies is usable unless `root` is combined with anything else -/
def attachable (ps : List (Option Policy)) : Bool :=
  ps.all fun p => match p with
    | none => true
    | some p => !(p.name == "root") || ps.length == 1

def hasRoot (ps : List (Option Policy)) : Bool := ps.any fun p => match p with | none => false | some p => p.name == "root"

/-- the documented decision for a non-root token and an operation other than `help`, as a function of the stanzas -/
def specDecide (rules : List PathRule) (req : Req) (capCheckOnly : Bool) : Res :=
  match specFind rules (dropSlashes req.path) req.op with
  | none => { limit := limitOf req.data }
  | some (kind, k) => specCheck (permsFor rules kind k) req capCheckOnly

/-- the documented decision as a function of the attached policies -/
def specAllow (now : Int) (ps : List (Option Policy)) (req : Req) (capCheckOnly : Bool) : Res :=
  if hasRoot ps then { allowed := true, rootPrivs := true, isRoot := true, limit := limitOf req.data }
  else if req.op = .help then { allowed := true, limit := limitOf req.data }
  else specDecide (rulesOf now ps) req capCheckOnly

/-- a stanza with every fine-grained constraint removed (same pattern, same capabilities) -/
def stripRule (r : PathRule) : PathRule := { r with perms := { caps := r.perms.caps } }

def stripPolicy (p : Option Policy) : Option Policy := p.map fun p => { p with paths := p.paths.map stripRule }

def specCapabilities (now : Int) (ps : List (Option Policy)) (path : Path) : List String :=
  capList (specAllow now ps { path, op := .list } true)

/-- the policy without the stanzas that are expired at `now` -/
def dropExpired (now : Int) (p : Option Policy) : Option Policy :=
  p.map fun p => { p with paths := p.paths.filter (liveAt now) }

end Obao.ACLSpec
