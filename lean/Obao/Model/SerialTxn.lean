import Obao.Model.Prelude
/-!
C08 — the SPEC side: a store is a sorted map from keys to values; a transaction is the list of operations
it issued together with what it observed; *serial execution at the commit point* re-runs that list against
the store (`exec`) and yields the observations and the new store.

Values are opaque tokens (`String`: the hex text of the bytes, `"-"` = empty). Keys are ASCII strings, so
Lean's code-point order on `String` coincides with Go's byte order.

`put`/`delete` *observe the pre-image* of the key they write (`Obs.pre`): both transactional backends
(inmem `CurrEntry`, raft `verifyReadOp` for the first write of a key) check it at commit, so a blind write
is not blind in this code base. A client-visible observation is `Obs.val` (get) or `Obs.keys` (listing).
-/
namespace Obao.SerialTxn

abbrev Key := String
abbrev Val := String
/-- association list; the driver keeps it sorted by key without duplicates (`sput` inserts in order) -/
abbrev Store := List (Key × Val)

def sget : Store → Key → Option Val
  | [], _ => none
  | (k', v) :: r, k => if k' = k then some v else sget r k

/-- sorted insert / replace -/
def sput : Store → Key → Val → Store
  | [], k, v => [(k, v)]
  | (k', v') :: r, k, v =>
    if k < k' then (k, v) :: (k', v') :: r
    else if k = k' then (k, v) :: r
    else (k', v') :: sput r k v

def sdel (s : Store) (k : Key) : Store := s.filter (fun e => e.1 != k)

/-- `some rest` when `p` is a prefix of `k` -/
def stripPrefix? : List Char → List Char → Option (List Char)
  | [], k => some k
  | _ :: _, [] => none
  | a :: p, b :: k => if a = b then stripPrefix? p k else none

/-- the listing entry a key contributes under `pre`: the remainder up to and including the first `/` -/
def childOf (pre : String) (key : String) : Option String :=
  match stripPrefix? pre.toList key.toList with
  | none => none
  | some rest =>
    let head := rest.takeWhile (· != '/')
    if head.length < rest.length then some (String.ofList (head ++ ['/'])) else some (String.ofList head)

def dedup : List String → List String → List String
  | _, [] => []
  | seen, c :: r => if seen.contains c then dedup seen r else c :: dedup (c :: seen) r

/-- the listing contract used by the spec: children of `pre` in key order, each once, strictly after `after`
    (when `after ≠ ""`), at most `limit` of them when `limit > 0` -/
def slist (s : Store) (pre after : String) (limit : Int) : List String :=
  let cs := dedup [] (s.filterMap (fun e => childOf pre e.1))
  let cs := cs.filter (fun c => after == "" || after < c)
  if limit > 0 then cs.take limit.toNat else cs

inductive Op where
  | get (k : Key)
  | put (k : Key) (v : Val)
  | del (k : Key)
  | list (pre after : String) (limit : Int)
  deriving DecidableEq, Repr

inductive Obs where
  | val (v : Option Val)       -- what a get returned
  | pre (v : Option Val)       -- the pre-image a put / delete replaced
  | keys (l : List String)     -- what a listing returned
  deriving DecidableEq, Repr

def step (s : Store) : Op → Obs × Store
  | .get k => (.val (sget s k), s)
  | .put k v => (.pre (sget s k), sput s k v)
  | .del k => (.pre (sget s k), sdel s k)
  | .list p a l => (.keys (slist s p a l), s)

/-- serial execution of a transaction's operations against a store -/
def exec (s : Store) : List Op → List Obs × Store
  | [] => ([], s)
  | o :: r =>
    let (b, s1) := step s o
    let (bs, s2) := exec s1 r
    (b :: bs, s2)

def Op.isWrite : Op → Bool
  | .put .. => true
  | .del .. => true
  | _ => false

/-- a committed unit of the serial history: the operations of one transaction (or one plain write) with the
    observations it made -/
structure CommitRec where
  ops : List Op
  obs : List Obs
  deriving DecidableEq, Repr

/-- run the committed units one at a time, in order; `none` as soon as a unit would observe something else
    than it did in the concurrent execution -/
def replaySerial (s : Store) : List CommitRec → Option Store
  | [] => some s
  | r :: rest =>
    let (obs, s') := exec s r.ops
    if obs = r.obs then replaySerial s' rest else none

end Obao.SerialTxn
