import Obao.Model.Router
/-!
Model of the confinement decisions of the request path of the core (`internal/vault/request_handling.go`
`switchedLockHandleRequest` → `handleCancelableRequest` → `CheckToken` → router → backend), as far as C12 is
concerned:

* relative request paths are refused up front unless the core was built with `UnsafeRelativePaths`;
* the request namespace is the longest registered namespace path that is a prefix of `header ++ path`
  (`NamespaceStore.ResolveNamespaceFromRequest`), and the whole header must be consumed;
* a namespace whose nearest sealable ancestor-or-self is sealed refuses every request (`NamespaceSealed`);
* the token's namespace comes from the token; policies are parsed with the token namespace's path prepended
  (`policy.parsePaths`), the root policy allows exactly the descendants of the token's namespace
  (`ACL.AllowOperation`, `Namespace.HasParent`);
* the mount is the longest mount prefix inside the resolved namespace; its storage is
  `namespaces/<ns>/logical/<uuid>/` — represented here by the pair (namespace ordinal, mount ordinal);
* the cubbyhole backend keys everything by the token's cubbyhole id (here: the token ordinal).

Backends in the model: the harness's `c12rec` (uses the request parameter `skey` verbatim as storage key) and the
built-in cubbyhole. All policies used by the harness grant every capability on every listed pattern, so a request
is allowed iff some pattern matches (rule priority is irrelevant; it is C03's subject).
-/
namespace Obao.Confine
open Obao.View Obao.Router

structure Ns where
  path : Bytes          -- canonical: "" (root) or ends with '/'
  sealable : Bool
  sealed : Bool
  deriving DecidableEq, Repr

structure Mount where
  ns : Bytes            -- namespace path
  path : Bytes          -- mount path inside the namespace
  id : Nat
  deriving DecidableEq, Repr

structure Tok where
  ord : Nat
  ns : Bytes            -- the token's namespace path
  isRoot : Bool         -- carries the "root" policy
  pats : List Bytes     -- policy paths as written (relative to the token's namespace)
  deriving Repr

inductive Target where
  | mount (id : Nat)            -- storage of c12rec mount `id`: `<ns prefix>logical/<uuid of id>/`
  | cubby (ns : Nat) (owner : Nat)  -- cubbyhole mount of namespace `ns`, sub-tree of token `owner`'s cubbyhole id
  deriving DecidableEq, Repr

inductive Kind where
  | get | put | delete | list
  deriving DecidableEq, Repr

structure Touch where
  tgt : Target
  kind : Kind
  key : Bytes            -- key below the target prefix
  deriving DecidableEq, Repr

structure St where
  unsafeRel : Bool := false
  nss : List Ns := []             -- non-root namespaces in creation order (ordinal = index + 1)
  mounts : List Mount := []
  toks : List Tok := []
  keys : List Bytes := []         -- composite storage keys present (sorted), see `composite`
  vals : List ((Target × Bytes) × Nat) := [] -- (target, key below it) ↦ ordinal of the token that wrote it
  deriving Repr

inductive Outcome where
  | ok | found (writer : Nat) | notFound | listed (names : List Bytes)
  | denied | errRelative | errSealed | errNoNs | errEscape | errTrailSlash | errTokSealed | errUnsupported | errInternal
  deriving DecidableEq, Repr

/-! ### namespaces -/

def allNs (s : St) : List Ns := { path := [], sealable := false, sealed := false } :: s.nss

def nsOrd (s : St) (p : Bytes) : Option Nat := (allNs s).findIdx? (·.path == p)

/-- one step of `path.Clean` over the '/'-separated elements (`rooted`: the path starts with '/') -/
def cleanStep (rooted : Bool) (out : List Bytes) (seg : Bytes) : List Bytes :=
  if seg = [] ∨ seg = [dot] then out
  else if seg = [dot, dot] then
    match out.getLast? with
    | some l => if l = [dot, dot] then out ++ [seg] else out.dropLast
    | none => if rooted then out else out ++ [seg]
  else out ++ [seg]

/-- the segments `namespaceTree.LongestPrefix` walks: `namespace.Canonicalize(path)` (strip ONE leading '/',
`path.Clean`, trailing '/') split after every '/'. A path that is still rooted after stripping one '/' canonicalises
to "/…", whose first segment "/" is no namespace: nothing can be walked. -/
def canonSegs (p : Bytes) : List Bytes :=
  let p := match p with | c :: r => if c = slash then r else c :: r | [] => []
  let rooted := p.head? == some slash
  if rooted then [] else (splitSlash p).foldl (cleanStep false) []

/-- segments of a canonical namespace path ("" ↦ [], "a/b/" ↦ [a, b]) -/
def nsSegs (p : Bytes) : List Bytes := (splitSlash p).dropLast

/-- the deepest namespace whose segments are a prefix of `segs` (the tree walk stops at the first missing child;
a namespace exists only below existing parents, so this is the longest such namespace) -/
def deepestNs : List Ns → List Bytes → Option Ns
  | [], _ => none
  | n :: t, segs =>
    match deepestNs t segs with
    | some b => if (nsSegs n.path).isPrefixOf segs ∧ b.path.length < n.path.length then some n else some b
    | none => if (nsSegs n.path).isPrefixOf segs then some n else none

/-- longest namespace path that is a byte prefix of `q` (used for the nearest sealable ancestor) -/
def longestNs : List Ns → Bytes → Option Ns
  | [], _ => none
  | n :: t, q =>
    match longestNs t q with
    | some b => if n.path.isPrefixOf q ∧ b.path.length < n.path.length then some n else some b
    | none => if n.path.isPrefixOf q then some n else none

/-- strict descendant of a sealed sealable namespace: unloaded from the namespace tree while the ancestor is sealed -/
def underSealed (s : St) (p : Bytes) : Bool :=
  s.nss.any fun n => n.sealable && n.sealed && n.path.isPrefixOf p && n.path != p

/-- namespaces currently present in the namespace tree -/
def liveNs (s : St) : List Ns := (allNs s).filter fun n => !underSealed s n.path

/-- `ResolveNamespaceFromRequest(nsHeader, reqPath)`; `hdr` is already canonical. The tree is walked along the
CLEANED path but the remainder is cut from the ORIGINAL one (`strings.TrimPrefix(path, namespacePrefix)`). -/
def resolveNs (s : St) (hdr path : Bytes) : Option (Ns × Bytes) :=
  let hdr := if hdr = strOf "root/" then [] else hdr
  let full := hdr ++ path
  match deepestNs (liveNs s) (if full = [] then [] else canonSegs full) with
  | none => none
  | some n => if hdr.isPrefixOf n.path then some (n, trimPrefix full n.path) else none

/-- `Namespace.HasParent` -/
def hasParent (n parent : Bytes) : Bool :=
  if parent = [] then true else if n = [] then false else parent.isPrefixOf n

/-- `Core.NamespaceSealed`: the barrier of the nearest sealable ancestor-or-self (root is never sealed here) -/
def nsSealed (s : St) (p : Bytes) : Bool :=
  match longestNs ((allNs s).filter (fun n => n.sealable || n.path == [])) p with
  | some n => n.sealed
  | none => false

/-! ### creating, sealing and unsealing namespaces (`NamespaceStore.SetNamespaceWithSeal`, `SealNamespace`,
`sealNamespaceLocked`, `UnsealNamespace`)

`Ns.sealed` of a namespace with its own seal means: "the namespace's OWN key shares were not supplied since a seal
last covered it". A namespace with an own seal is created sealed. `SealNamespace(p)` walks the subtree of `p` in
post-order and seals the barrier of EVERY namespace in it that owns one (and unloads the descendants).
`UnsealNamespace(p)` with `p`'s own shares unseals `p`'s barrier only; descendants are re-discovered from storage, a
descendant with an own barrier stays sealed (`NamespaceSealed(newNs)` ⇒ its mounts are not loaded). Both operations
are requests to the PARENT namespace's `sys/namespaces/<name>/(un)seal`: they are refused while a sealed namespace
lies strictly above `p`. -/

/-- `sealNamespaceLocked`: every own-barrier namespace at or below `p` is sealed -/
def sealNs (s : St) (p : Bytes) : St :=
  { s with nss := s.nss.map fun n => if n.sealable && p.isPrefixOf n.path then { n with sealed := true } else n }

/-- `UnsealNamespace` with the namespace's own shares: only the barrier of `p` itself -/
def unsealNs (s : St) (p : Bytes) : St :=
  { s with nss := s.nss.map fun n => if n.path == p then { n with sealed := false } else n }

/-- outcome of a seal / unseal request: refused (`namespace is sealed`) while a sealed namespace lies strictly above -/
def sealOp (s : St) (p : Bytes) (doSeal : Bool) : St × Bool :=
  if underSealed s p then (s, false) else ((if doSeal then sealNs s p else unsealNs s p), true)

/-- a new namespace (created below existing ones only); one with an own seal starts sealed -/
def addNs (s : St) (path : Bytes) (sealable : Bool) : St × Bool :=
  if (allNs s).any (fun m => path.isPrefixOf m.path) then (s, false)
  else ({ s with nss := s.nss ++ [{ path, sealable, sealed := sealable }] }, true)

/-! ### policies -/

def hasSegWildcard (p : Bytes) : Bool :=
  p == strOf "+" || (splitSlash p).tail.any (fun sg => sg.head? == some 43) || hasPrefix p (strOf "+/")

def star : Nat := 42
def plus : Nat := 43

/-- segment-wildcard match of `CheckAllowedFromNonExactPaths` (not the bare-mount variant) -/
def matchSegs (isPrefix : Bool) : List Bytes → List Bytes → Bool
  | [], _ => true
  | _ :: _, [] => false
  | w :: ws, p :: ps =>
    if w == [plus] ∨ w == p then matchSegs isPrefix ws ps
    else if isPrefix ∧ ws.isEmpty ∧ w.isPrefixOf p then true
    else false

def matchSegPattern (pat path : Bytes) : Bool :=
  let isPrefix := pat.getLast? == some star
  let cur := if isPrefix then pat.dropLast else pat
  let wc := splitSlash cur
  let parts := splitSlash path
  if parts.length < wc.length then false
  else if ¬ isPrefix ∧ wc.length ≠ parts.length then false
  else matchSegs isPrefix wc parts

/-- does the (namespace-qualified) policy path `pat` match the (namespace-qualified) request path? -/
def patMatches (pat path : Bytes) : Bool :=
  if hasSegWildcard pat then matchSegPattern pat path
  else if pat.getLast? == some star then pat.dropLast.isPrefixOf path
  else pat == path

def trimSlash (p : Bytes) : Bytes := if hasSuffix p [slash] then p.dropLast else p

/-- `policy.parsePaths`: a leading '/' is stripped, then the namespace path is prepended -/
def qualify (nsPath pat : Bytes) : Bytes :=
  nsPath ++ (match pat with | c :: r => if c = slash then r else c :: r | [] => [])

/-- `ACL.AllowOperation` for the harness's policies (every pattern grants every capability) -/
def aclAllows (t : Tok) (reqNs rel : Bytes) (isList : Bool) : Bool :=
  -- the root policy of namespace `t.ns`: the request's namespace lies at or below it, or (since the repair of F101)
  -- the namespace-QUALIFIED path does — the test every other rule makes
  if t.isRoot then hasParent reqNs t.ns || t.ns.isPrefixOf (reqNs ++ rel) else
  let path := reqNs ++ rel
  let pats := t.pats.map (qualify t.ns)
  pats.any fun p =>
    patMatches p path ||
    (isList && !hasSegWildcard p && p.getLast? != some star && p == trimSlash path) ||
    (isList && hasSuffix path [slash] && (hasSegWildcard p || p.getLast? == some star) && patMatches p (trimSlash path))

/-! ### mounts and storage -/

def cubbyPath : Bytes := strOf "cubbyhole/"

inductive Routed where
  | toRec (m : Mount) (rel : Bytes)
  | toCubby (nsOrd : Nat) (rel : Bytes)
  | noRoute

/-- a namespace's mounts are in the router iff the namespace is loaded and not sealed -/
def routable (s : St) (p : Bytes) : Bool := !underSealed s p && !nsSealed s p

/-- the router: ONE table for all namespaces, keyed by `ns.Path ++ mount path`: the c12rec mounts plus every
namespace's own cubbyhole mount, as long as the namespace is loaded and unsealed (no generated request starts with
`sys/`, `identity/` or `auth/`). The look-up key is `ns.Path ++ rel` for the RESOLVED namespace `ns` — with
`UnsafeRelativePaths` the resolved namespace (found along the cleaned path) need not be the namespace whose mount
prefix the raw key carries. Cubbyhole entries carry id 0 and their namespace path in `storage`. -/
def routeIn (s : St) (ns : Ns) (rel : Bytes) : Routed :=
  let recs : Table := (s.mounts.filter (fun m => routable s m.ns)).map
    fun m => { pfx := m.ns ++ m.path, id := m.id, storage := m.ns, tainted := false }
  let cubs : Table := ((allNs s).filter (fun n => routable s n.path)).map
    fun n => { pfx := n.path ++ cubbyPath, id := 0, storage := n.path, tainted := false }
  match findEntry (cubs ++ recs) ns.path rel with
  | none => .noRoute
  | some (e, adj) =>
    let r := relPath ns.path adj e
    if e.id = 0 then
      match nsOrd s e.storage with
      | some no => .toCubby no r
      | none => .noRoute
    else match (s.mounts.filter (fun m => routable s m.ns)).find? (·.id == e.id) with
      | some m => .toRec m r
      | none => .noRoute

def natBytes (n : Nat) : Bytes := strOf (toString n)

/-- composite key standing for the physical key `<mount prefix>/<key>` -/
def composite : Target → Bytes → Bytes
  | .mount id, k => strOf "M" ++ natBytes id ++ [slash] ++ k
  | .cubby ns owner, k => strOf "C" ++ natBytes ns ++ [slash] ++ natBytes owner ++ [slash] ++ k

def lookupVal (s : St) (ck : Target × Bytes) : Option Nat := (s.vals.find? (·.1 == ck)).map (·.2)

inductive OpKind where
  | read | update | delete | list
  deriving DecidableEq, Repr

/-- one storage access through the mount's view: sanity check on the key the BACKEND built, then the access -/
def storageOp (s : St) (tgt : Target) (kind : Kind) (viewKey : Bytes) (relKey : Bytes) (writer : Nat) :
    Option (St × Outcome × Touch) :=
  if isRelativePath viewKey then none else
  let ck := composite tgt relKey
  let tch : Touch := { tgt, kind, key := relKey }
  match kind with
  | .get => match lookupVal s (tgt, relKey) with
      | some w => some (s, .found w, tch)
      | none => some (s, .notFound, tch)
  | .put => some ({ s with keys := insertKey ck s.keys, vals := ((tgt, relKey), writer) :: s.vals.filter (·.1 != (tgt, relKey)) }, .ok, tch)
  | .delete => some ({ s with keys := eraseKey ck s.keys, vals := s.vals.filter (·.1 != (tgt, relKey)) }, .ok, tch)
  | .list => some (s, .listed (listPage s.keys ck [] (-1)), tch)

def rawPrefix : Bytes := strOf "raw/"

/-- everything before the token's policy is consulted: relative-path refusal, namespace resolution, escape check,
sealed check, trailing-slash write refusal, token look-up. `.ok (ns, rel)`: resolved namespace and relative path -/
def precheck (s : St) (t : Tok) (ctxNs : Option Bytes) (hdr path : Bytes) (op : OpKind) : Except Outcome (Ns × Bytes) :=
  if ¬ s.unsafeRel ∧ isRelativePath path then .error .errRelative else
  match resolveNs s ((ctxNs.getD []) ++ hdr) path with
  | none => .error .errNoNs
  | some (ns, rel) =>
    if (match ctxNs with | some c => !hasParent ns.path c | none => false) then .error .errEscape else
    if ns.path ≠ [] ∧ nsSealed s ns.path then .error .errSealed else
    if hasSuffix rel [slash] ∧ op = .update then .error .errTrailSlash else
    if underSealed s t.ns then .error .denied else   -- token namespace unloaded: token not found
    if nsSealed s t.ns then .error .errTokSealed else
    .ok (ns, rel)

/-- existence check (create/update only; only the cubbyhole backend implements one): it runs BEFORE the policy
check, reading `<cubbyhole id of the requesting token>/<path>` in the routed cubbyhole mount -/
def existCheck (t : Tok) (op : OpKind) (routed : Routed) : Option (List Touch) :=
  match op, routed with
  | .update, .toCubby no r =>
    if isRelativePath (natBytes t.ord ++ [slash] ++ r) then none
    else some [{ tgt := .cubby no t.ord, kind := .get, key := r }]
  | _, _ => some []

def kindOf : OpKind → Kind
  | .read => .get | .update => .put | .delete => .delete | .list => .list

/-- cubbyhole `handleList` appends a '/' to a non-empty path that lacks one -/
def cubbyKey (op : OpKind) (r : Bytes) : Bytes :=
  if op = .list ∧ r ≠ [] ∧ ¬ hasSuffix r [slash] then r ++ [slash] else r

/-- the backend call (after the policy allowed the request) -/
def backend (s : St) (t : Tok) (op : OpKind) (skey : Bytes) (routed : Routed) (pre : List Touch) :
    St × Outcome × List Touch :=
  match routed with
  | .noRoute => (s, .errUnsupported, pre)
  | .toRec m r =>
    if ¬ rawPrefix.isPrefixOf r ∧ r ≠ [] then (s, .errUnsupported, pre) else   -- paths: `raw/…` and the mount root
    match storageOp s (.mount m.id) (kindOf op) skey skey t.ord with
    | none => (s, .errRelative, pre)
    | some (s', o, tch) => (s', o, pre ++ [tch])
  | .toCubby no r =>
    if op ≠ .list ∧ op ≠ .delete ∧ cubbyKey op r = [] then (s, .errInternal, pre) else
    match storageOp s (.cubby no t.ord) (kindOf op) (natBytes t.ord ++ [slash] ++ cubbyKey op r) (cubbyKey op r) t.ord with
    | none => (s, .errRelative, pre)
    | some (s', o, tch) => (s', o, pre ++ [tch])

/-- the whole request: (token, context namespace (none = no namespace in the context), canonical header, path,
operation, skey) ↦ new state, outcome, mount-storage keys touched in order -/
def request (s : St) (t : Tok) (ctxNs : Option Bytes) (hdr path : Bytes) (op : OpKind) (skey : Bytes) :
    St × Outcome × List Touch :=
  match precheck s t ctxNs hdr path op with
  | .error o => (s, o, [])
  | .ok (ns, rel) =>
    let routed := routeIn s ns rel
    match existCheck t op routed with
    | none => (s, .errInternal, [])
    | some pre =>
      if ¬ aclAllows t ns.path rel (op = .list) then (s, .denied, pre)
      else backend s t op skey routed pre

/-! ### histories -/

/-- one event of a history: namespace creation, seal, unseal (own shares), a request, or any change of the mount
table / token set (mount, unmount, remount, token creation, …) -/
inductive Ev where
  | addNs (path : Bytes) (sealable : Bool)
  | sealEv (p : Bytes)
  | unsealEv (p : Bytes)
  | req (t : Tok) (ctx : Option Bytes) (hdr path : Bytes) (op : OpKind) (skey : Bytes)
  | setup (mounts : List Mount) (toks : List Tok)

def stepEv (s : St) : Ev → St
  | .addNs p sl => (addNs s p sl).1
  | .sealEv p => (sealOp s p true).1
  | .unsealEv p => (sealOp s p false).1
  | .req t ctx hdr path op skey => (request s t ctx hdr path op skey).1
  | .setup mounts toks => { s with mounts := mounts, toks := toks }

def runEvs (s : St) (evs : List Ev) : St := evs.foldl stepEv s

/-! ### seal material of a separately sealed namespace (`SealManager.performRootRotation`, rotate.go)

A root-key rotation of the namespace whose storage prefix is `pre` (`""` for the root namespace, `namespaces/<uuid>/`
otherwise) writes, in this order: the stored keys (seal-wrapped new root key), the keyring and the root-key entry
(`RotateRootKey` → `persistKeyring`, both under the barrier's `metaPrefix`), the namespace's copy of the new seal key
and the new seal configuration. `persistKeyring` additionally deletes the legacy `core/master` entry — of the root
namespace only. -/

def rotationRel : List String :=
  ["core/hsm/barrier-unseal-keys", "core/keyring", "core/root-key", "core/shamir-kek", "core/seal-config"]

/-- (kind, physical key) of every write of the rotation -/
def rotationWrites (pre : String) : List (String × String) :=
  (rotationRel.map fun r => ("put", pre ++ r)) ++ (if pre == "" then [("delete", "core/master")] else [])

/-- the same rotation with `backup = true` (PGP-encrypted shares kept for retrieval): one more record,
`core/unseal-keys-backup`, under the namespace's prefix like the others (repair F92) -/
def rotationWritesBackup (pre : String) : List (String × String) :=
  rotationWrites pre ++ [("put", pre ++ "core/unseal-keys-backup")]

/-- NOT the code (finding F92, repaired): the backup written through the namespace's barrier under the bare key, i.e.
over the ROOT namespace's record -/
def rotationWritesBackupBare (pre : String) : List (String × String) :=
  rotationWrites pre ++ [("put", "core/unseal-keys-backup")]

/-- NOT the code (findings F49/F50, repaired): the seal-key copy written to the bare path and the legacy entry deleted
whatever the namespace -/
def rotationWritesUnprefixed (pre : String) : List (String × String) :=
  [("put", pre ++ "core/hsm/barrier-unseal-keys"), ("put", pre ++ "core/keyring"), ("put", pre ++ "core/root-key"),
   ("put", "core/shamir-kek"), ("put", pre ++ "core/seal-config"), ("delete", "core/master")]

end Obao.Confine
