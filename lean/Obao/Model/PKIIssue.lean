import Obao.Model.PKINames
import Obao.Model.PKIValidity
/-!
Model of one issuance request to the PKI engine, end to end: `pathIssue` / `pathSign` / `pathSignVerbatim`
→ `pathIssueSignCert` → `generateCert` | `signCert` → `generateCreationBundle` → `certutil.createCertificate`
| `certutil.signCertificate`, reduced to what the property names: which request is refused (with the class
of the refusal, in the order the code tests), and for an accepted one the certificate's CA flag, validity,
common name, SANs, key type/size and usages.  Signatures and serial numbers are symbolic (DESIGN section 4).
-/
namespace Obao.PKIIssue
open Obao.PKI Obao.PKIValidity

inductive Endpoint where
  | issue | sign | verbatim
  deriving DecidableEq, Repr

/-- one network of `allowed_ip_sans_cidr` as `net.ParseCIDR` stores it: address family, base address, prefix length -/
structure CIDR where
  v4 : Bool
  base : Nat
  plen : Nat
  deriving Repr, DecidableEq

structure Role where
  names : NameRole
  allowIPSANs : Bool
  /-- `allowed_ip_sans_cidr`; empty = no restriction beyond `allow_ip_sans` -/
  allowedIPCIDRs : List CIDR := []
  allowedURISANs : List Str
  /-- `allowed_serial_numbers`: which Subject serialNumber attributes the role permits (glob patterns; empty = none) -/
  allowedSerials : List Str := []
  keyType : String
  keyBits : Nat
  (keyUsage extKeyUsage : List String)
  (serverFlag clientFlag codeSigningFlag emailProtectionFlag : Bool)
  (useCSRCN useCSRSANs requireCN bcValidForNonCA : Bool)
  (ttl maxTTL nbd : Int)
  (notBefore notAfter : Option Int)
  nbb : NBB
  nab : NAB
  deriving Repr

/-- an extension of a CSR, as far as the model looks at it -/
inductive CsrExt where
  | basicConstraintsCA   -- BasicConstraints with cA = TRUE
  | subjectAltName
  | other (n : Nat)
  deriving DecidableEq, Repr

structure CSR where
  cn : Str
  (dns emails : List Str)
  ips : List String
  uris : List Str
  exts : List CsrExt
  keyType : String
  keyBits : Nat
  /-- the Subject serialNumber attribute of the CSR (empty = none) -/
  serial : Str := []
  deriving Repr

structure Req where
  ep : Endpoint
  cn : Str
  altNames : List Str
  ipSans : List String
  uriSans : List Str
  excludeCN : Bool
  /-- request `key_type` (`none` = not given) and `key_bits` (issue only) -/
  keyType : Option String
  keyBits : Option Nat
  ttl : Int
  (notBefore notAfter : Option Int)
  /-- sign-verbatim: `key_usage`, `ext_key_usage`, `basic_constraints_valid_for_non_ca` parameters -/
  (keyUsage extKeyUsage : List String)
  bcValidForNonCA : Option Bool
  /-- sign-verbatim without a role in the path -/
  noRole : Bool
  csr : Option CSR
  /-- the `serial_number` request parameter (empty = not given) -/
  serial : Str := []
  deriving Repr

structure Env where
  now : Int
  /-- ticks per second -/
  unit : Int
  (mountDefault mountMax : Int)
  issuerNotAfter : Int
  lnab : LNAB
  deriving Repr

structure Cert where
  isCA : Bool
  bcValid : Bool
  (notBefore notAfter : Int)   -- whole seconds
  cn : Str
  (dns emails : List Str)
  ips : List String
  uris : List Str
  keyType : String
  keyBits : Nat
  keyUsage : Nat
  extKeyUsage : List Nat
  /-- Subject serialNumber attribute (empty = none) -/
  subjSerial : Str := []
  deriving Repr

inductive Res where
  | ok (c : Cert)
  | err (cls : String)
  deriving Repr

/-! ### small tables -/

def lowerS (s : String) : String := String.ofList (lower s.toList)

/-- `parseKeyUsages`: the `x509.KeyUsage` bit of one name -/
def keyUsageBit (k : String) : Nat :=
  match lowerS k with
  | "digitalsignature" => 1
  | "contentcommitment" => 2
  | "keyencipherment" => 4
  | "dataencipherment" => 8
  | "keyagreement" => 16
  | "certsign" => 32
  | "crlsign" => 64
  | "encipheronly" => 128
  | "decipheronly" => 256
  | _ => 0

def parseKeyUsages (ks : List String) : Nat := ks.foldl (fun acc k => acc ||| keyUsageBit k) 0

/-- `parseExtKeyUsagesValue`: the `x509.ExtKeyUsage` enum value of one name -/
def extKeyUsageOf (k : String) : Option Nat :=
  match lowerS k with
  | "any" => some 0
  | "serverauth" => some 1
  | "clientauth" => some 2
  | "codesigning" => some 3
  | "emailprotection" => some 4
  | "ipsecendsystem" => some 5
  | "ipsectunnel" => some 6
  | "ipsecuser" => some 7
  | "timestamping" => some 8
  | "ocspsigning" => some 9
  | "microsoftservergatedcrypto" => some 10
  | "netscapeservergatedcrypto" => some 11
  | _ => none

/-- `parseExtKeyUsages` followed by `AddKeyUsages`: the certificate's ExtKeyUsage list (ascending enum order) -/
def extKeyUsages (r : Role) : List Nat :=
  let fromFlags := (if r.serverFlag then [1] else []) ++ (if r.clientFlag then [2] else [])
    ++ (if r.codeSigningFlag then [3] else []) ++ (if r.emailProtectionFlag then [4] else [])
  let all := fromFlags ++ r.extKeyUsage.filterMap extKeyUsageOf
  (List.range 12).filter (fun n => all.contains n)

/-- `ValidateKeyTypeLength` -/
def validKeyTypeLength (kt : String) (kb : Nat) : Bool :=
  match kt with
  | "rsa" => kb == 2048 || kb == 3072 || kb == 4096 || kb == 8192
  | "ec" => kb == 224 || kb == 256 || kb == 384 || kb == 521
  | "any" | "ed25519" | "external-key" => true
  | _ => false

/-- `DefaultOrValueKeyBits` -/
def defaultKeyBits (kt : String) (kb : Nat) : Nat :=
  if kb == 0 then (match kt with | "rsa" => 2048 | "ec" => 256 | _ => 0) else kb

/-- `strutil.RemoveDuplicatesStable(items, false)` on items without white space -/
def dedupGo (seen : List Str) : List Str → List Str
  | [] => []
  | x :: xs => if x.isEmpty || seen.contains x then dedupGo seen xs else x :: dedupGo (x :: seen) xs

def dedupStable (l : List Str) : List Str := dedupGo [] l

def strLe (a b : Str) : Bool := String.ofList a ≤ String.ofList b

def insertSorted (le : α → α → Bool) (x : α) : List α → List α
  | [] => [x]
  | y :: ys => if le x y then x :: y :: ys else y :: insertSorted le x ys

def sortBy (le : α → α → Bool) (l : List α) : List α := l.foldr (insertSorted le) []

/-- the IP alphabet of the harness: `net.ParseIP` accepts these (already in `net.IP.String()` form) … -/
def knownValidIPs : List String := ["1.2.3.4", "10.0.0.1", "127.0.0.1", "::1", "2001:db8::1"]
/-- … and refuses these -/
def knownInvalidIPs : List String := ["999.1.1.1", "a.b.c.d", "1.2.3"]

/-- numeric value of the addresses of the harness alphabet: (is IPv4, value) — what `net.IP.To4` / `To16` give -/
def ipValue : String → Option (Bool × Nat)
  | "1.2.3.4" => some (true, 0x01020304)
  | "10.0.0.1" => some (true, 0x0a000001)
  | "127.0.0.1" => some (true, 0x7f000001)
  | "::1" => some (false, 1)
  | "2001:db8::1" => some (false, 0x20010db8000000000000000000000001)
  | _ => none

/-- `net.IPNet.Contains`: same address family (an IPv4 address is never inside an IPv6 network and vice versa) and
equal to the base under the mask -/
def cidrContains (c : CIDR) (ip : Bool × Nat) : Bool :=
  let w := if c.v4 then 32 else 128
  c.v4 == ip.1 && (ip.2 >>> (w - c.plen)) == (c.base >>> (w - c.plen))

/-- the `allowed_ip_sans_cidr` test on ONE address: inside at least one allowed network -/
def ipAllowed (cidrs : List CIDR) (s : String) : Bool :=
  match ipValue s with
  | some v => cidrs.any (cidrContains · v)
  | none => false

/-! ### the synthetic role of sign-verbatim (`buildSignVerbatimRole`) -/

def verbatimRole (req : Req) (role : Role) : Role :=
  { names := { allowedDomains := [], allowBare := false, allowSub := false, allowGlob := false,
               allowWildcard := true, allowLocalhost := true, allowAnyName := true, enforceHostnames := false,
               allowTokenDisplayName := false, displayName := role.names.displayName,
               cnValidations := [str "disabled"] },
    allowIPSANs := true,
    allowedURISANs := [['*']],
    allowedSerials := [['*']],
    keyType := "any", keyBits := 0,
    keyUsage := req.keyUsage, extKeyUsage := req.extKeyUsage,
    serverFlag := false, clientFlag := false, codeSigningFlag := false, emailProtectionFlag := false,
    useCSRCN := true, useCSRSANs := true, requireCN := false,
    bcValidForNonCA := (match req.bcValidForNonCA with
                        | some b => b
                        | none => if req.noRole then false else role.bcValidForNonCA),
    ttl := if ¬ req.noRole ∧ role.ttl > 0 then role.ttl else 0,
    maxTTL := if ¬ req.noRole ∧ role.maxTTL > 0 then role.maxTTL else 0,
    nbd := if ¬ req.noRole ∧ role.nbd > 0 then role.nbd else 0,
    -- the named role's not_after_bound stays in force next to its ttl / max_ttl (repair of F108)
    notBefore := none, notAfter := none, nbb := .other, nab := if req.noRole then .unset else role.nab }

/-! ### generateCreationBundle, names part -/

/-- classify one requested name into the DNS / e-mail SAN lists (the CN and each `alt_names` entry) -/
def addName (acc : List Str × List Str) (v : Str) : Except String (List Str × List Str) :=
  if containsCh v '@' then .ok (acc.1, acc.2 ++ [v])
  else match idnaToASCII v with
    | none => .error "idna"
    | some c => if hostnameRegex c then .ok (acc.1 ++ [c], acc.2) else .ok acc

def addNames (acc : List Str × List Str) : List Str → Except String (List Str × List Str)
  | [] => .ok acc
  | v :: vs => match addName acc v with
    | .error e => .error e
    | .ok acc' => addNames acc' vs

structure Names where
  cn : Str
  (dns emails : List Str)
  serial : Str := []
  deriving Repr

/-- the Subject serialNumber the certificate will carry: the `serial_number` parameter, else the CSR's -/
def chosenSerial (req : Req) : Str :=
  if !req.serial.isEmpty then req.serial else match req.csr with | some c => c.serial | none => []

/-- `validateSerialNumber`: permitted by an entry of `allowed_serial_numbers` (a glob when it contains `*`, else equal) -/
def serialAllowedIn (allowed : List Str) (sn : Str) : Bool :=
  allowed.any fun a => !a.isEmpty && ((a.contains '*' && glob a sn) || a == sn)

def serialAllowed (role : Role) (sn : Str) : Bool := serialAllowedIn role.allowedSerials sn

/-- the common name: the CSR's when the role says so and it has one, else the `common_name` parameter -/
def chosenCN (role : Role) (req : Req) : Str :=
  let cn0 : Str := match req.csr with
    | some c => if role.useCSRCN then c.cn else []
    | none => []
  if cn0.isEmpty then req.cn else cn0

/-- the SAN lists taken over from the CSR (`use_csr_sans`) -/
def seedSANs (role : Role) (req : Req) : List Str × List Str :=
  match req.csr with
  | some c => if role.useCSRSANs then (c.dns, c.emails) else ([], [])
  | none => ([], [])

/-- DNS and e-mail SANs as requested: CSR values, the common name (unless excluded), `alt_names` (unless the
CSR's SANs are used) -/
def collectNames (role : Role) (req : Req) : Except String (List Str × List Str) :=
  let cn := chosenCN role req
  match (if !cn.isEmpty && !req.excludeCN then addName (seedSANs role req) cn else .ok (seedSANs role req)) with
  | .error e => .error e
  | .ok acc1 =>
    if !(req.csr.isSome && role.useCSRSANs) then addNames acc1 (dedupStable req.altNames) else .ok acc1

def buildNames (role : Role) (req : Req) : Except String Names :=
  let cn := chosenCN role req
  if cn.isEmpty && role.requireCN then .error "cn-required" else
  match collectNames role req with
  | .error e => .error e
  | .ok (dns, emails) =>
    if !cn.isEmpty && cnRefused role.names cn then .error "cn"
    else if !(chosenSerial req).isEmpty && !serialAllowed role (chosenSerial req) then .error "serial"
    else if namesRefused role.names dns then .error "san"
    else if namesRefused role.names emails then .error "email"
    else .ok { cn, dns, emails, serial := chosenSerial req }

/-- IP SANs -/
def buildIPs (role : Role) (req : Req) : Except String (List String) :=
  let fromCSR := req.csr.isSome && role.useCSRSANs
  let parsed : Except String (List String) :=
    if fromCSR then .ok (match req.csr with | some c => c.ips | none => [])
    else if req.ipSans.any (fun s => !knownValidIPs.contains s) then .error "ip-invalid"
    else .ok req.ipSans
  match parsed with
  | .error e => .error e
  | .ok ips =>
    if !ips.isEmpty && !role.allowIPSANs then .error "ip"
    -- EVERY address is tested against the allowed networks (a fresh test per address)
    else if !role.allowedIPCIDRs.isEmpty && ips.any (fun s => !ipAllowed role.allowedIPCIDRs s) then .error "ip-cidr"
    else .ok ips

/-- URI SANs (`validateURISAN` without identity templating) -/
def buildURIs (role : Role) (req : Req) : Except String (List Str) :=
  let fromCSR := req.csr.isSome && role.useCSRSANs
  let uris := if fromCSR then (match req.csr with | some c => c.uris | none => []) else req.uriSans
  if uris.isEmpty then .ok []
  else if role.allowedURISANs.isEmpty then .error "uri"
  else if uris.any (fun u => !role.allowedURISANs.any (fun a => glob a u)) then .error "uri"
  else .ok uris

/-! ### key type / size -/

/-- `pathIssue`: the key that will be generated -/
def issueKey (role : Role) (req : Req) : Except String (String × Nat) :=
  if role.keyType == "any" then
    match req.keyType with
    | none => .error "any-keytype"
    | some kt =>
      let kb := defaultKeyBits kt (match req.keyBits with | some b => b | none => role.keyBits)
      if validKeyTypeLength kt kb then .ok (kt, if kt == "ed25519" then 0 else kb) else .error "keyparams"
  else .ok (role.keyType, if role.keyType == "ed25519" then 0 else role.keyBits)

/-- `signCert`: the checks on the CSR's key against the role -/
def signKey (role : Role) (c : CSR) : Except String (String × Nat) :=
  let known := c.keyType == "rsa" || c.keyType == "ec" || c.keyType == "ed25519"
  if role.keyType == "rsa" || role.keyType == "ec" || role.keyType == "ed25519" then
    if c.keyType != role.keyType then .error "keytype"
    else
      let minBits := role.keyBits
      if c.keyType == "rsa" then
        if c.keyBits < minBits then .error "keybits"
        else if c.keyBits < 2048 then .error "rsa-small"
        else .ok (c.keyType, c.keyBits)
      else if c.keyType == "ec" then
        if c.keyBits < minBits then .error "keybits" else .ok (c.keyType, c.keyBits)
      else .ok (c.keyType, 0)
  else if role.keyType == "any" then
    if !known then .error "keytype-unknown"
    else if c.keyType == "rsa" then
      if c.keyBits < 2048 then .error "rsa-small" else .ok (c.keyType, c.keyBits)
    else if c.keyType == "ec" then
      if c.keyBits < 224 then .error "keybits" else .ok (c.keyType, c.keyBits)
    else .ok (c.keyType, 0)
  else .error "keytype-role"

/-! ### the request -/

def vin (e : Env) (role : Role) (req : Req) : VIn :=
  { now := e.now, reqTTL := req.ttl, reqNotAfter := req.notAfter, roleNotAfter := role.notAfter, nab := role.nab,
    roleTTL := role.ttl, roleMaxTTL := role.maxTTL, mountDefault := e.mountDefault, mountMax := e.mountMax,
    issuer := some (e.issuerNotAfter, e.lnab), reqNotBefore := req.notBefore, roleNotBefore := role.notBefore,
    -- `buildSignVerbatimRole`: the synthetic role of sign-verbatim takes the request's not_before verbatim
    nbb := if req.ep == .verbatim then .permit else role.nbb, nbd := role.nbd }

def verrClass : VErr → String
  | .naForbid => "na-forbid" | .ttlBoth => "ttl-both" | .naTTLLimited => "na-ttl" | .naPast => "na-past"
  | .naBeyondCA => "na-ca" | .naTimestamp => "na-bound" | .nbForbid => "nb-forbid" | .nbDuration => "nb-duration"
  | .nbAfter => "nb-after" | .nbEqual => "nb-equal"

/-- the extensions `signCertificate` copies from the CSR when `UseCSRValues` is set (no other SANs requested) -/
def copiedExts (useCSRValues : Bool) (c : CSR) : List CsrExt :=
  if useCSRValues then c.exts.filter (· != .basicConstraintsCA) else []

/-- the CA flag of the certificate `x509.CreateCertificate` produces: the template's `IsCA` (set only from
`Params.IsCA`, which the three leaf endpoints pass as `false`), or a copied BasicConstraints extension -/
def certIsCA (paramsIsCA : Bool) (copied : List CsrExt) : Bool :=
  paramsIsCA || copied.contains .basicConstraintsCA

/-- the `isCA` argument the endpoint passes to `generateCert` / `signCert` -/
def endpointIsCA : Endpoint → Bool
  | .issue => false | .sign => false | .verbatim => false

def finish (e : Env) (role : Role) (req : Req) (key : String × Nat) (n : Names) (ips : List String) (uris : List Str)
    (v : Int × Int) : Cert :=
  let verb := req.ep == .verbatim
  let copied := match req.csr with | some c => copiedExts verb c | none => []
  let c? := if verb then req.csr else none
  { isCA := certIsCA (endpointIsCA req.ep) copied,
    bcValid := role.bcValidForNonCA,
    notBefore := truncSec e.unit v.1, notAfter := truncSec e.unit v.2,
    cn := (match c? with | some c => c.cn | none => n.cn),
    dns := sortBy strLe (match c? with | some c => c.dns | none => dedupStable n.dns),
    emails := sortBy strLe (match c? with | some c => c.emails | none => dedupStable n.emails),
    ips := sortBy (fun a b => decide (a ≤ b)) (match c? with | some c => c.ips | none => ips),
    uris := sortBy strLe (match c? with | some c => c.uris | none => uris),
    keyType := key.1, keyBits := key.2,
    keyUsage := parseKeyUsages role.keyUsage,
    extKeyUsage := extKeyUsages role,
    subjSerial := (match c? with | some c => c.serial | none => n.serial) }

def process (e : Env) (role0 : Role) (req : Req) : Res :=
  let role := if req.ep == .verbatim then verbatimRole req role0 else role0
  let key : Except String (String × Nat) :=
    match req.ep, req.csr with
    | .issue, _ => issueKey role req
    | _, some c => signKey role c
    | _, none => .error "csr-missing"
  match key with
  | .error x => .err x
  | .ok key =>
    match buildNames role req with
    | .error x => .err x
    | .ok n =>
      match buildIPs role req with
      | .error x => .err x
      | .ok ips =>
        match buildURIs role req with
        | .error x => .err x
        | .ok uris =>
          match (if req.ep == .issue then issueValidity e.unit (vin e role req) else signValidity e.unit (vin e role req)) with
          | .error x => .err (verrClass x)
          | .ok v => .ok (finish e role req key n ips uris v)

end Obao.PKIIssue
