import Obao.Model.Prelude
/-!
Micro-step model of token revocation (`internal/vault/token_store.go`: `revokeInternal`, `revokeTree`,
`revokeTreeInternal`, `storeCommon`, `create`, `lookupInternal`, `revokeCommon`, the revoke handlers;
`expiration.go`: `Revoke`/`revokeCommon`, `RevokeByToken`, `lazyRevokeInternal`,
`CreateOrFetchRevocationLeaseByToken`; `sdk/logical/storage.go`: `ClearView`).

Every request is a `Prog`: a tree of operations with continuations. Storage operations (`get/put/del/list`)
are the *gate* operations — the granularity at which faults are injected, crashes cut, and two requests
interleave; in-memory operations (the `tokensPendingDeletion` map, the expiration manager's pending cache,
id allocation) are *silent*: they execute together with the preceding gate operation, exactly as a
goroutine released from a storage gate runs until its next storage call.

Tokens and leases are ordinals in creation order (`0` is the root token). The state keeps both spellings
of the `tokensPendingDeletion` key (`PKey.salted`, `PKey.raw`): the code used both until commit 17ec2c3 (F2);
the harness still lists both, so a write under the raw id shows as a mismatch.
Listing order is the order of the salted ids, which is random: it is an input (`skey`, `lkey`).
-/
namespace Obao.Revoke

structure TokEntry where
  parent : Option Nat
  marked : Bool          -- NumUses = tokenRevocationPending (-3)
  cubId : Bool := true   -- the entry carries a CubbyholeID (its value is private to the token: `CubKey.cid t`)
  pfx : Bool := true     -- the token id starts with the service prefix (`hvs.` / `s.`): false for caller-chosen ids
  nsRoot : Bool := true  -- the token lives in the root namespace
  deriving DecidableEq, Repr, Inhabited

/-- the two places a token's cubbyhole data can live under the cubbyhole mount -/
inductive CubKey where
  | cid (t : Nat)        -- <CubbyholeID of t>/
  | salted (t : Nat)     -- <view-salt(token-store-salt(id of t))>/  (the doubly salted token id)
  deriving DecidableEq, Repr

/-- `TokenStore.create`: which tokens get a CubbyholeID -/
def createCubId (nsRoot pfx : Bool) : Bool := !nsRoot || pfx

/-- `routing/router.go`: the storage prefix a cubbyhole REQUEST of token `t` is routed to -/
def routerKey (t : Nat) (e : TokEntry) : Option CubKey :=
  if e.nsRoot && !e.pfx then some (.salted t)          -- root namespace, no service prefix: double-salt the token
  else if e.cubId then some (.cid t) else none          -- "empty cubbyhole id"

/-- `destroyCubbyhole` (token_store.go): the storage prefix a REVOCATION of token `t` clears -/
def destroyKey (t : Nat) (e : TokEntry) : Option CubKey :=
  if e.nsRoot && !e.pfx then some (.salted t)          -- `NamespaceID == root && !IsServiceToken(te.ID)`
  else if e.cubId then some (.cid t) else none          -- "missing cubbyhole ID while destroying"

/-- total version of the two rules for entries written by `create` -/
def ckey (t : Nat) (e : TokEntry) : CubKey := if e.nsRoot && !e.pfx then .salted t else .cid t

inductive Key where
  | id (t : Nat)         -- sys/token/id/<salted t>
  | acc (t : Nat)        -- sys/token/accessor/<salted accessor of t>
  | par (p c : Nat)      -- sys/token/parent/<salted p>/<salted c>
  | parTop (c : Nat)     -- sys/token/parent/<salted c>   (the key revokeInternal's orphaning loop deletes)
  | tl (t : Nat)         -- sys/expire/id/auth/token/create[-orphan]/<salted t>   (the token's own lease)
  | sl (l : Nat)         -- sys/expire/id/<mount>/lease/...    (a secret lease)
  | tix (t l : Nat)      -- sys/expire/token/<salted t>/<salted lease id>
  | cub (c : CubKey) (k : Nat)   -- logical/<cubbyhole mount>/<c>/k<k>
  deriving DecidableEq, Repr

inductive Pfx where
  | par (p : Nat) | tix (t : Nat) | cub (c : CubKey)
  deriving DecidableEq, Repr

/-- key of the in-memory `tokensPendingDeletion` map -/
inductive PKey where
  | salted (t : Nat) | raw (t : Nat)
  deriving DecidableEq, Repr

inductive Payload where
  | unit
  | tok (e : TokEntry)
  | tl (expired : Bool)
  | sl (t : Nat) (expired : Bool)
  deriving DecidableEq, Repr

inductive Op where
  | get (k : Key) | put (k : Key) (v : Payload) | del (k : Key) | list (p : Pfx)
  | pendLOS (k : PKey)                       -- sync.Map LoadOrStore(k, true)
  | pendStore (k : PKey) (b : Bool)
  | pendDel (k : PKey)
  | cacheGet (t : Nat)                       -- ExpirationManager.fetchCachedLease for t's own lease
  | cacheSet (t : Nat) (v : Option Bool)     -- updatePending / removeFromPending
  | newTok (skey : Nat)
  | allocId (x : Nat) (skey : Nat)           -- caller-chosen id: first use allocates ordinal `x = next`
  | newLease (lkey : Nat)
  deriving DecidableEq, Repr

def Op.isGate : Op → Bool
  | .get _ | .put _ _ | .del _ | .list _ => true
  | _ => false

def Op.isWrite : Op → Bool
  | .put _ _ | .del _ => true
  | _ => false

inductive Val where
  | unit
  | err                                -- the storage operation failed
  | opt (v : Option Payload)
  | keys (l : List Nat)
  | los (loaded state : Bool)
  | cache (v : Option Bool)
  | fresh (n : Nat)
  deriving DecidableEq, Repr

structure St where
  next : Nat                       -- next token ordinal
  nextL : Nat                      -- next lease ordinal
  kmax : Nat                       -- cubbyhole key names in use are < kmax
  ids : Nat → Option TokEntry
  acc : Nat → Bool
  par : Nat → Nat → Bool
  tl : Nat → Option Bool           -- some expired?
  sl : Nat → Option (Nat × Bool)   -- (issuing token, expired?)
  tix : Nat → Nat → Bool
  cub : CubKey → Nat → Bool
  cache : Nat → Option Bool
  pend : PKey → Option Bool
  skey : Nat → Nat
  lkey : Nat → Nat

/-- a freshly initialised core: only the root token (ordinal 0, no lease, no parent) -/
def St.init : St :=
  { next := 1, nextL := 0, kmax := 0,
    ids := fun t => if t = 0 then some { parent := none, marked := false } else none,
    acc := fun t => t = 0, par := fun _ _ => false, tl := fun _ => none, sl := fun _ => none,
    tix := fun _ _ => false, cub := fun _ _ => false, cache := fun _ => none, pend := fun _ => none,
    skey := fun _ => 0, lkey := fun _ => 0 }

def insertBy (f : Nat → Nat) (x : Nat) : List Nat → List Nat
  | [] => [x]
  | y :: ys => if f x ≤ f y then x :: y :: ys else y :: insertBy f x ys

def sortBy (f : Nat → Nat) : List Nat → List Nat
  | [] => []
  | x :: xs => insertBy f x (sortBy f xs)

def St.children (s : St) (p : Nat) : List Nat := sortBy s.skey ((List.range s.next).filter (s.par p))
def St.leasesOf (s : St) (t : Nat) : List Nat := sortBy s.lkey ((List.range s.nextL).filter (s.tix t))
def St.cubKeys (s : St) (t : CubKey) : List Nat := (List.range s.kmax).filter (s.cub t)

def St.getKey (s : St) : Key → Option Payload
  | .id t => (s.ids t).map .tok
  | .acc t => if s.acc t then some .unit else none
  | .par p c => if s.par p c then some .unit else none
  | .parTop _ => none
  | .tl t => (s.tl t).map .tl
  | .sl l => (s.sl l).map fun (t, e) => .sl t e
  | .tix t l => if s.tix t l then some .unit else none
  | .cub t k => if s.cub t k then some .unit else none

def St.delKey (s : St) : Key → St
  | .id t => { s with ids := fun x => if x = t then none else s.ids x }
  | .acc t => { s with acc := fun x => if x = t then false else s.acc x }
  | .par p c => { s with par := fun x y => if x = p ∧ y = c then false else s.par x y }
  | .parTop _ => s
  | .tl t => { s with tl := fun x => if x = t then none else s.tl x }
  | .sl l => { s with sl := fun x => if x = l then none else s.sl x }
  | .tix t l => { s with tix := fun x y => if x = t ∧ y = l then false else s.tix x y }
  | .cub t k => { s with cub := fun x y => if x = t ∧ y = k then false else s.cub x y }

/-- a put whose payload does not fit the key is a modelling error and leaves the store unchanged -/
def St.putKey (s : St) : Key → Payload → St
  | .id t, .tok e => { s with ids := fun x => if x = t then some e else s.ids x }
  | .acc t, .unit => { s with acc := fun x => if x = t then true else s.acc x }
  | .par p c, .unit => { s with par := fun x y => if x = p ∧ y = c then true else s.par x y }
  | .tl t, .tl e => { s with tl := fun x => if x = t then some e else s.tl x }
  | .sl l, .sl t e => { s with sl := fun x => if x = l then some (t, e) else s.sl x }
  | .tix t l, .unit => { s with tix := fun x y => if x = t ∧ y = l then true else s.tix x y }
  | .cub t k, .unit => { s with cub := fun x y => if x = t ∧ y = k then true else s.cub x y,
                                  kmax := if s.kmax ≤ k then k + 1 else s.kmax }
  | _, _ => s

def exec (o : Op) (s : St) : St × Val :=
  match o with
  | .get k => (s, .opt (s.getKey k))
  | .put k v => (s.putKey k v, .unit)
  | .del k => (s.delKey k, .unit)
  | .list (.par p) => (s, .keys (s.children p))
  | .list (.tix t) => (s, .keys (s.leasesOf t))
  | .list (.cub t) => (s, .keys (s.cubKeys t))
  | .pendLOS k =>
    match s.pend k with
    | some b => (s, .los true b)
    | none => ({ s with pend := fun x => if x = k then some true else s.pend x }, .los false true)
  | .pendStore k b => ({ s with pend := fun x => if x = k then some b else s.pend x }, .unit)
  | .pendDel k => ({ s with pend := fun x => if x = k then none else s.pend x }, .unit)
  | .cacheGet t => (s, .cache (s.cache t))
  | .cacheSet t v => ({ s with cache := fun x => if x = t then v else s.cache x }, .unit)
  | .newTok sk => ({ s with next := s.next + 1, skey := fun x => if x = s.next then sk else s.skey x }, .fresh s.next)
  | .allocId x sk =>
    if x = s.next then ({ s with next := s.next + 1, skey := fun y => if y = s.next then sk else s.skey y }, .fresh x)
    else (s, .fresh x)
  | .newLease lk => ({ s with nextL := s.nextL + 1, lkey := fun x => if x = s.nextL then lk else s.lkey x }, .fresh s.nextL)

/-! ### programs -/

inductive Err where
  | storage     -- an injected / real storage error surfaced (`err:internal`)
  | denied      -- permission denied (token not usable)
  | invalid     -- logical.ErrInvalidRequest
  | fuel        -- the model's recursion budget ran out (never observed; see `fuelDefault`)
  | bad         -- ill-typed value: a modelling error, never a behaviour of the code
  deriving DecidableEq, Repr

inductive Prog (α : Type) where
  | ret (r : Except Err α)
  | io (o : Op) (k : Val → Prog α)

namespace Prog

def bindE : Prog α → (Except Err α → Prog β) → Prog β
  | .ret r, f => f r
  | .io o k, f => .io o (fun v => (k v).bindE f)

def bind : Prog α → (α → Prog β) → Prog β
  | .ret (.ok a), f => f a
  | .ret (.error e), _ => .ret (.error e)
  | .io o k, f => .io o (fun v => (k v).bind f)

instance : Monad Prog where
  pure a := .ret (.ok a)
  bind := Prog.bind

def fail (e : Err) : Prog α := .ret (.error e)

end Prog

open Prog

def getKey (k : Key) : Prog (Option Payload) :=
  .io (.get k) fun | .opt v => pure v | .err => fail .storage | _ => fail .bad

def putKey (k : Key) (v : Payload) : Prog Unit :=
  .io (.put k v) fun | .unit => pure () | .err => fail .storage | _ => fail .bad

def delKey (k : Key) : Prog Unit :=
  .io (.del k) fun | .unit => pure () | .err => fail .storage | _ => fail .bad

def listPfx (p : Pfx) : Prog (List Nat) :=
  .io (.list p) fun | .keys l => pure l | .err => fail .storage | _ => fail .bad

def getTok (t : Nat) : Prog (Option TokEntry) := do
  match ← getKey (.id t) with
  | none => pure none
  | some (.tok e) => pure (some e)
  | some _ => fail .bad

def getTL (t : Nat) : Prog (Option Bool) := do
  match ← getKey (.tl t) with
  | none => pure none
  | some (.tl e) => pure (some e)
  | some _ => fail .bad

def pendLOS (k : PKey) : Prog (Bool × Bool) :=
  .io (.pendLOS k) fun | .los l st => pure (l, st) | _ => fail .bad
def pendStore (k : PKey) (b : Bool) : Prog Unit := .io (.pendStore k b) fun _ => pure ()
def pendDel (k : PKey) : Prog Unit := .io (.pendDel k) fun _ => pure ()
def cacheGet (t : Nat) : Prog (Option Bool) := .io (.cacheGet t) fun | .cache v => pure v | _ => fail .bad
def cacheSet (t : Nat) (v : Option Bool) : Prog Unit := .io (.cacheSet t v) fun _ => pure ()
def newTok (sk : Nat) : Prog Nat := .io (.newTok sk) fun | .fresh n => pure n | _ => fail .bad
def allocId (x sk : Nat) : Prog Nat := .io (.allocId x sk) fun | .fresh n => pure n | _ => fail .bad
def newLease (lk : Nat) : Prog Nat := .io (.newLease lk) fun | .fresh n => pure n | _ => fail .bad

def forM' : List Nat → (Nat → Prog Unit) → Prog Unit
  | [], _ => pure ()
  | x :: xs, f => do f x; forM' xs f

/-- `logical.ClearView` on the token's cubbyhole sub-view (flat keys): `CountKeys` scans (one page, plus the
terminating empty page when there were keys), then the deleting scan does the same and deletes each key. -/
def cubDestroy (t : CubKey) : Prog Unit := do
  let ks ← listPfx (.cub t)
  if !ks.isEmpty then let _ ← listPfx (.cub t)
  let ks2 ← listPfx (.cub t)
  forM' ks2 fun k => delKey (.cub t k)
  if !ks2.isEmpty then let _ ← listPfx (.cub t)

/-- `lazyRevokeInternal`: mark the lease as expiring now (the expiration workers finish it asynchronously) -/
def lazyRevoke (l : Nat) : Prog Unit := do
  match ← getKey (.sl l) with
  | none => pure ()
  | some (.sl t _) => putKey (.sl l) (.sl t true)
  | some _ => fail .bad

/-- `lookupLeasesByToken`: list the token index, read every index entry -/
def leasesByToken (t : Nat) : Prog (List Nat) := do
  let ls ← listPfx (.tix t)
  let rec go : List Nat → List Nat → Prog (List Nat)
    | [], acc => pure acc.reverse
    | l :: rest, acc => do
      match ← getKey (.tix t l) with
      | none => go rest acc
      | some _ => go rest (l :: acc)
  go ls []

/-- `RevokeByToken`: lazily revoke every lease in the token index, then `revokeCommon(tokenLease, skipToken)`:
delete the token's own lease without calling back into the token store -/
def revokeByToken (t : Nat) : Prog Unit := do
  let ls ← leasesByToken t
  forM' ls lazyRevoke
  match ← getTL t with
  | none => pure ()
  | some _ => do delKey (.tl t); cacheSet t none

/-- `CreateOrFetchRevocationLeaseByToken`: a lease that expires immediately is persisted (not put in the
pending cache) when the token has none -/
def createOrFetch (t : Nat) : Prog Unit := do
  match ← getTL t with
  | some _ => pure ()
  | none => putKey (.tl t) (.tl true)

/-- `revokeInternal`, the marker write: `NumUses = tokenRevocationPending`; on failure the map is reset under the
salted id (commit 17ec2c3; before it the reset went to `entry.ID`, a key nobody reads: F2) -/
def riMark (t : Nat) (e : TokEntry) : Prog Unit :=
  if !e.marked then
    (putKey (.id t) (.tok { e with marked := true })).bindE fun
      | .ok () => pure ()
      | .error err => do pendStore (.salted t) false; fail err   -- `Store(saltedID, false)` (was entry.ID: F2, fixed 17ec2c3)
  else pure ()

/-- `revokeInternal`, the part guarded by the deferred function; `ol` is the orphaning loop -/
def riBody (t : Nat) (e : TokEntry) (skipOrphan : Bool) (ol : List Nat → Prog Unit) : Prog Unit := do
  match destroyKey t e with
  | some c => cubDestroy c
  | none => fail .storage                     -- "missing cubbyhole ID while destroying"
  revokeByToken t
  match e.parent with
  | some p => delKey (.par p t)
  | none => pure ()
  delKey (.acc t)
  if !skipOrphan then do
    let ch ← listPfx (.par t)
    ol ch

/-- `revokeInternal`, the deferred function: delete the entry when everything else succeeded, then record the
outcome in `tokensPendingDeletion` under the salted id -/
def riFinish (t : Nat) (r : Except Err Unit) : Prog Unit :=
  match r with
  | .ok () =>
    (delKey (.id t)).bindE fun
      | .ok () => do pendDel (.salted t); pure ()
      | .error err => do pendStore (.salted t) false; fail err
  | .error err => do pendStore (.salted t) false; fail err

/-- `revokeInternal` after its own `lookupInternal`: a lookup error resets the map (commit 17ec2c3; before it the
error returned with the state still `true`: F36); a missing entry returns WITHOUT resetting it (F35) -/
def riAfterLookup (t : Nat) (skipOrphan : Bool) (ol : List Nat → Prog Unit) : Except Err (Option TokEntry) → Prog Unit
  | .error err => do pendStore (.salted t) false; fail err
  | .ok none => pure ()
  | .ok (some e) => do
    riMark t e
    -- from here on the deferred function runs
    (riBody t e skipOrphan ol).bindE (riFinish t)

mutual

/-- `lookupInternal(id, tainted)`; the lease-less branch revokes the token on the spot -/
def lookup : Nat → Nat → Bool → Prog (Option TokEntry)
  | 0, _, _ => fail .fuel
  | f+1, t, tainted => do
    match ← getTok t with
    | none => pure none
    | some e =>
      if e.marked && !tainted then pure none
      else if t = 0 then pure (some e)          -- root policy, TTL 0: fast path, no lease needed
      else
        match ← cacheGet t with
        | some exp => pure (if !exp || tainted then some e else none)
        | none =>
          match ← getTL t with
          | some exp => do
            cacheSet t (some exp)                -- loadEntryInternal(restoreMode = true): updatePending
            pure (if !exp || tainted then some e else none)
          | none => do
            createOrFetch t
            expRevoke f t
            pure none

/-- `ExpirationManager.Revoke(lease of token t)` = `revokeCommon(leaseID, force=false, skipToken=false)` -/
def expRevoke : Nat → Nat → Prog Unit
  | 0, _ => fail .fuel
  | f+1, t => do
    match ← getTL t with
    | none => pure ()
    | some _ => do
      revokeTree f t
      delKey (.tl t)
      cacheSet t none

/-- `revokeTree` / `revokeTreeInternal` -/
def revokeTree : Nat → Nat → Prog Unit
  | 0, _ => fail .fuel
  | f+1, t => do
    let _ ← lookup f t true
    dfs f [t] []

/-- the iterative DFS of `revokeTreeInternal`: the stack grows at the end, `seen` are the ids that have been
on top of the stack; index entries pointing at a seen id are deleted ("token cycle found") -/
def dfs : Nat → List Nat → List Nat → Prog Unit
  | 0, _, _ => fail .fuel
  | f+1, stack, seen =>
    match stack.getLast? with
    | none => pure ()
    | some top => do
      let seen' := top :: seen
      let ch ← listPfx (.par top)
      let kept := ch.filter fun c => !seen'.contains c
      forM' (ch.filter fun c => seen'.contains c) fun c => delKey (.par top c)
      if kept.isEmpty then do
        revokeInternal f top true
        if stack.length = 1 then pure () else dfs f stack.dropLast seen'
      else dfs f (stack ++ kept) seen'

/-- `revokeInternal(saltedID, skipOrphan)` -/
def revokeInternal : Nat → Nat → Bool → Prog Unit
  | 0, _, _ => fail .fuel
  | f+1, t, skipOrphan => do
    let (loaded, state) ← pendLOS (.salted t)
    if loaded && state then pure () else
    (lookup f t true).bindE (riAfterLookup t skipOrphan (orphanLoop f))

/-- the orphaning loop of `revokeInternal` (`!skipOrphan`) -/
def orphanLoop : Nat → List Nat → Prog Unit
  | 0, _ => fail .fuel
  | _, [] => pure ()
  | f+1, c :: cs => do
    match ← lookup f c true with
    | none => delKey (.parTop c)
    | some _ => do
      -- `clearParent` (repair F82): the entry is read again with the child's lock held and that copy is rewritten
      match ← lookup f c true with
      | none => pure ()
      | some ce => putKey (.id c) (.tok { ce with parent := none })
      delKey (.parTop c)               -- `Delete(ctx, child)`: not the index entry `<parent>/<child>`
    orphanLoop f cs

end

/-- token store `revokeCommon` (auth/token/revoke, revoke-self) -/
def revokeCommon (f : Nat) (t : Nat) : Prog Unit := do
  match ← lookup f t false with
  | none => pure ()
  | some _ => do
    createOrFetch t
    expRevoke f t

/-- request authentication (`PopulateTokenEntry`, `fetchACLTokenEntryAndEntity`): the requester's token must be usable -/
def auth (f : Nat) (r : Nat) : Prog Unit := do
  match ← lookup f r false with          -- PopulateTokenEntry: caches the entry on the request when found
  | some _ => pure ()
  | none =>
    match ← lookup f r false with        -- fetchACLTokenEntryAndEntity looks it up again
    | none => fail .denied
    | some _ => pure ()

/-- `auth` handing the cached token entry of the request to the router (`req.TokenEntry()`) -/
def authE (f : Nat) (r : Nat) : Prog TokEntry := do
  match ← lookup f r false with
  | some e => pure e
  | none =>
    match ← lookup f r false with
    | none => fail .denied
    | some e => pure e

/-- `SudoPrivilege(path, token)`: looks the token up again; an error or a missing token means "not sudo" (the
policies of the harness grant sudo on every path used) -/
def sudoCheck (f : Nat) (r : Nat) : Prog Bool :=
  (lookup f r false).bindE fun
    | .ok (some _) => pure true
    | _ => pure false

inductive Req where
  | create (r : Nat) (orphan : Bool) (skey : Nat)
  | renew (t : Nat)
  | createId (r x : Nat) (skey : Nat)   -- auth/token/create with a caller-chosen `id` (identity `x`, possibly re-used)
  | cubby (t k : Nat)
  | cubRead (t k : Nat)                 -- read cubbyhole/k<k>
  | lease (t lkey : Nat)
  | lookupSelf (t : Nat)
  | revoke (r t : Nat)          -- auth/token/revoke
  | revokeSelf (t : Nat)        -- auth/token/revoke-self
  | revokeAcc (r t : Nat)       -- auth/token/revoke-accessor
  | revokeLease (r t : Nat)     -- sys/leases/revoke sync=true of the token's own lease
  | revokeOrphan (r t : Nat)    -- auth/token/revoke-orphan
  deriving DecidableEq, Repr

/-- `storeCommon(entry, writeSecondary = true)` followed by `RegisterAuth` -/
def storeAndRegister (f : Nat) (r n : Nat) (orphan : Bool) (pfx : Bool := true) : Prog Unit := do
  if !orphan then do
    match ← lookup f r false with
    | none => fail .invalid                     -- "parent token not found"
    | some _ => putKey (.par r n) .unit
  putKey (.id n) (.tok { parent := if orphan then none else some r, marked := false,
                         cubId := createCubId true pfx, pfx := pfx, nsRoot := true })
  putKey (.tl n) (.tl false)
  cacheSet n (some false)

def Req.prog (f : Nat) : Req → Prog Unit
  | .create r orphan sk => do
    auth f r
    match ← lookup f r false with     -- handleCreateCommon: parent lookup
    | none => fail .invalid           -- "parent token lookup failed: no parent found"
    | some _ => pure ()
    let sudo ← sudoCheck f r          -- SudoPrivilege: any failure means "no"
    if orphan && !sudo then fail .invalid
    let n ← newTok sk
    putKey (.acc n) .unit             -- createAccessor
    storeAndRegister f r n orphan
  | .renew t => do
    auth f t
    let _ ← lookup f t false
    let _ ← getTL t
    let _ ← lookup f t false
    putKey (.tl t) (.tl false)
    cacheSet t (some false)
  | .createId r x sk => do
    auth f r
    match ← lookup f r false with     -- handleCreateCommon: parent lookup
    | none => fail .invalid
    | some _ => pure ()
    let sudo ← sudoCheck f r
    if !sudo then fail .invalid       -- "root or sudo privileges required to specify token id"
    let n ← allocId x sk
    -- create: `exist, _ := lookupInternal(id, tainted)`: a stored entry with this id refuses the creation
    let dup ← (lookup f n true).bindE fun
      | .ok (some _) => pure true
      | _ => pure false
    if dup then fail .invalid         -- "cannot create a token with a duplicate ID"
    putKey (.acc n) .unit
    storeAndRegister f r n false false
  | .cubby t k => do
    let e ← authE f t
    match routerKey t e with
    | none => fail .storage           -- "empty cubbyhole id"
    | some c => do
      let _ ← getKey (.cub c k)
      putKey (.cub c k) .unit
  | .cubRead t k => do
    let e ← authE f t
    match routerKey t e with
    | none => fail .storage
    | some c => do
      let _ ← getKey (.cub c k)
      pure ()
  | .lease t lk => do
    auth f t
    let l ← newLease lk
    putKey (.sl l) (.sl t false)
    putKey (.tix t l) .unit
  | .lookupSelf t => do
    auth f t
    match ← lookup f t false with
    | none => fail .invalid
    | some _ => pure ()
  | .revoke r t => do auth f r; revokeCommon f t
  | .revokeSelf t => do auth f t; revokeCommon f t
  | .revokeAcc r t => do
    auth f r
    match ← getKey (.acc t) with
    | none => pure ()                                  -- "No token found with this accessor" (warning)
    | some _ =>
      match ← lookup f t false with
      | none => fail .invalid
      | some _ => do createOrFetch t; expRevoke f t
  | .revokeLease r t => do
    auth f r
    (expRevoke f t).bindE fun
      | .ok () => pure ()
      | .error .storage => fail .invalid               -- handleError: ErrorResponse, ErrInvalidRequest
      | .error e => fail e
  | .revokeOrphan r t => do
    auth f r
    let sudo ← sudoCheck f r                           -- SudoPrivilege
    if !sudo then fail .invalid                        -- "root or sudo privileges required to revoke and orphan"
    match ← lookup f t false with
    | none => fail .invalid
    | some _ => (revokeInternal f t false).bindE fun
        | .ok () => pure ()
        | .error .storage => fail .invalid             -- logical.ErrorResponse(err), ErrInvalidRequest
        | .error e => fail e

/-- the recursion budget the driver uses; every nested call and every loop iteration costs one unit -/
def fuelDefault : Nat := 400

/-! ### interpreters -/

/-- fault-free sequential execution -/
def run : Prog α → St → Except Err α × St
  | .ret r, s => (r, s)
  | .io o k, s => let (s', v) := exec o s; run (k v) s'

/-- the `n`-th gate operation (0-based) fails once: it is not executed and returns an error -/
def runFault : Nat → Prog α → St → Except Err α × St
  | _, .ret r, s => (r, s)
  | n, .io o k, s =>
    if o.isGate then
      match n with
      | 0 => run (k .err) s
      | n+1 => let (s', v) := exec o s; runFault n (k v) s'
    else let (s', v) := exec o s; runFault n (k v) s'

/-- the process stops right after its `n`-th storage write (`n = 0`: before its first operation); the store
survives -/
def runCrash : Nat → Prog α → St → St
  | 0, _, s => s
  | _+1, .ret _, s => s
  | n+1, .io o k, s =>
    let (s', v) := exec o s
    if o.isWrite then runCrash n (k v) s' else runCrash (n+1) (k v) s'

/-- what a restart keeps: the store. The pending-deletion map is empty and the expiration manager's
restore puts every stored token lease into the pending cache. -/
def St.restart (s : St) : St := { s with pend := fun _ => none, cache := s.tl }

/-- the expiration workers finish every lease that is marked expired: entry and index entry are removed -/
def St.settle (s : St) : St :=
  { s with sl := fun l => match s.sl l with | some (_, true) => none | v => v,
           tix := fun t l => s.tix t l && (match s.sl l with | some (_, true) => false | _ => true) }

/-! ### two interleaved requests -/

/-- run the silent operations a goroutine performs until it parks before its next storage operation -/
def advance : Prog α → St → Prog α × St
  | .ret r, s => (.ret r, s)
  | .io o k, s => if o.isGate then (.io o k, s) else let (s', v) := exec o s; advance (k v) s'

/-- release a parked goroutine: it performs its storage operation and runs to the next gate -/
def stepGate : Prog α → St → Prog α × St
  | .ret r, s => (.ret r, s)
  | .io o k, s => let (s', v) := exec o s; advance (k v) s'

structure Conc (α β : Type) where
  a : Prog α
  b : Prog β
  st : St

def Conc.start (a : Prog α) (b : Prog β) (s : St) : Conc α β :=
  let (a', s1) := advance a s
  let (b', s2) := advance b s1
  { a := a', b := b', st := s2 }

/-- one scheduling decision: `false` releases thread A, `true` thread B (a finished thread stays finished) -/
def Conc.step (c : Conc α β) (who : Bool) : Conc α β :=
  if who then let (b', s') := stepGate c.b c.st; { c with b := b', st := s' }
  else let (a', s') := stepGate c.a c.st; { c with a := a', st := s' }

def Conc.run (c : Conc α β) (sched : List Bool) : Conc α β := sched.foldl Conc.step c

def Prog.result? : Prog α → Option (Except Err α)
  | .ret r => some r
  | .io _ _ => none


/-! ### traces (the sequence of storage operations a run performs; `true` marks the failed one) -/

def traceFault : Option Nat → Prog α → St → List (Op × Bool)
  | _, .ret _, _ => []
  | n, .io o k, s =>
    if o.isGate then
      match n with
      | some 0 => (o, true) :: traceFault none (k .err) s
      | some (n+1) => let (s', v) := exec o s; (o, false) :: traceFault (some n) (k v) s'
      | none => let (s', v) := exec o s; (o, false) :: traceFault none (k v) s'
    else let (s', v) := exec o s; traceFault n (k v) s'

def traceCrash : Nat → Prog α → St → List (Op × Bool)
  | 0, _, _ => []
  | _+1, .ret _, _ => []
  | n+1, .io o k, s =>
    let (s', v) := exec o s
    (if o.isGate then [(o, false)] else []) ++
      (if o.isWrite then traceCrash n (k v) s' else traceCrash (n+1) (k v) s')

/-- a token is usable iff a request made with it passes authentication (this runs the real lookup, with its
side effects — the lease-less branch revokes) -/
def usable (f : Nat) (t : Nat) (s : St) : Bool × St :=
  match run (auth f t) s with
  | (.ok (), s') => (true, s')
  | (.error _, s') => (false, s')


/-! ### vocabulary of the property statements -/

def okB : Except Err α → Bool
  | .ok _ => true
  | .error _ => false

/-- one step of a sequential history: a request (run to completion, fault-free) or the expiration workers
finishing whatever is queued -/
inductive HStep where
  | req (q : Req)
  | settle
  deriving DecidableEq, Repr

def HStep.apply (f : Nat) (s : St) : HStep → St
  | .req q => (run (q.prog f) s).2
  | .settle => s.settle

def runHist (f : Nat) (h : List HStep) (s : St) : St := h.foldl (HStep.apply f) s

/-- requests whose revocation target (if any) is not the root token: the root has no lease and no parent and is
outside the property's forests -/
def Req.rootFree : Req → Prop
  | .revoke _ t => t ≠ 0
  | .revokeSelf t => t ≠ 0
  | .revokeAcc _ t => t ≠ 0
  | .revokeLease _ t => t ≠ 0
  | .revokeOrphan _ t => t ≠ 0
  | .createId _ x _ => x ≠ 0
  | _ => True

def HStep.rootFree : HStep → Prop
  | .req q => q.rootFree
  | .settle => True

/-- the identity a request (re-)creates with a caller-chosen id -/
def Req.recreates : Req → Option Nat
  | .createId _ x _ => some x
  | _ => none

def HStep.recreates : HStep → Option Nat
  | .req q => q.recreates
  | .settle => none

/-- side conditions of the history theorems, evaluated in the state the request runs in: revocation targets are
not the root; a caller-chosen id `x` is the next fresh identity or one used before, its creator is older than the
identity (`r < x`: the root, in the harness), and no parent-index entry is left under it (revoke-orphan leaves
such entries behind — `Key.parTop` — and a re-created namesake would adopt the old token's orphans) -/
def Req.okAt (s : St) : Req → Prop
  | .createId r x _ => x ≠ 0 ∧ r < x ∧ x ≤ s.next ∧ ∀ c, s.par x c = false
  | q => q.rootFree

def HStep.okAt (s : St) : HStep → Prop
  | .req q => q.okAt s
  | .settle => True

def HistOK (f : Nat) : List HStep → St → Prop
  | [], _ => True
  | st :: rest, s => st.okAt s ∧ HistOK f rest (st.apply f s)

/-- `x` is `t` or one of its non-orphaned descendants: a chain of parent links of stored entries -/
inductive Desc (s : St) (t : Nat) : Nat → Prop where
  | self : Desc s t t
  | child {c p : Nat} {e : TokEntry} : Desc s t p → s.ids c = some e → e.parent = some p → Desc s t c

/-- what "revoked" means for one token: no entry (so every lookup fails), no own lease, no accessor entry, no
cubbyhole key, and every lease issued under it is gone or marked expired (= queued for immediate revocation) -/
structure Dead (s : St) (x : Nat) : Prop where
  noEntry : s.ids x = none
  noLease : s.tl x = none
  noAcc : s.acc x = false
  noCub : ∀ k, s.cub (.cid x) k = false ∧ s.cub (.salted x) k = false
  leases : ∀ l e, s.sl l = some (x, e) → e = true

/-- "the token can no longer be handed out by a plain lookup": its entry is marked or gone -/
def ParentGone (p : Nat) (s : St) : Prop := ∀ e, s.ids p = some e → e.marked = true

/-- the request has finished and reported success -/
def Prog.okDone : Prog Unit → Bool
  | .ret (.ok _) => true
  | _ => false

def Prog.done : Prog α → Bool
  | .ret _ => true
  | .io _ _ => false

/-- the revocation requests that cascade (everything but revoke-orphan) and their target -/
def Req.cascadeTarget : Req → Option Nat
  | .revoke _ t => some t
  | .revokeSelf t => some t
  | .revokeAcc _ t => some t
  | .revokeLease _ t => some t
  | _ => none

end Obao.Revoke
