/-!
The wrapping token across namespaces (`logical_system.go handleWrappingUnwrap / responseWrappingUnwrap`,
`token_store.go revokeOrphan`). Token entries live in the token store of their OWN namespace (the id carries the
namespace: `hvs.….<nsID>`); `UseTokenByID` finds the entry from the id alone; `revokeOrphan(ctx, id)` salts and looks
the id up in the namespace of `ctx`. A third-party unwrap (`token` in the body) is a request in the CALLER's namespace:
the handler switches to the wrapping token's namespace (`unwrapCtx`) before it consumes and revokes it.
-/
namespace Obao.WrapNs

/-- token store: (namespace, token id) ↦ remaining uses; cubbyhole: (namespace, token id) ↦ payload present -/
structure St where
  toks : List (Nat × Nat)          -- entries present (namespace, id)
  payloads : List (Nat × Nat)
  deriving DecidableEq, Repr

/-- `revokeOrphan(ctx, id)`: removes the entry (and its cubbyhole) found in the namespace of `ctx`; nothing when there
is none there (and no error is surfaced: the call is deferred) -/
def revokeIn (s : St) (ctxNs id : Nat) : St :=
  { toks := s.toks.filter (· != (ctxNs, id)), payloads := s.payloads.filter (· != (ctxNs, id)) }

/-- third-party unwrap of token `(tokNs, id)` through a request in namespace `reqNs`: the payload is read in the
token's namespace and the token is revoked in the token's namespace (`unwrapCtx`) -/
def unwrap3 (s : St) (_reqNs tokNs id : Nat) : St × Bool :=
  if (tokNs, id) ∈ s.toks ∧ (tokNs, id) ∈ s.payloads then (revokeIn s tokNs id, true) else (s, false)

/-- seeded change C18-4: consumed and revoked in the namespace of the REQUEST -/
def unwrap3InReqNs (s : St) (reqNs tokNs id : Nat) : St × Bool :=
  if (tokNs, id) ∈ s.toks ∧ (tokNs, id) ∈ s.payloads then (revokeIn s reqNs id, true) else (s, false)

end Obao.WrapNs
