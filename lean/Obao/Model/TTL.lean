import Obao.Model.Prelude
/-!
Model of `sdk/framework/lease.go CalculateTTL`. All quantities are `Int` in one unit (the harness uses
nanoseconds, as `time.Duration` does); `now` and `start` are already truncated to the second by the caller
of the model exactly as the Go code truncates them (`start = now` when `startTime.IsZero()`).
`int64` overflow is outside the model (DESIGN.md section 4: range hypothesis, probed by a boundary stream).
-/
namespace Obao.TTL

structure Inp where
  (now start : Int)
  (sysMax sysDefault : Int)
  (increment backendTTL period backendMax explicitMax : Int)
  deriving Repr

inductive Out where
  | ok (ttl : Int) (warnings : Nat)
  | errMaxTTL
  | errPast
  deriving DecidableEq, Repr

/-- the effective maximum: mount/system max unless the backend or the explicit max is smaller (and positive) -/
def effMax (i : Inp) : Int :=
  let m := i.sysMax
  let m := if i.backendMax > 0 ∧ i.backendMax < m then i.backendMax else m
  if i.explicitMax > 0 ∧ i.explicitMax < m then i.explicitMax else m

def calcTTL (i : Inp) : Out :=
  let maxTTL := effMax i
  if maxTTL ≤ 0 then .errMaxTTL else
  if i.period > 0 then
    let w0 := if i.period > maxTTL then 1 else 0
    let ttl := if i.period > maxTTL then maxTTL else i.period
    if i.explicitMax > 0 then
      let maxValidTTL := i.start + i.explicitMax - i.now
      if maxValidTTL ≤ 0 then .errPast
      else if maxValidTTL - ttl < 0 then .ok maxValidTTL (w0 + 1) else .ok ttl w0
    else .ok ttl w0
  else
    let ttl := if i.increment > 0 then i.increment
               else if i.backendTTL > 0 then i.backendTTL else i.sysDefault
    let maxValidTTL := i.start + maxTTL - i.now
    if maxValidTTL ≤ 0 then .errPast
    else if maxValidTTL - ttl < 0 then .ok maxValidTTL 1 else .ok ttl 0

/-- A renewal sequence as the expiration manager performs it: the issue time never changes, each renewal
    recomputes the TTL from (`now_j`, increment_j) with the same maxima; returns the expiry times granted. -/
def renewExpiries (base : Inp) : List (Int × Int) → List Int
  | [] => []
  | (now, incr) :: rest =>
    match calcTTL { base with now := now, increment := incr } with
    | .ok ttl _ => (now + ttl) :: renewExpiries base rest
    | _ => renewExpiries base rest

/-- the period a ROLE token is renewed with (`TokenStore.authRenew`): the period given at creation is stored on the token
and keeps applying; with a role period as well, the lesser one (as at creation) -/
def renewPeriod (tokenPeriod rolePeriod : Int) : Int :=
  if tokenPeriod > 0 ∧ (rolePeriod = 0 ∨ tokenPeriod < rolePeriod) then tokenPeriod else rolePeriod

/-- before the repair of F104: the role's period alone -/
def renewPeriodRoleOnly (_tokenPeriod rolePeriod : Int) : Int := rolePeriod

end Obao.TTL
