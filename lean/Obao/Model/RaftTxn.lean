import Obao.Model.SerialTxn
/-!
C08 — implementation-shaped model of the raft storage transaction (`internal/physical/raft/transaction.go`)
on a single node whose FSM keeps up with raft (the lagging case is finding F7 and belongs to the apply-side
model of C09).

Client side (`RaftTransaction`): reads go to a bbolt read transaction opened at begin (`snap`); `Get`/`Put`/
`Delete` record one `verifyReadOp` per key — the SHA-384 of `{key}value` of the SNAPSHOT content, for the first
read or write of that key —, writes are buffered in `updates`; `ListPage` walks the snapshot cursor, merges the
buffered puts, hides the buffered deletes, and records one `verifyListOp` per (prefix, after) with
`presentKeys` and `verifyLimit = len(presentKeys)` — plus one when no look-ahead entry was recorded and the
record is not empty (the repair of F8) —; `Commit` of a read-only / never-written transaction
returns at once, otherwise it ships `begin ‖ verifies ‖ writes ‖ commit` through raft.

Apply side, only as far as the verdict needs it (`applyBatchTxOps`): every verification is either BYPASSED —
no write to that key / under that list prefix was applied since the transaction began (the fast-path tracker,
assumed complete here: single node, FSM not lagging) — or evaluated against the current store
(`doVerifyEntry`, `listPageInner` with the recorded limit); all verifications before any write; conflict ⇒ no
write.

The hash is symbolic (`hashOf`): equal hashes ⇔ equal key and equal content bytes. bbolt returns `nil` for an
absent key and the hash of `nil` equals the hash of the empty value, so `hashOf none = hashOf (some "-")`
(`"-"` is the token of the empty byte string) — exactly as in the code.

Both listing paths seek the cursor to the plain concatenation `prefix ++ after` (no path cleaning), so the
model has no domain restriction on `prefix` / `after` any more: any ASCII strings (prefixes without trailing
`/`, `after` values with `//`, `./`, `..` segments included). Not modelled: entry size limits, permit pools, `ctx`, metrics, the leak finalizer.
-/
namespace Obao.RaftTxn
open Obao.SerialTxn

/-- symbolic `createVerificationEntry(key, value)`: the content bytes (the key is carried beside it) -/
def hashOf : Option Val → Val
  | none => "-"
  | some v => v

/-- symbolic `createListVerificationEntry`: the hash covers `strings.Join(items, "\n")`, which is injective on
    lists of newline-free names EXCEPT that the empty list and the list holding one empty name (a key equal to
    the listing prefix) both join to the empty string -/
def itemsKey (l : List String) : List String := if l = [""] then [] else l

def trimPrefix (pre key : String) : List Char :=
  match stripPrefix? pre.toList key.toList with
  | some r => r
  | none => key.toList

def hasPrefix (pre key : String) : Bool := (stripPrefix? pre.toList key.toList).isSome

/-- `listShouldIncludeEntry`: (entry name, is folder, should visit) -/
def lsie (pre after key : String) : String × Bool × Bool :=
  let sub := trimPrefix pre key
  let head := sub.takeWhile (· != '/')
  if head.length < sub.length then
    let folder := String.ofList (head ++ ['/'])
    (folder, true, !(after != "" && !(after < folder)))
  else
    let s := String.ofList sub
    (s, false, !(after != "" && !(after < s)))

/-- keys a bbolt cursor yields from `Seek(seek)` while they carry the prefix (the store is sorted) -/
def cursor (s : Store) (seek pre : String) : List Key :=
  ((s.map (·.1)).dropWhile (fun k => k < seek)).takeWhile (hasPrefix pre)

def lastOr (l : List String) (d : String) : String :=
  match l.getLast? with
  | some x => x
  | none => d

/-- the loop of `listPageInner` (fsm.go) -/
def lpiLoop (pre after : String) (limit : Int) : List Key → List String → List String
  | [], keys => keys
  | k :: r, keys =>
    if limit > 0 ∧ (keys.length : Int) ≥ limit then keys
    else
      let sub := trimPrefix pre k
      let head := sub.takeWhile (· != '/')
      if head.length < sub.length then
        let folder := String.ofList (head ++ ['/'])
        if keys.isEmpty || keys.getLast? != some folder then
          if after != "" && !(after < folder) then lpiLoop pre after limit r keys
          else lpiLoop pre after limit r (keys ++ [folder])
        else lpiLoop pre after limit r keys
      else
        let key := String.ofList sub
        if after != "" && !(after < key) then lpiLoop pre after limit r keys
        else lpiLoop pre after limit r (keys ++ [key])

def listPageInner (s : Store) (pre after : String) (limit : Int) : List String :=
  -- `seekPrefix := []byte(prefix + after)`: the plain concatenation (no path cleaning, no special cases)
  lpiLoop pre after limit (cursor s (pre ++ after) pre) []

def insertSorted (x : String) : List String → List String
  | [] => [x]
  | y :: r => if x < y then x :: y :: r else y :: insertSorted x r

def sortStrings (l : List String) : List String := l.foldr insertSorted []

/-- `verifyListOp`: key = JSON of (prefix, after, limit), value = hash of the joined items -/
structure ListRec where
  pre : String
  after : String
  limit : Nat
  items : List String
  deriving DecidableEq, Repr

/-- `RaftTransaction` -/
structure RTxn where
  snap : Store
  start : Nat                              -- number of write entries applied when the transaction began
  writable : Bool
  haveWritten : Bool
  finished : Bool
  updates : List (Key × Option Val)        -- map: `none` = deleted
  reads : List (Key × Val)                 -- map key ↦ verification hash
  lists : List ListRec                     -- at most one record per (prefix, after)
  deriving Repr

inductive Err where
  | readOnly | finished | conflict
  deriving DecidableEq, Repr

inductive Res where
  | ok
  | val (v : Option Val)
  | keys (l : List String)
  | err (e : Err)
  deriving DecidableEq, Repr

def mapSet {β : Type} (m : List (Key × β)) (k : Key) (b : β) : List (Key × β) :=
  (k, b) :: m.filter (fun e => e.1 != k)

def RTxn.put (t : RTxn) (k : Key) (v : Val) : RTxn × Res :=
  if !t.writable then (t, .err .readOnly)
  else if t.finished then (t, .err .finished)
  else
    let reads :=
      if (t.updates.lookup k).isNone && (t.reads.lookup k).isNone then mapSet t.reads k (hashOf (sget t.snap k))
      else t.reads
    ({ t with haveWritten := true, reads := reads, updates := mapSet t.updates k (some v) }, .ok)

def RTxn.get (t : RTxn) (k : Key) : RTxn × Res :=
  if t.finished then (t, .err .finished)
  else
    match (if t.writable then t.updates.lookup k else none) with
    | some u => (t, .val u)
    | none =>
      let value := sget t.snap k
      let reads := if (t.reads.lookup k).isNone then mapSet t.reads k (hashOf value) else t.reads
      ({ t with reads := reads }, .val value)

def RTxn.delete (t : RTxn) (k : Key) : RTxn × Res :=
  if !t.writable then (t, .err .readOnly)
  else if t.finished then (t, .err .finished)
  else
    let reads :=
      if (t.updates.lookup k).isNone && (t.reads.lookup k).isNone then mapSet t.reads k (hashOf (sget t.snap k))
      else t.reads
    ({ t with haveWritten := true, reads := reads, updates := mapSet t.updates k none }, .ok)

structure LpSt where
  keys : List String
  present : List String
  updates : List String
  next : String
  deriving Repr

/-- the cursor loop of `RaftTransaction.ListPage` -/
def lpLoop (pre after : String) (limit : Int) (deletions : List Key) : List Key → LpSt → LpSt
  | [], st => st
  | k :: r, st =>
    let (entry, isFolder, visit) := lsie pre after k
    if limit > 0 ∧ (st.keys.length : Int) ≥ limit then { st with next := entry }
    else if deletions.contains k then lpLoop pre after limit deletions r { st with present := st.present ++ [k] }
    else if !visit then lpLoop pre after limit deletions r st
    else
      let lastKey := lastOr st.keys ""
      let merged := sortStrings (st.updates.filter (fun u => u < entry && lastKey < u))
      let updates := st.updates.filter (fun u => !(u < entry && lastKey < u))
      let keys := st.keys ++ merged
      let lastKey := lastOr keys ""
      if isFolder && !keys.isEmpty && lastKey == entry then
        if !st.present.isEmpty && st.present.getLast? != some k then
          lpLoop pre after limit deletions r { keys := keys, present := st.present ++ [k], updates := updates, next := st.next }
        else
          lpLoop pre after limit deletions r { keys := keys, present := st.present, updates := updates, next := st.next }
      else
        lpLoop pre after limit deletions r
          { keys := keys ++ [entry], present := st.present ++ [entry], updates := updates.filter (· != entry), next := st.next }

def RTxn.listPage (t : RTxn) (pre after : String) (limit : Int) : RTxn × Res :=
  if t.finished then (t, .err .finished)
  else
    let seek := pre ++ after      -- `seekPrefix := []byte(prefix + after)`
    let inScope := t.updates.filter (fun e => hasPrefix pre e.1 && (lsie pre after e.1).2.2)
    let deletions := (inScope.filter (fun e => e.2.isNone)).map (·.1)
    let upd := ((inScope.filter (fun e => e.2.isSome)).map (fun e => (lsie pre after e.1).1)).eraseDups
    let st := lpLoop pre after limit deletions (cursor t.snap seek pre) { keys := [], present := [], updates := upd, next := "" }
    let lastKey := lastOr st.keys ""
    let keys := st.keys ++ sortStrings (st.updates.filter (fun u => lastKey < u))
    let keys := if limit > 0 ∧ (keys.length : Int) > limit then keys.take limit.toNat else keys
    let present := if st.next != "" then st.present ++ [st.next] else st.present
    -- no look-ahead entry recorded (the cursor ran out before the limit): verify with ONE EXTRA slot, so that the
    -- re-listing at apply time sees a key appended behind the last entry; an empty record keeps 0 (= no limit)
    let verifyLimit := if st.next == "" && present.length > 0 then present.length + 1 else present.length
    let existing := t.lists.find? (fun r => r.pre == pre && r.after == after)
    let lists :=
      match existing with
      | none => t.lists ++ [{ pre := pre, after := after, limit := verifyLimit, items := present }]
      | some e =>
        if verifyLimit > e.limit then
          t.lists.filter (fun r => !(r.pre == pre && r.after == after)) ++
            [{ pre := pre, after := after, limit := verifyLimit, items := present }]
        else t.lists
    ({ t with lists := lists }, .keys keys)

/-- has a write to `k` been applied in the window (`hasModifiedEntry`) -/
def modifiedIn (window : List (List Key)) (k : Key) : Bool := window.any (·.contains k)

/-- `hasModifiedListEntry` -/
def listModifiedIn (window : List (List Key)) (pre : String) : Bool :=
  let norm := if pre != "" && pre.toList.getLast? != some '/' then pre ++ "/" else pre
  window.any (fun ws => ws.any (fun m => pre == "" || pre == "/" || hasPrefix norm m))

def verifyRead (store : Store) (window : List (List Key)) (r : Key × Val) : Bool :=
  !modifiedIn window r.1 || hashOf (sget store r.1) == r.2

def verifyList (store : Store) (window : List (List Key)) (r : ListRec) : Bool :=
  !listModifiedIn window r.pre || itemsKey (listPageInner store r.pre r.after r.limit) == itemsKey r.items

def applyUpdates (store : Store) : List (Key × Option Val) → Store
  | [] => store
  | (k, some v) :: r => applyUpdates (sput store k v) r
  | (k, none) :: r => applyUpdates (sdel store k) r

/-! ### the backend with its open transactions -/

structure RSys where
  store : Store
  wlog : List (List Key)           -- write sets of the applied entries, oldest first
  txns : List (Nat × RTxn)
  deriving Repr

def RSys.init : RSys := { store := [], wlog := [], txns := [] }

def beginTx (s : RSys) (writable : Bool) : RTxn :=
  { snap := s.store, start := s.wlog.length, writable := writable, haveWritten := false, finished := false,
    updates := [], reads := [], lists := [] }

/-- seeded change C08-4: the start index is sampled AFTER the bbolt snapshot was opened — the snapshot is the one of
`atSnap`, the index the one of the later state `atIndex` -/
def beginTxLateIndex (atSnap atIndex : RSys) (writable : Bool) : RTxn :=
  { beginTx atSnap writable with start := atIndex.wlog.length }

def setTxn : List (Nat × RTxn) → Nat → RTxn → List (Nat × RTxn)
  | [], id, t => [(id, t)]
  | (i, t') :: r, id, t => if i = id then (id, t) :: r else (i, t') :: setTxn r id t

def RTxn.apply (t : RTxn) : Op → RTxn × Res
  | .get k => t.get k
  | .put k v => t.put k v
  | .del k => t.delete k
  | .list p a l => t.listPage p a l

def RTxn.applyAll (t : RTxn) : List Op → RTxn
  | [] => t
  | o :: r => ((t.apply o).1).applyAll r

/-- the operation reads or writes key `k` through a transaction of the given mode (writes of a read-only
    transaction are refused and touch nothing) -/
def touches (writable : Bool) (o : Op) (k : Key) : Bool :=
  match o with
  | .get k' => k' == k
  | .put k' _ => writable && k' == k
  | .del k' => writable && k' == k
  | .list .. => false

/-- `doVerifyEntry` actually evaluated against `store` (no fast-path bypass) -/
def verifyReadFull (store : Store) (r : Key × Val) : Bool := hashOf (sget store r.1) == r.2

/-- `doVerifyList` actually evaluated against `store` (no fast-path bypass) -/
def verifyListFull (store : Store) (r : ListRec) : Bool :=
  itemsKey (listPageInner store r.pre r.after r.limit) == itemsKey r.items

/-- `Commit`: new store, new write log, the transaction, verdict -/
def RTxn.commit (t : RTxn) (s : RSys) : Store × List (List Key) × RTxn × Res :=
  if t.finished then (s.store, s.wlog, t, .err .finished)
  else
    let t' := { t with finished := true, updates := [], reads := [], lists := [] }
    if !t.writable || !t.haveWritten then (s.store, s.wlog, t', .ok)
    else
      let window := s.wlog.drop t.start
      if t.reads.all (verifyRead s.store window) && t.lists.all (verifyList s.store window) then
        (applyUpdates s.store t.updates.reverse, s.wlog ++ [t.updates.map (·.1)], t', .ok)
      else (s.store, s.wlog, t', .err .conflict)

def RTxn.rollback (t : RTxn) : RTxn × Res :=
  if t.finished then (t, .err .finished)
  else ({ t with finished := true, updates := [], reads := [], lists := [] }, .ok)

inductive Event where
  | begin (id : Nat) (writable : Bool)
  | op (id : Nat) (o : Op)
  | commit (id : Nat)
  | rollback (id : Nat)
  | plain (o : Op)
  deriving Repr

def RSys.step (s : RSys) : Event → Option (RSys × Res)
  | .begin id w =>
    match s.txns.lookup id with
    | some _ => none
    | none => some ({ s with txns := setTxn s.txns id (beginTx s w) }, .ok)
  | .op id o =>
    match s.txns.lookup id with
    | none => none
    | some t => let (t', r) := t.apply o; some ({ s with txns := setTxn s.txns id t' }, r)
  | .commit id =>
    match s.txns.lookup id with
    | none => none
    | some t =>
      let (st, wl, t', r) := t.commit s
      some ({ store := st, wlog := wl, txns := setTxn s.txns id t' }, r)
  | .rollback id =>
    match s.txns.lookup id with
    | none => none
    | some t => let (t', r) := t.rollback; some ({ s with txns := setTxn s.txns id t' }, r)
  | .plain o =>
    match o with
    | .get k => some (s, .val (sget s.store k))
    | .put k v => some ({ s with store := sput s.store k v, wlog := s.wlog ++ [[k]] }, .ok)
    | .del k => some ({ s with store := sdel s.store k, wlog := s.wlog ++ [[k]] }, .ok)
    | .list p a l => some (s, .keys (listPageInner s.store p a l))

/-- follow a schedule (events naming unknown transactions are skipped) -/
def RSys.run : RSys → List Event → RSys
  | s, [] => s
  | s, e :: es =>
    match s.step e with
    | none => s.run es
    | some (s', _) => s'.run es

end Obao.RaftTxn
