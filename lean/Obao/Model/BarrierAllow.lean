import Obao.Model.Prelude
/-!
C01 — hand-written allow-list for call sites that write to the physical backend WITHOUT going through the
encrypting barrier. The table of actual call sites (`Obao/Gen/PhysicalWriters.lean`) is regenerated from the Go
source on every run; `C01.direct_writers_allowed` proves every regenerated site is classified here. A site is
identified by (file, enclosing function incl. receiver, method); `construct:<T>` rows are the places that build a
pass-through wrapper `T` holding a physical backend (they decide which keys the wrapper's Put/Delete will touch);
`returns:physical` rows are exported functions that hand a writable physical backend to other packages.

Classes:
* `fixedSet`            — the property's fixed set of bootstrap records: seal configuration, seal-wrapped stored
                          keys and key backups, recovery key, raft/HA bootstrap data;
* `scopedOut`           — operator tooling, not part of the serving path;
* `documentedException` — a writer that does put caller-supplied content into the physical backend in clear, by
                          design; reported as a finding (with the given signature) on every run.
Anything else is unclassified and makes the theorem fail.
-/
namespace Obao.BarrierAllow

inductive Class where
  | fixedSet
  | scopedOut
  | documentedException (finding : String)
  deriving DecidableEq, Repr

structure Entry where
  file : String
  func : String
  method : String
  cls : Class
  why : String
  deriving Repr

def allowList : List Entry := [
  -- seal configuration (plaintext for the root namespace by design: it is needed before unseal)
  ⟨"internal/vault/seal.go", "defaultSeal.SetCore", "construct:directStorageAccess", .fixedSet,
    "configAccess for core/seal-config of the root namespace (SetBarrierConfig)"⟩,
  ⟨"internal/vault/seal_autoseal.go", "autoSeal.SetCore", "construct:directStorageAccess", .fixedSet,
    "configAccess for core/seal-config and core/recovery-config of the root namespace"⟩,
  ⟨"internal/vault/logical_raw.go", "RawBackend.storageByPath", "construct:directStorageAccess", .fixedSet,
    "sys/raw on the root namespace: direct access ONLY for rest == barrierSealConfigPath/recoverySealConfigPath"⟩,
  ⟨"internal/vault/storage_access.go", "directStorageAccess.Put", "Put", .fixedSet,
    "the pass-through wrapper itself; every construction site is listed separately"⟩,
  ⟨"internal/vault/storage_access.go", "directStorageAccess.Delete", "Delete", .fixedSet,
    "the pass-through wrapper itself; every construction site is listed separately"⟩,
  ⟨"internal/vault/core.go", "Core.migrateSealConfig", "Delete", .fixedSet,
    "deletes core/recovery-config during seal migration"⟩,
  ⟨"internal/vault/core.go", "CreateCore", "construct:Core", .fixedSet,
    "the Core owns the physical backend; each of its raw writer methods is listed separately"⟩,
  -- seal-wrapped stored keys, key backups, recovery key
  ⟨"internal/vault/seal.go", "writeStoredKeys", "Put", .fixedSet,
    "core/hsm/barrier-unseal-keys: the root key encrypted by the seal wrapper"⟩,
  ⟨"internal/vault/seal_autoseal.go", "autoSeal.SetRecoveryKey", "Put", .fixedSet,
    "core/recovery-key: the recovery key encrypted by the seal wrapper"⟩,
  ⟨"internal/vault/rekey.go", "Core.BarrierRekeyUpdate", "Put", .fixedSet,
    "core/unseal-keys-backup: PGP-encrypted key shares backup"⟩,
  ⟨"internal/vault/rekey.go", "Core.RecoveryRekeyUpdate", "Put", .fixedSet,
    "core/recovery-keys-backup: PGP-encrypted recovery key shares backup"⟩,
  ⟨"internal/vault/rekey.go", "Core.RekeyDeleteBackup", "Delete", .fixedSet,
    "deletes the two key-backup records"⟩,
  -- raft / HA bootstrap data
  ⟨"internal/vault/logical_system_raft.go", "SystemBackend.handleStorageRaftSnapshotWrite", "Put", .fixedSet,
    "core/lock := this node's leader UUID after a snapshot restore (HA lock value, no secret)"⟩,
  -- operator tooling
  ⟨"internal/vault/diagnose/storage_checks.go", "EndToEndLatencyCheckWrite", "Put", .scopedOut,
    "`operator diagnose` latency probe: constant value under a random uuid key, not the serving path"⟩,
  ⟨"internal/vault/diagnose/storage_checks.go", "EndToEndLatencyCheckDelete", "Delete", .scopedOut,
    "`operator diagnose` latency probe clean-up"⟩,
  ⟨"internal/vault/core.go", "Core.PhysicalAccess", "returns:physical", .scopedOut,
    "exported accessor handing out the physical backend; no caller outside tests at this commit"⟩,
  -- F12: sys/config/ui/headers values are mirrored in clear so that they can be served while sealed
  ⟨"internal/vault/ui.go", "UIConfig.save", "Put", .documentedException "F12:uiconfig-plaintext-headers",
    "writes the JSON of all configured UI headers to the raw physical key config_plaintext, next to the barrier copy"⟩,
  ⟨"internal/vault/ui.go", "UIConfig.save", "Delete", .documentedException "F12:uiconfig-plaintext-headers",
    "removes the plaintext mirror when no header is configured"⟩,
  ⟨"internal/vault/ui.go", "NewUIConfig", "construct:UIConfig", .documentedException "F12:uiconfig-plaintext-headers",
    "hands the raw physical view (sys/ui/) to UIConfig"⟩
]

def classify (w : String × String × String) : Option Class :=
  (allowList.find? fun e => e.file == w.1 && e.func == w.2.1 && e.method == w.2.2).map (·.cls)

def allowed (w : String × String × String) : Bool := (classify w).isSome

/-- line-protocol answer of driver stream `barrierallow` -/
def classifyStr (w : String × String × String) : String :=
  match classify w with
  | none => "unclassified"
  | some .fixedSet => "fixed-set"
  | some .scopedOut => "scoped-out"
  | some (.documentedException f) => "documented-exception:" ++ f

/-- Stream `barriercanary` (a whole Core, one canary plaintext per request kind, every physical value scanned after
each request): what the code is written to do. Every request kind goes through the barrier (`clean`) except the one
served by the documented exception above: `UIConfig.save` mirrors the header values at
`uiStoragePrefix ++ uiConfigPlaintextKey`. -/
def canaryVerdict : List String → String
  | ["req", "uiheader"] => "leak:sys/uiconfig_plaintext"
  | ["req", _] => "clean"
  | ["keys"] => "clean"
  | ["rotatescan"] => "clean:term2"
  | _ => "bad-op"

end Obao.BarrierAllow
