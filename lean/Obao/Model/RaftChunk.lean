/-!
Model of the chunking layer in front of the raft FSM (`raftchunking.ChunkingBatchingFSM` over `FSMChunkStorage`,
internal/physical/raft/fsm.go): an operation whose encoded `LogData` exceeds the chunk size travels as several log
entries; each chunk is PERSISTED by `StoreChunk` (in the data bucket, without advancing the FSM's latest index); when
the last missing chunk arrives the operation is re-assembled and applied at that entry's index. The chunking FSM keeps
the term of the last entry it saw IN MEMORY (`lastTerm`, 0 after `NewFSM`): an entry whose term differs makes it drop
every stored chunk (`RestoreChunks(nil)`) before storing the new one.
-/
namespace Obao.RaftChunk

structure Chunker where
  /-- (operation number, sequence number) of the chunks held in storage -/
  held : List (Nat × Nat) := []
  /-- the in-memory `lastTerm` equals the term of the log (all entries of the model share one term): false after a
  restart -/
  termSeen : Bool := false
  deriving DecidableEq, Repr

/-- `Close` + `NewFSM`: storage survives, `lastTerm` does not -/
def Chunker.restart (c : Chunker) : Chunker := { c with termSeen := false }

/-- one chunk entry `(op, seq)` of an operation of `num` chunks; the Boolean says that the operation is complete and is
handed to the FSM at this entry's index -/
def Chunker.apply (c : Chunker) (op seq num : Nat) : Chunker × Bool :=
  let held0 := if c.termSeen then c.held else []
  let held1 := if held0.contains (op, seq) then held0 else held0 ++ [(op, seq)]
  let complete := (List.range num).all fun s => held1.contains (op, s)
  ({ held := if complete then held1.filter (fun x => x.1 != op) else held1, termSeen := true }, complete)

/- entries that are not chunks pass through the chunking FSM without touching `lastTerm` or the stored chunks -/

end Obao.RaftChunk
