import Obao.Model.GF256
/-!
Model of the threshold accounting of `internal/vault/seal_manager.go`: `unsealFragment` → `recordUnsealPart` →
`getUnsealKey` (the same accounting shape is used by `rekey.go`/`rotate.go`: duplicate check, append, `len <
threshold ⇒ nothing`, recover with `Parts[0]` for threshold 1 else `shamir.Combine`, progress reset).

State = the recorded `Parts` (`[]` ⇔ no `unlockInformation` entry; an entry always holds ≥ 1 part).
-/
namespace Obao.Threshold
open Obao.GF256

abbrev Part := List Nat

structure Cfg where
  (threshold : Int)        -- `sealConfig.SecretThreshold` (a Go `int`)
  (minLen maxLen : Nat)    -- `barrier.KeyLength()` bounds, `maxLen` already including `shamir.ShareOverhead`
  deriving Repr

inductive Outcome
  | tooShort                       -- `ErrInvalidKey` "shorter than minimum"; nothing recorded
  | tooLong                        -- `ErrInvalidKey` "longer than maximum"; nothing recorded
  | duplicate                      -- `recordUnsealPart` found the part: `(false, nil)`; nothing recorded
  | pending (progress : Nat)       -- recorded; `len(Parts) < threshold`: `getUnsealKey` returns `nil, nil`
  | key (k : List Nat)             -- threshold met: combined key produced; progress reset
  | combineErr (e : CombineErr)    -- threshold met, `shamir.Combine` failed; progress reset
  deriving DecidableEq, Repr

/-- one `unsealFragment` call: new recorded parts and what the caller gets -/
def submit (cfg : Cfg) (parts : List Part) (key : Part) : List Part × Outcome :=
  if key.length < cfg.minLen then (parts, .tooShort)
  else if key.length > cfg.maxLen then (parts, .tooLong)
  else if parts.contains key then (parts, .duplicate)
  else
    let parts' := parts ++ [key]
    if (parts'.length : Int) < cfg.threshold then (parts', .pending parts'.length)
    else if cfg.threshold = 1 then ([], .key (match parts with | [] => key | p0 :: _ => p0))  -- `Parts[0]`
    else match combine parts' with
      | .ok k => ([], .key k)
      | .error e => ([], .combineErr e)

/-- `SealStatus().Progress` -/
def progress (parts : List Part) : Nat := parts.length

/-- a whole history of submissions from a given state: final state and the outcomes, in order -/
def run (cfg : Cfg) : List Part → List Part → List Part × List Outcome
  | st, [] => (st, [])
  | st, k :: ks =>
    let r := submit cfg st k
    let rest := run cfg r.1 ks
    (rest.1, r.2 :: rest.2)

/-- an outcome that ends an attempt (progress is reset) -/
def Outcome.completes : Outcome → Bool
  | .key _ | .combineErr _ => true
  | _ => false

end Obao.Threshold
