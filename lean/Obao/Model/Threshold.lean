import Obao.Model.GF256
/-!
Model of the threshold accounting of `internal/vault/seal_manager.go`: `unsealFragment` → `recordUnsealPart` →
`getUnsealKey` (the same accounting shape is used by `rekey.go`/`rotate.go`: duplicate check, append, `len <
threshold ⇒ nothing`, recover with `Parts[0]` for threshold 1 else `shamir.Combine`, progress reset).

State = the recorded `Parts` (`[]` ⇔ no `unlockInformation` entry; an entry always holds ≥ 1 part).
-/
namespace Obao.Threshold
open Obao.GF256

abbrev Part := List Nat

structure Cfg where
  (threshold : Int)        -- `sealConfig.SecretThreshold` (a Go `int`)
  (minLen maxLen : Nat)    -- `barrier.KeyLength()` bounds, `maxLen` already including `shamir.ShareOverhead`
  deriving Repr

inductive Outcome
  | tooShort                       -- `ErrInvalidKey` "shorter than minimum"; nothing recorded
  | tooLong                        -- `ErrInvalidKey` "longer than maximum"; nothing recorded
  | duplicate                      -- `recordUnsealPart` found the part: `(false, nil)`; nothing recorded
  | pending (progress : Nat)       -- recorded; `len(Parts) < threshold`: `getUnsealKey` returns `nil, nil`
  | key (k : List Nat)             -- threshold met: combined key produced; progress reset
  | combineErr (e : CombineErr)    -- threshold met, `shamir.Combine` failed; progress reset
  deriving DecidableEq, Repr

/-- one `unsealFragment` call: new recorded parts and what the caller gets -/
def submit (cfg : Cfg) (parts : List Part) (key : Part) : List Part × Outcome :=
  if key.length < cfg.minLen then (parts, .tooShort)
  else if key.length > cfg.maxLen then (parts, .tooLong)
  else if parts.contains key then (parts, .duplicate)
  else
    let parts' := parts ++ [key]
    if (parts'.length : Int) < cfg.threshold then (parts', .pending parts'.length)
    else if cfg.threshold = 1 then ([], .key (match parts with | [] => key | p0 :: _ => p0))  -- `Parts[0]`
    else match combine parts' with
      | .ok k => ([], .key k)
      | .error e => ([], .combineErr e)

/-- `SealStatus().Progress` -/
def progress (parts : List Part) : Nat := parts.length

/-- a whole history of submissions from a given state: final state and the outcomes, in order -/
def run (cfg : Cfg) : List Part → List Part → List Part × List Outcome
  | st, [] => (st, [])
  | st, k :: ks =>
    let r := submit cfg st k
    let rest := run cfg r.1 ks
    (rest.1, r.2 :: rest.2)

/-- an outcome that ends an attempt (progress is reset) -/
def Outcome.completes : Outcome → Bool
  | .key _ | .combineErr _ => true
  | _ => false

/-! ### key rotation / rekey / generate-root: the same accounting followed by a verification step

`rotate.go` `(*SealManager).UpdateRotation` → `progressRotation` (duplicate ⇒ error, append, `len < threshold` ⇒
nothing, `Parts[0]` | `shamir.Combine`, progress reset) and then, before anything is rotated, the verification of
the recovered key: `seal.VerifyRecoveryKey` (constant-time comparison with the stored recovery key) when
`recovery || seal.RecoveryKeySupported()`, and for a Shamir barrier the recovered key must decrypt the stored root
key (`testseal.GetStoredKeys` + `barrier.VerifyRoot`). Both are modelled symbolically as *equality with the key the
current shares were dealt from* (`cfg.secret`). `rekey.go` (legacy) and `generate_root.go` have the same shape with
the length checks of `unsealFragment` in front (`cfg.lenCheck`). -/

structure RotCfg where
  (threshold : Int)                   -- `SecretThreshold` of the *existing* (recovery or barrier) config
  (secret : List Nat)                 -- the key the current shares were dealt from
  (lenCheck : Option (Nat × Nat))     -- `some (min, max)` where the path checks the part length first
  deriving Repr

inductive RotOutcome
  | tooShort | tooLong                -- only with `lenCheck`
  | duplicate                         -- "given key has already been provided"; nothing recorded
  | pending (progress : Nat)          -- recorded; below the threshold
  | combineErr (e : CombineErr)       -- threshold met, `shamir.Combine` failed; progress reset
  | verifyFail                        -- recovered key is not the current key: refused; progress reset
  | proceeds                          -- verification passed: the rotation / rekey / root generation goes ahead
  deriving DecidableEq, Repr

/-- `Parts[0]` for threshold 1, `shamir.Combine(Parts)` otherwise, on `Parts = st ++ [key]` -/
def recoverKey (threshold : Int) (st : List Part) (key : Part) : Except CombineErr (List Nat) :=
  if threshold = 1 then .ok (match st with | [] => key | p0 :: _ => p0) else combine (st ++ [key])

/-- one `UpdateRotation` / `BarrierRekeyUpdate` / `GenerateRootUpdate` call -/
def rotSubmit (cfg : RotCfg) (st : List Part) (key : Part) : List Part × RotOutcome :=
  match cfg.lenCheck with
  | some (mn, mx) =>
    if key.length < mn then (st, .tooShort)
    else if key.length > mx then (st, .tooLong)
    else rest
  | none => rest
where
  rest : List Part × RotOutcome :=
    if st.contains key then (st, .duplicate)
    else if ((st ++ [key]).length : Int) < cfg.threshold then (st ++ [key], .pending (st.length + 1))
    else match recoverKey cfg.threshold st key with
      | .error e => ([], .combineErr e)
      | .ok k => if k = cfg.secret then ([], .proceeds) else ([], .verifyFail)

/-- a whole history of submissions to one rotation attempt sequence -/
def rotRun (cfg : RotCfg) : List Part → List Part → List Part × List RotOutcome
  | st, [] => (st, [])
  | st, k :: ks =>
    let r := rotSubmit cfg st k
    let rest := rotRun cfg r.1 ks
    (rest.1, r.2 :: rest.2)

end Obao.Threshold
