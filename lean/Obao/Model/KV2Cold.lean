import Obao.Model.KV2
/-!
C14, cold-start part: the mount-level caches of the versioned KV backend (`backend.go`): the cached mount
configuration (`b.globalConfig`, filled by `config()`), the cached key encryptor and the cached salt (`b.salt`,
filled by `Salt()` → `salt.NewSalt`, which generates AND Puts a new salt through whatever storage handle the
current request carries — inside the request's transaction when there is one).

Transliterated, at storage-operation granularity with the fault knob of DESIGN section 4:
* `confWriteF` — pathConfigWrite.  `config()` hands out a copy of the cached configuration, on a hit and (since the
  repair of finding F28) on a miss; before the repair the miss path returned THE object it had just cached and the
  handler mutated it before the Put.
* `coldWrite` — pathDataWrite of a key that does not exist yet (no clean-up), with every cache possibly cold.
  The salt generated on a miss is cached at once, but persisted only if the transaction commits.
`restart` drops the caches.  `coldWrite` violates C14's "a write that fails leaves data and metadata unchanged" from a
cold salt cache on transactional storage (finding F29; `Obao/Props/C14.lean`: `failed_write_salt_persisted_cex`).
-/
namespace Obao.KV2

deriving instance DecidableEq for Config

structure Cold where
  cfgStored : Config          -- the durable config entry (absent = zero value)
  cfgCache : Option Config    -- b.globalConfig
  encCache : Bool             -- b.keyEncryptedWrapper loaded (its policy is created at mount time)
  saltStored : Option Nat     -- id of the persisted salt
  saltCache : Option Nat      -- b.salt
  nextSalt : Nat              -- a generated salt is fresh
  deriving DecidableEq

def coldInit : Cold :=
  { cfgStored := initCfg, cfgCache := none, encCache := false, saltStored := none, saltCache := none, nextSalt := 1 }

/-- the configuration the handlers apply -/
def Cold.effective (c : Cold) : Config :=
  match c.cfgCache with
  | some cfg => cfg
  | none => c.cfgStored

def Cold.restart (c : Cold) : Cold := { c with cfgCache := none, encCache := false, saltCache := none }

def hit (fault : Option Nat) (n : Nat) : Bool := fault == some n

/-- pathConfigWrite: [BeginTx] [Get config — cache miss only] Put [Commit].  Returns (state, failed, fault fired). -/
def confWriteF (c : Cold) (mx : Option Int) (cr : Option Bool) (dva : Option DvaArg) (tx : Bool) (fault : Option Nat) :
    Cold × Bool × Bool :=
  let b := if tx then 1 else 0
  if tx ∧ hit fault 0 then (c, true, true) else
  if mx.isNone ∧ cr.isNone ∧ dva.isNone then (c, false, false) else
  match c.cfgCache with
  | some cfg =>
    -- cache hit: `config()` hands out a copy
    let new := confWrite cfg mx cr dva
    if hit fault b then (c, true, true)
    else if tx ∧ hit fault (b + 1) then (c, true, true)
    else ({ c with cfgStored := new, cfgCache := some new }, false, false)
  | none =>
    if hit fault b then (c, true, true) else          -- the Get failed: nothing cached
    -- cache miss: the loaded object is cached, the handler works on a copy of it (as on a hit)
    let new := confWrite c.cfgStored mx cr dva
    if hit fault (b + 1) then ({ c with cfgCache := some c.cfgStored }, true, true)
    else if tx ∧ hit fault (b + 2) then ({ c with cfgCache := some c.cfgStored }, true, true)
    else ({ c with cfgStored := new, cfgCache := some new }, false, false)

/-- the Puts and the Commit of the write once the salt is known; `pending`: a freshly generated salt was Put inside
    the transaction and becomes durable only with the commit -/
def coldWriteTail (c : Cold) (id : Nat) (pending : Bool) (tx : Bool) (fault : Option Nat) (n : Nat) :
    Cold × Option Nat × Bool :=
  if hit fault n then (c, none, true)                     -- Put blob
  else if hit fault (n + 1) then (c, none, true)          -- Put metadata
  else if tx ∧ hit fault (n + 2) then (c, none, true)     -- Commit
  else ({ c with saltStored := if pending then some id else c.saltStored }, some id, false)

/-- pathDataWrite of a new key, up to and including the Get of the key metadata: [Get config — miss only, outside the
    transaction] [BeginTx] [Get policy — encryptor miss only] Get metadata.  `none` = a fault hit; else the index of
    the next storage operation.  Only the config and encryptor caches can change here. -/
def coldPrelude (c : Cold) (tx : Bool) (fault : Option Nat) : Cold × Option Nat :=
  if c.cfgCache.isNone ∧ hit fault 0 then (c, none) else
  let n := if c.cfgCache.isNone then 1 else 0
  let c := if c.cfgCache.isNone then { c with cfgCache := some c.cfgStored } else c
  if tx ∧ hit fault n then (c, none) else
  let n := if tx then n + 1 else n
  if !c.encCache ∧ hit fault n then (c, none) else
  let n := if c.encCache then n else n + 1
  let c := { c with encCache := true }
  if hit fault n then (c, none) else (c, some (n + 1))

/-- … and from the salt on: [Get salt, Put salt — salt miss only, Put only when none is stored] Put blob, Put
    metadata [Commit] -/
def coldSalt (c : Cold) (tx : Bool) (fault : Option Nat) (n : Nat) : Cold × Option Nat × Bool :=
  match c.saltCache with
  | some id => coldWriteTail c id false tx fault n
  | none =>
    if hit fault n then (c, none, true) else              -- Get salt
    match c.saltStored with
    | some id => coldWriteTail { c with saltCache := some id } id false tx fault (n + 1)
    | none =>
      if hit fault (n + 1) then ({ c with nextSalt := c.nextSalt + 1 }, none, true) else   -- Put salt failed
      coldWriteTail { c with saltCache := some c.nextSalt, nextSalt := c.nextSalt + 1,
                             saltStored := if tx then c.saltStored else some c.nextSalt } c.nextSalt tx tx fault (n + 2)

/-- pathDataWrite of a new key.  Returns (state, the salt id the blob was stored under — none = the write failed,
    fault fired). -/
def coldWrite (c : Cold) (tx : Bool) (fault : Option Nat) : Cold × Option Nat × Bool :=
  match coldPrelude c tx fault with
  | (c', none) => (c', none, true)
  | (c', some n) => coldSalt c' tx fault n

/-- can a blob stored under salt `id` be found after a restart: the salt a later request derives version keys from
    is the persisted one (a read cannot persist a new one; a write would persist a different one) -/
def readableAfterRestart (c : Cold) (id : Nat) : Bool := c.restart.saltStored == some id

end Obao.KV2
