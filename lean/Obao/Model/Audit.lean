import Obao.Model.Prelude
/-!
Model of `internal/vault/audit_broker.go`: `AuditBroker.LogRequest` / `LogResponse` (the two functions have the
same control flow; only the device method and the message differ).

One call visits the registered devices in Go map order — modelled as an arbitrary list, the theorems hold for
every list and the result is shown to be invariant under permutation.  Per device, in this order:

1. `headersConfig.ApplyConfig(ctx, headers, be.backend.GetHash)` — the device's `GetHash` runs when an audited
   header is configured with `hmac`; an error makes the loop `continue` (the device is NOT asked to log);
2. `be.backend.LogRequest/LogResponse(ctx, in)` — `nil` sets `anyLogged`, an error is only logged.

A panic in either step leaves the loop; the deferred `recover()` turns it into the error
"panic generating audit log" — even when an earlier device had accepted the entry.  After a complete loop:
error "no audit backend succeeded" iff `!anyLogged && len(a.backends) > 0`.
-/
namespace Obao.Audit

/-- what one device does when the broker reaches it -/
inductive Outcome where
  | ok        -- header hashing fine, Log* returns nil
  | err       -- header hashing fine, Log* returns an error
  | panic     -- header hashing fine, Log* panics
  | hdrErr    -- GetHash (header HMAC) returns an error: `continue`, Log* is not called
  | hdrPanic  -- GetHash panics
  deriving DecidableEq, Repr, Inhabited

def Outcome.isPanic : Outcome → Bool
  | .panic => true
  | .hdrPanic => true
  | _ => false

/-- does the broker call the device's Log* method when it reaches it? -/
def Outcome.logCalled : Outcome → Bool
  | .ok => true
  | .err => true
  | .panic => true
  | _ => false

inductive Res where
  | ok
  | errNoneLogged   -- "no audit backend succeeded in logging the request/response"
  | errPanic        -- "panic generating audit log"
  deriving DecidableEq, Repr, Inhabited

/-- how the `for name, be := range a.backends` loop ends -/
inductive LoopEnd where
  | completed (anyLogged : Bool)
  | panicked
  deriving DecidableEq, Repr

/-- the loop, carrying `anyLogged` -/
def loop : List Outcome → Bool → LoopEnd
  | [], any => .completed any
  | .ok :: rest, _ => loop rest true
  | .err :: rest, any => loop rest any
  | .hdrErr :: rest, any => loop rest any
  | .panic :: _, _ => .panicked
  | .hdrPanic :: _, _ => .panicked

/-- `LogRequest` / `LogResponse` over the devices in visiting order -/
def brokerLog (devs : List Outcome) : Res :=
  match loop devs false with
  | .panicked => .errPanic
  | .completed any => if !any && devs.length > 0 then .errNoneLogged else .ok

/-- the devices the loop reaches (up to and including the first panicking one) -/
def visited : List Outcome → List Outcome
  | [] => []
  | o :: rest => if o.isPanic then [o] else o :: visited rest

/-- number of devices whose Log* method was invoked -/
def logCalls (devs : List Outcome) : Nat := ((visited devs).filter Outcome.logCalled).length

/-- number of devices that ACCEPTED the entry (Log* returned nil) -/
def accepted (devs : List Outcome) : Nat := ((visited devs).filter (· == .ok)).length

/-! ### `AuditedHeadersConfig.ApplyConfig` (`audited_headers.go`): which request headers a device gets to see -/

/-- `strings.ToLower` on header names (ASCII; the driver rejects anything else) -/
def lower (s : String) : String := s.map Char.toLower

/-- `cfg`: the configured header names (stored lower-cased by `add`) with their `hmac` flag; `headers`: the request's
headers.  Only configured headers are copied; their values are replaced by `hash v` when `hmac` is set.
(`lowerHeaders[strings.ToLower(k)] = v`: with two request headers differing only in case Go's map order decides;
the model takes the first, the harness never generates such a pair.) -/
def applyHeaders (hash : String → String) (cfg : List (String × Bool)) (headers : List (String × List String)) :
    List (String × List String) :=
  cfg.filterMap fun c =>
    match headers.find? (fun h => lower h.1 == c.1) with
    | some h => some (c.1, if c.2 then h.2.map hash else h.2)
    | none => none

end Obao.Audit
