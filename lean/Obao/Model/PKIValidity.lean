import Obao.Model.Prelude
/-!
Model of the validity computation of the PKI engine: `getCertificateNotBefore`, `getCertificateNotAfter`
(`internal/builtin/logical/pki/cert_util.go`) and the `NotBefore` handling of `certutil.createCertificate`
(issue) / `certutil.signCertificate` (sign, sign-verbatim) in `sdk/helper/certutil/helpers.go`.

All instants and durations are `Int` in one unit (the driver uses nanoseconds, as `time.Time`/`time.Duration`
do); `now` is an input (the several `time.Now()` calls of one request are identified).  A Go zero `time.Time`
/ an absent parameter is `none`.  Certificates carry whole seconds: `truncSec`.
-/
namespace Obao.PKIValidity

/-- the role's `not_after_bound` -/
inductive NAB where
  | unset | permit | forbid | ttlLimited
  | timestamp (t : Int)
  deriving DecidableEq, Repr

/-- the issuer's `leaf_not_after_behavior` -/
inductive LNAB where
  | err | truncate | permit
  deriving DecidableEq, Repr

/-- the role's `not_before_bound` (`other` = a value none of the three cases matches, e.g. the empty
string of the synthetic sign-verbatim role) -/
inductive NBB where
  | permit | duration | forbid | other
  deriving DecidableEq, Repr

inductive VErr where
  | naForbid | ttlBoth | naTTLLimited | naPast | naBeyondCA | naTimestamp
  | nbForbid | nbDuration | nbAfter | nbEqual
  deriving DecidableEq, Repr

structure VIn where
  now : Int
  /-- request `ttl` (0 = absent) -/
  reqTTL : Int
  (reqNotAfter roleNotAfter : Option Int)
  nab : NAB
  (roleTTL roleMaxTTL : Int)
  /-- `System().DefaultLeaseTTL()` / `MaxLeaseTTL()` of the mount -/
  (mountDefault mountMax : Int)
  /-- the signing CA: its certificate's `NotAfter` and the issuer's behaviour; `none` = self-signed -/
  issuer : Option (Int × LNAB)
  (reqNotBefore roleNotBefore : Option Int)
  nbb : NBB
  /-- the role's `not_before_duration` -/
  nbd : Int
  deriving Repr

/-- the maximum the role/mount impose: role `max_ttl` when positive, else the mount maximum -/
def effMax (i : VIn) : Int := if i.roleMaxTTL > 0 then i.roleMaxTTL else i.mountMax

/-- the TTL `getCertificateNotAfter` ends up using -/
def effTTL (i : VIn) : Int :=
  let ttl := if i.reqTTL = 0 ∧ i.roleTTL > 0 then i.roleTTL else i.reqTTL
  let ttl := if ttl = 0 then i.mountDefault else ttl
  if ttl > effMax i then effMax i else ttl

/-- `notAfter.After(limit)` for the local `notAfter` (still the zero time when nothing was parsed) -/
def parsedAfter (parsed : Option Int) (limit : Int) : Bool :=
  match parsed with
  | some t => decide (t > limit)
  | none => false

/-- first part of `getCertificateNotAfter`: `notAfterAlt` (the role's value, else the request's unless
forbidden) and the local `notAfter` parsed so far (only a request value is parsed at this point) -/
def selectNotAfter (i : VIn) : Except VErr (Option Int × Option Int) :=
  match i.roleNotAfter with
  | some t => .ok (some t, none)
  | none =>
    match i.reqNotAfter with
    | some t => if i.nab = .forbid then .error .naForbid else .ok (some t, some t)
    | none => .ok (none, none)

/-- the comparison with the signing CA's `NotAfter` and the issuer's `leaf_not_after_behavior` -/
def capAtIssuer (i : VIn) (na : Int) : Except VErr Int :=
  match i.issuer with
  | none => .ok na
  | some (caNA, beh) =>
    if na > caNA then
      match beh with
      | .permit => .ok na
      | .truncate => if na < i.now then .error .naPast else .ok caNA
      | .err => .error .naBeyondCA
    else .ok na

/-- a CEL role (`cel/issue/<role>`, `cel/sign/<role>`): the program computes the template's NotAfter itself; the issuer's
`leaf_not_after_behavior` is applied to it like to a classic role's (`applyLeafNotAfterBehavior`, repair F75) -/
def celNotAfter (now na caNA : Int) (beh : LNAB) : Except VErr Int :=
  capAtIssuer { now, reqTTL := 0, reqNotAfter := none, roleNotAfter := none, nab := .permit, roleTTL := 0, roleMaxTTL := 0,
                mountDefault := 0, mountMax := 0, issuer := some (caNA, beh), reqNotBefore := none, roleNotBefore := none,
                nbb := .permit, nbd := 0 } na

/-- the last test: an explicit timestamp as `not_after_bound` -/
def boundByTimestamp (i : VIn) (na : Int) : Except VErr Int :=
  match i.nab with
  | .timestamp ts => if na > ts then .error .naTimestamp else .ok na
  | _ => .ok na

/-- `notAfterAlt` parsed when there is one, else `now + ttl` -/
def altOr (alt : Option Int) (d : Int) : Int :=
  match alt with
  | some t => t
  | none => d

/-- `getCertificateNotAfter` -/
def getNotAfter (i : VIn) : Except VErr Int :=
  match selectNotAfter i with
  | .error e => .error e
  | .ok (alt, parsed) =>
    if i.reqTTL > 0 ∧ alt.isSome then .error .ttlBoth else
    let ttl := effTTL i
    if i.nab = .ttlLimited ∧ parsedAfter parsed (i.now + ttl) then .error .naTTLLimited else
    match capAtIssuer i (altOr alt (i.now + ttl)) with
    | .error e => .error e
    | .ok na' => boundByTimestamp i na'

/-- (specification) the value `getCertificateNotAfter` would use without looking at the issuer -/
def requestedNotAfter (i : VIn) : Int :=
  match i.roleNotAfter, i.reqNotAfter with
  | some t, _ => t
  | none, some t => t
  | none, none => i.now + effTTL i

/-- `getCertificateNotBefore`: the explicit NotBefore (`none` = zero time) -/
def getNotBefore (i : VIn) : Except VErr (Option Int) :=
  match i.roleNotBefore with
  | some t => .ok (some t)
  | none =>
    match i.reqNotBefore with
    | none => .ok none
    | some t =>
      match i.nbb with
      | .permit => .ok (some t)
      | .duration => if t < i.now - i.nbd then .error .nbDuration else .ok (some t)
      | .forbid => .error .nbForbid
      | .other => .ok none

def sec30 (unit : Int) : Int := 30 * unit

/-- validity of a certificate made by `createCertificate` (issue): (notBefore, notAfter); `unit` = one second -/
def issueValidity (unit : Int) (i : VIn) : Except VErr (Int × Int) :=
  match getNotBefore i with
  | .error e => .error e
  | .ok nb? =>
    match getNotAfter i with
    | .error e => .error e
    | .ok na =>
      let nb := match nb? with
        | some t => t
        | none => if i.nbd > 0 then i.now - i.nbd else i.now - sec30 unit
      if nb > na then .error .nbAfter
      else if nb = na then .error .nbEqual
      else .ok (nb, na)

/-- validity of a certificate made by `signCertificate` (sign, sign-verbatim) BEFORE the repair F74: an explicit
NotBefore was computed (and could be refused) but not used, and the order of the two instants was not checked -/
def signValidityIgnoringNotBefore (unit : Int) (i : VIn) : Except VErr (Int × Int) :=
  match getNotBefore i with
  | .error e => .error e
  | .ok _ =>
    match getNotAfter i with
    | .error e => .error e
    | .ok na => .ok (if i.nbd > 0 then i.now - i.nbd else i.now - sec30 unit, na)

/-- validity of a certificate made by `signCertificate` (sign, sign-verbatim): the same precedence and the same two
checks as the issue path -/
def signValidity (unit : Int) (i : VIn) : Except VErr (Int × Int) := issueValidity unit i

/-- whole seconds as X.509 encodes them (`unit` ticks per second, `unit > 0`) -/
def truncSec (unit : Int) (t : Int) : Int := t / unit

end Obao.PKIValidity
