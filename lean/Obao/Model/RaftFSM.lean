import Obao.Model.Prelude
/-!
Model of the apply side of the integrated (raft) storage: `internal/physical/raft/fsm.go` (`ApplyBatch`,
`applyBatchNonTxOps`, `applyBatchTxOps`, `listPageInner`, `Restore`, `NewFSM`) and the fast-application
tracker of `transaction.go` (`fsmTxnCommitIndexTracker`, `fsmTxnCommitIndexApplicationState`).

A replica is `{kv, latest, tracker, cfg}`:
* `kv`      the `data` bucket of the bolt file (sorted association list, bytes as `List Nat`);
* `latest`  `latestIndex` (persisted in the `config` bucket inside the same bolt update as the batch);
* `tracker` `fastTxnTracker.indexModifiedMap` (created by `NewFSM`, never persisted, never touched by `Restore`);
* `cfg`     index of `latestConfig`.

`applyBatch` follows the code: `latestIndex` is read once per batch, every command gets an
`applyState(latestIndex, offset, log.Index)`, a transaction is pre-verified (each verification is skipped when
`canFastWrite()` or when the tracker shows no write to the key / under the list prefix after the start index),
writes are applied only after all verifications passed, a conflict yields the sentinel entry and no write,
`clearOldEntries` runs once after the batch with the last `LowestActiveIndex` seen.

Symbolic hashing (DESIGN section 4): a `verifyReadOp` carries the value the client observed instead of its
SHA-384 (`none` = a hash that matches nothing: truncated / wrong type / other key); the hashed content is
`{key}value` with an absent key hashed like an empty value, exactly as `doVerifyEntry(key, b.Get(key), …)` does;
a `verifyListOp` carries the observed items, compared after `strings.Join(items, "\n")` as the code hashes them.

The boolean `fast` of `applyEntry` switches the optimisation off (`fast = false`: every verification is
evaluated); `applyLoop`/`applyBatch` take it per entry (`fastOf`). The Go code corresponds to `fastOf = fun _ => true`
(`Mode.fast`), the reference algorithm of the C09 theorems to `fun _ => false` (`Mode.full`).

Outside the model (the driver rejects such input): non-increasing log indexes per replica (the tracker's
`panic("saw later index …")` branch, proved unreachable under increasing indexes in `Obao/Proofs/RaftFSM.lean`),
unparsable `beginTxOp`/`verifyListOp` JSON and bolt `Put` errors (empty / oversized keys) — these make
`ApplyBatch` panic and are never produced by `RaftBackend`. Since the repair 2f3ed8e `listPageInner` seeks to the
plain concatenation `prefix + after` (no `filepath.Join`), so every `prefix`/`after` is inside the model: prefixes
without trailing slash, `after` values with empty or dot segments.
-/
namespace Obao.RaftFSM

abbrev Key := List Nat
abbrev Val := List Nat
abbrev Store := List (Key × Val)

/-- byte-wise lexicographic `<` (Go string comparison, bolt key order) -/
def bytesLt : List Nat → List Nat → Bool
  | [], [] => false
  | [], _ :: _ => true
  | _ :: _, [] => false
  | a :: as, b :: bs => if a < b then true else if b < a then false else bytesLt as bs

def bytesLe (a b : List Nat) : Bool := !bytesLt b a

def hasPrefix : List Nat → List Nat → Bool
  | [], _ => true
  | _ :: _, [] => false
  | p :: ps, k :: ks => p == k && hasPrefix ps ks

/-- `bucket.Get` -/
def get : Store → Key → Option Val
  | [], _ => none
  | (k', v) :: r, k => if k' = k then some v else get r k

/-- `bucket.Put`: replace or insert in key order -/
def put : Store → Key → Val → Store
  | [], k, v => [(k, v)]
  | (k', v') :: r, k, v =>
    if k' = k then (k, v) :: r
    else if bytesLt k k' then (k, v) :: (k', v') :: r
    else (k', v') :: put r k v

/-- `bucket.Delete` (no error when the key is absent) -/
def del : Store → Key → Store
  | [], _ => []
  | (k', v') :: r, k => if k' = k then del r k else (k', v') :: del r k

def keys (s : Store) : List Key := s.map (·.1)

/-! ### operations, entries -/

inductive Op where
  | put (k : Key) (v : Val)
  | del (k : Key)
  /-- `verifyReadOp`: `obs = some v` — hash of `{k}v` (an absent key is hashed as the empty value);
      `none` — a hash that cannot match -/
  | vread (k : Key) (obs : Option Val)
  /-- `verifyListOp` with its JSON parameters and the observed items (`none` = hash that cannot match) -/
  | vlist (pfx after : Key) (limit : Int) (obs : Option (List Key))
  | begin (start : Nat)
  | commit
  /-- any other op type (`getOp`, `restoreCallbackOp` without callback, unknown): logged and ignored -/
  | other
  deriving DecidableEq, Repr

inductive Cmd where
  /-- `raft.LogCommand` carrying a `LogData` -/
  | data (ops : List Op)
  /-- `raft.LogConfiguration` -/
  | config
  deriving DecidableEq, Repr

structure Entry where
  idx : Nat
  /-- `LogData.LowestActiveIndex` (optional field) -/
  low : Option Nat
  cmd : Cmd
  deriving DecidableEq, Repr

inductive Verdict where
  | plain      -- non-transactional command: empty entry slice
  | commit     -- transaction applied: empty entry slice
  | conflict   -- transaction rejected: the sentinel `FSMEntry`
  | config
  deriving DecidableEq, Repr

/-! ### listing (`listPageInner`) -/

def slash : Nat := 47

/-- index of the first `/`, as `strings.Index(key, "/")` -/
def slashIndex : List Nat → Option Nat
  | [] => none
  | c :: cs => if c = slash then some 0 else (slashIndex cs).map (· + 1)

/-- `seekPrefix := []byte(prefix + after)`: the plain concatenation, never cleaned; it always carries the
prefix (`after = ""` gives the prefix itself) -/
def seekKey (pfx after : Key) : Key := pfx ++ after

/-- body of the cursor loop over the candidate keys (in key order), `acc` = `keys` so far -/
def listLoop (pfx after : Key) (limit : Int) : List Key → List Key → List Key
  | [], acc => acc
  | k :: ks, acc =>
    if limit > 0 ∧ (acc.length : Int) ≥ limit then acc
    else
      let key := k.drop pfx.length
      match slashIndex key with
      | none =>
        if after ≠ [] ∧ bytesLe key after then listLoop pfx after limit ks acc
        else listLoop pfx after limit ks (acc ++ [key])
      | some i =>
        let folder := key.take (i + 1)
        if acc.getLast? = some folder then listLoop pfx after limit ks acc
        else if after ≠ [] ∧ bytesLe folder after then listLoop pfx after limit ks acc
        else listLoop pfx after limit ks (acc ++ [folder])

/-- the keys the cursor visits: bolt iterates in byte order, so `Seek(seekPrefix)` followed by `Next` while
`HasPrefix(k, prefix)` visits exactly the stored keys `≥ seekPrefix` that carry the prefix, in order
(`seekPrefix` itself carries the prefix, keys sharing a prefix are contiguous) -/
def listCands (s : Store) (pfx after : Key) : List Key :=
  (keys s).filter fun k => hasPrefix pfx k && bytesLe (seekKey pfx after) k

def listPage (s : Store) (pfx after : Key) (limit : Int) : List Key :=
  listLoop pfx after limit (listCands s pfx after) []

/-- `strings.Join(items, "\n")` -/
def joinNl : List Key → List Nat
  | [] => []
  | [x] => x
  | x :: y :: r => x ++ 10 :: joinNl (y :: r)

/-! ### verification -/

/-- `doVerifyEntry(op.Key, b.Get(op.Key), op.Value) == nil` -/
def readMatches (s : Store) (k : Key) (obs : Option Val) : Bool :=
  match obs with
  | none => false
  | some o =>
    match get s k with
    | none => o == []
    | some v => o == v

/-- `doVerifyList(op.Key, listPageInner(…), op.Value) == nil` -/
def listMatches (s : Store) (pfx after : Key) (limit : Int) (obs : Option (List Key)) : Bool :=
  match obs with
  | none => false
  | some items => joinNl (listPage s pfx after limit) == joinNl items

/-! ### the tracker (`indexModifiedMap`) -/

abbrev Tracker := List (Nat × List Key)

/-- `indexModifiedMap[index] = keys` (assignment replaces what was recorded for that index) -/
def Tracker.set (t : Tracker) (i : Nat) (ks : List Key) : Tracker := (i, ks) :: t.filter (fun p => p.1 != i)

/-- `clearOldEntries(lowestActiveIndex)`: delete every index `< lowestActiveIndex` -/
def Tracker.clear (t : Tracker) (low : Nat) : Tracker := t.filter (fun p => !decide (p.1 < low))

/-- `hasModifiedEntry(minIndex, maxIndex, key)`: indexes `≤ minIndex` are skipped; an index `> maxIndex`
panics (see `trackerPanics`) -/
def hasModifiedEntry (t : Tracker) (minIndex : Nat) (k : Key) : Bool :=
  t.any fun p => decide (minIndex < p.1) && p.2.contains k

def normListKey (key : Key) : Key :=
  match key.getLast? with
  | some c => if c = slash then key else key ++ [slash]
  | none => key

/-- `hasModifiedListEntry(minIndex, maxIndex, key)` -/
def hasModifiedListEntry (t : Tracker) (minIndex : Nat) (key : Key) : Bool :=
  t.any fun p => decide (minIndex < p.1) &&
    p.2.any fun m => key == [] || key == [slash] || hasPrefix (normListKey key) m

/-- the condition under which `hasModifiedEntry`/`hasModifiedListEntry` panic ("saw later index") -/
def trackerPanics (t : Tracker) (minIndex maxIndex : Nat) : Bool :=
  t.any fun p => decide (minIndex < p.1) && decide (maxIndex < p.1)

/-! ### applying one command -/

def isTx : List Op → Bool
  | .begin _ :: _ => true
  | _ => false

def isCommit : Op → Bool
  | .commit => true
  | _ => false

def isBegin : Op → Bool
  | .begin _ => true
  | _ => false

/-- `Operations[0].OpType == beginTxOp && Operations[len-1].OpType == commitTxOp` -/
def endsOk (ops : List Op) : Bool :=
  (match ops.head? with | some o => isBegin o | none => false) &&
  (match ops.getLast? with | some o => isCommit o | none => false)

/-- one iteration of the verification loop of `applyBatchTxOps`; `true` = no error.
`canFast` = `canFastWrite()`, `start` = `txnStartIndex` (set by the `beginTxOp` at position 0). -/
def verifyOp (fast : Bool) (s : Store) (tr : Tracker) (canFast : Bool) (start : Nat)
    (ops : List Op) (pos : Nat) (op : Op) : Bool :=
  match op with
  | .begin _ | .commit => endsOk ops && (pos == 0 || pos + 1 == ops.length)
  | .vread k obs =>
    (fast && (canFast || !hasModifiedEntry tr start k)) || readMatches s k obs
  | .vlist p a l obs =>
    (fast && (canFast || !hasModifiedListEntry tr start p)) || listMatches s p a l obs
  | .put _ _ | .del _ | .other => true

def verifyLoop (fast : Bool) (s : Store) (tr : Tracker) (canFast : Bool) (start : Nat) (ops : List Op) :
    Nat → List Op → Bool
  | _, [] => true
  | pos, op :: rest =>
    verifyOp fast s tr canFast start ops pos op && verifyLoop fast s tr canFast start ops (pos + 1) rest

/-- the write phase (both for transactions and for plain commands): puts and deletes in order -/
def applyWrites (s : Store) : List Op → Store
  | [] => s
  | .put k v :: r => applyWrites (put s k v) r
  | .del k :: r => applyWrites (del s k) r
  | _ :: r => applyWrites s r

def writeKeys : List Op → List Key
  | [] => []
  | .put k _ :: r => k :: writeKeys r
  | .del k :: r => k :: writeKeys r
  | _ :: r => writeKeys r

/-- tracker after a plain command: every write calls `parent.logWrite(index, key)`, which REPLACES the set
recorded for that index by `{key}` — only the last written key survives; no write, no record -/
def plainTrack (t : Tracker) (idx : Nat) (ops : List Op) : Tracker :=
  match (writeKeys ops).getLast? with
  | some k => t.set idx [k]
  | none => t

def txStart : List Op → Nat
  | .begin s :: _ => s
  | _ => 0

/-- `applyBatchNonTxOps` / `applyBatchTxOps` for one `LogData`, with
`applyState(latest0, offset, idx)` -/
def applyData (fast : Bool) (s : Store) (tr : Tracker) (latest0 offset idx : Nat) (ops : List Op) :
    Store × Tracker × Verdict :=
  if isTx ops then
    let start := txStart ops
    let canFast := offset == 0 && latest0 == start
    if verifyLoop fast s tr canFast start ops 0 ops then
      (applyWrites s ops, tr.set idx (writeKeys ops), .commit)
    else (s, tr, .conflict)
  else (applyWrites s ops, plainTrack tr idx ops, .plain)

def applyEntry (fast : Bool) (s : Store) (tr : Tracker) (latest0 offset : Nat) (e : Entry) :
    Store × Tracker × Verdict :=
  match e.cmd with
  | .config => (s, tr, .config)
  | .data ops => applyData fast s tr latest0 offset e.idx ops

/-- the loop over the commands of a batch (`commandIndex` = `offset`). `fastOf e` tells whether the fast path
may be used for entry `e`: constantly `true` in the Go code (see `Mode`). -/
def applyLoop (fastOf : Entry → Bool) (latest0 : Nat) :
    Nat → Store → Tracker → List Entry → Store × Tracker × List Verdict
  | _, s, tr, [] => (s, tr, [])
  | offset, s, tr, e :: es =>
    let r := applyEntry (fastOf e) s tr latest0 offset e
    let r' := applyLoop fastOf latest0 (offset + 1) r.1 r.2.1 es
    (r'.1, r'.2.1, r.2.2 :: r'.2.2)

/-- the last `LowestActiveIndex` carried by a `LogData` of the batch -/
def lastLow : List Entry → Option Nat
  | [] => none
  | e :: es =>
    match lastLow es with
    | some l => some l
    | none => match e.cmd with
      | .data _ => e.low
      | .config => none

def lastConfig : List Entry → Option Nat
  | [] => none
  | e :: es =>
    match lastConfig es with
    | some i => some i
    | none => match e.cmd with
      | .config => some e.idx
      | .data _ => none

structure Replica where
  kv : Store
  latest : Nat
  tracker : Tracker
  cfg : Nat
  deriving DecidableEq, Repr

def Replica.fresh : Replica := { kv := [], latest := 0, tracker := [], cfg := 0 }

/-- `FSM.ApplyBatch` -/
def applyBatch (fastOf : Entry → Bool) (r : Replica) (es : List Entry) : Replica × List Verdict :=
  match es.getLast? with
  | none => (r, [])
  | some lastE =>
    let res := applyLoop fastOf r.latest 0 r.kv r.tracker es
    let tr := match lastLow es with
      | some l => res.2.1.clear l
      | none => res.2.1
    ({ kv := res.1,
       latest := if r.latest < lastE.idx then lastE.idx else r.latest,
       tracker := tr,
       cfg := match lastConfig es with | some i => i | none => r.cfg },
     res.2.2)

/-- process restart: `Close` + `NewFSM` on the same directory — the bolt file (data, latest index, latest
configuration) survives, the tracker is new -/
def Replica.restart (r : Replica) : Replica := { r with tracker := [] }

/-- snapshot install (`BoltSnapshotSink` + `FSM.Restore`): the bolt file is replaced by the source's data
with the snapshot's index and configuration; the tracker object is kept -/
def Replica.install (r src : Replica) : Replica :=
  { kv := src.kv, latest := src.latest, tracker := r.tracker, cfg := src.cfg }

/-- `FSM.witnessSnapshot` (called by `noopSnapshotter.Persist` when raft persists a LOCAL snapshot): raft captures the
snapshot position on the FSM goroutine and calls `Persist` later, from another goroutine, while the FSM keeps applying
entries — so the witnessed index is routinely behind the FSM's. The index only ever moves forward ("fast-forward"). -/
def Replica.witness (r : Replica) (idx : Nat) : Replica :=
  if r.latest < idx then { r with latest := idx } else r

/-- the defective variant (tree before the repair F60): the witnessed index is stored unconditionally, moving the
FSM's own index backwards -/
def Replica.witnessRegress (r : Replica) (idx : Nat) : Replica := { r with latest := idx }

/-! ### reference semantics: full verification of every transaction against the state produced by the prefix -/

def fullVerify (s : Store) (ops : List Op) : Bool :=
  verifyLoop false s [] false 0 ops 0 ops

def refStep (s : Store) (e : Entry) : Store × Verdict :=
  match e.cmd with
  | .config => (s, .config)
  | .data ops =>
    if isTx ops then
      if fullVerify s ops then (applyWrites s ops, .commit) else (s, .conflict)
    else (applyWrites s ops, .plain)

def refState : Store → List Entry → Store
  | s, [] => s
  | s, e :: es => refState (refStep s e).1 es

def refVerdicts : Store → List Entry → List Verdict
  | _, [] => []
  | s, e :: es => (refStep s e).2 :: refVerdicts (refStep s e).1 es

/-! ### the tracker's panic branch -/

/-- would a tracker lookup made while applying `e` run into `panic("saw later index …")`? (over-approximated:
every transaction is taken to consult the tracker) -/
def entryPanics (tr : Tracker) (e : Entry) : Bool :=
  match e.cmd with
  | .data ops => isTx ops && trackerPanics tr (txStart ops) e.idx
  | .config => false

def loopPanics (fastOf : Entry → Bool) (latest0 : Nat) : Nat → Store → Tracker → List Entry → Bool
  | _, _, _, [] => false
  | offset, s, tr, e :: es =>
    entryPanics tr e ||
      loopPanics fastOf latest0 (offset + 1) (applyEntry (fastOf e) s tr latest0 offset e).1
        (applyEntry (fastOf e) s tr latest0 offset e).2.1 es

def batchPanics (fastOf : Entry → Bool) (r : Replica) (es : List Entry) : Bool :=
  loopPanics fastOf r.latest 0 r.kv r.tracker es

/-! ### vocabulary of the partial theorems (all executable, so that the non-vacuity examples are `decide`d) -/

/-- keys an entry writes when the reference semantics applies it to `s` (nothing when it is rejected) -/
def effKeys (s : Store) (e : Entry) : List Key :=
  match e.cmd with
  | .config => []
  | .data ops => if isTx ops then (if fullVerify s ops then writeKeys ops else []) else writeKeys ops

/-- a verification record agrees with state `s` (the state the client observed) -/
def observedOp (s : Store) : Op → Bool
  | .vread k obs => readMatches s k obs
  | .vlist p a l obs => listMatches s p a l obs
  | _ => true

def observedAt (s : Store) (ops : List Op) : Bool := ops.all (observedOp s)

/-- list prefixes are empty or end in `/` (what `hasModifiedListEntry`'s normalisation silently assumes) -/
def prefixOk (p : Key) : Bool := normListKey p == p

def prefixesOk (ops : List Op) : Bool :=
  ops.all fun op => match op with
    | .vlist p _ _ _ => prefixOk p
    | _ => true

/-- the transaction `ops`, committed after the entries `pre`, was built by an honest client: for some split
`pre = p1 ++ mid` its verification records agree with the reference state after `p1` (the bolt snapshot it
read from) and every later entry carries an index above its start index (the start index is read before the
snapshot is opened) -/
def honestAt (pre : List Entry) (ops : List Op) : Bool :=
  prefixesOk ops &&
  (List.range (pre.length + 1)).any fun j =>
    observedAt (refState [] (pre.take j)) ops && (pre.drop j).all fun e' => decide (txStart ops < e'.idx)

def honestFrom (pre : List Entry) : List Entry → Bool
  | [] => true
  | e :: rest =>
    (match e.cmd with
     | .data ops => !isTx ops || honestAt pre ops
     | .config => true) && honestFrom (pre ++ [e]) rest

/-- plain commands write at most one key (what `RaftBackend.Put/Delete` produce) -/
def plainSingle (log : List Entry) : Bool :=
  log.all fun e => match e.cmd with
    | .data ops => isTx ops || decide ((writeKeys ops).length ≤ 1)
    | .config => true

def lastIdx (l : List Entry) : Nat :=
  match l.getLast? with
  | some e => e.idx
  | none => 0

/-! ### executions of a group of replicas over one committed log -/

/-- the three algorithms the theorems speak about -/
inductive Mode where
  /-- every verification evaluated (the reference algorithm with batching, restarts, snapshots) -/
  | full
  /-- the Go code: fast path whenever `canFastWrite` or the tracker shows no conflicting write -/
  | fast
  /-- repair candidate: the replica keeps a completeness watermark `wm` (raised to the latest index by `NewFSM`
  and `Restore`, to `LowestActiveIndex - 1` by `clearOldEntries`) and uses the fast path only for transactions
  whose start index is at or above it -/
  | guarded
  deriving DecidableEq, Repr

def Mode.fastOf : Mode → Nat → Entry → Bool
  | .full, _, _ => false
  | .fast, _, _ => true
  | .guarded, wm, e => match e.cmd with
    | .data ops => decide (wm ≤ txStart ops)
    | .config => true

structure Node where
  rep : Replica
  /-- number of log entries this replica has consumed (applied or covered by an installed snapshot) -/
  pos : Nat
  /-- verdicts reported so far, with the log position of the entry -/
  out : List (Nat × Verdict)
  /-- the tracker holds every effective write with index `> wm` that this replica has consumed (ghost in the
  modes `full` and `fast`, a real field of the repaired FSM in mode `guarded`) -/
  wm : Nat
  /-- ghost: every transaction applied so far started at or after the watermark of that moment -/
  ok : Bool
  deriving DecidableEq, Repr

def Node.fresh : Node := { rep := .fresh, pos := 0, out := [], wm := 0, ok := true }

inductive Ev where
  /-- replica `r` is handed the next `n` entries of the log as one batch -/
  | batch (r n : Nat)
  | restart (r : Nat)
  /-- replica `dst` installs a snapshot streamed from replica `src` -/
  | snap (dst src : Nat)
  /-- `clearOldEntries(low)` executed on replica `r` only: what `RaftTransaction.Rollback` (and the leak
  cleanup) do on the node where the transaction ran, outside the replicated log -/
  | lclear (r low : Nat)
  deriving DecidableEq, Repr

def zipPos (pos : Nat) : List Verdict → List (Nat × Verdict)
  | [] => []
  | v :: vs => (pos, v) :: zipPos (pos + 1) vs

/-- ghost check for one batch: each transaction of the batch starts at or after the watermark -/
def batchOk (wm : Nat) (es : List Entry) : Bool :=
  es.all fun e => match e.cmd with
    | .data ops => !isTx ops || decide (wm ≤ txStart ops)
    | .config => true

def Node.batch (m : Mode) (log : List Entry) (nd : Node) (n : Nat) : Node :=
  let es := (log.drop nd.pos).take n
  let res := applyBatch (m.fastOf nd.wm) nd.rep es
  { rep := res.1, pos := nd.pos + es.length, out := nd.out ++ zipPos nd.pos res.2,
    wm := match lastLow es with
      | some l => if nd.wm < l - 1 then l - 1 else nd.wm
      | none => nd.wm,
    ok := nd.ok && batchOk nd.wm es }

def Node.restart (nd : Node) : Node := { nd with rep := nd.rep.restart, wm := nd.rep.latest }

def Node.install (nd src : Node) : Node :=
  if nd.pos ≤ src.pos then
    { nd with rep := nd.rep.install src.rep, pos := src.pos, wm := src.rep.latest, ok := nd.ok && src.ok }
  else nd

def Node.lclear (nd : Node) (low : Nat) : Node :=
  { nd with rep := { nd.rep with tracker := nd.rep.tracker.clear low },
            wm := if nd.wm < low - 1 then low - 1 else nd.wm }

def sysStep (m : Mode) (log : List Entry) (nodes : List Node) : Ev → List Node
  | .batch r n => match nodes[r]? with
    | some nd => nodes.set r (nd.batch m log n)
    | none => nodes
  | .restart r => match nodes[r]? with
    | some nd => nodes.set r nd.restart
    | none => nodes
  | .snap d s => match nodes[d]?, nodes[s]? with
    | some nd, some src => nodes.set d (nd.install src)
    | _, _ => nodes
  | .lclear r low => match nodes[r]? with
    | some nd => nodes.set r (nd.lclear low)
    | none => nodes

def sysRun (m : Mode) (log : List Entry) : List Node → List Ev → List Node
  | nodes, [] => nodes
  | nodes, ev :: evs => sysRun m log (sysStep m log nodes ev) evs

def sysInit (k : Nat) : List Node := List.replicate k Node.fresh

end Obao.RaftFSM
