import Obao.Model.Prelude
/-!
Model of `sdk/logical/path.go IsRelativePath` and `sdk/logical/storage_view.go storageView`
(`internal/vault/barrier/view.go` delegates every storage operation to a `logical.StorageView`, adding only the
read-only check, so it is the same model).

Go strings are byte strings: paths and keys are `List Nat` (one element per byte; `'/' = 47`, `'.' = 46`).
The underlying storage is modelled as the sorted list of keys present, with `sdk/physical/inmem`'s
`listPaginatedInternal` transliterated (the harness runs the views over a real `logical.InmemStorage`).
-/
namespace Obao.View

abbrev Bytes := List Nat

def slash : Nat := 47
def dot : Nat := 46

/-- `strings.HasPrefix` / `strings.HasSuffix` -/
def hasPrefix (s p : Bytes) : Bool := p.isPrefixOf s
def hasSuffix (s p : Bytes) : Bool := p.isSuffixOf s

/-- Go slice expression `s[i:j]` (only used with `j ≤ len(s)`, which the callers check first) -/
def slice (s : Bytes) (i j : Nat) : Bytes := (s.drop i).take (j - i)

/-- the loop body of `IsRelativePath` at byte position `index` -/
def midAt (path : Bytes) (index : Nat) : Bool :=
  path[index]? == some slash &&
    ((decide (index + 3 ≤ path.length) && slice path index (index + 3) == [slash, dot, slash]) ||
     (decide (index + 4 ≤ path.length) && slice path index (index + 4) == [slash, dot, dot, slash]))

/-- `logical.IsRelativePath`, same case order and index arithmetic as the Go function -/
def isRelativePath (path : Bytes) : Bool :=
  if path == [dot] || path == [dot, dot] || hasPrefix path [dot, slash] || hasPrefix path [dot, dot, slash] then true
  else if hasSuffix path [slash, dot] || hasSuffix path [slash, dot, dot] then true
  else (List.range path.length).any (midAt path)

/-- segment-level meaning: split at every `/` (keeps empty segments, like `strings.Split(s, "/")`) -/
def splitSlash : Bytes → List Bytes
  | [] => [[]]
  | c :: cs =>
    if c = slash then [] :: splitSlash cs
    else match splitSlash cs with
      | [] => [[c]]
      | s :: r => (c :: s) :: r

def isDotSeg (s : Bytes) : Bool := s == [dot] || s == [dot, dot]

def hasDotSegment (p : Bytes) : Bool := (splitSlash p).any isDotSeg

/-! ### the view -/

inductive Touch where
  | relative                 -- `ErrRelativePath`, nothing below the view is called
  | key (k : Bytes)          -- exactly this key of the underlying storage is touched
  deriving DecidableEq, Repr

/-- `SanityCheck` then `ExpandKey`: what `Get/Put/Delete/List/ListPage` of a view with prefix `p` hand to the
underlying storage for the caller's key `k` -/
def touch (p k : Bytes) : Touch :=
  if isRelativePath k then .relative else .key (p ++ k)

/-- `ExpandKey` -/
def expandKey (p k : Bytes) : Bytes := p ++ k

/-- `TruncateKey` = `strings.TrimPrefix(full, prefix)` -/
def truncateKey (p full : Bytes) : Bytes := if p.isPrefixOf full then full.drop p.length else full

/-- `SubView(q)`: a new view over the SAME underlying storage with prefix `ExpandKey(q)` (no sanity check) -/
def subView (p q : Bytes) : Bytes := expandKey p q

/-- prefix of a view reached through a chain of `SubView` calls from a root view -/
def chainPrefix : List Bytes → Bytes
  | [] => []
  | p :: qs => qs.foldl subView p

/-! ### the underlying in-memory storage (sorted key list) -/

/-- bytewise lexicographic `<` (Go string comparison) -/
def bytesLt : Bytes → Bytes → Bool
  | [], [] => false
  | [], _ :: _ => true
  | _ :: _, [] => false
  | a :: as, b :: bs => if a < b then true else if b < a then false else bytesLt as bs

def bytesLe (a b : Bytes) : Bool := !bytesLt b a

def insertKey (k : Bytes) : List Bytes → List Bytes
  | [] => [k]
  | x :: xs => if k == x then x :: xs else if bytesLt k x then k :: x :: xs else x :: insertKey k xs

def eraseKey (k : Bytes) (ks : List Bytes) : List Bytes := ks.filter (· != k)

/-- index of the first `/` (`strings.Index(trimmed, "/")`), `none` = -1 -/
def indexSlash : Bytes → Option Nat
  | [] => none
  | c :: cs => if c = slash then some 0 else (indexSlash cs).map (· + 1)

/-- one visit of `walkFn` in `listPaginatedInternal` (keys arrive in sorted order, all with the prefix) -/
def listStep (pfx after : Bytes) (limit : Int) (out : List Bytes) (key : Bytes) : List Bytes :=
  if limit > 0 ∧ (out.length : Int) ≥ limit then out else
  let trimmed := truncateKey pfx key
  match indexSlash trimmed with
  | none =>
    if after ≠ [] ∧ bytesLe trimmed after then out else out ++ [trimmed]
  | some sep =>
    let trimmed := trimmed.take (sep + 1)
    if after ≠ [] ∧ bytesLe trimmed after then out
    else if out.contains trimmed then out else out ++ [trimmed]

/-- `InmemBackend.ListPage(prefix, after, limit)`; `List(prefix)` is `ListPage(prefix, "", -1)` -/
def listPage (keys : List Bytes) (pfx after : Bytes) (limit : Int) : List Bytes :=
  (keys.filter (fun k => pfx.isPrefixOf k)).foldl (listStep pfx after limit) []

end Obao.View
