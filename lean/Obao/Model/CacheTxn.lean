import Obao.Model.InmemTxn
/-!
C08 — model of the transactional cache layer `sdk/physical/cache.go` at operation granularity, stacked on the
inmem model: the parent `transactionalCache` keeps an LRU of `key ↦ entry` (negative results included);
`BeginTx` wraps the inner transaction with a FRESH private cache (`cloneWithStorage`); `Get` answers from the
cache on a hit and never reaches the layer below; `Put` writes through and caches, `Delete` writes through and
evicts, both record the key in `modified`; listings pass through; `Commit` commits the inner transaction and
on success evicts every modified key from the PARENT cache; `Rollback` passes through.

The LRU (golang-lru 2Q, 128 Ki entries; 2 Ki per transaction) is modelled as an unbounded map: no eviction
happens on the small key spaces the harness uses. `logical.LogicalStorage` and `logical.StorageView` above the
cache only rename keys and are transparent.
-/
namespace Obao.CacheTxn
open Obao.SerialTxn Obao.InmemTxn

abbrev Lru := List (Key × Option Val)

def lruSet (c : Lru) (k : Key) (e : Option Val) : Lru := (k, e) :: c.filter (fun x => x.1 != k)
def lruRemove (c : Lru) (k : Key) : Lru := c.filter (fun x => x.1 != k)

/-- `cacheTransaction` minus the wrapped transaction (which lives in the inner `Sys` under the same id) -/
structure CTxn where
  lru : Lru
  modified : List Key
  deriving DecidableEq, Repr

structure CSys where
  inner : Sys
  lru : Lru
  ctxns : List (Nat × CTxn)
  deriving DecidableEq, Repr

def CSys.init (s0 : Store) : CSys := { inner := Sys.init s0, lru := [], ctxns := [] }

def setC : List (Nat × CTxn) → Nat → CTxn → List (Nat × CTxn)
  | [], id, t => [(id, t)]
  | (i, t') :: r, id, t => if i = id then (id, t) :: r else (i, t') :: setC r id t

def CSys.step (s : CSys) : Event → Option (CSys × Res)
  | .begin id w =>
    match s.inner.step (.begin id w) with
    | none => none
    | some (i', r) => some ({ s with inner := i', ctxns := setC s.ctxns id { lru := [], modified := [] } }, r)
  | .op id o =>
    match s.ctxns.lookup id with
    | none => none
    | some c =>
      match o with
      | .get k =>
        match c.lru.lookup k with
        | some e => some (s, .val e)             -- cache hit: the wrapped transaction is not consulted
        | none =>
          match s.inner.step (.op id o) with
          | none => none
          | some (i', .val e) => some ({ s with inner := i', ctxns := setC s.ctxns id { c with lru := lruSet c.lru k e } }, .val e)
          | some (i', r) => some ({ s with inner := i' }, r)
      | .put k v =>
        match s.inner.step (.op id o) with
        | none => none
        | some (i', .ok) =>
          some ({ s with inner := i', ctxns := setC s.ctxns id { lru := lruSet c.lru k (some v), modified := k :: c.modified } }, .ok)
        | some (i', r) => some ({ s with inner := i' }, r)
      | .del k =>
        match s.inner.step (.op id o) with
        | none => none
        | some (i', .ok) =>
          some ({ s with inner := i', ctxns := setC s.ctxns id { lru := lruRemove c.lru k, modified := k :: c.modified } }, .ok)
        | some (i', r) => some ({ s with inner := i' }, r)
      | .list .. =>
        match s.inner.step (.op id o) with
        | none => none
        | some (i', r) => some ({ s with inner := i' }, r)
  | .commit id =>
    match s.ctxns.lookup id with
    | none => none
    | some c =>
      match s.inner.step (.commit id) with
      | none => none
      | some (i', .ok) => some ({ s with inner := i', lru := c.modified.foldl lruRemove s.lru }, .ok)
      | some (i', r) => some ({ s with inner := i' }, r)
  | .rollback id =>
    match s.inner.step (.rollback id) with
    | none => none
    | some (i', r) => some ({ s with inner := i' }, r)
  | .plain o =>
    match o with
    | .get k =>
      match s.lru.lookup k with
      | some e => some (s, .val e)
      | none =>
        match s.inner.step (.plain o) with
        | none => none
        | some (i', .val e) => some ({ s with inner := i', lru := lruSet s.lru k e }, .val e)
        | some (i', r) => some ({ s with inner := i' }, r)
    | .put k v =>
      match s.inner.step (.plain o) with
      | none => none
      | some (i', r) => some ({ s with inner := i', lru := lruSet s.lru k (some v) }, r)
    | .del k =>
      match s.inner.step (.plain o) with
      | none => none
      | some (i', r) => some ({ s with inner := i', lru := lruRemove s.lru k }, r)
    | .list .. =>
      match s.inner.step (.plain o) with
      | none => none
      | some (i', r) => some ({ s with inner := i' }, r)

/-- follow a schedule (events naming unknown transactions are skipped) -/
def CSys.run : CSys → List Event → CSys
  | s, [] => s
  | s, e :: es =>
    match s.step e with
    | none => s.run es
    | some (s', _) => s'.run es

/-- every entry of the parent cache is what the backend below holds for that key -/
def ParentCoherent (s : CSys) : Prop := ∀ k e, s.lru.lookup k = some e → e = sget s.inner.parent k

/-- every entry of an OPEN transaction's private cache is what the wrapped transaction holds for that key -/
def TxnCoherent (s : CSys) : Prop :=
  ∀ id c t, s.ctxns.lookup id = some c → s.inner.txns.lookup id = some t → t.finished = false →
    ∀ k e, c.lru.lookup k = some e → e = sget t.root k

end Obao.CacheTxn
