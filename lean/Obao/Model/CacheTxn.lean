import Obao.Model.InmemTxn
/-!
C08 — model of the transactional cache layer `sdk/physical/cache.go` at operation granularity, stacked on the
inmem model: the parent `transactionalCache` keeps an LRU of `key ↦ entry` (negative results included);
`BeginTx` wraps the inner transaction with a FRESH private cache (`cloneWithStorage`); `Get` answers from the
cache on a hit and never reaches the layer below; `Put` writes through and caches, `Delete` writes through and
evicts, both record the key in `modified`; listings pass through; `Commit` marks the cache transaction finished,
commits the inner transaction and on success evicts every modified key from the PARENT cache; `Rollback` marks it
finished and passes through; a finished cache transaction hands `Get` to the wrapped transaction instead of its
private cache (the repair of F22), so that it is refused like every other operation.

The LRU (golang-lru 2Q, 128 Ki entries; 2 Ki per transaction) is modelled as an unbounded map: no eviction
happens on the small key spaces the harness uses. `logical.LogicalStorage` and `logical.StorageView` above the
cache only rename keys and are transparent.
-/
namespace Obao.CacheTxn
open Obao.SerialTxn Obao.InmemTxn

abbrev Lru := List (Key × Option Val)

def lruSet (c : Lru) (k : Key) (e : Option Val) : Lru := (k, e) :: c.filter (fun x => x.1 != k)
def lruRemove (c : Lru) (k : Key) : Lru := c.filter (fun x => x.1 != k)

/-- `cacheTransaction` minus the wrapped transaction (which lives in the inner `Sys` under the same id) -/
structure CTxn where
  lru : Lru
  modified : List Key
  finished : Bool := false     -- `Commit` or `Rollback` has been called: reads bypass the private cache
  deriving DecidableEq, Repr

structure CSys where
  inner : Sys
  lru : Lru
  ctxns : List (Nat × CTxn)
  deriving DecidableEq, Repr

def CSys.init (s0 : Store) : CSys := { inner := Sys.init s0, lru := [], ctxns := [] }

def setC : List (Nat × CTxn) → Nat → CTxn → List (Nat × CTxn)
  | [], id, t => [(id, t)]
  | (i, t') :: r, id, t => if i = id then (id, t) :: r else (i, t') :: setC r id t

def CSys.step (s : CSys) : Event → Option (CSys × Res)
  | .begin id w =>
    match s.inner.step (.begin id w) with
    | none => none
    | some (i', r) => some ({ s with inner := i', ctxns := setC s.ctxns id { lru := [], modified := [] } }, r)
  | .op id o =>
    match s.ctxns.lookup id with
    | none => none
    | some c =>
      match o with
      | .get k =>
        if c.finished then
          -- finished: the private cache is no longer consulted, the wrapped transaction answers
          match s.inner.step (.op id o) with
          | none => none
          | some (i', r) => some ({ s with inner := i' }, r)
        else
        match c.lru.lookup k with
        | some e => some (s, .val e)             -- cache hit: the wrapped transaction is not consulted
        | none =>
          match s.inner.step (.op id o) with
          | none => none
          | some (i', .val e) => some ({ s with inner := i', ctxns := setC s.ctxns id { c with lru := lruSet c.lru k e } }, .val e)
          | some (i', r) => some ({ s with inner := i' }, r)
      | .put k v =>
        match s.inner.step (.op id o) with
        | none => none
        | some (i', .ok) =>
          some ({ s with inner := i', ctxns := setC s.ctxns id { c with lru := lruSet c.lru k (some v), modified := k :: c.modified } }, .ok)
        | some (i', r) => some ({ s with inner := i' }, r)
      | .del k =>
        match s.inner.step (.op id o) with
        | none => none
        | some (i', .ok) =>
          some ({ s with inner := i', ctxns := setC s.ctxns id { c with lru := lruRemove c.lru k, modified := k :: c.modified } }, .ok)
        | some (i', r) => some ({ s with inner := i' }, r)
      | .list .. =>
        match s.inner.step (.op id o) with
        | none => none
        | some (i', r) => some ({ s with inner := i' }, r)
  | .commit id =>
    match s.ctxns.lookup id with
    | none => none
    | some c =>
      match s.inner.step (.commit id) with
      | none => none
      | some (i', .ok) =>
        some ({ inner := i', lru := c.modified.foldl lruRemove s.lru, ctxns := setC s.ctxns id { c with finished := true } }, .ok)
      | some (i', r) => some ({ s with inner := i', ctxns := setC s.ctxns id { c with finished := true } }, r)
  | .rollback id =>
    match s.ctxns.lookup id with
    | none => none
    | some c =>
      match s.inner.step (.rollback id) with
      | none => none
      | some (i', r) => some ({ s with inner := i', ctxns := setC s.ctxns id { c with finished := true } }, r)
  | .plain o =>
    match o with
    | .get k =>
      match s.lru.lookup k with
      | some e => some (s, .val e)
      | none =>
        match s.inner.step (.plain o) with
        | none => none
        | some (i', .val e) => some ({ s with inner := i', lru := lruSet s.lru k e }, .val e)
        | some (i', r) => some ({ s with inner := i' }, r)
    | .put k v =>
      match s.inner.step (.plain o) with
      | none => none
      | some (i', r) => some ({ s with inner := i', lru := lruSet s.lru k (some v) }, r)
    | .del k =>
      match s.inner.step (.plain o) with
      | none => none
      | some (i', r) => some ({ s with inner := i', lru := lruRemove s.lru k }, r)
    | .list .. =>
      match s.inner.step (.plain o) with
      | none => none
      | some (i', r) => some ({ s with inner := i' }, r)

/-- follow a schedule (events naming unknown transactions are skipped) -/
def CSys.run : CSys → List Event → CSys
  | s, [] => s
  | s, e :: es =>
    match s.step e with
    | none => s.run es
    | some (s', _) => s'.run es

/-- every entry of the parent cache is what the backend below holds for that key -/
def ParentCoherent (s : CSys) : Prop := ∀ k e, s.lru.lookup k = some e → e = sget s.inner.parent k

/-- whenever the wrapped transaction is finished the cache transaction knows it -/
def FlagInv (s : CSys) : Prop :=
  ∀ id c t, s.ctxns.lookup id = some c → s.inner.txns.lookup id = some t → t.finished = true → c.finished = true

/-- every entry of an OPEN transaction's private cache is what the wrapped transaction holds for that key -/
def TxnCoherent (s : CSys) : Prop :=
  ∀ id c t, s.ctxns.lookup id = some c → s.inner.txns.lookup id = some t → t.finished = false →
    ∀ k e, c.lru.lookup k = some e → e = sget t.root k

/-! ### `cacheTransaction.Commit` in micro-steps, in CODE ORDER

`Commit` is (1) the underlying transaction's `Commit` (atomic below: inmem holds the parent lock), then, only if
that succeeded, (2) one `parent.lru.Remove(key)` per modified key (each under that key's stripe lock). Between any
two micro-steps a concurrent plain reader may run a whole `cache.Get(k)` on the PARENT cache (hit, or miss →
backend read → LRU fill, negative results included; `cache.Get` holds the key's stripe lock, so it is atomic
with respect to the eviction of that key). -/

inductive Phase where
  | before                                  -- underlying commit not yet executed
  | invalidating (pending : List Key)       -- underlying commit done and successful; keys still to evict
  | done
  deriving DecidableEq, Repr

structure Win where
  sys : CSys
  id : Nat
  phase : Phase
  res : Res          -- what `Commit` returns (meaningful once `phase = done`)
  deriving DecidableEq, Repr

inductive WStep where
  | reader (k : Key)      -- a concurrent plain `cache.Get(k)`
  | tick                  -- the committing goroutine performs its next micro-step
  deriving DecidableEq, Repr

/-- the commit window opens only for a transaction the cache layer and the layer below both know -/
def Win.start (s : CSys) (id : Nat) : Option Win :=
  match s.ctxns.lookup id, s.inner.txns.lookup id with
  | some _, some _ => some { sys := s, id := id, phase := .before, res := .ok }
  | _, _ => none

def Win.reader (w : Win) (k : Key) : Win × Res :=
  match w.sys.step (.plain (.get k)) with
  | some (s', r) => ({ w with sys := s' }, r)
  | none => (w, .val none)     -- unreachable: a plain step is always defined (`plain_get_defined`)

def Win.tick (w : Win) : Win :=
  match w.phase with
  | .before =>
    match w.sys.ctxns.lookup w.id, w.sys.inner.step (.commit w.id) with
    | some c, some (i', .ok) =>
      { w with sys := { w.sys with inner := i', ctxns := setC w.sys.ctxns w.id { c with finished := true } },
               phase := .invalidating c.modified, res := .ok }
    | some c, some (i', r) =>
      { w with sys := { w.sys with inner := i', ctxns := setC w.sys.ctxns w.id { c with finished := true } },
               phase := .done, res := r }
    | _, _ => w
  | .invalidating [] => { w with phase := .done }
  | .invalidating (k :: rest) => { w with sys := { w.sys with lru := lruRemove w.sys.lru k }, phase := .invalidating rest }
  | .done => w

def Win.step (w : Win) : WStep → Win
  | .reader k => (w.reader k).1
  | .tick => w.tick

def Win.run (w : Win) : List WStep → Win
  | [] => w
  | st :: r => (w.step st).run r

/-- all remaining evictions, then return -/
def Win.drain (w : Win) : Win :=
  match w.phase with
  | .invalidating pending => { w with sys := { w.sys with lru := pending.foldl lruRemove w.sys.lru }, phase := .done }
  | _ => w

/-- the committing goroutine runs to the end of `Commit` without further interference -/
def Win.finish (w : Win) : Win :=
  match w.phase with
  | .before => w.tick.drain
  | _ => w.drain

/-- schedules at micro-step granularity: ordinary (atomic) events, or a commit executed in micro-steps with any
    interleaving of concurrent readers (the remaining micro-steps are appended) -/
inductive MEvent where
  | ev (e : Event)
  | window (id : Nat) (sched : List WStep)
  deriving Repr

def CSys.runM : CSys → List MEvent → CSys
  | s, [] => s
  | s, .ev e :: r =>
    match s.step e with
    | none => s.runM r
    | some (s', _) => s'.runM r
  | s, .window id sched :: r =>
    match Win.start s id with
    | none => s.runM r
    | some w => ((w.run sched).finish.sys).runM r

/-- MODEL VARIANT, not the code: the two halves of `Commit` in the REVERSED order — evict the modified keys from
    the parent cache first, let concurrent readers run, then commit below -/
def commitReversed (s : CSys) (id : Nat) (readers : List Key) : Option CSys :=
  match s.ctxns.lookup id with
  | none => none
  | some c =>
    let s1 : CSys := { s with lru := c.modified.foldl lruRemove s.lru }
    let s2 := readers.foldl (fun st k => match st.step (.plain (.get k)) with | some (s', _) => s' | none => st) s1
    match s2.inner.step (.commit id) with
    | none => none
    | some (i', _) => some { s2 with inner := i', ctxns := setC s2.ctxns id { c with finished := true } }

/-! ### the commit window at LOCK granularity

`cache.Get(k)` on the parent cache is, in code order: acquire the READ lock of `k`'s lock stripe; LRU lookup
(a hit returns at once); on a miss read the backend; `lru.Add` the result (negative results included); release.
`cacheTransaction.Commit` is: the underlying commit; then for every modified key: acquire the WRITE lock of the
key's stripe (blocked while any reader holds that stripe's read lock), `lru.Remove(key)`, release. Locks are the
256 stripes of `locksutil` (`stripe : Key → Nat`, a parameter: the theorems hold for every assignment, collisions
included). Any number of readers; schedules interleave reader micro-steps with the commit's. A blocked step is a
no-op. (A reader may acquire while the writer is still waiting: Go's writer preference only removes schedules.)
`locking = false` is a MODEL VARIANT, not the code: the eviction takes no lock. -/

inductive RPc where
  | start                          -- not yet holding the lock
  | locked                         -- read lock held, nothing done yet
  | hit (e : Option Val)           -- LRU hit, lock still held
  | missed                         -- LRU miss, backend not yet read
  | fetched (e : Option Val)       -- backend read returned, not yet added
  | filled (e : Option Val)        -- added to the LRU, lock still held
  | done (e : Option Val)          -- lock released, `e` returned
  deriving DecidableEq, Repr

def RPc.holds : RPc → Bool
  | .start => false
  | .done _ => false
  | _ => true

structure Reader where
  key : Key
  pc : RPc
  deriving DecidableEq, Repr

inductive WLock where
  | free
  | held (k : Key)         -- write lock of `k`'s stripe held, `k` not yet removed
  | removed (k : Key)      -- `k` removed, lock not yet released
  deriving DecidableEq, Repr

structure MWin where
  w : Win                  -- the commit's progress: `before`, `invalidating (k :: rest)` = `k` is next, `done`
  lock : WLock
  readers : List Reader
  locking : Bool           -- `true` = the code; `false` = the lock-free variant of the eviction
  deriving Repr

inductive MStep where
  | spawn (k : Key)        -- a new concurrent `cache.Get(k)` is invoked
  | reader (i : Nat)       -- reader `i` performs its next micro-step (no-op when blocked or finished)
  | commit                 -- the committing goroutine performs its next micro-step (no-op when blocked or finished)
  deriving DecidableEq, Repr

def MWin.start (s : CSys) (id : Nat) (locking : Bool) : Option MWin :=
  (Win.start s id).map fun w => { w := w, lock := .free, readers := [], locking := locking }

/-- does the committing goroutine hold the write lock of `k`'s stripe -/
def MWin.writerHolds (m : MWin) (stripe : Key → Nat) (k : Key) : Bool :=
  match m.lock with
  | .free => false
  | .held k' => m.locking && stripe k' == stripe k
  | .removed k' => m.locking && stripe k' == stripe k

/-- does some reader hold the read lock of `k`'s stripe -/
def MWin.readerHolds (m : MWin) (stripe : Key → Nat) (k : Key) : Bool :=
  m.readers.any fun r => r.pc.holds && stripe r.key == stripe k

def MWin.setLru (m : MWin) (lru : Lru) : MWin := { m with w := { m.w with sys := { m.w.sys with lru := lru } } }

/-- one micro-step of a reader -/
def MWin.readerStep (m : MWin) (stripe : Key → Nat) (r : Reader) : MWin × Reader :=
  match r.pc with
  | .start => if m.writerHolds stripe r.key then (m, r) else (m, { r with pc := .locked })
  | .locked =>
    match m.w.sys.lru.lookup r.key with
    | some e => (m, { r with pc := .hit e })
    | none => (m, { r with pc := .missed })
  | .hit e => (m, { r with pc := .done e })
  | .missed => (m, { r with pc := .fetched (sget m.w.sys.inner.parent r.key) })
  | .fetched e => (m.setLru (lruSet m.w.sys.lru r.key e), { r with pc := .filled e })
  | .filled e => (m, { r with pc := .done e })
  | .done _ => (m, r)

/-- one micro-step of the committing goroutine -/
def MWin.commitStep (m : MWin) (stripe : Key → Nat) : MWin :=
  match m.w.phase, m.lock with
  | .before, _ => { m with w := m.w.tick }
  | .invalidating _, .removed _ => { m with lock := .free }
  | .invalidating [], _ => { m with w := m.w.tick }
  | .invalidating (k :: _), .free =>
    if m.locking && m.readerHolds stripe k then m else { m with lock := .held k }
  | .invalidating (_ :: _), .held k => { m with w := m.w.tick, lock := .removed k }
  | .done, _ => m

def MWin.step (m : MWin) (stripe : Key → Nat) : MStep → MWin
  | .spawn k => { m with readers := m.readers ++ [{ key := k, pc := .start }] }
  | .reader i =>
    match m.readers[i]? with
    | none => m
    | some r => let (m', r') := m.readerStep stripe r; { m' with readers := m'.readers.set i r' }
  | .commit => m.commitStep stripe

def MWin.run (m : MWin) (stripe : Key → Nat) : List MStep → MWin
  | [] => m
  | st :: r => (m.step stripe st).run stripe r

/-- `Commit` has returned and every reader has returned -/
def MWin.quiescent (m : MWin) : Bool :=
  m.w.phase == .done && m.lock == .free && m.readers.all fun r => match r.pc with | .done _ => true | _ => false

/-- schedules with lock-granular commit windows. A window that is left before everything returned is closed by
    letting `Commit` run to its end and abandoning the unfinished readers (they add nothing any more). -/
inductive LEvent where
  | ev (e : Event)
  | window (id : Nat) (sched : List MStep)
  deriving Repr

def CSys.runL (stripe : Key → Nat) : CSys → List LEvent → CSys
  | s, [] => s
  | s, .ev e :: r =>
    match s.step e with
    | none => CSys.runL stripe s r
    | some (s', _) => CSys.runL stripe s' r
  | s, .window id sched :: r =>
    match MWin.start s id true with
    | none => CSys.runL stripe s r
    | some m => CSys.runL stripe ((m.run stripe sched).w.finish.sys) r

end Obao.CacheTxn
