import Obao.Model.Prelude
/-!
Model of `internal/vault/policy`: `parsePaths` post-processing (policy.go), `NewACL`, `AllowOperation`,
`CheckAllowedFromNonExactPaths` (non-`bareMount` mode) and `Capabilities` (acl.go), root namespace.

Transliteration, not a tidy re-statement: same branch order, same "first rule clones, later rules merge" asymmetry,
same list/scan fallback order, same comparator. Conventions:

* paths are Go strings = byte sequences: `Path := List Nat` (each `< 256`); `'/' = 47`, `'+' = 43`, `'*' = 42`;
* the radix trees and the segment-wildcard map are association lists in insertion order with unique keys
  (`upsert`); `radix.LongestPrefix` = the stored key that is the longest prefix of the path; ranging over the
  Go map `segmentWildcardPaths` + `sort.Slice(less)` + "take the last" = the maximum under `less` (`pickMax`);
  `C03.less_strict_total` shows the maximum does not depend on the iteration order;
* capability bitmaps are `Nat` (`x & CapInt > 0` is `Nat.testBit x i`), durations are whole seconds (`Int`);
* Go `map[string][]any` = association list with unique keys (`PMap`); parameter values are `PVal`;
* deep copies (`Clone`, `copystructure.Copy`, `slices.Clone`) are the identity on values: the model has no aliasing.
  Aliasing in the real `NewACL` (it used to append to slices owned by the cached `*Policy`: F18, repaired) is a
  model/implementation difference that the correspondence stream exposes (shared-object cases, see props/C03.py);
* control groups, MFA lists, granting-policy lists, `ResponseKeysFilterPath`, path expiration and identity
  templating are not modelled (DESIGN.md section 5, C03 "Limits").
-/
namespace Obao.ACL

abbrev Path := List Nat

def slash : Nat := 47
def plus : Nat := 43
def star : Nat := 42

/-- ASCII string → path bytes (used by examples; the driver converts through UTF-8) -/
def bs (s : String) : Path := s.toList.map Char.toNat

/-! ### capability bits (policy.go: `DenyCapabilityInt uint32 = 1 << iota` …) -/
def denyI : Nat := 0
def createI : Nat := 1
def readI : Nat := 2
def updateI : Nat := 3
def deleteI : Nat := 4
def listI : Nat := 5
def sudoI : Nat := 6
def patchI : Nat := 7
def scanI : Nat := 8

/-- `DenyCapabilityInt` as a bitmap -/
def denyBits : Nat := 1

def capIndex? (c : String) : Option Nat :=
  if c = "deny" then some denyI else if c = "create" then some createI else if c = "read" then some readI
  else if c = "update" then some updateI else if c = "delete" then some deleteI else if c = "list" then some listI
  else if c = "sudo" then some sudoI else if c = "patch" then some patchI else if c = "scan" then some scanI
  else none

/-- `strings.ToLower` for ASCII (kernel-reducible, unlike `String.toLower`) -/
def lower (s : String) : String := String.ofList (s.toList.map Char.toLower)

/-! ### parameter values -/
inductive PVal where
  | str (s : String)
  | int (i : Int)
  | bool (b : Bool)
  | null
  deriving DecidableEq, Repr, Inhabited

abbrev PMap := List (String × List PVal)

/-- `strings.Contains(val, sub)` on character lists -/
def containsSub (sub : List Char) : List Char → Bool
  | [] => sub.isEmpty
  | c :: cs => sub.isPrefixOf (c :: cs) || containsSub sub cs

/-- `strutil.GlobbedStringsMatch(item, val)` -/
def globMatch (item val : String) : Bool :=
  let it := item.toList
  let v := val.toList
  if it.length < 2 then v == it else
  let hasPrefix := it.head? == some '*'
  let hasSuffix := it.getLast? == some '*'
  if hasPrefix && hasSuffix then containsSub ((it.drop 1).dropLast) v
  else if hasPrefix then (it.drop 1).isSuffixOf v
  else if hasSuffix then it.dropLast.isPrefixOf v
  else v == it

/-- one step of `valueInSlice`: does list element `el` accept request value `v`? -/
def valMatches (v el : PVal) : Bool :=
  match el, v with
  | .null, _ => v == .null
  | _, .null => false
  | .str item, .str val => globMatch item val
  | _, _ => el == v

/-- `valueInParameterList`: an empty list accepts every value -/
def valueInParameterList (v : PVal) (l : List PVal) : Bool :=
  l.isEmpty || l.any (valMatches v)

/-! ### permissions and rules -/
structure Perms where
  caps : Nat := 0
  minTTL : Int := 0
  maxTTL : Int := 0
  allowed : PMap := []
  denied : PMap := []
  required : List String := []
  pag : Int := 0
  deriving DecidableEq, Repr, Inhabited

structure PathRule where
  path : Path
  isPrefix : Bool
  hasSW : Bool
  perms : Perms
  expiration : Option Int := none     -- `PathRules.Expiration`, seconds; `none` = the zero `time.Time`
  deriving DecidableEq, Repr

/-- `!exp.IsZero() && now.After(exp)` — the test `NewACL` applies to every stanza (for `parsePaths`, which has no
`IsZero` guard, `none` stands for "no `expiration` key") -/
def expiredAt (now : Int) (exp : Option Int) : Bool :=
  match exp with
  | none => false
  | some t => decide (now > t)

/-- `nil` entries of the policy slice are `none` -/
structure Policy where
  name : String
  paths : List PathRule
  deriving DecidableEq, Repr

/-! ### `parsePaths` post-processing: from the decoded HCL stanza to a `PathRule` -/
structure SrcRule where
  path : Path
  caps : List String := []
  legacy : String := ""            -- `policy = "…"`
  minTTL : Option Int := none      -- seconds
  maxTTL : Option Int := none
  allowed : Option PMap := none
  denied : Option PMap := none
  required : List String := []
  pag : Int := 0
  expiration : Option Int := none  -- `expiration = "<absolute time>"`, seconds
  deriving Repr

inductive ParseErr where
  | plusStar | badPolicy | badCap | dupParam | negTTL | ttl
  deriving DecidableEq, Repr

/-- does the byte pair `a b` occur in the path (`strings.Contains`/`strings.Count > 0` for two-byte needles) -/
def hasPair (a b : Nat) : Path → Bool
  | x :: y :: rest => (x == a && y == b) || hasPair a b (y :: rest)
  | _ => false

def stripLeadingSlash1 : Path → Path
  | c :: cs => if c = slash then cs else c :: cs
  | [] => []

/-- the capability loop of `parsePaths`: `none` = deny found (collapse), `some (.ok bits)`, or invalid capability -/
def capLoop : List String → Nat → Except ParseErr (Option Nat)
  | [], acc => .ok (some acc)
  | c :: cs, acc =>
    match capIndex? c with
    | none => .error .badCap
    | some i => if i = denyI then .ok none else capLoop cs (acc ||| (1 <<< i))

def lowerKeys (m : PMap) : PMap := m.map fun kv => ((lower kv.1), kv.2)

/-- "Map old-style policies into capabilities" -/
def legacyCaps (r : SrcRule) : Except ParseErr (List String) :=
  if r.legacy = "" then .ok r.caps
  else if r.legacy = "deny" then .ok ["deny"]
  else if r.legacy = "read" then .ok (r.caps ++ ["read", "list"])
  else if r.legacy = "write" then .ok (r.caps ++ ["create", "read", "update", "delete", "list"])
  else if r.legacy = "sudo" then .ok (r.caps ++ ["create", "read", "update", "delete", "list", "sudo"])
  else .error .badPolicy

/-- two parameter names of one `allowed_parameters` / `denied_parameters` object are equal after lower-casing
(refused by `parsePaths` since the repair of F21: the surviving value list depended on Go's map iteration order) -/
def hasDupLower (m : PMap) : Bool := !decide ((m.map fun kv => lower kv.1).Nodup)

/-- the permissions of a stanza from its (effective) capability list and its fine-grained fields; `deny` jumps to
`PathFinished` and leaves everything else unset -/
def parsePerms (r : SrcRule) (caps : List String) : Except ParseErr Perms :=
  match capLoop caps 0 with
  | .error e => .error e
  | .ok none => .ok { caps := denyBits }
  | .ok (some bits) =>
    let minT := r.minTTL.getD 0
    let maxT := r.maxTTL.getD 0
    if hasDupLower (r.allowed.getD []) then .error .dupParam
    else if hasDupLower (r.denied.getD []) then .error .dupParam
    else if minT < 0 then .error .negTTL          -- refused since the repair of F19
    else if maxT < 0 then .error .negTTL
    else if minT ≠ 0 ∧ maxT ≠ 0 ∧ maxT < minT then .error .ttl
    else .ok { caps := bits, minTTL := minT, maxTTL := maxT,
               allowed := lowerKeys (r.allowed.getD []), denied := lowerKeys (r.denied.getD []),
               required := r.required, pag := r.pag }

def parseRule (r : SrcRule) : Except ParseErr PathRule :=
  let p := stripLeadingSlash1 r.path        -- root namespace: `result.Namespace.Path = ""`
  if hasPair plus star p then .error .plusStar else
  let hasSW := p == [plus] || hasPair slash plus p || [plus, slash].isPrefixOf p
  let strip := p.getLast? == some star && !hasSW
  match legacyCaps r with
  | .error e => .error e
  | .ok caps =>
    match parsePerms r caps with
    | .error e => .error e
    | .ok perms =>
      .ok { path := if strip then p.dropLast else p, isPrefix := strip, hasSW, perms, expiration := r.expiration }

/-- the stanzas of one policy in order; a stanza already expired at parse time (`parseNow`) is skipped before any
of its other fields is looked at ("If this path is expired, ignore it"); the first error fails the whole policy -/
def parseRules (parseNow : Int) : List SrcRule → Except ParseErr (List PathRule)
  | [] => .ok []
  | r :: rs =>
    if expiredAt parseNow r.expiration then parseRules parseNow rs else
    match parseRule r with
    | .error e => .error e
    | .ok pr =>
      match parseRules parseNow rs with
      | .error e => .error e
      | .ok prs => .ok (pr :: prs)

def parsePolicy (parseNow : Int) (name : String) (rs : List SrcRule) : Except ParseErr Policy :=
  match parseRules parseNow rs with
  | .error e => .error e
  | .ok paths => .ok { name, paths }

/-- `parsePaths` lower-cases parameter names while ranging over the decoded HCL object, a Go map:
`for k, v := range pc.AllowedParametersHCL { m[strings.ToLower(k)] = v }`. When two names differ only in case the
surviving value list would depend on the iteration order. `pmStable m`: no such pair with different value lists.
(Since the repair of F21 such a stanza is a parse error, so `parseStable` is always true: `C03.parse_stable`.) -/
def pmStable (m : PMap) : Bool :=
  m.all fun kv => m.all fun kv' => lower kv.1 != lower kv'.1 || kv.2 == kv'.2

def stanzaStable (r : SrcRule) : Bool :=
  match parseRule r with
  | .error _ => true
  | .ok pr => pr.perms.caps.testBit denyI || (pmStable (r.allowed.getD []) && pmStable (r.denied.getD []))

/-- parsing the same policy text again yields the same stanzas -/
def parseStable (rs : List SrcRule) : Bool :=
  match parsePolicy 0 "" rs with
  | .error _ => true
  | .ok _ => rs.all stanzaStable

/-! ### `NewACL` -/

def isDeny (c : Nat) : Bool := c.testBit denyI

/-- `m[key] = value` on an association list -/
def pmSet (m : PMap) (k : String) (v : List PVal) : PMap :=
  match m with
  | [] => [(k, v)]
  | (k', v') :: rest => if k' = k then (k', v) :: rest else (k', v') :: pmSet rest k v

/-- the parameter-map merge of `NewACL` (`for key, value := range pc…Parameters`) -/
def mergeParams (existing new : PMap) : PMap :=
  if new.isEmpty then existing
  else if existing.isEmpty then new           -- `existingPerms.AllowedParameters == nil` → copy (an empty non-nil
                                              -- map goes through the loop below with the same result)
  else new.foldl (fun ex kv =>
    match ex.lookup kv.1 with
    | some pcValue => if kv.2.isEmpty || pcValue.isEmpty then pmSet ex kv.1 [] else pmSet ex kv.1 (kv.2 ++ pcValue)
    | none => if kv.2.isEmpty then pmSet ex kv.1 [] else pmSet ex kv.1 kv.2) existing

def mergeRequired (existing new : List String) : List String :=
  if new.isEmpty then existing
  else if existing.isEmpty then new
  else new.foldl (fun ex v => if ex.contains v then ex else ex ++ [v]) existing

/-- the merge of a further rule `pc` for an already stored pattern (`existingPerms`) -/
def mergeStep (e pc : Perms) : Perms :=
  if isDeny e.caps then e
  else if isDeny pc.caps then { e with caps := denyBits, allowed := [], denied := [] }
  else
    { caps := e.caps ||| pc.caps
      maxTTL := if pc.maxTTL > 0 ∧ (e.maxTTL = 0 ∨ pc.maxTTL < e.maxTTL) then pc.maxTTL else e.maxTTL
      minTTL := if pc.minTTL > 0 ∧ (e.minTTL = 0 ∨ pc.minTTL < e.minTTL) then pc.minTTL else e.minTTL
      allowed := mergeParams e.allowed pc.allowed
      denied := mergeParams e.denied pc.denied
      required := mergeRequired e.required pc.required
      pag := if pc.pag > 0 ∧ (e.pag ≤ 0 ∨ pc.pag < e.pag) then pc.pag else e.pag }

abbrev RuleMap := List (Path × Perms)

/-- look the pattern up; absent → store a clone; present → merge -/
def upsert (m : RuleMap) (k : Path) (pc : Perms) : RuleMap :=
  match m with
  | [] => [(k, pc)]
  | (k', e) :: rest => if k' = k then (k', mergeStep e pc) :: rest else (k', e) :: upsert rest k pc

structure ACL where
  root : Bool := false
  exact : RuleMap := []
  pref : RuleMap := []
  segwc : RuleMap := []
  deriving DecidableEq, Repr

def insertRule (a : ACL) (r : PathRule) : ACL :=
  if r.hasSW then { a with segwc := upsert a.segwc r.path r.perms }
  else if r.isPrefix then { a with pref := upsert a.pref r.path r.perms }
  else { a with exact := upsert a.exact r.path r.perms }

inductive ACLErr where
  | rootWithOthers
  deriving DecidableEq, Repr

/-- one iteration of `for _, pc := range policy.Paths`: "Skip adding expired paths." The policy objects are parsed
once and cached, so this test — evaluated every time an ACL is built — is what enforces `expiration` afterwards. -/
def insertLive (now : Int) (a : ACL) (r : PathRule) : ACL :=
  if expiredAt now r.expiration then a else insertRule a r

def insertPolicy (n : Nat) (now : Int) (acc : Except ACLErr ACL) (p : Option Policy) : Except ACLErr ACL :=
  match acc, p with
  | .error e, _ => .error e
  | .ok a, none => .ok a
  | .ok a, some p =>
    if p.name = "root" ∧ n ≠ 1 then .error .rootWithOthers
    else
      let a := if p.name = "root" then { a with root := true } else a
      .ok (p.paths.foldl (insertLive now) a)

/-- `NewACL` at the instant `now` (`time.Now()` inside the loop; one value for the whole call) -/
def newACL (now : Int) (ps : List (Option Policy)) : Except ACLErr ACL :=
  ps.foldl (insertPolicy ps.length now) (.ok {})

/-! ### `CheckAllowedFromNonExactPaths` -/

/-- `strings.Split(s, "/")` -/
def splitSlash : Path → List Path
  | [] => [[]]
  | c :: cs =>
    if c = slash then [] :: splitSlash cs
    else match splitSlash cs with
      | [] => [[c]]
      | p :: ps => (c :: p) :: ps

/-- `strings.Index(s, "+")`, `-1` when absent -/
def indexOfPlus : Path → Nat → Int
  | [], _ => -1
  | c :: cs, i => if c = plus then i else indexOfPlus cs (i + 1)

/-- bytewise `<` on Go strings -/
def lexLt : Path → Path → Bool
  | [], [] => false
  | [], _ :: _ => true
  | _ :: _, [] => false
  | a :: as, b :: bs => if a < b then true else if b < a then false else lexLt as bs

structure Descr where
  firstWC : Int
  wildcards : Nat
  isPrefix : Bool
  wcPath : Path
  perms : Perms
  deriving Repr

/-- the comparator `less` of `CheckAllowedFromNonExactPaths`: `less a b` = `a` has lower priority than `b` -/
def less (a b : Descr) : Bool :=
  if a.firstWC < b.firstWC then true else if a.firstWC > b.firstWC then false
  else if a.isPrefix && !b.isPrefix then true else if !a.isPrefix && b.isPrefix then false
  else if a.wildcards > b.wildcards then true else if a.wildcards < b.wildcards then false
  else if a.wcPath.length < b.wcPath.length then true else if a.wcPath.length > b.wcPath.length then false
  else if lexLt a.wcPath b.wcPath then true else false

/-- the `for i, aclPart := range splitCurrWCPath` loop (`bareMount = false`); returns the number of `+` segments -/
def segLoop (isPrefix : Bool) : List Path → List Path → Nat → Option Nat
  | [], _, wc => some wc
  | _ :: _, [], _ => none
  | a :: as, p :: ps, wc =>
    if a = [plus] then segLoop isPrefix as ps (wc + 1)
    else if a = p then segLoop isPrefix as ps wc
    else if isPrefix && as.isEmpty && a.isPrefixOf p then segLoop isPrefix as ps wc
    else none

/-- one iteration of `SWCPATH` -/
def descrOf (pathParts : List Path) (kv : Path × Perms) : Option Descr :=
  let full := kv.1
  let isPrefix := full.getLast? == some star
  let curr := if isPrefix then full.dropLast else full
  let parts := splitSlash curr
  if full.isEmpty then none
  else if pathParts.length < parts.length then none
  else if !isPrefix && parts.length ≠ pathParts.length then none
  else (segLoop isPrefix parts pathParts 0).map fun wc =>
    { firstWC := indexOfPlus full 0, wildcards := wc, isPrefix, wcPath := curr, perms := kv.2 }

/-- `radix.LongestPrefix` -/
def longestPrefix (m : RuleMap) (path : Path) : Option (Path × Perms) :=
  m.foldl (fun best kv =>
    if kv.1.isPrefixOf path then
      match best with
      | some b => if b.1.length < kv.1.length then some kv else best
      | none => some kv
    else best) none

/-- `sort.Slice(ds, less); ds[len-1]` -/
def pickMax (ds : List Descr) : Option Descr :=
  ds.foldl (fun best d => match best with
    | none => some d
    | some b => if less b d then some d else some b) none

def checkNonExact (a : ACL) (path : Path) : Option Perms :=
  let pre := longestPrefix a.pref path
  if a.segwc.isEmpty then pre.map (·.2)
  else
    let ds0 : List Descr := match pre with
      | some (k, p) => [{ firstWC := k.length, wildcards := 0, isPrefix := true, wcPath := k, perms := p }]
      | none => []
    (pickMax (ds0 ++ a.segwc.filterMap (descrOf (splitSlash path)))).map (·.perms)

/-! ### `AllowOperation` -/

inductive Op where
  | create | read | update | patch | delete | list | scan | help | revoke | renew | rollback
  | other          -- alias-lookahead, resolve-role, header, anything else: the `default:` arm
  deriving DecidableEq, Repr

structure Req where
  path : Path
  op : Op
  data : List (String × PVal) := []
  wrapTTL : Option Int := none      -- `req.WrapInfo`, seconds
  deriving Repr

structure Res where
  allowed : Bool := false
  rootPrivs : Bool := false
  isRoot : Bool := false
  caps : Nat := 0                    -- only with `capCheckOnly`
  limit : Option PVal := none        -- `req.Data["limit"]` after the call
  deriving DecidableEq, Repr

def isDigit (c : Char) : Bool := '0' ≤ c && c ≤ '9'

/-- `strconv.ParseInt(s, 10, 64)` -/
def parseGoInt (s : String) : Option Int :=
  let cs := s.toList
  let (neg, ds) := match cs with
    | '-' :: r => (true, r)
    | '+' :: r => (false, r)
    | r => (false, r)
  if ds.isEmpty || !ds.all isDigit then none else
  let n : Nat := ds.foldl (fun acc c => acc * 10 + (c.toNat - '0'.toNat)) 0
  let v : Int := if neg then -(n : Int) else n
  if v < -(2 ^ 63 : Int) ∨ v > (2 ^ 63 : Int) - 1 then none else some v

/-- `parseutil.SafeParseInt` on the values the harness can send -/
def safeParseInt : PVal → Option Int
  | .str s => if s = "" then some 0 else parseGoInt s
  | .int i => some i
  | _ => none

def opCap : Op → Option Nat
  | .read => some readI | .list => some listI | .update => some updateI | .delete => some deleteI
  | .create => some createI | .patch => some patchI | .scan => some scanI
  | .revoke => some updateI | .renew => some updateI | .rollback => some updateI
  | _ => none

def limitOf (data : List (String × PVal)) : Option PVal := data.lookup "limit"

/-- `valueSlice, ok := m[k]; ok && valueInParameterList(v, valueSlice)` -/
def valueListed (m : PMap) (k : String) (v : PVal) : Bool :=
  match m.lookup k with
  | some vs => valueInParameterList v vs
  | none => false

/-- the parameter checks of the `CHECK:` block for read/update/create/patch -/
def checkParams (p : Perms) (data : List (String × PVal)) : Bool :=
  if !(p.required.all fun r => (data.lookup (lower r)).isSome) then false
  else if data.isEmpty then true
  else
    let deniedOK :=
      if p.denied.isEmpty then true
      else if (p.denied.lookup "*").isSome then false
      else data.all fun kv => !valueListed p.denied (lower kv.1) kv.2
    if !deniedOK then false
    else if p.allowed.isEmpty then true
    else
      let allowedAll := (p.allowed.lookup "*").isSome
      if p.allowed.length == 1 && allowedAll then true
      else data.all fun kv =>
        if (p.allowed.lookup (lower kv.1)).isSome then valueListed p.allowed (lower kv.1) kv.2 else allowedAll

/-- the pagination block for list/scan with `pag = permissions.PaginationLimit` and `limitRequired` = "limit" is among
the required parameters; `none` = denied, `some l` = allowed with `req.Data["limit"] = l` afterwards -/
def paginate (pag : Int) (limitRequired : Bool) (data : List (String × PVal)) : Option (Option PVal) :=
  if pag > 0 then
    match limitOf data with
    | none =>
      if limitRequired then none
      else some (some (.str (toString pag)))
    | some valRaw =>
      match safeParseInt valRaw with
      | none => if valRaw = .str "max" then some (some (.str (toString pag))) else none
      | some val =>
        if val > pag then none
        else if val < 0 then none
        else if val = 0 then some (some (.str (toString pag)))
        else some (some valRaw)
  else
    match limitOf data with
    | some valRaw => if valRaw = .str "max" then some (some (.str "0")) else some (some valRaw)
    | none => some none

def checkPagination (p : Perms) (data : List (String × PVal)) : Option (Option PVal) :=
  paginate p.pag (p.required.any fun r => (lower r) == "limit") data

/-- `req.WrapInfo == nil || bad(req.WrapInfo.TTL)` -/
def wrapViolates (w : Option Int) (bad : Int → Bool) : Bool :=
  match w with
  | none => true
  | some t => bad t

/-- the three wrapping-TTL tests of the `CHECK:` block -/
def ttlOK (minTTL maxTTL : Int) (wrap : Option Int) : Bool :=
  if maxTTL > 0 ∧ wrapViolates wrap (fun t => t > maxTTL) then false
  else if minTTL > 0 ∧ wrapViolates wrap (fun t => t < minTTL) then false
  else if minTTL ≠ 0 ∧ maxTTL ≠ 0 ∧ maxTTL < minTTL then false
  else true

/-- everything after the `CHECK:` label, given the capability bitmap of the deciding rule and the outcome of its
wrapping-TTL, parameter and pagination tests -/
def checkCore (caps : Nat) (ttlok : Bool) (paramsOK : Bool) (pagination : Option (Option PVal)) (req : Req)
    (capCheckOnly : Bool) : Res :=
  let base : Res := { rootPrivs := caps.testBit sudoI, limit := limitOf req.data }
  if capCheckOnly then { base with caps := caps } else
  match opCap req.op with
  | none => base
  | some i =>
    if !caps.testBit i then base
    else if !ttlok then base
    else if req.op = .read ∨ req.op = .update ∨ req.op = .create ∨ req.op = .patch then
      { base with allowed := paramsOK }
    else if req.op = .list ∨ req.op = .scan then
      match pagination with
      | none => base
      | some l => { base with allowed := true, limit := l }
    else { base with allowed := true }

def checkPerms (p : Perms) (req : Req) (capCheckOnly : Bool) : Res :=
  checkCore p.caps (ttlOK p.minTTL p.maxTTL req.wrapTTL) (checkParams p req.data) (checkPagination p req.data) req
    capCheckOnly

def dropSlashes : Path → Path
  | c :: cs => if c = slash then dropSlashes cs else c :: cs
  | [] => []

/-- `strings.TrimSuffix(path, "/")` -/
def trimSlash (p : Path) : Path := if p.getLast? == some slash then p.dropLast else p

def isListScan (op : Op) : Bool := op == .list || op == .scan

/-- the rule that decides: exact → (list/scan) exact without the slash → non-exact → (list/scan, trailing
slash) non-exact without the slash -/
def findPerms (a : ACL) (path : Path) (op : Op) : Option Perms :=
  match a.exact.lookup path with
  | some p => some p
  | none =>
    match (if isListScan op then a.exact.lookup (trimSlash path) else none) with
    | some p => some p
    | none =>
      match checkNonExact a path with
      | some p => some p
      | none =>
        if isListScan op && path.getLast? == some slash then checkNonExact a (trimSlash path) else none

def allowOperation (a : ACL) (req : Req) (capCheckOnly : Bool) : Res :=
  if a.root then { allowed := true, rootPrivs := true, isRoot := true, limit := limitOf req.data }
  else if req.op = .help then { allowed := true, limit := limitOf req.data }
  else
    match findPerms a (dropSlashes req.path) req.op with
    | none => { limit := limitOf req.data }
    | some p => checkPerms p req capCheckOnly

/-! ### `Capabilities` -/

/-- the name `Capabilities` reports for a capability bit -/
def capName (i : Nat) : String :=
  if i = sudoI then "sudo" else if i = readI then "read" else if i = listI then "list" else if i = updateI then "update"
  else if i = deleteI then "delete" else if i = createI then "create" else if i = patchI then "patch"
  else if i = scanI then "scan" else "deny"

/-- the rendering of a `capCheckOnly` result as a capability list -/
def capList (res : Res) : List String :=
  if res.isRoot then ["root"] else
  let c := res.caps
  let l := [sudoI, readI, listI, updateI, deleteI, createI, patchI, scanI].filterMap fun i =>
    if c.testBit i then some (capName i) else none
  if c.testBit denyI || l.isEmpty then ["deny"] else l

def capabilities (a : ACL) (path : Path) : List String :=
  capList (allowOperation a { path, op := .list } true)

end Obao.ACL
