import Obao.Model.Prelude
/-!
Model of the request pipeline of `internal/vault/request_handling.go` for C02, as a sequence of named stages, in the
order the code executes them:

  `switchedLockHandleRequest` (relative-path rejection) → `handleCancelableRequest` (trailing-slash writes, internal
  operations, `PopulateTokenEntry`: SSC signature check unless the path is a login path, token look-up error for an
  undecodable batch token) → `router.LoginPath` ? `handleLoginRequest` : `handleRequest` →
  `CheckToken` (`fetchACLTokenEntryAndEntity`: token present ∧ `lookupInternal` (entry exists ∧ `NumUses ≥ 0` ∧ (root
  with TTL 0 ∨ lease not past expiry)) ∧ bound CIDRs; entity enabled; `router.RootPath`; existence check turning
  create/update into update (the recording backend has no existence check); `performPolicyChecks` = ACL ∧ (root path ⇒
  sudo)) → `UseToken` *even when the check failed* (whenever a token entry was returned) → on failure return the error →
  `router.routeCommon` (longest mount prefix, retry with a trailing slash) → backend dispatch.

`Router.RootPath` / `Router.LoginPath` are transliterated too (`SpecialTable.matches`, `loginMatches`: radix longest stored
key, then that entry's exact/prefix flag, then — login only — the `+` wildcard entries); the driver stream `special`
compares them with the real router on builtin and generated tables.

Paths are `List Char` (byte-wise comparisons of the Go code on ASCII inputs). Policies are the simple language of the
C02 harness (exact paths and trailing-`*` prefixes, capability sets incl. `deny` and `sudo`, no `+` segments, no
parameters) — the full ACL semantics are C03's. Namespaces other than root, identity-group policies, control groups,
MFA, quotas, wrapping and lease issuing (`lease/…` paths of the recording backend) are outside this model; requests
that would need them are answered `unmodelled` by the driver instead of being defaulted.
-/
namespace Obao.RequestAuthz

abbrev Path := List Char

def cs (s : String) : Path := s.toList

def hasSub : Path → Path → Bool
  | [], s => s.isEmpty
  | c :: t, s => s.isPrefixOf (c :: t) || hasSub t s

/-- `sdk/logical/path.go IsRelativePath` -/
def isRelativePath (p : Path) : Bool :=
  p == cs "." || p == cs ".." || (cs "./").isPrefixOf p || (cs "../").isPrefixOf p ||
  (cs "/.").isSuffixOf p || (cs "/..").isSuffixOf p || hasSub p (cs "/./") || hasSub p (cs "/../")

inductive Op where
  | read | create | update | delete | list | help | patch | scan | header
  | revoke | renew | rollback | aliasLookahead
  deriving DecidableEq, Repr, Inhabited

/-- `logical.ExternalOperations` -/
def Op.external : Op → Bool
  | .revoke | .renew | .rollback | .aliasLookahead => false
  | _ => true

def Op.isWrite : Op → Bool
  | .update | .create | .patch => true
  | _ => false

/-- capability bitmap of a path rule -/
structure Caps where
  (read create update delete list sudo patch scan deny : Bool)
  deriving DecidableEq, Repr, Inhabited

def Caps.none : Caps := ⟨false, false, false, false, false, false, false, false, false⟩
def Caps.denyOnly : Caps := { Caps.none with deny := true }

def Caps.union (a b : Caps) : Caps :=
  ⟨a.read || b.read, a.create || b.create, a.update || b.update, a.delete || b.delete, a.list || b.list,
   a.sudo || b.sudo, a.patch || b.patch, a.scan || b.scan, a.deny || b.deny⟩

/-- `policy.parsePaths`: a rule naming `deny` keeps only `deny` -/
def Caps.normalize (c : Caps) : Caps := if c.deny then Caps.denyOnly else c

/-- `NewACL` merge of a rule into the permissions already stored at the same path: an existing deny stays, a new deny
replaces everything, otherwise the bitmaps are or-ed -/
def Caps.merge (existing new : Caps) : Caps :=
  if existing.deny then existing else if new.deny then Caps.denyOnly else existing.union new

structure Rule where
  path : Path          -- leading '/' and trailing '*' already stripped (`parsePaths`)
  isPrefix : Bool
  caps : Caps          -- normalised
  deriving DecidableEq, Repr

/-- `parsePaths` on one `path "<raw>" { capabilities = … }` block (root namespace: no prefix added) -/
def Rule.parse (raw : Path) (caps : Caps) : Rule :=
  let p := match raw with
    | '/' :: t => t
    | p => p
  match p.reverse with
  | '*' :: r => { path := r.reverse, isPrefix := true, caps := caps.normalize }
  | _ => { path := p, isPrefix := false, caps := caps.normalize }

/-- the permissions stored in one radix tree (`exactRules` or `prefixRules`) at key `k` after `NewACL` inserted all rules
in order; `none` when no rule has that key -/
def mergedAt (rules : List Rule) (isPrefix : Bool) (k : Path) : Option Caps :=
  rules.foldl (fun acc r =>
    if r.isPrefix == isPrefix && r.path == k then
      match acc with
      | Option.none => some r.caps
      | some e => some (e.merge r.caps)
    else acc) Option.none

/-- radix `LongestPrefix` over a set of keys: the longest key that is a prefix of `p` -/
def longestPrefix (keys : List Path) (p : Path) : Option Path :=
  keys.foldl (fun best k =>
    if k.isPrefixOf p then
      match best with
      | Option.none => some k
      | some b => if b.length < k.length then some k else some b
    else best) Option.none

def trimSlash (p : Path) : Path :=
  match p.reverse with
  | '/' :: r => r.reverse
  | _ => p

def endsSlash (p : Path) : Bool := (cs "/").isSuffixOf p

def stripLeadingSlashes : Path → Path
  | '/' :: t => stripLeadingSlashes t
  | p => p

def prefixPerms (rules : List Rule) (p : Path) : Option Caps :=
  match longestPrefix ((rules.filter (·.isPrefix)).map (·.path)) p with
  | Option.none => Option.none
  | some k => mergedAt rules true k

/-- the permissions `ACL.AllowOperation` selects for (op, path): exact rule, for list/scan the exact rule without the
trailing slash, the longest prefix rule, for list/scan on a `…/` path the longest prefix rule of the trimmed path -/
def selectPerms (rules : List Rule) (op : Op) (path : Path) : Option Caps :=
  let p := stripLeadingSlashes path
  let listy := op == .list || op == .scan
  match mergedAt rules false p with
  | some c => some c
  | Option.none =>
    match (if listy then mergedAt rules false (trimSlash p) else Option.none) with
    | some c => some c
    | Option.none =>
      match prefixPerms rules p with
      | some c => some c
      | Option.none => if listy && endsSlash p then prefixPerms rules (trimSlash p) else Option.none

def Caps.allows (c : Caps) : Op → Bool
  | .read => c.read
  | .list => c.list
  | .update => c.update
  | .delete => c.delete
  | .create => c.create
  | .patch => c.patch
  | .scan => c.scan
  | .revoke | .renew | .rollback => c.update
  | _ => false      -- help is handled before; header/alias-lookahead hit `default: return ret`

structure AclResult where
  (allowed rootPrivs isRoot : Bool)
  deriving DecidableEq, Repr

/-- `ACL.AllowOperation` (capCheckOnly = false) for a non-root ACL built from `rules` -/
def aclAllowOperation (rules : List Rule) (op : Op) (path : Path) : AclResult :=
  if op == .help then ⟨true, false, false⟩ else
  match selectPerms rules op path with
  | Option.none => ⟨false, false, false⟩
  | some c => ⟨c.allows op, c.sudo, false⟩

/-- `Core.performPolicyChecks` with `Unauth = false` -/
def policyChecks (isRootAcl : Bool) (rules : List Rule) (op : Op) (path : Path) (rootPrivsRequired : Bool) : Bool :=
  if isRootAcl then true else
  let r := aclAllowOperation rules op path
  if !r.allowed then false
  else if !r.rootPrivs && rootPrivsRequired && op != .help then false
  else true

/-- `ACL.Capabilities` as `Core.Capabilities` returns it (sorted): the names carried by the rule that a LIST of the
path selects; `root` for the root ACL; `deny` when that rule names deny or nothing is selected -/
def capabilityList (isRootAcl : Bool) (rules : List Rule) (path : Path) : List String :=
  if isRootAcl then ["root"] else
  match selectPerms rules .list path with
  | Option.none => ["deny"]
  | some c =>
    if c.deny then ["deny"] else
    let l := (if c.create then ["create"] else []) ++ (if c.delete then ["delete"] else []) ++
             (if c.list then ["list"] else []) ++ (if c.patch then ["patch"] else []) ++
             (if c.read then ["read"] else []) ++ (if c.scan then ["scan"] else []) ++
             (if c.sudo then ["sudo"] else []) ++ (if c.update then ["update"] else [])
    if l.isEmpty then ["deny"] else l

/-- the capability name of a path operation -/
def Op.capName : Op → Option String
  | .read => some "read" | .list => some "list" | .update => some "update" | .delete => some "delete"
  | .create => some "create" | .patch => some "patch" | .scan => some "scan"
  | _ => Option.none

/-- `Core.Capabilities(ctx, token, path)`: the token's ACL (rules stored under their ABSOLUTE paths: `parsePaths`
prefixes the policy's namespace) is asked about the path **in the namespace of the request** (`reqNs`, a path
prefix ending in '/' or empty) — the namespace `AllowOperation` evaluates that token's requests in. -/
def coreCapabilities (isRootAcl : Bool) (rules : List Rule) (reqNs _tokenNs : Path) (path : Path) : List String :=
  capabilityList isRootAcl rules (reqNs ++ path)

/-- seeded change C03-4: the report is evaluated in the TOKEN's namespace -/
def coreCapabilitiesInTokenNs (isRootAcl : Bool) (rules : List Rule) (_reqNs tokenNs : Path) (path : Path) : List String :=
  capabilityList isRootAcl rules (tokenNs ++ path)

/-- the root fast path of `ACL.AllowOperation` for the root policy of namespace `rootNs` (a path prefix, `[]` for the
root namespace): the request is made in namespace `ctxNs` for `path`. Granted when the context's namespace lies at or
below `rootNs`, or the namespace-qualified path does. -/
def rootAclAllows (rootNs ctxNs path : Path) : Bool :=
  rootNs.isPrefixOf ctxNs || rootNs.isPrefixOf (ctxNs ++ path)

/-- before the repair of F101: the namespace of the context alone decided -/
def rootAclAllowsCtxOnly (rootNs ctxNs _path : Path) : Bool := rootNs.isPrefixOf ctxNs

/-! ### state -/

/-- special-path table of a backend (`PathsToRadix`): key without the `*`, flag = prefix match -/
abbrev SpecialTable := List (Path × Bool)

def SpecialTable.parse (paths : List Path) : SpecialTable :=
  paths.map fun p => match p.reverse with
    | '*' :: r => (r.reverse, true)
    | _ => (p, false)

/-- the flag stored at a key of the radix tree: `tree.Insert` overwrites, so the last entry wins -/
def SpecialTable.flagAt (t : SpecialTable) (k : Path) : Option Bool :=
  t.foldl (fun acc e => if e.1 == k then some e.2 else acc) Option.none

/-- `Router.RootPath` / the radix part of `Router.LoginPath` on the path remaining after the mount prefix: take the
LONGEST stored key that is a prefix of `remain`, then apply that entry's exact/prefix flag -/
def SpecialTable.matches (t : SpecialTable) (remain : Path) : Bool :=
  match longestPrefix (t.map (·.1)) remain with
  | Option.none => false
  | some k =>
    match t.flagAt k with
    | some true => k.isPrefixOf remain
    | some false => k == remain
    | Option.none => false

/-- `+` entries of an unauthenticated table (`ParseUnauthenticatedPaths`): pre-split segments, prefix flag -/
abbrev WildTable := List (List Path × Bool)

def splitSlash (p : Path) : List Path :=
  p.foldr (fun c acc => if c == '/' then [] :: acc else
    match acc with
    | [] => [[c]]
    | h :: t => (c :: h) :: t) [[]]

/-- `routing.pathMatchesWildcardPath` -/
def wildMatch (path wc : List Path) (isPrefix : Bool) : Bool :=
  if wc.isEmpty then false
  else if path.length < wc.length then false
  else if !isPrefix && wc.length != path.length then false
  else
    let n := wc.length
    (List.range n).all fun i =>
      let w := wc.getD i []
      let q := path.getD i []
      w == ['+'] || w == q || (isPrefix && i == n - 1 && w.isPrefixOf q)

/-- `ParseUnauthenticatedPaths`: entries containing `+` become wildcard entries, the others go to the radix tree -/
def parseUnauth (paths : List Path) : SpecialTable × WildTable :=
  let plain := paths.filter (fun p => !p.contains '+')
  let wild := (paths.filter (fun p => p.contains '+')).map fun p =>
    match p.reverse with
    | '*' :: r => (splitSlash r.reverse, true)
    | _ => (splitSlash p, false)
  (SpecialTable.parse plain, wild)

/-- `Router.LoginPath` on the path remaining after the mount prefix -/
def loginMatches (t : SpecialTable) (w : WildTable) (remain : Path) : Bool :=
  let wc := w.any fun e => wildMatch (splitSlash remain) e.1 e.2
  match longestPrefix (t.map (·.1)) remain with
  | Option.none => if w.isEmpty then false else wc
  | some k =>
    match t.flagAt k with
    | some true => k.isPrefixOf remain
    | some false => if k == remain then true else wc
    | Option.none => wc

structure Mount where
  path : Path                  -- with trailing slash
  unauth : SpecialTable
  root : SpecialTable
  unauthWild : WildTable := []
  deriving DecidableEq, Repr

structure Token where
  label : String
  policies : List String
  numUses : Int                -- stored NumUses: 0 unlimited, > 0 remaining, < 0 revocation pending
  batch : Bool
  rootTTL0 : Bool              -- policies = [root] ∧ TTL = 0: never expires, exempt from CIDR binding
  cidrBound : Bool             -- bound to 10.0.0.0/8
  entity : Option String
  revoked : Bool               -- entry deleted from storage
  expired : Bool               -- lease expiry time in the past
  deriving DecidableEq, Repr

structure State where
  mounts : List Mount
  policies : List (String × List Rule)
  tokens : List Token
  disabled : List String                 -- disabled entities
  store : List (Path × Path)             -- (mount path, storage key) present in a backend's storage view
  deriving DecidableEq, Repr

inductive Remote where
  | inCidr | outCidr | bad
  deriving DecidableEq, Repr

inductive TokForm where
  | none | garbage | garbageS | garbageB
  | valid (l : String) | mutsig (l : String) | mutbody (l : String)
  deriving DecidableEq, Repr

structure Request where
  tok : TokForm
  op : Op
  path : Path
  remote : Remote
  deriving Repr

inductive Class where
  | ok | denied | relpath | slashwrite | internalop | tokcheck | nopath | noop | invalid | unmodelled
  deriving DecidableEq, Repr

def Class.isError (c : Class) : Bool := c != .ok

/-- trace events of one request -/
inductive Ev where
  | useToken (label : String)                       -- `TokenStore.UseToken` stored a decremented entry
  | lazyRevoke (label : String)                     -- last use: deferred `expiration.LazyRevoke`
  | route (mount : Path) (op : Op) (rel : Path)     -- `Router.routeCommon` invoked the backend
  | handler (mount : Path) (op : Op) (rel : Path)   -- an operation callback of the backend ran
  | storePut (mount : Path) (key : Path)
  | storeDel (mount : Path) (key : Path)
  deriving DecidableEq, Repr

def State.findToken (s : State) (l : String) : Option Token := s.tokens.find? (·.label == l)

def State.mountOf (s : State) (p : Path) : Option Mount :=
  match longestPrefix (s.mounts.map (·.path)) p with
  | Option.none => Option.none
  | some k => s.mounts.find? (·.path == k)

/-- `Router.LoginPath` (root namespace; no `+` wildcard entries) -/
def State.loginPath (s : State) (p : Path) : Bool :=
  match s.mountOf p with
  | Option.none => false
  | some m => loginMatches m.unauth m.unauthWild (p.drop m.path.length)

/-- `Router.RootPath` -/
def State.rootPath (s : State) (p : Path) : Bool :=
  match s.mountOf p with
  | Option.none => false
  | some m => m.root.matches (p.drop m.path.length)

/-- `TokenStore.lookupInternal` (tainted = false) on the entry of token `t` -/
def Token.lookupOk (t : Token) : Bool :=
  if t.revoked then false            -- `raw == nil`
  else if t.numUses < 0 then false   -- awaiting deferred revocation
  else if t.rootTTL0 then true       -- root fast path
  else !t.expired                    -- `!le.ExpireTime.Before(time.Now())`

/-- the entry `TokenStore.Lookup(req.ClientToken)` returns inside `fetchACLTokenEntryAndEntity`, given how the
client presented the token and whether the SSC signature check was skipped (login path) -/
def State.resolve (s : State) (tf : TokForm) (login : Bool) : Option Token :=
  match tf with
  | .valid l => (s.findToken l).filter Token.lookupOk
  | .mutsig l =>
    -- `CheckSSCToken(unauth = true)` decodes without verifying the HMAC: the inner id is the real one
    match s.findToken l with
    | some t => if login && !t.batch && t.lookupOk then some t else Option.none
    | Option.none => Option.none
  | _ => Option.none

/-- `PopulateTokenEntry`: `some class` = the request ends here -/
def State.populate (s : State) (tf : TokForm) (login : Bool) : Option Class :=
  match tf with
  | .garbageB => some .tokcheck          -- "hvb.…" that is not base64: look-up error, not a JWT
  | .mutsig l | .mutbody l =>
    match s.findToken l with
    | some t => if !t.batch && !login then some .denied else Option.none   -- `checkSSCTokenInternal` HMAC mismatch
    | Option.none => some .unmodelled
  | .valid l => if (s.findToken l).isSome then Option.none else some .unmodelled
  | _ => Option.none

def State.rulesOf (s : State) (t : Token) : List Rule :=
  t.policies.flatMap fun n => match s.policies.lookup n with
    | some rs => rs
    | Option.none => []

def Token.isRootAcl (t : Token) : Bool := t.policies == ["root"]

/-- `TokenStore.UseToken` -/
def State.useToken (s : State) (t : Token) : State × List Ev :=
  if t.numUses == 0 then (s, []) else
  -- re-lookup under the token lock; the model's request is atomic, so it is the same entry
  let n' : Int := if t.numUses == 1 then -3 else t.numUses - 1   -- tokenRevocationPending = -3
  let s' := { s with tokens := s.tokens.map fun u => if u.label == t.label then { u with numUses := n' } else u }
  (s', [Ev.useToken t.label] ++ (if n' == -3 then [Ev.lazyRevoke t.label] else []))

def dataPrefixes : List Path := [cs "data/", cs "unauth/", cs "root/"]

def storeInsert (st : List (Path × Path)) (e : Path × Path) : List (Path × Path) :=
  if st.contains e then st else st ++ [e]

/-- the recording backend `vhrec` (framework.Backend with pattern `(data|unauth|root)/.*`, callbacks read, update,
delete, list; no existence check) -/
def backendDispatch (s : State) (m : Path) (op : Op) (rel : Path) : State × Class × List Ev :=
  if op == .help && rel == [] then (s, .ok, []) else
  if (cs "lease/").isPrefixOf rel then (s, .unmodelled, []) else
  match dataPrefixes.find? (·.isPrefixOf rel) with
  | Option.none => (s, .nopath, [])
  | some pre =>
    let key := cs "k/" ++ rel.drop pre.length
    match op with
    | .read => (s, .ok, [Ev.handler m op rel])
    | .list => (s, .ok, [Ev.handler m op rel])
    | .update => ({ s with store := storeInsert s.store (m, key) }, .ok, [Ev.handler m op rel, Ev.storePut m key])
    | .delete => ({ s with store := s.store.filter (· != (m, key)) }, .ok, [Ev.handler m op rel, Ev.storeDel m key])
    | .help => (s, .ok, [])
    | _ => (s, .noop, [])

/-- `Router.routeCommon` (existenceCheck = false) -/
def State.route (s : State) (op : Op) (path : Path) : State × Class × List Ev :=
  let try1 := s.mountOf path
  let (adj, mo) :=
    match try1 with
    | some m => (path, some m)
    | Option.none => if !endsSlash path then (path ++ cs "/", s.mountOf (path ++ cs "/")) else (path, Option.none)
  match mo with
  | Option.none => (s, .nopath, [])
  | some m =>
    let rel0 := adj.drop m.path.length
    let rel := if rel0 == cs "/" then [] else rel0
    let (s', c, evs) := backendDispatch s m.path op rel
    (s', c, Ev.route m.path op rel :: evs)

/-- the existence-check block of `CheckToken`: the backend has no existence check (or no mount matches), so a
create/update is always treated as an update -/
def effOp (op : Op) : Op := if op == .create || op == .update then .update else op

/-- side effect of that block: `RouteExistenceCheck` → `routeCommon` assigns `req.Path = adjustedPath` and its deferred
restore puts back the ADJUSTED path, so for create/update a path equal to a mount name without its slash reaches the ACL
(and the later routing) with the slash appended; `RootPath`/`LoginPath` were computed before, on the path as sent -/
def State.existAdjust (s : State) (op : Op) (path : Path) : Path :=
  if op == .create || op == .update then
    match s.mountOf path with
    | some _ => path
    | Option.none =>
      if !endsSlash path && (s.mountOf (path ++ cs "/")).isSome then path ++ cs "/" else path
  else path

def cidrCheck (t : Token) (r : Remote) : Bool :=
  if !t.rootTTL0 && t.cidrBound then r == .inCidr else true

/-- `CheckToken`: "permission denied as the entity on the token is disabled" -/
def State.entOff (s : State) (t : Token) : Bool :=
  match t.entity with
  | some e => s.disabled.contains e
  | Option.none => false

/-- the part of `CheckToken` after the token entry was fetched: entity enabled ∧ `performPolicyChecks`, where the root
path flag comes from the path as sent and the ACL sees the operation/path after the existence-check block -/
def State.checkOk (s : State) (r : Request) (t : Token) : Bool :=
  !s.entOff t &&
  policyChecks t.isRootAcl (s.rulesOf t) (effOp r.op) (s.existAdjust r.op r.path) (s.rootPath r.path)

/-- `fetchACLTokenEntryAndEntity` for an authenticated request: the token entry, or `none` = permission denied with a
nil entry (no token, look-up failed, CIDR mismatch) -/
def State.fetch (s : State) (r : Request) (login : Bool) : Option Token :=
  if r.tok == .none then Option.none else
  match s.resolve r.tok login with
  | Option.none => Option.none
  | some t => if cidrCheck t r.remote then some t else Option.none

/-- `handleRequest`: authenticated path -/
def State.handleAuthed (s : State) (r : Request) : State × Class × List Ev :=
  match s.fetch r false with
  | Option.none => (s, .denied, [])                    -- te = nil is returned: no UseToken
  | some t =>
    -- UseToken happens before the result of CheckToken is looked at
    let su := s.useToken t
    if !s.checkOk r t then (su.1, .denied, su.2) else
    let rt := su.1.route (effOp r.op) (s.existAdjust r.op r.path)
    (rt.1, rt.2.1, su.2 ++ rt.2.2)

/-- `handleLoginRequest`: path declared unauthenticated by the backend -/
def State.handleLogin (s : State) (r : Request) : State × Class × List Ev :=
  -- CheckToken(unauth = true): the token is looked up best-effort, errors are ignored
  let entOff := match s.fetch r true with
    | some t => s.entOff t
    | Option.none => false
  if entOff then (s, .denied, []) else
  if s.rootPath r.path then (s, .invalid, []) else       -- "cannot access root path in unauthenticated request"
  s.route (effOp r.op) (s.existAdjust r.op r.path)

/-- the whole pipeline for one request -/
def State.handle (s : State) (r : Request) : State × Class × List Ev :=
  if isRelativePath r.path then (s, .relpath, []) else
  if endsSlash r.path && r.op.isWrite then (s, .slashwrite, []) else
  if !r.op.external then (s, .internalop, []) else
  match s.populate r.tok (s.loginPath r.path) with
  | some c => (s, c, [])
  | Option.none => if s.loginPath r.path then s.handleLogin r else s.handleAuthed r

/-! ### administrative operations of a history -/

inductive TokKind where
  | service | batch | cidr | ent (e : String) | root
  deriving DecidableEq, Repr

inductive Cmd where
  | mount (m : Mount)
  | polPut (name : String) (rules : List Rule)
  | polDel (name : String)
  | tokNew (label : String) (policies : List String) (numUses : Nat) (kind : TokKind)
  | tokRevoke (label : String)
  | tokExpire (label : String)
  | entDisable (e : String) (off : Bool)
  | req (r : Request)
  deriving Repr

def State.init : State :=
  { mounts := [], policies := [], disabled := [], store := [],
    tokens := [{ label := "root", policies := ["root"], numUses := 0, batch := false, rootTTL0 := true,
                 cidrBound := false, entity := Option.none, revoked := false, expired := false }] }

def mkToken (label : String) (pols : List String) (n : Nat) (k : TokKind) : Token :=
  { label, policies := pols, numUses := n, batch := k == .batch, rootTTL0 := false, cidrBound := k == .cidr,
    entity := (match k with | .ent e => some e | _ => Option.none), revoked := false, expired := false }

/-- one step of a history; `none` = the command is not meaningful in this state (the driver answers `bad-op`) -/
def State.step (s : State) : Cmd → Option (State × Class × List Ev)
  | .mount m => if (s.mounts.any (·.path == m.path)) then Option.none else some ({ s with mounts := s.mounts ++ [m] }, .ok, [])
  | .polPut n rs => some ({ s with policies := (n, rs) :: s.policies.filter (·.1 != n) }, .ok, [])
  | .polDel n => some ({ s with policies := s.policies.filter (·.1 != n) }, .ok, [])
  | .tokNew l ps n k =>
    if (s.findToken l).isSome || k == .root || ps.contains "root" || ps.isEmpty then Option.none
    else some ({ s with tokens := s.tokens ++ [mkToken l ps n k] }, .ok, [])
  | .tokRevoke l =>
    match s.findToken l with
    -- (a batch token has no entry to delete: it stops being a live token when its PARENT is revoked — recorded by the
    -- harness as the batch token's own revocation)
    | some t => if t.rootTTL0 then Option.none else
      some ({ s with tokens := s.tokens.map fun u => if u.label == l then { u with revoked := true } else u }, .ok, [])
    | Option.none => Option.none
  | .tokExpire l =>
    match s.findToken l with
    -- (a batch token expires by the creation time + TTL it carries)
    | some t => if t.rootTTL0 then Option.none else
      some ({ s with tokens := s.tokens.map fun u => if u.label == l then { u with expired := true } else u }, .ok, [])
    | Option.none => Option.none
  | .entDisable e off =>
    some ({ s with disabled := if off then (if s.disabled.contains e then s.disabled else e :: s.disabled)
                               else s.disabled.filter (· != e) }, .ok, [])
  | .req r => some (s.handle r)

/-- run a history, ignoring commands that are not meaningful -/
def State.run (s : State) : List Cmd → State
  | [] => s
  | c :: cs => match s.step c with
    | some (s', _, _) => s'.run cs
    | Option.none => s.run cs

end Obao.RequestAuthz
