import Obao.Model.Prelude
/-!
Model of the request flows that hand out a leased secret or a token — leased secret, login, child token, and the
response-wrapped leased secret — at the granularity of one physical storage operation (DESIGN.md section 5, C06).
Transliterated from

* `internal/vault/request_handling.go`  `handleRequest` (leased secret → `expiration.Register`; `auth/token/*` →
  `expiration.RegisterAuth`, on failure `tokenStore.revokeOrphan`), `handleLoginRequest` → `LoginCreateToken` →
  `Core.RegisterAuth` (`tokenStore.create`, `expiration.RegisterAuth`, on failure `revokeOrphan`);
* `internal/vault/expiration.go`  `Register` (persistEntry, createIndexByToken, updatePending, the deferred
  rollback), `RegisterAuth`, `FetchLeaseInfo` (an uncached fetch loads the entry in "restore mode" and thereby
  caches it in `pending`), `CreateOrFetchRevocationLeaseByToken`, `revokeCommon`, `RevokeByToken`, `Restore`;
* `internal/vault/wrapping.go`  `wrapInCubbyhole` (wrapping token, the two cubbyhole entries, `RegisterAuth`, on any
  failure `revokeOrphan`);
* `internal/vault/token_store.go`  `handleCreateCommon`, `create`/`createAccessor`/`storeCommon`,
  `lookupInternal` (a token entry without lease is revoked on lookup and never returned), `revokeInternal`
  (guarded by `tokensPendingDeletion`), `revokeTreeInternal`.

The state holds only the records the request itself creates (the NEW token's id / accessor / parent-index entries
and its lease entry, the NEW secret's lease entry and token-index entry, the new token's cubbyhole entries), the
in-memory facts that decide the clean-up paths (`pending` / `secPending`: the expiration manager tracks the token's /
the secret's lease; `pendDel`: `tokensPendingDeletion[new token] = true`), and the recording backend's issued /
revoked counters.  Faults and crashes are the two knobs of DESIGN.md section 4:
`fault = some k` fails the k-th storage operation from now (once); `crash = some j` stops the process right after
the j-th write from now (nothing later happens: no rollback, no response).
-/
namespace Obao.Register

/-- key classes (the harness's `vhKeyClass`): `reqTok` is an EXISTING token entry (requester / parent); `tokId`,
`tokAcc`, `tokPar` are the new token's entries, `leaseId` its lease entry, `leaseIdx` its (empty) directory in the
token index, `cubby` its cubbyhole entries; `secLease` / `secIdx` are the new secret's lease and token-index entry -/
inductive KC where
  | reqTok | policy | tokId | tokAcc | tokPar | leaseId | leaseIdx | secLease | secIdx | cubby
  deriving DecidableEq, Repr

inductive OpKind where
  | get | put | delete | list
  deriving DecidableEq, Repr

structure Store where
  (tokId tokAcc tokPar leaseId secLease secIdx : Bool)
  /-- number of cubbyhole entries of the new token -/
  cubby : Nat
  deriving DecidableEq, Repr

def Store.empty : Store := ⟨false, false, false, false, false, false, 0⟩

def Store.has (st : Store) : KC → Bool
  | .tokId => st.tokId | .tokAcc => st.tokAcc | .tokPar => st.tokPar
  | .leaseId => st.leaseId | .secLease => st.secLease | .secIdx => st.secIdx
  | .cubby => st.cubby > 0
  | .reqTok => true | .policy => true | .leaseIdx => false

/-- a completed `put` (`b = true`) / `delete` (`b = false`) -/
def Store.set (st : Store) (k : KC) (b : Bool) : Store :=
  match k with
  | .tokId => { st with tokId := b } | .tokAcc => { st with tokAcc := b } | .tokPar => { st with tokPar := b }
  | .leaseId => { st with leaseId := b } | .secLease => { st with secLease := b } | .secIdx => { st with secIdx := b }
  | .cubby => { st with cubby := if b then st.cubby + 1 else st.cubby - 1 }
  | _ => st

structure Ev where
  (kind : OpKind) (key : KC) (failed : Bool)
  deriving DecidableEq, Repr

structure St where
  store : Store
  /-- the stored token entry carries the revocation marker (`NumUses = tokenRevocationPending`) -/
  marked : Bool
  /-- the stored lease is the already-expired revocation lease made by `CreateOrFetchRevocationLeaseByToken` -/
  leaseExpired : Bool
  /-- the expiration manager tracks the new token's lease (`pending` map) -/
  pending : Bool
  /-- the expiration manager tracks the new secret's lease -/
  secPending : Bool
  /-- `tokensPendingDeletion[salted id of the new token] = true` -/
  pendDel : Bool
  (issued revoked : Nat)
  fault : Option Nat
  crash : Option Nat
  /-- the fuel of `exec` ran out (never happens with `fuel`; see `C06.exec_never_stuck`) -/
  outOfFuel : Bool
  deriving DecidableEq, Repr

def St.init (fault crash : Option Nat) : St :=
  { store := .empty, marked := false, leaseExpired := false, pending := false, secPending := false, pendDel := false,
    issued := 0, revoked := 0, fault, crash, outOfFuel := false }

inductive Res (α : Type) where
  | ok (a : α) | err | crash
  deriving Repr

/-- state + outcome + emitted storage events: the state survives an error (storage effects of a failed request
stay); the events are output only (nothing in the model reads them) -/
def M (α : Type) := St → Res α × St × List Ev

@[inline] def M.pure (a : α) : M α := fun s => (.ok a, s, [])
@[inline] def M.bind (m : M α) (f : α → M β) : M β := fun s =>
  match m s with
  | (.ok a, s', l) => let r := f a s'; (r.1, r.2.1, l ++ r.2.2)
  | (.err, s', l) => (.err, s', l)
  | (.crash, s', l) => (.crash, s', l)

instance : Monad M where
  pure := M.pure
  bind := M.bind

def fail : M α := fun s => (.err, s, [])
def getSt : M St := fun s => (.ok s, s, [])
def modify (f : St → St) : M Unit := fun s => (.ok (), f s, [])

/-- run `m`; an error becomes `none` (the caller handles it), a crash is not caught -/
def attempt (m : M α) : M (Option α) := fun s =>
  match m s with
  | (.ok a, s', l) => (.ok (some a), s', l)
  | (.err, s', l) => (.ok none, s', l)
  | (.crash, s', l) => (.crash, s', l)

/-- the crash countdown after a completed write -/
def afterWrite (s : St) (e : Ev) : Res Bool × St × List Ev :=
  match s.crash with
  | some 0 => (.crash, s, [e])           -- not reached: a crash plan starts at `some (j+1)`
  | some 1 => (.crash, { s with crash := none }, [e])
  | some (j+2) => (.ok true, { s with crash := some (j+1) }, [e])
  | none => (.ok true, s, [e])

/-- one physical storage operation; `get`/`list` return whether the key (class) is present -/
def op (kind : OpKind) (k : KC) : M Bool := fun s =>
  match s.fault with
  | some 0 => (.err, { s with fault := none }, [⟨kind, k, true⟩])
  | some (n+1) =>
    let s := { s with fault := some n }
    match kind with
    | .get => (.ok (s.store.has k), s, [⟨kind, k, false⟩])
    | .list => (.ok (s.store.has k), s, [⟨kind, k, false⟩])
    | .put => afterWrite { s with store := s.store.set k true } ⟨kind, k, false⟩
    | .delete => afterWrite { s with store := s.store.set k false } ⟨kind, k, false⟩
  | none =>
    match kind with
    | .get => (.ok (s.store.has k), s, [⟨kind, k, false⟩])
    | .list => (.ok (s.store.has k), s, [⟨kind, k, false⟩])
    | .put => afterWrite { s with store := s.store.set k true } ⟨kind, k, false⟩
    | .delete => afterWrite { s with store := s.store.set k false } ⟨kind, k, false⟩

def op_ (kind : OpKind) (k : KC) : M Unit := do let _ ← op kind k; pure ()

/-- a read phase: the listed keys are read in order -/
def gets : List KC → M Unit
  | [] => pure ()
  | k :: t => do op_ .get k; gets t

/-- a read phase guarding a continuation: any failing read ends the request with `onFail` -/
def guardReads (l : List KC) (onFail : β) (k : M β) : M β := do
  match ← attempt (gets l) with
  | none => return onFail
  | some _ => k

/-! ### variants -/

inductive Req where
  | service | batchChild | batchOrphan | root | anon
  deriving DecidableEq, Repr

inductive Typ where
  | service | batch | na
  deriving DecidableEq, Repr

inductive Flow where
  | secret | login | create | wrap
  deriving DecidableEq, Repr

/-- `MountEntry.Type` as far as `handleRequest` distinguishes it -/
inductive MType where
  | other | kv | generic | plugin
  deriving DecidableEq, Repr

/-- what the lease / no-lease decision of `handleRequest` reads from the mount of the request path -/
structure Mount where
  typ : MType
  /-- `Config.PluginName == "kv"` (looked at for the legacy type `plugin` only) -/
  pluginKV : Bool
  /-- `Options == nil` -/
  optsNil : Bool
  /-- `Options["leased_passthrough"] == "true"` -/
  leasedPT : Bool
  /-- the backend is a `*PassthroughBackend`; the payload is its `GeneratesLeases()` -/
  passthrough : Option Bool
  deriving DecidableEq, Repr

/-- a mount written the way `sys/mounts` writes it today: type = engine name, no options -/
def Mount.modern : Mount := ⟨.other, false, true, false, none⟩

/-- `registerLease` in `handleRequest`: a response carrying a `Secret` is registered with the expiration manager
unless the mount is a KV mount that does not ask for leases ("KV mounts should return the TTL but not register for a
lease") -/
def registerLease (m : Mount) : Bool :=
  match m.typ with
  | .kv | .generic =>
    match m.passthrough with
    | some generates => generates                              -- older passthrough backend: its own switch
    | none => !(m.optsNil || !m.leasedPT)                      -- otherwise the mount options decide
  | .plugin => !(m.pluginKV && (m.optsNil || !m.leasedPT))     -- legacy generic type: only for plugin name "kv"
  | .other => true

/-- the mounts the exemption is meant for -/
def kvMount (m : Mount) : Bool :=
  m.typ == .kv || m.typ == .generic || (m.typ == .plugin && m.pluginKV)

structure Variant where
  flow : Flow
  req : Req
  /-- number of named policies on the requester; a non-root requester also carries `default` -/
  npol : Nat
  typ : Typ
  orphan : Bool
  /-- the mount the secret is read from (secret / wrapped flows) -/
  mount : Mount
  deriving DecidableEq, Repr

/-- policies read from storage when the requester's ACL is built: none for root (built in) -/
def polReads (v : Variant) : Nat := if v.req = .root then 0 else v.npol + 1

inductive Resp where
  | okSecret | okSecretUnleased | okToken | okWrap | errInternal | errInvalid | errResp
  deriving DecidableEq, Repr

/-! ### token store / expiration manager internals used by the clean-up paths

One structurally recursive function over a fuel argument (the Go functions call each other:
`revokeInternal → lookupInternal → Revoke → revokeTree → revokeInternal`); running out of fuel is the explicit
outcome `stuck`, never a default. -/

inductive Call where
  | lookupInternal (tainted : Bool)
  | revokeLease (skipToken : Bool)
  | revokeTree
  | revokeInternal (skipOrphan : Bool)
  deriving DecidableEq, Repr

/-- `FetchLeaseTimesByToken` for the new (service) token: the `pending` cache answers without storage; otherwise
the entry is loaded with `restoreMode = true`, which caches it (`updatePending`) when found -/
def fetchLeaseTimes : M Bool := do
  let s ← getSt
  if s.pending then pure true else
  let found ← op .get .leaseId
  if found then modify fun s => { s with pending := true }
  pure found

/-- `destroyCubbyhole` → `ClearViewWithPagination` of the token's cubbyhole: `CountKeys` (one listing per page, a
further one after a non-empty page), then the paginated scan (a listing, a delete per entry, a further listing after a
non-empty page) -/
def delCubby : Nat → M Unit
  | 0 => pure ()
  | n+1 => do op_ .delete .cubby; delCubby n

def destroyCubbyhole : M Unit := do
  let n := (← getSt).store.cubby
  op_ .list .cubby
  if n > 0 then op_ .list .cubby
  op_ .list .cubby
  delCubby n
  if n > 0 then op_ .list .cubby

def stuck : M α := fun s => (.err, { s with outOfFuel := true }, [])

def exec : Nat → Call → M Bool
  | 0, _ => stuck
  | f+1, .lookupInternal tainted => do
      -- raw, err = ts.idView(ns).Get(ctx, lookupID)
      let found ← op .get .tokId
      if !found then return false
      let s ← getSt
      -- entry.NumUses < 0 && !tainted
      if s.marked && !tainted then return false
      let le ← fetchLeaseTimes
      if !le then
        -- "any kind of expiring token with no lease, immediately delete it"
        -- CreateOrFetchRevocationLeaseByToken: loadEntry; none → persistEntry of an expired lease
        let le2 ← op .get .leaseId
        if !le2 then
          op_ .put .leaseId
          modify fun s => { s with leaseExpired := true }
        -- ts.expiration.Revoke(revokeCtx, leaseID)
        let _ ← exec f (.revokeLease false)
        return false
      else
        let s ← getSt
        -- !le.ExpireTime.Before(time.Now()) || tainted
        return (!s.leaseExpired || tainted)
  | f+1, .revokeLease skipToken => do
      -- revokeCommon(ctx, leaseID, force = false, skipToken) for the token's own (auth) lease
      let found ← op .get .leaseId
      if !found then return true
      if !skipToken then
        let _ ← exec f .revokeTree
      op_ .delete .leaseId
      modify fun s => { s with pending := false, leaseExpired := false }
      return true
  | f+1, .revokeTree => do
      -- revokeTreeInternal: lookupInternal(ctx, id, salted, tainted = true); then DFS over the parent index
      let _ ← exec f (.lookupInternal true)
      let _ ← op .list .tokPar            -- children of the new token: none → leaf
      exec f (.revokeInternal true)
  | f+1, .revokeInternal skipOrphan => do
      -- state, loaded := ts.tokensPendingDeletion.LoadOrStore(saltedID, true)
      let s ← getSt
      if s.pendDel then return true
      modify fun s => { s with pendDel := true }
      let found ← exec f (.lookupInternal true)      -- an error returns with the map entry still `true`
      if !found then return true                      -- entry == nil: return nil, map entry still `true`
      let s ← getSt
      if !s.marked then
        -- entry.NumUses = tokenRevocationPending; ts.store(ctx, entry).  On failure the code resets the map under
        -- `entry.ID`, not `saltedID` (finding F2 of C04): the salted entry stays `true`.
        op_ .put .tokId
        modify fun s => { s with marked := true }
      let body : M Unit := do
        destroyCubbyhole                   -- cubbyholeDestroyer
        -- expiration.RevokeByToken: lookupLeasesByToken (list the index), then the token's own lease, skipToken
        op_ .list .leaseIdx
        let _ ← exec f (.revokeLease true)
        let s ← getSt
        if s.store.tokPar then op_ .delete .tokPar       -- entry.Parent != ""
        op_ .delete .tokAcc
        if !skipOrphan then op_ .list .tokPar
      match ← attempt body with
      | some _ =>
        -- deferred: ret == nil → delete the id entry; then the map entry is deleted (or stored false on error)
        match ← attempt (op_ .delete .tokId) with
        | some _ => modify fun s => { s with pendDel := false, marked := false }; return true
        | none => modify fun s => { s with pendDel := false }; fail
      | none => modify fun s => { s with pendDel := false }; fail

def fuel : Nat := 8

/-- `tokenStore.revokeOrphan(ctx, id)`; callers log and ignore its error -/
def revokeOrphan : M Unit := do
  let _ ← attempt (exec fuel (.revokeInternal false))
  pure ()

/-! ### the flows -/

/-- `CheckToken` + ACL construction of an authenticated request: the token entry (batch child: its parent's
entry; orphan batch: nothing stored), then the policies -/
def checkTokenReads (v : Variant) : List KC :=
  (if v.req = .batchOrphan then [] else [.reqTok]) ++ List.replicate (polReads v) .policy


/-- `ExpirationManager.Register` with its deferred rollback -/
def register (v : Variant) : M Unit := do
  let main : M Unit := do
    op_ .put .secLease                                  -- persistEntry
    if v.req ≠ .batchOrphan then op_ .put .secIdx       -- createIndexByToken (indexToken != "")
    modify fun s => { s with secPending := true }       -- updatePending
  match ← attempt main with
  | some _ => pure ()
  | none =>
    modify fun s => { s with revoked := s.revoked + 1 } -- router.Route(RevokeRequest(...))
    let _ ← attempt (op_ .delete .secLease)             -- deleteEntry (errors only appended to retErr)
    let _ ← attempt (op_ .delete .secIdx)               -- removeIndexByToken (also for indexToken == "")
    fail

/-- the secret was generated and must be registered: `Register`, the secret only goes out when it succeeded -/
def secretLeased (v : Variant) : M Resp := do
  match ← attempt (register v) with
  | none => return .errInternal
  | some _ => return .okSecret

/-- after the token check: the backend generates the secret; then the lease / no-lease decision on the mount -/
def secretAfterCheck (v : Variant) : M Resp := do
  modify fun s => { s with issued := s.issued + 1 }     -- the backend generates the secret
  if registerLease v.mount then secretLeased v
  else return .okSecretUnleased                         -- TTL returned, `Renewable = false`, no lease id

def secretFlow (v : Variant) : M Resp :=
  guardReads (checkTokenReads v) .errInternal (secretAfterCheck v)

/-- `ExpirationManager.RegisterAuth` (persistLease = true) for a service token -/
def registerAuth : M Unit := do
  op_ .put .leaseId
  modify fun s => { s with pending := true }

/-- `expiration.RegisterAuth`; on failure `tokenStore.revokeOrphan` and an internal error (both call sites:
`Core.RegisterAuth` for logins, `handleRequest` for `auth/token/*`) -/
def finishRegisterAuth : M Resp := do
  match ← attempt registerAuth with
  | none => revokeOrphan; return .errInternal
  | some _ => return .okToken

def loginFlow (v : Variant) : M Resp := do
  if v.typ = .batch then return .okToken                -- batch: nothing stored, no lease by design
  -- Core.RegisterAuth: tokenStore.create (accessor, id), then expiration.RegisterAuth
  match ← attempt (do op_ .put .tokAcc; op_ .put .tokId) with
  | none => return .errInternal
  | some _ => finishRegisterAuth

/-- policies of the token being created: the harness asks for the requester's named policies (root: one) -/
def newPolReads (v : Variant) : Nat := if v.req = .root then 2 else v.npol + 1

/-- `tokenStore.create` for a service token: accessor, (parent lookup, parent index), id -/
def createRecords (v : Variant) : M Unit :=
  if v.typ = .batch then pure () else do
    op_ .put .tokAcc                                  -- createAccessor
    if !v.orphan then
      op_ .get .reqTok                                -- storeCommon: ts.Lookup(ctx, entry.Parent)
      op_ .put .tokPar
    op_ .put .tokId

/-- after the new token's policies were looked up: the response is built; `handleRequest` registers the lease -/
def createAfterPolicies (v : Variant) : M Resp :=
  if v.typ = .batch then pure .okToken else finishRegisterAuth

/-- `handleCreateCommon` from `ts.create` on -/
def createAfterSudo (v : Variant) : M Resp := do
  match ← attempt (createRecords v) with
  | none => return .errInvalid
  | some _ =>
  -- for _, p := range te.Policies { GetPolicy } — an error returns an error response, the token stays stored
  guardReads (List.replicate (newPolReads v) .policy) .errResp (createAfterPolicies v)

/-- `handleCreateCommon` after the parent lookup -/
def createAfterParent (v : Variant) : M Resp := do
  -- isSudo := SudoPrivilege(...): token entry + its policies; any error ⇒ false (the remaining reads are skipped)
  let sudoOk ← attempt (gets (.reqTok :: List.replicate (polReads v) .policy))
  -- a root requester asks for a policy it does not hold: allowed only with sudo
  if v.req = .root ∧ sudoOk = none then return .errInvalid
  createAfterSudo v

def createAfterCheck (v : Variant) : M Resp :=
  -- handleCreateCommon: parent, err := ts.Lookup(ctx, req.ClientToken)
  guardReads [.reqTok] .errInternal (createAfterParent v)

def createFlow (v : Variant) : M Resp :=
  guardReads (checkTokenReads v) .errInternal (createAfterCheck v)

/-- `wrapInCubbyhole`: the wrapping token (accessor, id; no parent), the two cubbyhole entries (`response` — it
holds the secret — and `wrapinfo`), `RegisterAuth`; every failure after the token exists calls `revokeOrphan` -/
def wrapInCubbyhole : M Resp := do
  match ← attempt (do op_ .put .tokAcc; op_ .put .tokId) with          -- CreateToken
  | none => return .errInternal
  | some _ =>
  match ← attempt (do op_ .put .cubby; op_ .put .cubby) with
  | none => revokeOrphan; return .errInternal
  | some _ =>
  match ← attempt registerAuth with
  | none => revokeOrphan; return .errInternal
  | some _ => return .okWrap

/-- a leased secret requested with response wrapping: `Register` as usual, then the response is wrapped -/
def wrapAfterCheck (v : Variant) : M Resp := do
  modify fun s => { s with issued := s.issued + 1 }
  match ← attempt (register v) with
  | none => return .errInternal
  | some _ => wrapInCubbyhole

def wrapFlow (v : Variant) : M Resp :=
  guardReads (checkTokenReads v) .errInternal (wrapAfterCheck v)

def flow (v : Variant) : M Resp :=
  match v.flow with
  | .secret => secretFlow v
  | .login => loginFlow v
  | .create => createFlow v
  | .wrap => wrapFlow v

/-! ### running a plan, observations -/

structure Obs where
  resp : Option Resp          -- `none`: the process crashed, nobody got a response
  st : St
  log : List Ev
  deriving Repr

def runFlow (v : Variant) (fault crash : Option Nat) : Obs :=
  match flow v (St.init fault crash) with
  | (.ok r, s, l) => ⟨some r, s, l⟩
  | (.err, s, l) => ⟨some .errInternal, s, l⟩       -- not reached: every flow catches its errors
  | (.crash, s, l) => ⟨none, s, l⟩

/-- `stepWithFault k`: the k-th storage operation of the request fails (once) -/
def stepWithFault (v : Variant) (k : Nat) : Obs := runFlow v (some k) none
/-- `crashAfter j`: the process stops right after the j-th write (j ≥ 1) -/
def crashAfter (v : Variant) (j : Nat) : Obs := runFlow v none (some j)
def faultFree (v : Variant) : Obs := runFlow v none none

/-- a restart: memory is lost, `Restore` tracks every stored lease -/
def restart (s : St) : St :=
  { s with pending := s.store.leaseId, secPending := s.store.secLease, pendDel := false, fault := none, crash := none }

/-- one `TokenStore.Lookup` of the new token (the usability probe), faults cleared -/
def probe (s : St) : Bool × St × List Ev :=
  match exec fuel (.lookupInternal false) { s with fault := none, crash := none } with
  | (.ok b, s', l) => (b, s', l)
  | (_, s', l) => (false, s', l)

/-- the new token is usable: a lookup returns its entry -/
def usable (s : St) : Bool := (probe s).1

/-! ### the property's predicate on an outcome (executable; the same predicate is evaluated on the real code's
observations by `props/C06.py`) -/

/-- nothing of the new token is left that could be used or would be tracked: no lease entry of the token, nothing
tracked for it, and a lookup does not return it -/
def tokenGone (s : St) : Bool := !s.store.leaseId && !s.pending && !usable s

/-- a single-fault (or fault-free) run ended the way C06 demands -/
def goodFault (v : Variant) (o : Obs) : Bool :=
  !o.st.outOfFuel &&
  match o.resp with
  | some .okSecret =>
      -- the secret is handed out: durable, tracked lease and (unless the requester is an orphan batch token) its token index
      o.st.store.secLease && o.st.secPending && (v.req == .batchOrphan || o.st.store.secIdx) &&
      o.st.issued == 1 && o.st.revoked == 0
  | some .okSecretUnleased =>
      -- a secret without lease id: only a KV mount may answer like that (its data is not a dynamic credential)
      kvMount v.mount && !o.st.store.secLease && !o.st.store.secIdx && !o.st.secPending
  | some .okToken =>
      -- a service token is handed out: token entry, durable tracked lease, and the token works
      v.typ == .batch || (o.st.store.tokId && o.st.store.leaseId && o.st.pending && usable o.st)
  | some .okWrap =>
      -- the wrapping token is handed out: the secret has its durable tracked lease and index, and so has the token
      o.st.store.secLease && o.st.secPending && (v.req == .batchOrphan || o.st.store.secIdx) &&
      o.st.issued == 1 && o.st.revoked == 0 &&
      o.st.store.tokId && o.st.store.leaseId && o.st.pending && o.st.store.cubby == 2 && usable o.st
  | some _ =>
      -- error: nothing of a new token is usable or tracked, and every generated secret was revoked at its backend with
      -- no lease / index record left — or (only when the failure hit the wrapping AFTER `Register` succeeded, the
      -- secret staying undelivered) it keeps its durable, tracked lease and will be revoked at expiry
      tokenGone o.st &&
      ((o.st.issued == o.st.revoked && !o.st.store.secLease && !o.st.store.secIdx && !o.st.secPending) ||
       (v.flow == .wrap && o.st.issued == o.st.revoked + 1 && o.st.store.secLease && o.st.secPending &&
          (v.req == .batchOrphan || o.st.store.secIdx)))
  | none => false

/-- after a crash at any point and a restart: every stored lease is tracked, nothing else is, and a token entry
without lease is unusable and removed (with its accessor / parent-index / cubbyhole entries and the revocation lease
it briefly gets) by the first lookup -/
def goodCrash (o : Obs) : Bool :=
  let s := restart o.st
  let p := probe s
  (s.store.leaseId == s.pending) && (s.store.secLease == s.secPending) &&
  (!(s.store.tokId && !s.store.leaseId) ||
     (!p.1 && !p.2.1.store.tokId && !p.2.1.store.tokAcc && !p.2.1.store.tokPar && !p.2.1.store.leaseId &&
      !p.2.1.pending && p.2.1.store.cubby == 0)) &&
  !p.2.1.outOfFuel

/-! ### `ExpirationManager.RegisterAuth`: the refusal rules, in the code's order -/

/-- the client token of the `Auth`: empty, a service token id (`hvs.` prefix), or any other non-empty id -/
inductive TokKind where
  | empty | hvs | plain
  deriving DecidableEq, Repr

structure RAIn where
  (teTTL authTTL : Int)
  policies : List String
  /-- `logical.TokenType`: 0 default, 1 service, 2 batch -/
  typ : Nat
  token : TokKind
  path : List Char
  persist : Bool
  deriving Repr

inductive RAOut where
  | ok (stored tracked ext : Bool)
  | errZeroTTL | errBatch | errEmptyToken | errDotDot
  deriving DecidableEq, Repr

/-- `strings.Contains(path, "..")` -/
def hasDotDot : List Char → Bool
  | '.' :: '.' :: _ => true
  | _ :: t => hasDotDot t
  | [] => false

def registerAuthCheck (i : RAIn) : RAOut :=
  -- te.TTL == 0 && authExpirationTime.IsZero() && (len(te.Policies) != 1 || te.Policies[0] != "root")
  if i.teTTL = 0 ∧ i.authTTL ≤ 0 ∧ i.policies ≠ ["root"] then .errZeroTTL
  else if i.typ = 2 then .errBatch
  else if i.token = .empty then .errEmptyToken
  else if hasDotDot i.path then .errDotDot
  else if !i.persist then .ok false false false
  -- persisted, tracked; a service token id also gets its external (SSC) id
  else .ok true true (i.token == .hvs)

/-! ### the token index across namespaces (`createIndexByToken` / `lookupLeasesByToken` / `removeIndexByToken`)

One index view per namespace (`tokenIndexView(ns)`); an entry is keyed by (salted token id, salted lease id). The
lease lives in the namespace of the MOUNT that issued it, the index entry in the namespace of the TOKEN that owns it
(the two differ when a parent-namespace token acts in a child namespace): revocation of the token walks
`tokenIndexView(token namespace)`. -/

structure TokIdx where
  entries : List (Nat × Nat × Nat) := []    -- (namespace of the view, token, lease)
  deriving DecidableEq, Repr

/-- `createIndexByToken`: written into the view of the TOKEN's namespace -/
def TokIdx.create (ix : TokIdx) (tokenNs _leaseNs tok lease : Nat) : TokIdx :=
  { entries := (tokenNs, tok, lease) :: ix.entries }

/-- seeded change C06-4: written into the view of the LEASE's namespace -/
def TokIdx.createInLeaseNs (ix : TokIdx) (_tokenNs leaseNs tok lease : Nat) : TokIdx :=
  { entries := (leaseNs, tok, lease) :: ix.entries }

/-- `lookupLeasesByToken`: lists the view of the token's namespace under the token -/
def TokIdx.lookup (ix : TokIdx) (tokenNs tok : Nat) : List Nat :=
  (ix.entries.filter fun e => e.1 == tokenNs && e.2.1 == tok).map (·.2.2)

/-- `removeIndexByToken` -/
def TokIdx.remove (ix : TokIdx) (tokenNs tok lease : Nat) : TokIdx :=
  { entries := ix.entries.filter fun e => !(e.1 == tokenNs && e.2.1 == tok && e.2.2 == lease) }

end Obao.Register
