/-! Model of two retried revocation-report procedures of the PKI engine (property C16), at the level of their writes.

`pathRevokeIssuer` (`issuer/<ref>/revoke`) performs, in this order: (1) the issuer entry with `Revoked = true`, (2) the
`revoked/<serial>` entry of the issuer's own certificate, (3) the rebuild of the CRLs. `config/crl` performs (1) the
configuration entry, (2) the rebuild — when the request asks for a state in which the served CRL must be current.
A storage fault ends the call with an error after the writes before it; a retry starts from what storage holds.
The report channels read: status API and OCSP — the `revoked/` entry; the served CRL — what the last rebuild wrote. -/
namespace Obao.PKIReport

inductive Step where
  | flag | entry | crl
  deriving DecidableEq, Repr

structure S where
  flag : Bool := false      -- issuer entry says revoked / configuration stored
  entry : Bool := false       -- `revoked/<serial>` present
  crl : Bool := false       -- the served CRL was built after the entry existed
  deriving DecidableEq, Repr

def S.apply (s : S) : Step → S
  | .flag => { s with flag := true }
  | .entry => { s with entry := true }
  | .crl => { s with crl := s.entry }     -- a rebuild lists what `revoked/` holds

/-- the writes in order; the `fail`-th write (counted from 1; 0 = none) fails and ends the call with an error -/
def run (fail : Nat) : S → List Step → Nat → S × Bool
  | s, [], _ => (s, true)
  | s, st :: r, i => if i = fail then (s, false) else run fail (s.apply st) r (i + 1)

/-- `issuer/<ref>/revoke` after the repair F69: on an issuer already flagged revoked only the flag write is skipped -/
def issuerRevoke (s : S) (fail : Nat) : S × Bool :=
  if s.flag then run fail s [.entry, .crl] 1 else run fail s [.flag, .entry, .crl] 1

/-- before the repair: "already revoked" answered success at once -/
def issuerRevokeShortcut (s : S) (fail : Nat) : S × Bool :=
  if s.flag then (s, true) else run fail s [.flag, .entry, .crl] 1

/-- `config/crl` switching to a state that needs a current CRL, after the repair F70: the rebuild is decided by the
REQUEST. `s.entry` = a revocation was reported before; `flag` = the configuration is stored. -/
def configCRL (s : S) (fail : Nat) : S × Bool := run fail s [.flag, .crl] 1

/-- before the repair: the rebuild ran only when the STORED configuration differed from the request -/
def configCRLStoredDiff (s : S) (fail : Nat) : S × Bool :=
  if s.flag then run fail s [.flag] 1 else run fail s [.flag, .crl] 1

/-- before the repair of F109: the `revoked/<serial>` entry was written only when `certs/<serial>` existed
(`certStored`) — not for an issuer that was imported rather than signed by this mount -/
def issuerRevokeIfStored (certStored : Bool) (s : S) (fail : Nat) : S × Bool :=
  if certStored then issuerRevoke s fail
  else if s.flag then run fail s [.crl] 1 else run fail s [.flag, .crl] 1

end Obao.PKIReport
