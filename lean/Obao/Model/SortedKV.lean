import Obao.Model.Prelude
/-!
Specification of the storage contract of property C13 (DESIGN.md section 5, C13): a store is a finite map from
keys to values; keys are byte strings (`List Nat`, compared bytewise lexicographically, exactly like Go strings);
`children keys p` is the strictly sorted, duplicate-free list of the immediate children of prefix `p`
(a sub-prefix keeps its trailing slash); `listPage` is the slice of that list strictly after `after`
(everything when `after` is empty) truncated to `limit` when `limit > 0`.

Nothing here mirrors an implementation: `children` is built by sorted insertion from the key *set* in any
order; `Obao/Props/C13.lean` proves the characterisation (`children_mem_iff`, `children_sorted`) that pins it down
uniquely.  CORE LEAN ONLY.
-/
namespace Obao.KV

abbrev Key := List Nat
abbrev Val := List Nat

/-- '/' -/
abbrev slash : Nat := 47

/-- first path segment of a relative key; a sub-prefix keeps its trailing slash: `ab/c ↦ ab/`, `ab ↦ ab` -/
def firstSeg : Key → Key
  | [] => []
  | c :: r => if c = slash then [slash] else c :: firstSeg r

/-- `strings.HasPrefix(k, p)` -/
def hasPrefix (p k : Key) : Bool := p.isPrefixOf k

/-- the immediate child of `p` through which key `k` (having prefix `p`) is reached -/
def child (p k : Key) : Key := firstSeg (k.drop p.length)

/-- insertion into a strictly sorted list, dropping duplicates -/
def insertKey (c : Key) : List Key → List Key
  | [] => [c]
  | x :: xs => if c < x then c :: x :: xs else if c = x then x :: xs else x :: insertKey c xs

/-- sorted set of immediate children of `p` among `keys` (any order, duplicates allowed) -/
def children (keys : List Key) (p : Key) : List Key :=
  (keys.filter (hasPrefix p)).foldr (fun k acc => insertKey (child p k) acc) []

/-- the page of `children` strictly after `after` (all of them when `after` is empty), at most `limit` when positive -/
def listPage (keys : List Key) (p after : Key) (limit : Int) : List Key :=
  let cs := children keys p
  let cs := if after = [] then cs else cs.filter (fun c => after < c)
  if limit > 0 then cs.take limit.toNat else cs

/-! ### the key/value map -/

abbrev Store := List (Key × Val)

def kvGet (s : Store) (k : Key) : Option Val :=
  match s with
  | [] => none
  | (k', v) :: r => if k' = k then some v else kvGet r k

def kvDel (s : Store) (k : Key) : Store := s.filter (fun e => e.1 ≠ k)

/-- insertion keeping the association list sorted by key -/
def insertKV (k : Key) (v : Val) : Store → Store
  | [] => [(k, v)]
  | (k', v') :: r => if k < k' then (k, v) :: (k', v') :: r else (k', v') :: insertKV k v r

def kvPut (s : Store) (k : Key) (v : Val) : Store := insertKV k v (kvDel s k)

def keys (s : Store) : List Key := s.map (·.1)

/-- keys strictly ascending (hence no duplicates): the invariant every reachable store satisfies -/
def Sorted (l : List Key) : Prop := l.Pairwise (· < ·)

instance (l : List Key) : Decidable (Sorted l) := by unfold Sorted; infer_instance

end Obao.KV
