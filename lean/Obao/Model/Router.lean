import Obao.Model.View
/-!
Model of `internal/vault/routing/router.go`: the route table (a radix tree keyed by `ns.Path ++ mount path`),
`Mount` / `Unmount` / `Remount` / `Taint`, the `Matching*` look-ups (all `LongestPrefix(ns.Path ++ path)`), and the
part of `routeCommon` that decides which backend sees the request, under which relative path, with which storage
view and with which client-token value (cubbyhole keying).

A radix tree holds at most one value per key, so the table is a list with pairwise distinct `pfx`.
-/
namespace Obao.Router
open Obao.View

structure Entry where
  pfx : Bytes          -- route prefix = namespace path ++ mount path
  id : Nat             -- mount identity (ordinal of the mount UUID)
  storage : Bytes      -- prefix of the barrier view handed to `Mount` (`StoragePrefix`)
  tainted : Bool
  deriving DecidableEq, Repr

abbrev Table := List Entry

/-- `radix.Tree.LongestPrefix(q)`: the entry with the longest key that is a prefix of `q` -/
def longestPrefix : Table → Bytes → Option Entry
  | [], _ => none
  | e :: t, q =>
    match longestPrefix t q with
    | some b => if e.pfx.isPrefixOf q ∧ b.pfx.length < e.pfx.length then some e else some b
    | none => if e.pfx.isPrefixOf q then some e else none

def get? (t : Table) (k : Bytes) : Option Entry := t.find? (·.pfx == k)

def remove (t : Table) (k : Bytes) : Table := t.filter (·.pfx != k)

/-- `radix.Tree.Insert` (replaces the value stored under the same key) -/
def insert (t : Table) (e : Entry) : Table := e :: remove t e.pfx

inductive MountErr where
  | nested | noPrefix | noStorage
  deriving DecidableEq, Repr

/-- `Router.Mount` (UUID and accessor are always non-empty in the harness) -/
def mount (t : Table) (ns pfx : Bytes) (id : Nat) (storage : Bytes) : Except MountErr Table :=
  let full := ns ++ pfx
  match longestPrefix t full with
  | some e => if e.pfx ≠ [] then .error .nested else
      if full = [] then .error .noPrefix else if storage = [] then .error .noStorage
      else .ok (insert t { pfx := full, id, storage, tainted := false })
  | none =>
      if full = [] then .error .noPrefix else if storage = [] then .error .noStorage
      else .ok (insert t { pfx := full, id, storage, tainted := false })

/-- `Router.Unmount`: exact key only -/
def unmount (t : Table) (ns pfx : Bytes) : Table := remove t (ns ++ pfx)

/-- `Router.Remount`: exact source key; the destination is inserted without any check -/
def remount (t : Table) (ns src dst : Bytes) : Option Table :=
  match get? t (ns ++ src) with
  | none => none
  | some e => some (insert (remove t (ns ++ src)) { e with pfx := ns ++ dst })

/-- `Router.Taint` / `Untaint`: the longest-prefix entry of `ns ++ path` -/
def setTaint (t : Table) (ns path : Bytes) (v : Bool) : Table :=
  match longestPrefix t (ns ++ path) with
  | none => t
  | some e => t.map fun x => if x.pfx == e.pfx then { x with tainted := v } else x

/-- which class of client-token value the backend is shown (`routeCommon`, the `switch` on `originalPath`) -/
inductive TokSeen where
  | raw            -- token store / sys / identity: unchanged
  | salted         -- every other mount: `re.SaltID(token)` (salted with the mount UUID)
  | cubbyId (id : Bytes)   -- cubbyhole: the token entry's CubbyholeID
  | doubleSalt     -- cubbyhole, un-prefixed root-namespace token: `re.SaltID(tokenStoreSalt.SaltID(token))`
  deriving DecidableEq, Repr

/-- the token entry attached to the request, as far as `routeCommon` looks at it -/
structure TokEntry where
  rootNs : Bool          -- te.NamespaceID == "root"
  service : Bool         -- te.Type == TokenTypeService
  prefixed : Bool        -- client token starts with "s." or "hvs."
  cubbyId : Bytes
  deriving Repr

inductive RouteOut where
  | unsupported                     -- no route entry / tainted: `ErrUnsupportedPath`
  | noBackendCall                   -- cubbyhole rollback: returns (nil, nil) without calling the backend
  | errInternal                     -- "nil token entry" / "empty cubbyhole id"
  | errResp                         -- cubbyhole with a non-service token: error response, backend not called
  | handled (e : Entry) (mountPoint relPath : Bytes) (tok : TokSeen)
  deriving Repr

def trimPrefix (s p : Bytes) : Bytes := truncateKey p s

/-- bytes of an ASCII string constant (only used with ASCII literals, where code points = UTF-8 bytes) -/
def strOf (s : String) : Bytes := s.toList.map (·.toNat)

/-- the route entry look-up of `routeCommon`: `LongestPrefix(ns.Path ++ path)`, and when nothing matches and the
path has no trailing '/', a second look-up with '/' appended; returns the entry and the adjusted path -/
def findEntry (t : Table) (ns path : Bytes) : Option (Entry × Bytes) :=
  match longestPrefix t (ns ++ path) with
  | some e => some (e, path)
  | none =>
    if ¬ hasSuffix path [slash] then
      match longestPrefix t (ns ++ (path ++ [slash])) with
      | some e => some (e, path ++ [slash])
      | none => none
    else none

/-- `req.Path` as the backend sees it: `strings.TrimPrefix(ns.Path+req.Path, mount)`, and "/" becomes "" -/
def relPath (ns adjusted : Bytes) (e : Entry) : Bytes :=
  let rel := trimPrefix (ns ++ adjusted) e.pfx
  if rel = [slash] then [] else rel

/-- the `switch` on `originalPath` in `routeCommon`: which client-token value the backend is shown -/
def dispatch (e : Entry) (ns adjusted : Bytes) (rollback : Bool) (te : Option TokEntry) : RouteOut :=
  let rel := relPath ns adjusted e
  if hasPrefix adjusted (strOf "auth/token/") then .handled e e.pfx rel .raw
  else if hasPrefix adjusted (strOf "sys/") then .handled e e.pfx rel .raw
  else if hasPrefix adjusted (strOf "identity/") then .handled e e.pfx rel .raw
  else if hasPrefix adjusted (strOf "cubbyhole/") then
    if rollback then .noBackendCall else
    match te with
    | none => .errInternal
    | some te =>
      if ¬ te.service then .errResp
      else if te.rootNs ∧ ¬ te.prefixed then .handled e e.pfx rel .doubleSalt
      else if te.cubbyId = [] then .errInternal
      else .handled e e.pfx rel (.cubbyId te.cubbyId)
  else .handled e e.pfx rel .salted

/-- `routeCommon` up to the backend call. `revokeOrRollback`: the operation is Revoke or Rollback;
`rollback`: it is Rollback -/
def route (t : Table) (ns : Bytes) (nsTainted : Bool) (path : Bytes) (revokeOrRollback rollback : Bool)
    (te : Option TokEntry) : RouteOut :=
  match findEntry t ns path with
  | none => .unsupported
  | some (e, adjusted) =>
    if (e.tainted ∨ nsTainted) ∧ ¬ revokeOrRollback then .unsupported
    else dispatch e ns adjusted rollback te

/-- what a storage access of the selected backend with the client-influenced key `k` becomes: the backend only
holds `req.Storage`, which is the selected entry's view -/
def routeTouch (t : Table) (ns : Bytes) (nsTainted : Bool) (path : Bytes) (revokeOrRollback rollback : Bool)
    (te : Option TokEntry) (k : Bytes) : Option (Entry × View.Touch) :=
  match route t ns nsTainted path revokeOrRollback rollback te with
  | .handled e _ _ _ => some (e, touch e.storage k)
  | _ => none

/-- barrier-view prefix of a mount (`mountEntryView`): namespace prefix (`namespaces/<ns uuid>/`, empty for the
root namespace) ++ table prefix (`logical` | `auth`) ++ "/" ++ mount UUID ++ "/" -/
def mountStorage (nsUuid : Option Bytes) (table uuid : Bytes) : Bytes :=
  (match nsUuid with
   | none => []
   | some u => strOf "namespaces" ++ slash :: (u ++ [slash])) ++ (table ++ slash :: (uuid ++ [slash]))

end Obao.Router
